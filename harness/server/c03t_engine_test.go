package server

// C03 for the text protocol ("exactly one terminal reply per request, notices only under the right
// RequestId to the right client, never a reply for something else").
//
// Engines A and B drive in-memory binary clients only; the text protocol has a reply path of its own
// (TextServerProtocol.lockWaiter + the lockRequestId late-reply filter). This executor re-uses engine D
// (c18_engine_test.go: one leader under the virtual clock, real Server.handle per connection over an
// in-memory net.Conn, harness acts only when every handler is parked) and judges every text reply itself
// through d18Env.textHook. Prefix t03. Generator and tests: c03t_test.go.

import (
	"encoding/hex"
	"fmt"
	"runtime/debug"
	"strconv"
	"strings"
	"time"

	"github.com/snower/slock/protocol"
)

type t03Step struct {
	K   string `json:"k"`             // lock | unlock | push | tick
	C   int    `json:"c,omitempty"`   // connection index (text connections first, then the binary contender)
	Key int    `json:"key,omitempty"` //
	Id  int    `json:"id,omitempty"`
	T   int    `json:"t,omitempty"`
	E   int    `json:"e,omitempty"`
	Cnt int    `json:"cnt,omitempty"`
	Rc  int    `json:"rc,omitempty"`
	N   int    `json:"n,omitempty"` // tick
}

func (s t03Step) String() string {
	if s.K == "tick" {
		return fmt.Sprintf("tick %d s", s.N)
	}
	return fmt.Sprintf("c%d %s k%d id%d T=%d E=%d count=%d rcount=%d", s.C, strings.ToUpper(s.K), s.Key, s.Id, s.T, s.E, s.Cnt, s.Rc)
}

type t03Case struct {
	Text   int       `json:"text"`   // number of text connections (indices 0..Text-1)
	Binary bool      `json:"binary"` // one binary contender with index Text
	Steps  []t03Step `json:"steps"`
}

func (c *t03Case) fingerprint() uint64 {
	var sb strings.Builder
	fmt.Fprintf(&sb, "%d/%v;", c.Text, c.Binary)
	for _, s := range c.Steps {
		sb.WriteString(s.String())
		sb.WriteByte(';')
	}
	return vHash(sb.String())
}

func (c *t03Case) String() string {
	var sb strings.Builder
	fmt.Fprintf(&sb, "  %d text connection(s), binary contender: %v\n", c.Text, c.Binary)
	for i, s := range c.Steps {
		fmt.Fprintf(&sb, "  %2d. %s\n", i, s.String())
	}
	return sb.String()
}

type t03Info struct {
	Commands     int
	TextCommands int
	Blocked      int // text commands that had to wait in the queue
	ExpiredIdle  int // holds of a text connection that expired while it had no command outstanding
	Nontrivial   int // lock-type commands sent by a text connection after such an expiry
	Pushes       int
	Results      map[string]int
	Skipped      int
}

// what the harness remembers about the command a text connection is waiting for
type t03Pending struct {
	step    t03Step
	idx     int
	free    bool // the key had no holder and no queued request when the command was sent
	mine    bool // the LockId held the key when the command was sent
	myDepth uint8
	locked  uint32
	probe   bool
}

type t03Run struct {
	e        *d18Env
	c        *t03Case
	info     t03Info
	pend     map[int]*t03Pending
	owner    map[[2]int]int // (key, LockId) -> text connection whose LOCK was last granted under it
	expIdle  map[int]bool
	curConn  int          // connection the current judgement is about
	stale    map[int]bool // text connections on which a PUSH left its lock result in the reply channel
	violConn int
}

const (
	t03ProbeKeyBase = 900
	t03ProbeIdBase  = 900
)

func t03TextCommand(s t03Step) []byte {
	key, id := d18Key(s.Key), d18LockId(s.Id)
	name := strings.ToUpper(s.K)
	args := []string{name, hex.EncodeToString(key[:]), "LOCK_ID", hex.EncodeToString(id[:]), "TIMEOUT", strconv.Itoa(s.T), "EXPRIED", strconv.Itoa(s.E),
		"COUNT", strconv.Itoa(s.Cnt + 1), "RCOUNT", strconv.Itoa(s.Rc + 1)}
	return d18Resp(args...)
}

func (r *t03Run) fail(key, format string, a ...interface{}) {
	if r.e.viol == nil {
		r.violConn = r.curConn
	}
	r.e.fail("C03:text:"+key, format, a...)
}

// pushLeftResult: the connection is idle after a PUSH was answered; is a lock result sitting in its
// reply channel? (commandHandlerPush runs the lock with the connection as reply target and never reads
// the result.)
func (r *t03Run) pushLeftResult(p *d18Peer) bool {
	tp, ok := p.proto.(*TextServerProtocol)
	return ok && tp != nil && p.conn.parked() && len(tp.lockWaiter) > 0
}

// keyState reads the lock table entry of a key.
func (r *t03Run) keyState(key int, id int) (holders, waiters int, locked uint32, mine bool, depth uint8) {
	k, l := d18Key(key), d18LockId(id)
	for _, sk := range r.e.snapshot().keys {
		if sk.Key != k {
			continue
		}
		holders, waiters, locked = len(sk.Holders), len(sk.Waiters), sk.Locked
		for _, h := range sk.Holders {
			if h.Id == l {
				mine, depth = true, h.Depth
			}
		}
	}
	return
}

// onTextReply is installed as d18Env.textHook: one complete RESP value arrived on a text connection.
func (r *t03Run) onTextReply(p *d18Peer, _ *d18Cmd, el []string) {
	r.curConn = p.idx
	pd := r.pend[p.idx]
	if pd == nil {
		r.e.logf("  <- c%d UNSOLICITED %q", p.idx, el)
		r.fail("unsolicited-reply", "text connection c%d received a reply although it has no command outstanding: %q", p.idx, el)
		return
	}
	delete(r.pend, p.idx)
	s := pd.step
	r.e.logf("  <- c%d reply to step %d (%s): %s", p.idx, pd.idx, s.String(), strings.Join(el, " "))
	if s.K == "push" {
		if len(el) != 1 || el[0] != "+OK" {
			r.fail("push-reply", "step %d (%s) was answered %q, want +OK", pd.idx, s.String(), el)
		}
		return
	}
	if len(el) != 12 || el[2] != "LOCK_ID" || el[4] != "LCOUNT" || el[6] != "COUNT" || el[8] != "LRCOUNT" || el[10] != "RCOUNT" {
		r.fail("reply-shape", "step %d (%s) was answered %q, want a 12-element lock result", pd.idx, s.String(), el)
		return
	}
	res, err := strconv.Atoi(el[0])
	if err != nil {
		r.fail("reply-shape", "step %d (%s): result code %q is not a number", pd.idx, s.String(), el[0])
		return
	}
	name := aResultName(uint8(res))
	r.info.Results[s.K+":"+name]++
	id := d18LockId(s.Id)
	describe := func() string {
		return fmt.Sprintf("step %d (%s) was answered \"%d %s LOCK_ID %s (id%d) LCOUNT %s COUNT %s LRCOUNT %s RCOUNT %s\"", pd.idx, s.String(), res, el[1], el[3], t03IdxOfHex(el[3]), el[5], el[7], el[9], el[11])
	}
	if res == protocol.RESULT_EXPRIED {
		// an EXPRIED notice is never the terminal reply of a text command
		r.fail("notice-delivered-as-reply", "%s: an EXPRIED notice took the place of the command's own reply", describe())
		return
	}
	if el[3] != hex.EncodeToString(id[:]) {
		r.fail("reply-for-other-lockid", "%s: the reply is about another LockId", describe())
		return
	}
	if el[7] != strconv.Itoa(s.Cnt+1) || el[11] != strconv.Itoa(s.Rc+1) {
		r.fail("reply-for-other-command", "%s: COUNT/RCOUNT are not the command's own (%d/%d)", describe(), s.Cnt+1, s.Rc+1)
		return
	}
	_, _, _, mineNow, depthNow := r.keyState(s.Key, s.Id)
	switch s.K {
	case "lock":
		switch uint8(res) {
		case protocol.RESULT_SUCCED:
			if !mineNow {
				r.fail("lock-succed-without-hold", "%s, but the LockId does not hold the key afterwards", describe())
				return
			}
			if lr, _ := strconv.Atoi(el[9]); lr != int(depthNow) {
				r.fail("reply-for-other-command", "%s: LRCOUNT differs from the depth %d of the hold", describe(), depthNow)
				return
			}
			if !pd.probe {
				r.owner[[2]int{s.Key, s.Id}] = p.idx
			}
		case protocol.RESULT_TIMEOUT:
			if pd.free {
				r.fail("free-key-not-granted", "%s although the key had neither a holder nor a queued request when the command was sent", describe())
				return
			}
			if pd.mine {
				r.fail("implausible-result", "%s although the LockId held the key when the command was sent (re-entrant request: SUCCED or LOCKED_ERROR)", describe())
				return
			}
		case protocol.RESULT_LOCKED_ERROR:
			if !pd.mine {
				r.fail("implausible-result", "%s although the LockId did not hold the key when the command was sent", describe())
				return
			}
			if int(pd.myDepth) <= s.Rc {
				r.fail("implausible-result", "%s although the hold's depth %d was within RCOUNT", describe(), pd.myDepth)
				return
			}
		default:
			r.fail("implausible-result", "%s: not a result a LOCK can end with", describe())
			return
		}
		if pd.mine && int(pd.myDepth) <= s.Rc && uint8(res) != protocol.RESULT_SUCCED {
			r.fail("implausible-result", "%s although the LockId held the key with depth %d <= RCOUNT (re-entrant SUCCED expected)", describe(), pd.myDepth)
		}
	case "unlock":
		switch uint8(res) {
		case protocol.RESULT_SUCCED:
			if !pd.mine {
				r.fail("implausible-result", "%s although the LockId did not hold the key when the command was sent", describe())
			}
		case protocol.RESULT_UNLOCK_ERROR, protocol.RESULT_UNOWN_ERROR:
			if pd.mine {
				r.fail("implausible-result", "%s although the LockId held the key when the command was sent", describe())
			}
		default:
			r.fail("implausible-result", "%s: not a result an UNLOCK can end with", describe())
		}
	}
}

func t03IdxOfHex(h string) int {
	b, err := hex.DecodeString(h)
	if err != nil || len(b) != 16 {
		return -1
	}
	var k [16]byte
	copy(k[:], b)
	return d18LockIdx(k)
}

// sendText sends one command on a text connection and waits until it is answered or parked in the queue.
func (r *t03Run) sendText(p *d18Peer, idx int, s t03Step, probe bool) {
	e := r.e
	r.curConn = p.idx
	holders, waiters, locked, mine, depth := r.keyState(s.Key, s.Id)
	pd := &t03Pending{step: s, idx: idx, free: holders == 0 && waiters == 0, mine: mine, myDepth: depth, locked: locked, probe: probe}
	r.pend[p.idx] = pd
	dc := d18Cmd{Op: s.K, Key: s.Key, Id: s.Id, T: s.T, E: s.E, Cnt: s.Cnt, Rc: s.Rc}
	p.pending = &dc // engine D recognises the parked state by it
	p.sentAny = true
	r.info.TextCommands++
	if s.K == "push" {
		r.info.Pushes++
	}
	if r.expIdle[p.idx] && !probe {
		r.info.Nontrivial++
	}
	p.conn.push(t03TextCommand(s))
	// bounded wait of our own: a handler that is neither back in Read nor parked behind a queued request
	// is waiting for a reply that will never come - that is a verdict here, not a watchdog matter
	deadline := time.Now().Add(time.Duration(vEnvInt("VERIF_C03T_STUCK_MS", 3000)) * time.Millisecond)
	for spin := 0; ; spin++ {
		if p.finished() || p.conn.parked() || e.textQueued(p) {
			break
		}
		if spin > 200 {
			time.Sleep(50 * time.Microsecond)
		}
		if spin > 200 && time.Now().After(deadline) {
			r.fail("no-reply", "step %d (%s): the connection's handler neither answered nor queued the request within %d ms (it waits for a result that was consumed elsewhere or never produced)", idx, s.String(), vEnvInt("VERIF_C03T_STUCK_MS", 3000))
			panic(d18StopRun{})
		}
	}
	e.settle()
	r.curConn = p.idx
	if s.K == "push" && r.pushLeftResult(p) {
		r.stale[p.idx] = true
		e.logf("   (the PUSH left its lock result in the reply channel of c%d)", p.idx)
	}
	if e.viol != nil {
		return
	}
	if p.finished() {
		r.fail("connection-closed", "step %d (%s): the server closed the text connection c%d", idx, s.String(), p.idx)
		return
	}
	if r.pend[p.idx] != nil {
		// still outstanding: must be sitting in the key's queue, which a command without timeout, an UNLOCK
		// and a PUSH never do
		if s.K != "lock" || s.T == 0 {
			r.fail("no-reply", "step %d (%s) cannot wait in a queue, yet no reply arrived", idx, s.String())
			return
		}
		r.info.Blocked++
	}
}

func (r *t03Run) sendBinary(p *d18Peer, s t03Step) {
	e := r.e
	dc := d18Cmd{Op: s.K, Key: s.Key, Id: s.Id, T: s.T, E: s.E, Cnt: s.Cnt, Rc: s.Rc}
	p.sentAny = true
	p.conn.push(e.binaryFrame(p, dc, s.K))
	e.settle()
}

// tick advances the clock second by second and notes which text connection lost a hold to expiry while idle.
func (r *t03Run) tick(n int) {
	for i := 0; i < n; i++ {
		before := r.e.snapshot()
		idle := map[int]bool{}
		for c := 0; c < r.c.Text; c++ {
			idle[c] = r.pend[c] == nil
		}
		r.e.stepTick(1)
		if r.e.viol != nil {
			return
		}
		after := r.e.snapshot()
		still := map[[2]int]bool{}
		for _, k := range after.keys {
			for _, h := range k.Holders {
				still[[2]int{d18KeyIdx(k.Key), d18LockIdx(h.Id)}] = true
			}
		}
		for _, k := range before.keys {
			for _, h := range k.Holders {
				kk := [2]int{d18KeyIdx(k.Key), d18LockIdx(h.Id)}
				if still[kk] || h.ExpriedTime > r.e.now {
					continue
				}
				if c, ok := r.owner[kk]; ok {
					delete(r.owner, kk)
					if idle[c] {
						r.info.ExpiredIdle++
						r.expIdle[c] = true
					}
				}
			}
		}
	}
}

func t03Execute(c *t03Case) (info t03Info, viol *d18Violation, err error) {
	e, err := d18NewEnv(&d18Case{}, d18Opts{})
	if err != nil {
		return info, nil, &d18Inconclusive{"cannot create instance: " + err.Error()}
	}
	defer e.close()
	r := &t03Run{e: e, c: c, pend: map[int]*t03Pending{}, owner: map[[2]int]int{}, expIdle: map[int]bool{}, stale: map[int]bool{}, curConn: -1, violConn: -1}
	r.info.Results = map[string]int{}
	e.textHook = r.onTextReply
	finish := func() {
		info = r.info
		if e.viol != nil {
			v := *e.viol
			if strings.HasPrefix(v.Key, "C18:") {
				v.Key = "C03:text:engine:" + strings.TrimPrefix(v.Key, "C18:")
			} else if r.stale[r.violConn] {
				// one cause, many symptoms (which later command gets which stale result): one key
				v.Msg = "[symptom " + v.Key + "; cause: an earlier PUSH on this connection left its own lock result in the connection's reply channel, every later lock-type reply is shifted by one] " + v.Msg
				v.Key = t03KeyPush
			}
			v.Msg += "\ncase:\n" + c.String() + "history:\n" + e.history()
			viol = &v
		}
	}
	defer func() {
		if rec := recover(); rec != nil {
			if _, ok := rec.(d18StopRun); !ok {
				e.fail("C03:text:panic:"+w18TopFunc(string(debug.Stack())), "panic in the harness goroutine while it drove the server (sweep / reply path): %v\n%s", rec, d18TrimStack(string(debug.Stack())))
			}
		}
		finish()
	}()
	e.w = e.openPeer(d18WatcherIdx, false)
	e.w.sentAny = true
	e.w.conn.push(e.binaryFrame(e.w, d18Cmd{Op: "ping"}, "ping"))
	e.settle()
	n := c.Text
	if c.Binary {
		n++
	}
	for i := 0; i < n; i++ {
		p := e.openPeer(i, i < c.Text)
		e.peers[i] = p
		e.order = append(e.order, i)
	}
	e.settle()
	for i, s := range c.Steps {
		e.logf("step %d: %s", i, s.String())
		if s.K == "tick" {
			r.tick(s.N)
		} else {
			p := e.peers[s.C]
			switch {
			case p == nil || p.dead:
				r.info.Skipped++
			case e.idQueued(d18Cmd{Op: "lock", Key: s.Key, Id: s.Id}) && s.K != "unlock":
				r.info.Skipped++
				e.logf("   (skipped: a request with this LockId is still queued on the key)")
			case !p.text:
				if s.K == "push" {
					r.info.Skipped++
					break
				}
				r.info.Commands++
				r.sendBinary(p, s)
			case r.pend[p.idx] != nil:
				r.info.Skipped++
				e.logf("   (skipped: c%d is waiting for a queued lock)", p.idx)
			default:
				r.info.Commands++
				r.sendText(p, i, s, false)
			}
		}
		if e.viol != nil {
			return
		}
	}
	// the end: let every queued request end, then nothing may be left unread or undelivered
	e.logf("end: 6 s pass")
	r.tick(6)
	if e.viol != nil {
		return
	}
	for c0 := 0; c0 < c.Text; c0++ {
		p := e.peers[c0]
		r.curConn = c0
		if pd := r.pend[c0]; pd != nil {
			r.fail("no-reply", "step %d (%s) on connection c%d never got a reply (6 s after the end of the script, timeout %d s)", pd.idx, pd.step.String(), c0, pd.step.T)
			return
		}
		if len(p.inbuf) != 0 {
			r.fail("trailing-bytes", "connection c%d has unread partial output %q", c0, p.inbuf)
			return
		}
		if tp, ok := p.proto.(*TextServerProtocol); ok && tp != nil {
			if q := len(tp.lockWaiter); q != 0 {
				lr := <-tp.lockWaiter
				r.fail("result-left-undelivered", "connection c%d is idle, yet %d lock result(s) sit undelivered in its reply channel; the first one: result %s LockId id%d key k%d (it will answer the next lock-type command instead of that command's own result)",
					c0, q, aResultName(lr.Result), d18LockIdx(lr.LockId), d18KeyIdx(lr.LockKey))
				return
			}
		}
	}
	// a probe on a private key per text connection: its reply must be its own
	for c0 := 0; c0 < c.Text; c0++ {
		p := e.peers[c0]
		if p.dead || !p.sentAny {
			continue
		}
		ps := t03Step{K: "lock", C: c0, Key: t03ProbeKeyBase + c0, Id: t03ProbeIdBase + c0, T: 0, E: 1, Cnt: 2, Rc: 3}
		e.logf("end: probe on c%d: %s", c0, ps.String())
		r.sendText(p, len(c.Steps)+c0, ps, true)
		if e.viol != nil {
			return
		}
		if r.pend[c0] != nil {
			r.fail("no-reply", "the final probe (%s) on connection c%d got no reply", ps.String(), c0)
			return
		}
	}
	return
}
