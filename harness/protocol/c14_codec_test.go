package protocol

// C14 (codec part): wire codecs are lossless and independent of framing.
//
// Everything in here is pure: binary Encode/Decode pairs of every command type, the RESP text
// parser fed in arbitrary chunkings exactly the way TextServerProtocol.Process /
// TextClientProtocol.Read feed it, key/id normalisation, the text rendering of lock results and the
// value-frame constructors. Cases are plain data (c14Case, discriminated by "kind") so that a shrunk
// failure is replayed without rapid by TestC14_Replay.
//
// Layout oracle: the README documents exactly two frames (lock request, lock response). Their offset
// tables below are written from the README diagram (8 bytes per row, low byte first). For every other
// type the README is silent; the table then comes from the *type declaration* in command.go (field
// order and sizes, Blank [N]byte = padding, all declarations add up to 64 bytes), never from the
// Encode/Decode bodies, and says so in Source.

import (
	"bytes"
	"crypto/md5"
	"encoding/hex"
	"fmt"
	"reflect"
	"sort"
	"strings"
	"testing"

	"pgregory.net/rapid"
)

// ---------------------------------------------------------------------------------------------
// case + plumbing

type c14Arg struct {
	Hex string `json:"hex"`
	Rep int    `json:"rep,omitempty"` // bytes = hex-decoded unit repeated Rep times (0 = once)
}

func (a c14Arg) bytes() []byte {
	b, _ := hex.DecodeString(a.Hex)
	if a.Rep > 1 {
		return bytes.Repeat(b, a.Rep)
	}
	return b
}

func c14ArgOf(b []byte) c14Arg { return c14Arg{Hex: hex.EncodeToString(b)} }

type c14Resp struct {
	Mode    string   `json:"mode"` // ok | err | bulk | array
	Msg     c14Arg   `json:"msg"`
	Results []c14Arg `json:"results,omitempty"`
}

type c14Prop struct {
	Code  int    `json:"code"`
	Nil   bool   `json:"nil,omitempty"`
	Value c14Arg `json:"value"`
}

type c14Case struct {
	Kind string `json:"kind"` // roundtrip | decenc | textreq | textresp | keyid | render | textlock | frame

	// binary codecs
	Type  string            `json:"type,omitempty"`
	Vals  map[string]string `json:"vals,omitempty"` // field -> hex of its wire bytes
	Fill  int               `json:"fill,omitempty"` // byte the output buffer is pre-filled with
	Frame string            `json:"frame,omitempty"`

	// text parser
	Reqs    [][]c14Arg `json:"reqs,omitempty"`
	Resps   []c14Resp  `json:"resps,omitempty"`
	Rbuf    int        `json:"rbuf,omitempty"`
	First   int        `json:"first,omitempty"` // >0: first delivery of that many bytes through CopyToReadBuf (Server.checkProtocol -> ProcessParse)
	Pattern []int      `json:"pattern,omitempty"`
	Cuts    []int      `json:"cuts,omitempty"`

	// key / id normalisation
	S string `json:"s,omitempty"`

	// result rendering / text lock conversion
	Code   int               `json:"code,omitempty"`
	Nums   []uint64          `json:"nums,omitempty"`
	Id     string            `json:"id,omitempty"`
	Data   *c14Arg           `json:"data,omitempty"`
	Args   []c14Arg          `json:"args,omitempty"`
	DbId   int               `json:"db_id,omitempty"`
	LastId string            `json:"last_id,omitempty"`
	Sub    string            `json:"sub,omitempty"`
	Props  []c14Prop         `json:"props,omitempty"`
	KV     map[string]string `json:"kv,omitempty"`
	Inner  string            `json:"inner,omitempty"`
}

type c14Info struct {
	nontrivial bool
	classes    []string
}

func (i *c14Info) class(c string) { i.classes = append(i.classes, c) }

type c14Err struct {
	Key string
	Msg string
}

func (e *c14Err) Error() string { return e.Msg }

func c14Fail(key, format string, a ...interface{}) error {
	return &c14Err{key, fmt.Sprintf(format, a...)}
}

func c14Guard(panicKey string, f func() (c14Info, error)) (info c14Info, err error) {
	defer func() {
		if r := recover(); r != nil {
			err = c14Fail(panicKey, "panic: %v", r)
		}
	}()
	return f()
}

func c14Key(err error, def string) string {
	if e, ok := err.(*c14Err); ok && e.Key != "" {
		return e.Key
	}
	return def
}

func c14Check(t *rapid.T, test string, c *c14Case, fp uint64) {
	st := vstat(test)
	info, err := c14Run(c)
	st.Case(info.nontrivial, fp, info.classes, func() interface{} { return c })
	if err != nil {
		vFail(t, test, c14Key(err, "C14:"+c.Kind), c, "%v", err)
	}
}

func c14Run(c *c14Case) (c14Info, error) {
	switch c.Kind {
	case "roundtrip":
		return c14Guard("C14:"+c.Type+":panic", func() (c14Info, error) { return c14RunRoundTrip(c) })
	case "decenc":
		return c14Guard(c14DecEncKey(c, "panic"), func() (c14Info, error) { return c14RunDecEnc(c) })
	case "textreq":
		return c14Guard("C14:TextParser.ParseRequest:panic", func() (c14Info, error) { return c14RunTextReq(c) })
	case "textresp":
		return c14Guard("C14:TextParser.ParseResponse:panic", func() (c14Info, error) { return c14RunTextResp(c) })
	case "keyid":
		return c14Guard("C14:keyid:panic", func() (c14Info, error) { return c14RunKeyId(c) })
	case "render":
		return c14Guard(c14RenderPanicKey(c), func() (c14Info, error) { return c14RunRender(c) })
	case "textlock":
		return c14Guard("C14:TextLockConvert:panic", func() (c14Info, error) { return c14RunTextLock(c) })
	case "frame":
		return c14Guard("C14:ValueFrame:"+c.Sub+":panic", func() (c14Info, error) { return c14RunFrame(c) })
	}
	return c14Info{}, fmt.Errorf("unknown kind %q", c.Kind)
}

// ---------------------------------------------------------------------------------------------
// independent layout tables

type c14Field struct {
	Name string // struct field path ("State.LockCount")
	Off  int    // byte offset in the 64-byte frame, -1 = position not documented anywhere (round trip only)
	Size int
	Kind byte // 'u' little-endian unsigned, 'b' byte array, 's' NUL-padded string, 'h' string of HostLen bytes
}

type c14Codec interface {
	Encode(buf []byte) error
	Decode(buf []byte) error
}

type c14Type struct {
	Name   string
	Source string
	New    func() c14Codec
	Fields []c14Field
	Raw    [][2]int // regions that are defined on the wire but whose inner layout is undocumented: [off,size]
}

func c14Header() []c14Field {
	// README rows 0-2: Magic, Version, CommandType, RequestId (bytes 3..18)
	return []c14Field{{"Magic", 0, 1, 'u'}, {"Version", 1, 1, 'u'}, {"CommandType", 2, 1, 'u'}, {"RequestId", 3, 16, 'b'}}
}

func c14ResHeader() []c14Field { return append(c14Header(), c14Field{"Result", 19, 1, 'u'}) }

func c14Types() []c14Type {
	h, r := c14Header, c14ResHeader
	const decl = "type declaration in command.go (README silent)"
	return []c14Type{
		{Name: "Command", Source: "README request header", New: func() c14Codec { return &Command{} }, Fields: h()},
		{Name: "ResultCommand", Source: "README response header", New: func() c14Codec { return &ResultCommand{} }, Fields: r()},
		{Name: "InitCommand", Source: decl, New: func() c14Codec { return &InitCommand{} },
			Fields: append(h(), c14Field{"ClientId", 19, 16, 'b'})},
		{Name: "InitResultCommand", Source: decl, New: func() c14Codec { return &InitResultCommand{} },
			Fields: append(r(), c14Field{"InitType", 20, 1, 'u'})},
		// README "Request Command": row2 RequestId(16..18) FLAG(19) DBID(20) LockId(21..); row4 LockId(..36) LockKey(37..);
		// row6 LockKey(..52) Timeout(53,54) TimeoutFlag(55); row7 TimeoutFlag(56) Expried(57,58) ExpriedFlag(59,60) Count(61,62) RCount(63)
		{Name: "LockCommand", Source: "README Request Command", New: func() c14Codec { return &LockCommand{} },
			Fields: append(h(), c14Field{"Flag", 19, 1, 'u'}, c14Field{"DbId", 20, 1, 'u'}, c14Field{"LockId", 21, 16, 'b'},
				c14Field{"LockKey", 37, 16, 'b'}, c14Field{"Timeout", 53, 2, 'u'}, c14Field{"TimeoutFlag", 55, 2, 'u'},
				c14Field{"Expried", 57, 2, 'u'}, c14Field{"ExpriedFlag", 59, 2, 'u'}, c14Field{"Count", 61, 2, 'u'}, c14Field{"Rcount", 63, 1, 'u'})},
		// README "Response Command": row2 Result(19) FLAG(20) DBID(21) LockId(22..); row4 LockId(..37) LockKey(38..);
		// row6 LockKey(..53) LCount(54,55); row7 Count(56,57) LRCount(58) RCount(59) PADDING(60..63)
		{Name: "LockResultCommand", Source: "README Response Command", New: func() c14Codec { return &LockResultCommand{} },
			Fields: append(r(), c14Field{"Flag", 20, 1, 'u'}, c14Field{"DbId", 21, 1, 'u'}, c14Field{"LockId", 22, 16, 'b'},
				c14Field{"LockKey", 38, 16, 'b'}, c14Field{"Lcount", 54, 2, 'u'}, c14Field{"Count", 56, 2, 'u'},
				c14Field{"Lrcount", 58, 1, 'u'}, c14Field{"Rcount", 59, 1, 'u'})},
		{Name: "StateCommand", Source: decl, New: func() c14Codec { return &StateCommand{} },
			Fields: append(h(), c14Field{"Flag", 19, 1, 'u'}, c14Field{"DbId", 20, 1, 'u'})},
		// StateResultCommand declares ResultCommand, Flag, DbState, DbId, State, Blank[1]; the wire order of the eight
		// counters inside State is documented nowhere (LockDBState's own declaration has a ninth field and does not fit),
		// so the 40 bytes 23..62 are checked as one raw region and the counters by round trip only.
		{Name: "StateResultCommand", Source: decl + "; counters round-trip only", New: func() c14Codec { return &StateResultCommand{} },
			Fields: append(r(), c14Field{"Flag", 20, 1, 'u'}, c14Field{"DbState", 21, 1, 'u'}, c14Field{"DbId", 22, 1, 'u'},
				c14Field{"State.LockCount", -1, 8, 'u'}, c14Field{"State.UnLockCount", -1, 8, 'u'}, c14Field{"State.LockedCount", -1, 4, 'u'},
				c14Field{"State.KeyCount", -1, 4, 'u'}, c14Field{"State.WaitCount", -1, 4, 'u'}, c14Field{"State.TimeoutedCount", -1, 4, 'u'},
				c14Field{"State.ExpriedCount", -1, 4, 'u'}, c14Field{"State.UnlockErrorCount", -1, 4, 'u'}),
			Raw: [][2]int{{23, 40}}},
		{Name: "AdminCommand", Source: decl, New: func() c14Codec { return &AdminCommand{} }, Fields: append(h(), c14Field{"AdminType", 19, 1, 'u'})},
		{Name: "AdminResultCommand", Source: decl, New: func() c14Codec { return &AdminResultCommand{} }, Fields: r()},
		{Name: "PingCommand", Source: decl, New: func() c14Codec { return &PingCommand{} }, Fields: h()},
		{Name: "PingResultCommand", Source: decl, New: func() c14Codec { return &PingResultCommand{} }, Fields: r()},
		{Name: "QuitCommand", Source: decl, New: func() c14Codec { return &QuitCommand{} }, Fields: h()},
		{Name: "QuitResultCommand", Source: decl, New: func() c14Codec { return &QuitResultCommand{} }, Fields: r()},
		// CallCommand: Command, Flag, Encoding, Charset, ContentLen uint32, MethodName (19+1+1+1+4 = 26, 38 bytes left)
		{Name: "CallCommand", Source: decl + "; MethodName <= 38 bytes", New: func() c14Codec { return &CallCommand{} },
			Fields: append(h(), c14Field{"Flag", 19, 1, 'u'}, c14Field{"Encoding", 20, 1, 'u'}, c14Field{"Charset", 21, 1, 'u'},
				c14Field{"ContentLen", 22, 4, 'u'}, c14Field{"MethodName", 26, 38, 's'})},
		{Name: "CallResultCommand", Source: decl + "; ErrType <= 37 bytes", New: func() c14Codec { return &CallResultCommand{} },
			Fields: append(r(), c14Field{"Flag", 20, 1, 'u'}, c14Field{"Encoding", 21, 1, 'u'}, c14Field{"Charset", 22, 1, 'u'},
				c14Field{"ContentLen", 23, 4, 'u'}, c14Field{"ErrType", 27, 37, 's'})},
		{Name: "LeaderCommand", Source: decl, New: func() c14Codec { return &LeaderCommand{} }, Fields: append(h(), c14Field{"Flag", 19, 1, 'u'})},
		{Name: "LeaderResultCommand", Source: decl + "; Host <= 43 bytes, HostLen = len(Host)", New: func() c14Codec { return &LeaderResultCommand{} },
			Fields: append(r(), c14Field{"HostLen", 20, 1, 'u'}, c14Field{"Host", 21, 43, 'h'})},
		{Name: "SubscribeCommand", Source: decl, New: func() c14Codec { return &SubscribeCommand{} },
			Fields: append(h(), c14Field{"Flag", 19, 1, 'u'}, c14Field{"ClientId", 20, 4, 'u'}, c14Field{"SubscribeId", 24, 4, 'u'},
				c14Field{"SubscribeType", 28, 1, 'u'}, c14Field{"LockKeyMask", 29, 16, 'b'}, c14Field{"Expried", 45, 4, 'u'}, c14Field{"MaxSize", 49, 4, 'u'})},
		{Name: "SubscribeResultCommand", Source: decl, New: func() c14Codec { return &SubscribeResultCommand{} },
			Fields: append(r(), c14Field{"Flag", 20, 1, 'u'}, c14Field{"ClientId", 21, 4, 'u'}, c14Field{"SubscribeId", 25, 4, 'u'})},
		// COMMAND_WILL_LOCK / COMMAND_WILL_UNLOCK reuse LockCommand (CommandType 8/9); COMMAND_PUBLISH has no type.
	}
}

var c14TypeIndex = func() map[string]*c14Type {
	m := map[string]*c14Type{}
	ts := c14Types()
	for i := range ts {
		m[ts[i].Name] = &ts[i]
	}
	return m
}()

func c14TypeNames() []string {
	var out []string
	for _, t := range c14Types() {
		out = append(out, t.Name)
	}
	return out
}

func c14FieldValue(v reflect.Value, path string) reflect.Value {
	for _, p := range strings.Split(path, ".") {
		if v.Kind() == reflect.Ptr {
			v = v.Elem()
		}
		v = v.FieldByName(p)
	}
	return v
}

// c14Set stores wire bytes w (low byte first for integers) into the named field.
func c14Set(x c14Codec, f c14Field, w []byte) {
	fv := c14FieldValue(reflect.ValueOf(x), f.Name)
	switch f.Kind {
	case 'u':
		var u uint64
		for i := len(w) - 1; i >= 0; i-- {
			u = u<<8 | uint64(w[i])
		}
		fv.SetUint(u)
	case 'b':
		for i := 0; i < fv.Len() && i < len(w); i++ {
			fv.Index(i).SetUint(uint64(w[i]))
		}
	case 's', 'h':
		fv.SetString(string(w))
	}
}

// c14Get returns the field as wire bytes (strings: their bytes without padding).
func c14Get(x c14Codec, f c14Field) []byte {
	fv := c14FieldValue(reflect.ValueOf(x), f.Name)
	switch f.Kind {
	case 'u':
		u := fv.Uint()
		out := make([]byte, f.Size)
		for i := range out {
			out[i] = byte(u >> (8 * uint(i)))
		}
		return out
	case 'b':
		out := make([]byte, fv.Len())
		for i := range out {
			out[i] = byte(fv.Index(i).Uint())
		}
		return out
	}
	return []byte(fv.String())
}

func c14AllZero(b []byte) bool {
	for _, x := range b {
		if x != 0 {
			return false
		}
	}
	return true
}

// ---------------------------------------------------------------------------------------------
// fields -> Encode -> documented offsets -> Decode -> fields

func c14RunRoundTrip(c *c14Case) (c14Info, error) {
	var info c14Info
	ty := c14TypeIndex[c.Type]
	if ty == nil {
		return info, fmt.Errorf("unknown type %q", c.Type)
	}
	x := ty.New()
	want := map[string][]byte{}
	allNonZero := true
	for _, f := range ty.Fields {
		w, _ := hex.DecodeString(c.Vals[f.Name])
		if f.Kind == 'u' || f.Kind == 'b' {
			w = append(w, make([]byte, f.Size)...)[:f.Size]
		}
		want[f.Name] = w
		c14Set(x, f, w)
		if c14AllZero(w) {
			allNonZero = false
		}
	}
	info.nontrivial = allNonZero
	info.class(c.Type)
	if allNonZero {
		info.class("every field non-zero")
	}
	buf := bytes.Repeat([]byte{byte(c.Fill)}, 64)
	if err := x.Encode(buf); err != nil {
		return info, c14Fail("C14:"+c.Type+":encode-refused", "Encode refused in-domain values: %v", err)
	}
	for _, f := range ty.Fields {
		if f.Off < 0 {
			continue
		}
		w := want[f.Name]
		got := buf[f.Off : f.Off+len(w)]
		if !bytes.Equal(got, w) {
			return info, c14Fail("C14:"+c.Type+":offset", "%s.%s: bytes at offset %d (%s) are %x, field value is %x", c.Type, f.Name, f.Off, ty.Source, got, w)
		}
		if f.Kind == 's' && !c14AllZero(buf[f.Off+len(w):f.Off+f.Size]) {
			return info, c14Fail("C14:"+c.Type+":offset", "%s.%s: string of %d bytes not NUL-padded: %x", c.Type, f.Name, len(w), buf[f.Off:f.Off+f.Size])
		}
	}
	y := ty.New()
	if err := y.Decode(buf); err != nil {
		return info, c14Fail("C14:"+c.Type+":roundtrip", "Decode of own encoding failed: %v", err)
	}
	for _, f := range ty.Fields {
		if got := c14Get(y, f); !bytes.Equal(got, want[f.Name]) {
			return info, c14Fail("C14:"+c.Type+":roundtrip", "%s.%s: encoded %x, decoded %x (frame %x)", c.Type, f.Name, want[f.Name], got, buf)
		}
	}
	return info, nil
}

func c14GenBytes(t *rapid.T, n int, label string) []byte {
	switch rapid.IntRange(0, 9).Draw(t, label+"Mode") {
	case 0:
		return make([]byte, n)
	case 1:
		return bytes.Repeat([]byte{0xff}, n)
	case 2:
		b := make([]byte, n)
		b[rapid.IntRange(0, n-1).Draw(t, label+"Pos")] = byte(rapid.IntRange(1, 255).Draw(t, label+"One"))
		return b
	}
	return rapid.SliceOfN(rapid.Byte(), n, n).Draw(t, label)
}

// c14GenName: names as the API takes them (Go strings without NUL: NUL is the padding byte).
func c14GenName(t *rapid.T, max int, label string) []byte {
	n := rapid.SampledFrom([]int{0, 1, 2, 7, max - 1, max, -1}).Draw(t, label+"Len")
	if n < 0 {
		n = rapid.IntRange(0, max).Draw(t, label+"LenAny")
	}
	if rapid.Bool().Draw(t, label+"Ascii") {
		return []byte(rapid.StringOfN(rapid.RuneFrom([]rune("ABCXYZ_abcxyz019.:-")), n, n, n).Draw(t, label))
	}
	return rapid.SliceOfN(rapid.ByteRange(1, 255), n, n).Draw(t, label)
}

func c14GenRoundTrip(t *rapid.T, typeName string) *c14Case {
	ty := c14TypeIndex[typeName]
	c := &c14Case{Kind: "roundtrip", Type: typeName, Vals: map[string]string{}, Fill: rapid.SampledFrom([]int{0, 0xaa, 0xff}).Draw(t, "fill")}
	hostLen := 0
	for _, f := range ty.Fields {
		var w []byte
		switch f.Kind {
		case 'u', 'b':
			w = c14GenBytes(t, f.Size, f.Name)
		case 's':
			w = c14GenName(t, f.Size, f.Name)
		case 'h':
			w = c14GenName(t, f.Size, f.Name)
			hostLen = len(w)
		}
		c.Vals[f.Name] = hex.EncodeToString(w)
	}
	if typeName == "LeaderResultCommand" {
		c.Vals["HostLen"] = hex.EncodeToString([]byte{byte(hostLen)}) // NewLeaderResultCommand: HostLen = len(host)
	}
	return c
}

func c14ValsFingerprint(c *c14Case) uint64 {
	keys := make([]string, 0, len(c.Vals))
	for k := range c.Vals {
		keys = append(keys, k)
	}
	sort.Strings(keys)
	parts := []interface{}{c.Kind, c.Type, c.Fill}
	for _, k := range keys {
		parts = append(parts, k, c.Vals[k])
	}
	return vHash(parts...)
}

func TestC14_BinaryRoundTrip(t *testing.T) {
	names := c14TypeNames()
	rapid.Check(t, func(t *rapid.T) {
		c := c14GenRoundTrip(t, rapid.SampledFrom(names).Draw(t, "type"))
		c14Check(t, "TestC14_BinaryRoundTrip", c, c14ValsFingerprint(c))
	})
}

// ---------------------------------------------------------------------------------------------
// arbitrary 64 bytes -> Decode -> Encode reproduces every defined byte

const (
	c14KeyHostLen  = "C14:LeaderResultCommand.Decode:hostlen-overrun"
	c14KeyNameTrim = "C14:CallCommand.Decode:leading-nul-trimmed"
)

// c14Canonical reports whether a NUL-padded string area holds "name then only NULs".
func c14Canonical(area []byte) bool {
	i := bytes.IndexByte(area, 0)
	return i < 0 || c14AllZero(area[i:])
}

func c14DecEncKey(c *c14Case, what string) string {
	frame, _ := hex.DecodeString(c.Frame)
	ty := c14TypeIndex[c.Type]
	if ty != nil && len(frame) == 64 {
		for _, f := range ty.Fields {
			if f.Kind == 'h' && int(frame[f.Off-1]) > f.Size {
				return c14KeyHostLen
			}
			if f.Kind == 's' && !c14Canonical(frame[f.Off:f.Off+f.Size]) {
				return c14KeyNameTrim
			}
		}
	}
	return "C14:" + c.Type + ":" + what
}

func c14RunDecEnc(c *c14Case) (c14Info, error) {
	var info c14Info
	ty := c14TypeIndex[c.Type]
	frame, _ := hex.DecodeString(c.Frame)
	if ty == nil || len(frame) != 64 {
		return info, fmt.Errorf("bad case")
	}
	info.class(c.Type)
	x := ty.New()
	in := append([]byte{}, frame...) // len == cap == 64: a decoder reading past the frame panics instead of seeing stale bytes
	if err := x.Decode(in); err != nil {
		for _, f := range ty.Fields {
			if f.Kind == 'h' && int(frame[f.Off-1]) > f.Size {
				// a length byte that points past the frame is not an encoding of anything: an error is the right answer
				// (a panic is not, that is what c14Guard turns into the hostlen-overrun finding)
				info.class("length byte past the frame refused with an error")
				return info, nil
			}
		}
		return info, c14Fail(c14DecEncKey(c, "decode-encode"), "Decode refused a 64-byte frame: %v", err)
	}
	defined := make([]bool, 64)
	allNonZero := true
	for _, f := range ty.Fields {
		if f.Off < 0 {
			continue
		}
		size := f.Size
		area := frame[f.Off : f.Off+f.Size]
		wantField := area
		switch f.Kind {
		case 'h':
			size = int(frame[f.Off-1])
			if size > f.Size {
				size = f.Size
			}
			wantField = area[:size]
		case 's':
			wantField = bytes.TrimRight(area, "\x00")
			if !c14Canonical(area) {
				info.class("string area with NUL before the end")
			}
		}
		for i := 0; i < size; i++ {
			defined[f.Off+i] = true
		}
		if c14AllZero(area[:size]) {
			allNonZero = false
		}
		// Decode must read the field from the documented position
		if got := c14Get(x, f); !bytes.Equal(got, wantField) {
			return info, c14Fail(c14DecEncKey(c, "decode-offset"), "%s.%s decoded as %x, frame has %x at offset %d (%s)", c.Type, f.Name, got, wantField, f.Off, ty.Source)
		}
	}
	for _, r := range ty.Raw {
		for i := 0; i < r[1]; i++ {
			defined[r[0]+i] = true
		}
		if c14AllZero(frame[r[0] : r[0]+r[1]]) {
			allNonZero = false
		}
	}
	info.nontrivial = allNonZero
	if allNonZero {
		info.class("every defined field non-zero")
	}
	out := bytes.Repeat([]byte{byte(c.Fill)}, 64)
	if err := x.Encode(out); err != nil {
		return info, c14Fail(c14DecEncKey(c, "decode-encode"), "Encode of a decoded frame failed: %v", err)
	}
	for i := 0; i < 64; i++ {
		if defined[i] && out[i] != frame[i] {
			return info, c14Fail(c14DecEncKey(c, "decode-encode"), "%s: defined byte %d is %02x after Decode+Encode, was %02x\n in  %x\n out %x", c.Type, i, out[i], frame[i], frame, out)
		}
	}
	return info, nil
}

func c14GenDecEnc(t *rapid.T, typeName string) *c14Case {
	st := vstat("TestC14_BinaryDecodeEncode")
	ty := c14TypeIndex[typeName]
	frame := rapid.SliceOfN(rapid.Byte(), 64, 64).Draw(t, "frame")
	if rapid.IntRange(0, 3).Draw(t, "dense") == 0 {
		for i := range frame {
			if frame[i] == 0 {
				frame[i] = 0x80
			}
		}
	}
	for _, f := range ty.Fields {
		switch f.Kind {
		case 's':
			// the area is a name followed by NUL padding; other shapes (NUL first / in the middle) are produced by no
			// encoder, they are generated too unless the resulting finding is listed as known
			mode := rapid.IntRange(0, 3).Draw(t, f.Name+"Shape")
			if vIsKnown(c14KeyNameTrim) && mode == 3 {
				st.Exclude("string area with leading/interior NUL not generated: known finding " + c14KeyNameTrim)
				mode = 0
			}
			if mode != 3 {
				name := c14GenName(t, f.Size, f.Name)
				copy(frame[f.Off:f.Off+f.Size], append(name, make([]byte, f.Size)...))
			}
		case 'h':
			n := rapid.IntRange(0, 255).Draw(t, "hostLen")
			if rapid.Bool().Draw(t, "hostLenLegal") {
				n = rapid.IntRange(0, f.Size).Draw(t, "hostLenIn")
			}
			if vIsKnown(c14KeyHostLen) && n > f.Size {
				st.Exclude("HostLen > 43 not generated: known finding " + c14KeyHostLen)
				n = n % (f.Size + 1)
			}
			frame[f.Off-1] = byte(n)
		}
	}
	return &c14Case{Kind: "decenc", Type: typeName, Frame: hex.EncodeToString(frame), Fill: rapid.SampledFrom([]int{0, 0x55, 0xff}).Draw(t, "fill")}
}

func TestC14_BinaryDecodeEncode(t *testing.T) {
	names := c14TypeNames()
	rapid.Check(t, func(t *rapid.T) {
		c := c14GenDecEnc(t, rapid.SampledFrom(names).Draw(t, "type"))
		c14Check(t, "TestC14_BinaryDecodeEncode", c, vHash(c.Type, c.Frame))
	})
}

// ---------------------------------------------------------------------------------------------
// RESP text parser: same arguments for every split of the byte stream

// c14Wire is an independent RESP writer that also records where framing lives in the stream.
type c14Wire struct {
	buf       []byte
	lenLines  [][2]int // [start,end): from the type byte through the '\n' of a "*N\r\n" / "$N\r\n" line
	crlf      []int    // index of every framing '\n'
	dataSpans [][2]int
	simple    [][2]int // [start,end) of simple-string / error text (without CRLF)
}

func (w *c14Wire) lenLine(marker byte, n int) {
	start := len(w.buf)
	w.buf = append(w.buf, marker)
	w.buf = append(w.buf, fmt.Sprint(n)...)
	w.buf = append(w.buf, '\r', '\n')
	w.lenLines = append(w.lenLines, [2]int{start, len(w.buf)})
	w.crlf = append(w.crlf, len(w.buf)-1)
}

func (w *c14Wire) bulk(b []byte) {
	w.lenLine('$', len(b))
	w.dataSpans = append(w.dataSpans, [2]int{len(w.buf), len(w.buf) + len(b)})
	w.buf = append(w.buf, b...)
	w.buf = append(w.buf, '\r', '\n')
	w.crlf = append(w.crlf, len(w.buf)-1)
}

func (w *c14Wire) line(marker byte, b []byte) {
	w.buf = append(w.buf, marker)
	w.simple = append(w.simple, [2]int{len(w.buf), len(w.buf) + len(b)})
	w.buf = append(w.buf, b...)
	w.buf = append(w.buf, '\r', '\n')
	w.crlf = append(w.crlf, len(w.buf)-1)
}

// c14Chunks turns (rbuf, first, pattern, cuts) into the list of deliveries.
func c14Chunks(total, rbuf, first int, pattern, cuts []int) []int {
	var out []int
	cs := append([]int{}, cuts...)
	sort.Ints(cs)
	pos, i := 0, 0
	for pos < total {
		size := rbuf
		if len(pattern) > 0 {
			size = pattern[i%len(pattern)]
		}
		if pos == 0 && first > 0 {
			size = first
		} else {
			i++
		}
		if size < 1 {
			size = 1
		}
		if size > rbuf {
			size = rbuf
		}
		if size > total-pos {
			size = total - pos
		}
		for _, c := range cs {
			if c > pos && c < pos+size {
				size = c - pos
				break
			}
		}
		out = append(out, size)
		pos += size
	}
	return out
}

// c14Feed drives a fresh TextParser over stream. The loop is the one of TextServerProtocol.Process and
// TextClientProtocol.Read: when IsBufferEnd() read n bytes into GetReadBuf() and BufferUpdate(n); parse; when
// IsParseFinish() take the command and Reset(). With First > 0 the first delivery goes through CopyToReadBuf the way
// Server.checkProtocol hands the first (<= 64 byte) read to TextServerProtocol.ProcessParse.
func c14Feed(c *c14Case, stream []byte, response bool, onDone func(p *TextParser) error) (bounds []int, err error) {
	rbufSize := c.Rbuf
	if rbufSize < 1 {
		rbufSize = 1024
	}
	first := c.First
	if first > rbufSize {
		first = rbufSize
	}
	if first > 64 {
		first = 64
	}
	p := NewTextParser(make([]byte, rbufSize), make([]byte, 1024))
	parse := p.ParseRequest
	if response {
		parse = p.ParseResponse
	}
	chunks := c14Chunks(len(stream), rbufSize, first, c.Pattern, c.Cuts)
	pos, ci := 0, 0
	rbuf := p.GetReadBuf()
	for steps := 0; ; steps++ {
		if steps > 4*len(stream)+16 {
			return bounds, fmt.Errorf("parser makes no progress (pos %d of %d)", pos, len(stream))
		}
		if p.IsBufferEnd() {
			if ci >= len(chunks) {
				break
			}
			n := chunks[ci]
			if ci == 0 && first > 0 {
				p.CopyToReadBuf(stream[pos : pos+n])
			} else {
				copy(rbuf, stream[pos:pos+n])
				p.BufferUpdate(n)
			}
			pos += n
			ci++
			if pos < len(stream) {
				bounds = append(bounds, pos)
			}
		}
		if err := parse(); err != nil {
			return bounds, fmt.Errorf("parse error after %d of %d bytes: %v", pos, len(stream), err)
		}
		if p.IsParseFinish() {
			if err := onDone(p); err != nil {
				return bounds, err
			}
			p.Reset()
		}
	}
	if !p.IsParseFinish() {
		return bounds, fmt.Errorf("stream fully delivered but parser is still inside a command (stage %d, args so far %d)", p.stage, len(p.args))
	}
	return bounds, nil
}

// c14BoundIndex answers "is there a delivery boundary in [lo,hi)" in O(1).
type c14BoundIndex struct{ prefix []int }

func c14IndexBounds(bounds []int, total int) *c14BoundIndex {
	x := &c14BoundIndex{prefix: make([]int, total+3)}
	for _, b := range bounds {
		if b >= 0 && b < total+2 {
			x.prefix[b+1]++
		}
	}
	for i := 1; i < len(x.prefix); i++ {
		x.prefix[i] += x.prefix[i-1]
	}
	return x
}

func (x *c14BoundIndex) any(lo, hi int) bool {
	if lo < 0 {
		lo = 0
	}
	if hi > len(x.prefix)-1 {
		hi = len(x.prefix) - 1
	}
	return hi > lo && x.prefix[hi]-x.prefix[lo] > 0
}

func c14SplitClasses(info *c14Info, w *c14Wire, bounds []int) (inLen, crlf bool) {
	x := c14IndexBounds(bounds, len(w.buf))
	for _, l := range w.lenLines {
		if x.any(l[0]+1, l[1]) {
			inLen = true
			break
		}
	}
	for _, n := range w.crlf {
		if x.any(n, n+1) {
			crlf = true
			break
		}
	}
	inData := false
	for _, d := range w.dataSpans {
		if x.any(d[0]+1, d[1]) {
			inData = true
			break
		}
	}
	if inLen {
		info.class("split inside a length line")
	}
	if crlf {
		info.class("split between CR and LF")
	}
	if inData {
		info.class("split inside argument data")
	}
	if len(bounds) == 0 {
		info.class("single delivery")
	}
	return
}

const (
	// a sequence of messages that each parse correctly on a fresh parser fails on one parser reused with Reset() in between
	c14KeyState   = "C14:TextParser:state-carried-across-messages"
	c14KeyNilBulk = "C14:TextParser.ParseResponse:nil-bulk-not-terminated"
)

// c14ParseAlone parses one complete message with a fresh parser in a single delivery.
func c14ParseAlone(msg []byte, response bool) (argsType int, args []string, err error) {
	p := NewTextParser(make([]byte, len(msg)+1), make([]byte, 16))
	copy(p.GetReadBuf(), msg)
	p.BufferUpdate(len(msg))
	if response {
		err = p.ParseResponse()
	} else {
		err = p.ParseRequest()
	}
	if err != nil {
		return 0, nil, err
	}
	if !p.IsParseFinish() || !p.IsBufferEnd() {
		return 0, nil, fmt.Errorf("a fresh parser does not finish the complete message %s (stage %d, %d of %d bytes consumed)", c14Quote(string(msg)), p.stage, p.bufIndex, len(msg))
	}
	return p.GetArgsType(), append([]string{}, p.GetArgs()...), nil
}

// c14SingleDelivery is the same case with the whole stream handed over in one read.
func c14SingleDelivery(c *c14Case, total int) *c14Case {
	s := *c
	s.Rbuf, s.First, s.Pattern, s.Cuts = total+1, 0, nil, nil
	return &s
}

func c14SeqClass(info *c14Info, prevArgs int, next string) {
	if prevArgs > 64 {
		info.class("message with > 64 arguments followed by " + next)
	}
}

func c14Quote(s string) string {
	if len(s) > 48 {
		return fmt.Sprintf("%q...(%d bytes)", s[:48], len(s))
	}
	return fmt.Sprintf("%q", s)
}

func c14RunTextReq(c *c14Case) (c14Info, error) {
	var info c14Info
	key := "C14:TextParser.ParseRequest:framing"
	w := &c14Wire{}
	var want [][]string
	var built []byte
	var spans [][2]int
	bp := NewTextParser(make([]byte, 16), make([]byte, 16))
	for k, req := range c.Reqs {
		args := make([]string, len(req))
		w.lenLine('*', len(req))
		for i, a := range req {
			b := a.bytes()
			args[i] = string(b)
			w.bulk(b)
			if len(b) == 0 {
				info.class("empty argument")
			}
			if len(b) > c.Rbuf {
				info.class("argument longer than read buffer")
			}
		}
		if k > 0 {
			c14SeqClass(&info, len(want[k-1]), "a request")
		}
		want = append(want, args)
		start := len(built)
		built = append(built, bp.BuildRequest(args)...)
		spans = append(spans, [2]int{start, len(built)})
	}
	if !bytes.Equal(built, w.buf) {
		return info, c14Fail("C14:TextParser.BuildRequest:encoding", "BuildRequest output differs from RESP: %q vs %q", c14Quote(string(built)), c14Quote(string(w.buf)))
	}
	if len(c.Reqs) > 1 {
		info.class("several requests in one stream")
	}
	// metamorphic baseline: every message on its own fresh parser gives back what was built
	for k, sp := range spans {
		_, args, err := c14ParseAlone(built[sp[0]:sp[1]], false)
		if err != nil || fmt.Sprint(args) != fmt.Sprint(want[k]) || len(args) != len(want[k]) {
			return info, c14Fail("C14:TextParser.ParseRequest:roundtrip", "request %d alone on a fresh parser: err=%v, %d args parsed, %d built", k, err, len(args), len(want[k]))
		}
	}
	verify := func(cc *c14Case) ([]int, error) {
		var got [][]string
		bounds, err := c14Feed(cc, built, false, func(p *TextParser) error {
			args := append([]string{}, p.GetArgs()...)
			k := len(got)
			if k < len(want) && len(args) > 0 {
				if p.GetCommandType() != strings.ToUpper(args[0]) || p.GetArgsCount() != len(want[k]) || p.GetArgsType() != 0 {
					return fmt.Errorf("request %d: GetCommandType=%q GetArgsCount=%d GetArgsType=%d", k, p.GetCommandType(), p.GetArgsCount(), p.GetArgsType())
				}
			}
			got = append(got, args)
			return nil
		})
		if err != nil {
			return bounds, err
		}
		if len(got) != len(want) {
			return bounds, fmt.Errorf("parsed %d requests, stream holds %d", len(got), len(want))
		}
		for k := range want {
			if len(got[k]) != len(want[k]) {
				return bounds, fmt.Errorf("request %d: %d args parsed, %d sent", k, len(got[k]), len(want[k]))
			}
			for i := range want[k] {
				if got[k][i] != want[k][i] {
					return bounds, fmt.Errorf("request %d arg %d: parsed %s, sent (and parsed by a fresh parser) %s", k, i, c14Quote(got[k][i]), c14Quote(want[k][i]))
				}
			}
		}
		return bounds, nil
	}
	bounds, err := verify(c)
	inLen, crlf := c14SplitClasses(&info, w, bounds)
	info.nontrivial = inLen || crlf
	if len(c14CargTrigger(w, bounds)) > 0 {
		key = c14KeyCarg
		info.class("split argument whose last piece arrives without its CRLF")
	}
	if err != nil {
		if len(want) > 1 {
			if _, serr := verify(c14SingleDelivery(c, len(built))); serr != nil {
				key = c14KeyState
				err = fmt.Errorf("%v; each request parses on a fresh parser, one reused parser fails even with a single delivery: %v", err, serr)
			}
		}
		return info, c14Fail(key, "%v (deliveries %v)", err, c14Chunks(len(built), c.Rbuf, c.First, c.Pattern, c.Cuts))
	}
	return info, nil
}

func c14GenArg(t *rapid.T, allowBig bool) c14Arg {
	switch rapid.IntRange(0, 11).Draw(t, "argKind") {
	case 0:
		return c14Arg{}
	case 1, 2:
		return c14ArgOf([]byte(rapid.SampledFrom([]string{"LOCK", "unlock", "SET", "get", "TIMEOUT", "0", "15", "-1", "65536", "*3", "$5", "\r\n", "\r", "\n", "+OK", "a b"}).Draw(t, "argWord")))
	case 3:
		if allowBig {
			unit := rapid.SliceOfN(rapid.Byte(), 1, 24).Draw(t, "bigUnit")
			n := rapid.SampledFrom([]int{1000, 1023, 1024, 1025, 4096, 20000, 65535, 65536}).Draw(t, "bigLen")
			return c14Arg{Hex: hex.EncodeToString(unit), Rep: n/len(unit) + 1}
		}
		fallthrough
	case 4:
		return c14ArgOf(rapid.SliceOfN(rapid.SampledFrom([]byte{'\r', '\n', '*', '$', '0', '1', 'a', 0, 0xff}), 0, 40).Draw(t, "argNasty"))
	case 5:
		return c14ArgOf(rapid.SliceOfN(rapid.Byte(), 100, 1500).Draw(t, "argMedium"))
	}
	return c14ArgOf(rapid.SliceOfN(rapid.Byte(), 0, 32).Draw(t, "argShort"))
}

// c14GenSplit draws the delivery plan; targets are the offsets where framing can be cut.
func c14GenSplit(t *rapid.T, st *vStat, c *c14Case, w *c14Wire, offending func(bounds []int) []int, why string) {
	c.Rbuf = rapid.SampledFrom([]int{1024, 1024, 1024, 1, 2, 3, 7, 16, 64, 4096}).Draw(t, "rbuf")
	if rapid.IntRange(0, 3).Draw(t, "viaCheckProtocol") == 0 {
		c.First = rapid.IntRange(1, 64).Draw(t, "first")
	}
	switch rapid.IntRange(0, 4).Draw(t, "patternKind") {
	case 0:
		c.Pattern = []int{c.Rbuf}
	case 1:
		c.Pattern = []int{1}
	case 2:
		c.Pattern = []int{rapid.IntRange(1, 9).Draw(t, "step")}
	default:
		c.Pattern = rapid.SliceOfN(rapid.IntRange(1, 2048), 1, 8).Draw(t, "pattern")
	}
	if len(w.buf) > 8192 {
		// a huge argument is appended piece by piece by the parser (quadratic copying): tiny pieces are kept for the
		// small streams, a big stream is delivered in pieces of at least 64 bytes (explicit cuts still apply)
		if c.Rbuf < 64 {
			c.Rbuf = 1024
		}
		for i := range c.Pattern {
			if c.Pattern[i] < 64 {
				c.Pattern[i] += 64
			}
		}
	}
	var targets []int
	for _, l := range w.lenLines {
		for b := l[0] + 1; b <= l[1]; b++ {
			targets = append(targets, b)
		}
	}
	for _, n := range w.crlf {
		targets = append(targets, n-1, n, n+1)
	}
	for _, s := range w.simple {
		targets = append(targets, s[0], s[0]+1, s[1]-1)
	}
	k := rapid.IntRange(0, 6).Draw(t, "cuts")
	for i := 0; i < k && len(targets) > 0; i++ {
		b := rapid.SampledFrom(targets).Draw(t, "cut")
		if b > 0 && b < len(w.buf) {
			c.Cuts = append(c.Cuts, b)
		}
	}
	if offending != nil {
		// known-finding exclusion by construction: deliveries that hit a listed defect are taken out of the plan
		// (first the explicit cuts; if the pattern itself produces one, the plan degrades to a single delivery)
		for round := 0; round < 8; round++ {
			bad := offending(c14Bounds(c, len(w.buf)))
			if len(bad) == 0 {
				return
			}
			st.Exclude("delivery plan adjusted: " + why)
			isBad := map[int]bool{}
			for _, b := range bad {
				isBad[b] = true
			}
			kept := c.Cuts[:0:0]
			for _, b := range c.Cuts {
				if !isBad[b] {
					kept = append(kept, b)
				}
			}
			if len(kept) == len(c.Cuts) {
				break
			}
			c.Cuts = kept
		}
		if len(offending(c14Bounds(c, len(w.buf)))) > 0 {
			c.Rbuf, c.First, c.Pattern, c.Cuts = len(w.buf)+1, 0, nil, nil
		}
	}
}

func c14Bounds(c *c14Case, total int) []int {
	rbuf, first := c.Rbuf, c.First
	if rbuf < 1 {
		rbuf = 1024
	}
	if first > rbuf {
		first = rbuf
	}
	if first > 64 {
		first = 64
	}
	var out []int
	pos := 0
	for _, n := range c14Chunks(total, rbuf, first, c.Pattern, c.Cuts) {
		pos += n
		if pos < total {
			out = append(out, pos)
		}
	}
	return out
}

// c14CargTrigger: boundaries right after an argument's data (before its CR or between CR and LF) when the data was
// already split by an earlier boundary - the situation in which TextParser loses track of how much of the argument it has.
const c14KeyCarg = "C14:TextParser:split-argument-tail-without-crlf"

func c14CargTrigger(w *c14Wire, bounds []int) []int {
	x := c14IndexBounds(bounds, len(w.buf))
	var out []int
	for _, d := range w.dataSpans {
		// the last piece of the data arrives in a delivery that does not also hold the closing LF
		if d[1]-d[0] < 2 || !x.any(d[1], d[1]+2) || !x.any(d[0]+1, d[1]) {
			continue
		}
		if x.any(d[1], d[1]+1) {
			out = append(out, d[1])
		}
		if x.any(d[1]+1, d[1]+2) {
			out = append(out, d[1]+1)
		}
	}
	return out
}

func c14TextFingerprint(c *c14Case, stream []byte) uint64 {
	return vHash(c.Kind, stream, c.Rbuf, c.First, fmt.Sprint(c.Pattern), fmt.Sprint(c.Cuts))
}

func TestC14_TextRequestChunking(t *testing.T) {
	st := vstat("TestC14_TextRequestChunking")
	rapid.Check(t, func(t *rapid.T) {
		c := &c14Case{Kind: "textreq"}
		// one parser object serves the whole connection: sequences of up to 8 requests
		nreq := rapid.SampledFrom([]int{1, 1, 2, 2, 3, 4, 6, 8}).Draw(t, "requests")
		big := rapid.IntRange(0, 19).Draw(t, "big") == 0
		w := &c14Wire{}
		for r := 0; r < nreq; r++ {
			// a request has at least a command name: "*0" is not a request any documented client can send
			nargs := rapid.SampledFrom([]int{1, 2, 3, 4, 5, 8, 12, 40, 64, 65, 66, 100, 200}).Draw(t, "nargs")
			var req []c14Arg
			w.lenLine('*', nargs)
			var pool []c14Arg
			for i := 0; i < nargs; i++ {
				var a c14Arg
				if i < 6 || nargs <= 12 {
					a = c14GenArg(t, big)
					if a.Rep > 1 {
						big = false // at most one huge argument per case
					} else if len(a.bytes()) <= 40 {
						pool = append(pool, a)
					}
				} else {
					// long argument lists (MSET-like): the tail repeats a few short arguments, one draw each
					if len(pool) == 0 {
						pool = append(pool, c14ArgOf([]byte("v")))
					}
					a = pool[rapid.IntRange(0, len(pool)-1).Draw(t, "poolArg")]
				}
				req = append(req, a)
				w.bulk(a.bytes())
			}
			c.Reqs = append(c.Reqs, req)
		}
		var offending func([]int) []int
		if vIsKnown(c14KeyCarg) {
			offending = func(b []int) []int { return c14CargTrigger(w, b) }
		}
		c14GenSplit(t, st, c, w, offending, "known finding "+c14KeyCarg)
		c14Check(t, "TestC14_TextRequestChunking", c, c14TextFingerprint(c, w.buf))
	})
}

// ---------------------------------------------------------------------------------------------
// BuildResponse <-> ParseResponse (OK / ERR / bulk / array), fed the way TextClientProtocol.Read feeds it

const c14KeySimpleLeak = "C14:TextParser.ParseResponse:simple-string-delimiter-leak"

func c14RunTextResp(c *c14Case) (c14Info, error) {
	var info c14Info
	key := "C14:TextParser.ParseResponse:framing"
	w := &c14Wire{}
	var built []byte
	type exp struct {
		argsType int
		args     []string
		isNil    bool
	}
	var want []exp
	var spans [][2]int
	bp := NewTextParser(make([]byte, 16), make([]byte, 16))
	leakPos := map[int]bool{} // a delivery starting here, or a scan starting here, hits the delimiter-leak defect
	for k, r := range c.Resps {
		msg := string(r.Msg.bytes())
		var results []string
		for _, a := range r.Results {
			results = append(results, string(a.bytes()))
		}
		base := len(w.buf)
		start := len(built)
		switch r.Mode {
		case "ok":
			w.line('+', []byte(msg))
			built = append(built, bp.BuildResponse(true, msg, nil)...)
			want = append(want, exp{1, []string{msg}, false})
			leakPos[base+1+len(msg)], leakPos[base+2+len(msg)] = true, true
			if msg == "" {
				key = c14KeySimpleLeak
			}
		case "err":
			w.line('-', []byte(msg))
			built = append(built, bp.BuildResponse(false, msg, nil)...)
			// RESP error: first word is the error type, the rest the message
			typ, rest := msg, ""
			if i := strings.IndexByte(msg, ' '); i >= 0 {
				typ, rest = msg[:i], msg[i+1:]
				leakPos[base+1+i] = true
				if rest == "" {
					key = c14KeySimpleLeak
				}
			}
			if typ == "" {
				key = c14KeySimpleLeak
			}
			want = append(want, exp{2, []string{typ, rest}, false})
			leakPos[base+1+len(msg)], leakPos[base+2+len(msg)] = true, true
		case "bulk":
			w.bulk([]byte(results[0]))
			built = append(built, bp.BuildResponse(true, msg, results[:1])...)
			want = append(want, exp{3, results[:1], false})
		case "nil":
			// RESP nil bulk string, the server's answer to GET / GETSET / DUMP of a key without value ("$-1\r\n" in
			// protocol/textcommand.go). BuildResponse cannot produce it, so there is no builder to compare with.
			w.lenLine('$', -1)
			built = append(built, "$-1\r\n"...)
			want = append(want, exp{3, nil, true})
		case "array":
			w.lenLine('*', len(results))
			for _, s := range results {
				w.bulk([]byte(s))
			}
			built = append(built, bp.BuildResponse(true, msg, results)...)
			want = append(want, exp{4, results, false})
		default:
			return info, fmt.Errorf("bad mode %q", r.Mode)
		}
		spans = append(spans, [2]int{start, len(built)})
		info.class("reply:" + r.Mode)
		if k > 0 {
			next := map[string]string{"ok": "a simple string", "err": "an error", "bulk": "a single bulk string", "nil": "a nil bulk string", "array": "an array"}[r.Mode]
			c14SeqClass(&info, len(want[k-1].args), next)
		}
	}
	if !bytes.Equal(built, w.buf) {
		return info, c14Fail("C14:TextParser.BuildResponse:encoding", "BuildResponse output differs from RESP: %s vs %s", c14Quote(string(built)), c14Quote(string(w.buf)))
	}
	// a nil bulk string carries no element; a parser that reports it as one empty element is tolerated
	same := func(e exp, args []string) bool {
		if e.isNil {
			return len(args) == 0 || (len(args) == 1 && args[0] == "")
		}
		if len(args) != len(e.args) {
			return false
		}
		for i := range args {
			if args[i] != e.args[i] {
				return false
			}
		}
		return true
	}
	// metamorphic baseline: every message on its own fresh parser gives back what was built
	for k, sp := range spans {
		at, args, err := c14ParseAlone(built[sp[0]:sp[1]], true)
		if err != nil || at != want[k].argsType || !same(want[k], args) {
			fkey := "C14:TextParser.ParseResponse:roundtrip"
			if want[k].isNil {
				fkey = c14KeyNilBulk
			} else if key == c14KeySimpleLeak {
				fkey = key
			}
			return info, c14Fail(fkey, "reply %d (%s) alone on a fresh parser: err=%v, type %d, %d elements parsed; built type %d, %d elements", k, c.Resps[k].Mode, err, at, len(args), want[k].argsType, len(want[k].args))
		}
	}
	type gotT struct {
		argsType int
		args     []string
		cmd      *TextResponseCommand
	}
	verify := func(cc *c14Case) ([]int, error) {
		var got []gotT
		bounds, err := c14Feed(cc, built, true, func(p *TextParser) error {
			cmd, cerr := p.GetResponseCommand()
			if cerr != nil {
				return cerr
			}
			got = append(got, gotT{p.GetArgsType(), append([]string{}, p.GetArgs()...), cmd})
			return nil
		})
		if err != nil {
			return bounds, err
		}
		if len(got) != len(want) {
			return bounds, fmt.Errorf("parsed %d replies, stream holds %d", len(got), len(want))
		}
		for k := range want {
			if got[k].argsType != want[k].argsType {
				return bounds, fmt.Errorf("reply %d: args type %d want %d", k, got[k].argsType, want[k].argsType)
			}
			if !same(want[k], got[k].args) {
				for i := range want[k].args {
					if i < len(got[k].args) && got[k].args[i] != want[k].args[i] {
						return bounds, fmt.Errorf("reply %d (%s) element %d: parsed %s, sent (and parsed by a fresh parser) %s", k, c.Resps[k].Mode, i,
							c14Quote(got[k].args[i]), c14Quote(want[k].args[i]))
					}
				}
				return bounds, fmt.Errorf("reply %d (%s): %d elements parsed, %d sent", k, c.Resps[k].Mode, len(got[k].args), len(want[k].args))
			}
			cmd := got[k].cmd
			if want[k].argsType == 2 {
				if cmd.ErrorType != want[k].args[0] || cmd.Message != want[k].args[1] {
					return bounds, fmt.Errorf("reply %d: response command (%q,%q) want %q", k, cmd.ErrorType, cmd.Message, want[k].args)
				}
			} else if !same(want[k], cmd.Results) {
				return bounds, fmt.Errorf("reply %d: response command results differ", k)
			}
		}
		return bounds, nil
	}
	bounds, err := verify(c)
	if len(c14CargTrigger(w, bounds)) > 0 {
		key = c14KeyCarg
		info.class("split argument whose last piece arrives without its CRLF")
	}
	for _, b := range bounds {
		if leakPos[b] {
			key = c14KeySimpleLeak
			info.class("delivery starts at the CR/LF/first space of a simple string")
		}
	}
	inLen, crlf := c14SplitClasses(&info, w, bounds)
	info.nontrivial = inLen || crlf
	if err != nil {
		if len(want) > 1 {
			if _, serr := verify(c14SingleDelivery(c, len(built))); serr != nil {
				key = c14KeyState
				err = fmt.Errorf("%v; each reply parses on a fresh parser, one reused parser fails even with a single delivery: %v", err, serr)
			}
		}
		return info, c14Fail(key, "%v (stream %s, deliveries %v)", err, c14Quote(string(built)), c14Chunks(len(built), c.Rbuf, c.First, c.Pattern, c.Cuts))
	}
	return info, nil
}

func TestC14_TextResponseChunking(t *testing.T) {
	st := vstat("TestC14_TextResponseChunking")
	rapid.Check(t, func(t *rapid.T) {
		c := &c14Case{Kind: "textresp"}
		known := vIsKnown(c14KeySimpleLeak)
		// one parser object reads every reply of a connection: sequences of up to 8 replies
		n := rapid.SampledFrom([]int{1, 1, 2, 2, 3, 5, 8}).Draw(t, "replies")
		big := rapid.IntRange(0, 19).Draw(t, "big") == 0
		w := &c14Wire{}
		modes := []string{"ok", "err", "bulk", "bulk", "array", "array", "nil"}
		if vIsKnown(c14KeyNilBulk) {
			modes = modes[:len(modes)-1]
			st.Exclude("nil bulk replies not generated: known finding " + c14KeyNilBulk)
		}
		avoid := map[int]bool{}
		// RESP's own precondition: no CR / LF inside a simple string or an error
		simple := rapid.SliceOfN(rapid.SampledFrom([]byte("OKERRabc xyz019_:-\t\x80\xff")), 0, 40)
		for i := 0; i < n; i++ {
			var r c14Resp
			base := len(w.buf)
			r.Mode = rapid.SampledFrom(modes).Draw(t, "mode")
			switch r.Mode {
			case "ok", "err":
				m := simple.Draw(t, "msg")
				if rapid.Bool().Draw(t, "stockMsg") {
					m = []byte(rapid.SampledFrom([]string{"OK", "PONG", "ERR Unknown Command", "ERR Command Parse Len Error", "State Error", "ERR"}).Draw(t, "stock"))
				}
				if known {
					// excluded by construction while the defect is listed: empty text, empty error type / message
					m = bytes.TrimSpace(m)
					if len(m) == 0 {
						m = []byte("OK")
					}
					st.Exclude("empty simple strings and deliveries starting at their CR/LF/first space not generated: known finding " + c14KeySimpleLeak)
				}
				r.Msg = c14ArgOf(m)
				marker := byte('+')
				if r.Mode == "err" {
					marker = '-'
					if j := bytes.IndexByte(m, ' '); j >= 0 {
						avoid[base+1+j] = true
					}
				}
				avoid[base+1+len(m)], avoid[base+2+len(m)] = true, true
				w.line(marker, m)
			case "bulk":
				a := c14GenArg(t, big)
				r.Results = []c14Arg{a}
				w.bulk(a.bytes())
			case "nil":
				w.lenLine('$', -1)
			case "array":
				k := rapid.SampledFrom([]int{2, 3, 12, 14, 64, 65, 66, 100, 200}).Draw(t, "elements")
				w.lenLine('*', k)
				var pool []c14Arg
				for j := 0; j < k; j++ {
					var a c14Arg
					if j < 6 || k <= 14 {
						a = c14GenArg(t, false)
						if len(a.bytes()) <= 40 {
							pool = append(pool, a)
						}
					} else {
						// long arrays (KEYS / SCAN replies): the tail repeats a few short elements, one draw each
						if len(pool) == 0 {
							pool = append(pool, c14ArgOf([]byte("k")))
						}
						a = pool[rapid.IntRange(0, len(pool)-1).Draw(t, "poolElem")]
					}
					r.Results = append(r.Results, a)
					w.bulk(a.bytes())
				}
			}
			c.Resps = append(c.Resps, r)
		}
		knownCarg := vIsKnown(c14KeyCarg)
		var offending func([]int) []int
		if known || knownCarg {
			offending = func(bs []int) []int {
				var bad []int
				if knownCarg {
					bad = append(bad, c14CargTrigger(w, bs)...)
				}
				for _, b := range bs {
					if known && avoid[b] {
						bad = append(bad, b)
					}
				}
				return bad
			}
		}
		c14GenSplit(t, st, c, w, offending, "known findings "+c14KeySimpleLeak+" / "+c14KeyCarg)
		c14Check(t, "TestC14_TextResponseChunking", c, c14TextFingerprint(c, w.buf))
	})
}

// ---------------------------------------------------------------------------------------------
// key / id normalisation against an implementation written from the README:
// "length 16 bytes, less than 16 front plus 0x00 to make up, 32 bytes is to try hex decoding, more than 16 bytes to take MD5"

func c14Normalise(s []byte) (out [16]byte, class string) {
	switch {
	case len(s) <= 16:
		copy(out[16-len(s):], s)
		class = "shorter than 16: zero-padded in front"
		if len(s) == 16 {
			class = "exactly 16"
		} else if len(s) == 0 {
			class = "empty"
		}
	case len(s) == 32:
		if v, err := hex.DecodeString(string(s)); err == nil {
			copy(out[:], v)
			class = "32 hex characters"
			break
		}
		out = md5.Sum(s)
		class = "32 bytes, not hex: MD5"
	default:
		out = md5.Sum(s)
		class = "longer than 16: MD5"
	}
	return
}

func c14RunKeyId(c *c14Case) (c14Info, error) {
	var info c14Info
	s, _ := hex.DecodeString(c.S)
	want, class := c14Normalise(s)
	info.class(class)
	info.nontrivial = len(s) > 0
	if got := ConvertString2LockKey(string(s)); got != want {
		return info, c14Fail("C14:keyid:normalisation", "ConvertString2LockKey(%q) = %x, documented normalisation gives %x", s, got, want)
	}
	id := [16]byte{0xde, 0xad, 0xbe, 0xef, 1, 2, 3, 4, 5, 6, 7, 8, 9, 10, 11, 12} // dirty target: every byte must be written
	NewTextCommandConverter().ConvertArgId2LockId(string(s), &id)
	if id != want {
		return info, c14Fail("C14:keyid:normalisation", "ConvertArgId2LockId(%q) = %x, documented normalisation gives %x", s, id, want)
	}
	return info, nil
}

func c14GenKeyString(t *rapid.T, label string) []byte {
	switch rapid.IntRange(0, 7).Draw(t, label+"Kind") {
	case 0:
		n := rapid.SampledFrom([]int{0, 1, 15, 16, 17, 31, 32, 33, 64}).Draw(t, label+"Len")
		return rapid.SliceOfN(rapid.Byte(), n, n).Draw(t, label)
	case 1, 2:
		return []byte(rapid.StringOfN(rapid.RuneFrom([]rune("0123456789abcdefABCDEF")), 32, 32, 32).Draw(t, label+"Hex"))
	case 3:
		b := []byte(rapid.StringOfN(rapid.RuneFrom([]rune("0123456789abcdef")), 32, 32, 32).Draw(t, label+"NearHex"))
		b[rapid.IntRange(0, 31).Draw(t, label+"BadPos")] = rapid.SampledFrom([]byte{'g', 'G', ' ', 0, 'x', '-'}).Draw(t, label+"Bad")
		return b
	case 4:
		n := rapid.SampledFrom([]int{30, 31, 33, 34}).Draw(t, label+"HexLen")
		return []byte(rapid.StringOfN(rapid.RuneFrom([]rune("0123456789abcdef")), n, n, n).Draw(t, label+"HexOdd"))
	case 5:
		return []byte(rapid.StringOfN(rapid.RuneFrom([]rune("abcdefghijklmnopqrstuvwxyz:_-0123456789")), 0, 64, 64).Draw(t, label+"Word"))
	}
	return rapid.SliceOfN(rapid.Byte(), 0, 64).Draw(t, label)
}

func TestC14_KeyIdNormalisation(t *testing.T) {
	rapid.Check(t, func(t *rapid.T) {
		c := &c14Case{Kind: "keyid", S: hex.EncodeToString(c14GenKeyString(t, "s"))}
		c14Check(t, "TestC14_KeyIdNormalisation", c, vHash(c.S))
	})
}

// ---------------------------------------------------------------------------------------------
// every result code has a text rendering; the LOCK/UNLOCK reply is
// [code, msg, LOCK_ID, hex, LCOUNT, n, COUNT, n+1, LRCOUNT, n, RCOUNT, n+1] (README "Return [...]", COUNT/RCOUNT +1)

const c14KeyErrMsg = "C14:ERROR_MSG:missing-entry-"

func c14RenderPanicKey(c *c14Case) string {
	if c.Code >= len(ERROR_MSG) {
		return fmt.Sprintf("%s%d", c14KeyErrMsg, c.Code)
	}
	return "C14:TextLockResult:panic"
}

type c14TextProto struct {
	parser *TextParser
	dbId   uint8
	lockId [16]byte
	cmd    *LockCommand
}

func (p *c14TextProto) GetDBId() uint8                       { return p.dbId }
func (p *c14TextProto) GetLockId() [16]byte                  { return p.lockId }
func (p *c14TextProto) GetTimeout() uint16                   { return 15 }
func (p *c14TextProto) GetLockCommand() *LockCommand         { return p.cmd }
func (p *c14TextProto) FreeLockCommand(_ *LockCommand) error { return nil }
func (p *c14TextProto) GetParser() *TextParser               { return p.parser }

type c14Sink struct{ buf []byte }

func (s *c14Sink) ReadBytes(b []byte) (int, error) { return 0, nil }
func (s *c14Sink) Read(b []byte) (int, error)      { return 0, nil }
func (s *c14Sink) WriteBytes(b []byte) error       { s.buf = append(s.buf, b...); return nil }
func (s *c14Sink) Write(b []byte) (int, error)     { s.buf = append(s.buf, b...); return len(b), nil }
func (s *c14Sink) Close() error                    { return nil }

func c14RunRender(c *c14Case) (c14Info, error) {
	var info c14Info
	info.class(fmt.Sprintf("result code %d", c.Code))
	if c.Code >= len(ERROR_MSG) || ERROR_MSG[c.Code] == "" || strings.ContainsAny(ERROR_MSG[c.Code], "\r\n") {
		return info, c14Fail(fmt.Sprintf("%s%d", c14KeyErrMsg, c.Code), "result code %d has no text rendering: ERROR_MSG has %d entries", c.Code, len(ERROR_MSG))
	}
	lockId, _ := hex.DecodeString(c.Id)
	res := &LockResultCommand{}
	res.Magic, res.Version, res.CommandType, res.Result = MAGIC, VERSION, uint8(c.Nums[4]), uint8(c.Code)
	copy(res.LockId[:], lockId)
	res.Lcount, res.Count, res.Lrcount, res.Rcount = uint16(c.Nums[0]), uint16(c.Nums[1]), uint8(c.Nums[2]), uint8(c.Nums[3])
	var data []byte
	if c.Data != nil {
		data = c.Data.bytes()
		res.Flag |= LOCK_FLAG_CONTAINS_DATA
		res.Data = NewLockResultCommandDataFromBytes(data, 0, LOCK_DATA_COMMAND_TYPE_SET, 0)
		info.class("with DATA")
	}
	info.nontrivial = c.Code != 0 || c.Nums[0] != 0 || c.Nums[2] != 0
	tp := &c14TextProto{parser: NewTextParser(make([]byte, 1024), make([]byte, 1024))}
	sink := &c14Sink{}
	if err := NewTextCommandConverter().WriteTextLockAndUnLockCommandResult(tp, sink, res); err != nil {
		return info, c14Fail("C14:TextLockResult:render", "WriteTextLockAndUnLockCommandResult: %v", err)
	}
	w := &c14Wire{}
	elems := []string{fmt.Sprint(c.Code), ERROR_MSG[c.Code], "LOCK_ID", hex.EncodeToString(res.LockId[:]), "LCOUNT", fmt.Sprint(c.Nums[0]),
		"COUNT", fmt.Sprint(c.Nums[1] + 1), "LRCOUNT", fmt.Sprint(c.Nums[2]), "RCOUNT", fmt.Sprint(c.Nums[3] + 1)}
	if c.Data != nil {
		elems = append(elems, "DATA", string(data))
	}
	w.lenLine('*', len(elems))
	for _, e := range elems {
		w.bulk([]byte(e))
	}
	if !bytes.Equal(sink.buf, w.buf) {
		return info, c14Fail("C14:TextLockResult:render", "reply for code %d is %s, documented form is %s", c.Code, c14Quote(string(sink.buf)), c14Quote(string(w.buf)))
	}
	// and the client's parser reads it back
	p := NewTextParser(make([]byte, 4096), nil)
	copy(p.GetReadBuf(), sink.buf)
	p.BufferUpdate(len(sink.buf))
	if err := p.ParseResponse(); err != nil || !p.IsParseFinish() || fmt.Sprint(p.GetArgs()) != fmt.Sprint(elems) {
		return info, c14Fail("C14:TextLockResult:render", "ParseResponse of the rendered reply: err=%v args=%q", err, p.GetArgs())
	}
	return info, nil
}

func TestC14_ResultCodeText(t *testing.T) {
	st := vstat("TestC14_ResultCodeText")
	rapid.Check(t, func(t *rapid.T) {
		maxCode := RESULT_LOCK_ACK_WAITING // 12, the highest RESULT_* constant
		if vIsKnown(fmt.Sprintf("%s%d", c14KeyErrMsg, 12)) {
			maxCode = 11
			st.Exclude("result code 12 not generated: known finding C14:ERROR_MSG:missing-entry-12")
		}
		c := &c14Case{Kind: "render", Code: rapid.IntRange(0, maxCode).Draw(t, "code")}
		c.Id = hex.EncodeToString(c14GenBytes(t, 16, "lockId"))
		// COUNT / RCOUNT as the text protocol can express them: wire value = text value - 1, text value <= 0xffff / 0xff
		c.Nums = []uint64{uint64(rapid.Uint16().Draw(t, "lcount")), uint64(rapid.IntRange(0, 0xfffe).Draw(t, "count")),
			uint64(rapid.Uint8().Draw(t, "lrcount")), uint64(rapid.IntRange(0, 0xfe).Draw(t, "rcount")),
			uint64(rapid.SampledFrom([]int{COMMAND_LOCK, COMMAND_UNLOCK}).Draw(t, "cmdType"))}
		if rapid.IntRange(0, 3).Draw(t, "withData") == 0 {
			a := c14ArgOf(rapid.SliceOfN(rapid.Byte(), 0, 64).Draw(t, "data"))
			c.Data = &a
		}
		c14Check(t, "TestC14_ResultCodeText", c, vHash(c.Code, c.Id, fmt.Sprint(c.Nums), c.Data != nil))
	})
}

// ---------------------------------------------------------------------------------------------
// text LOCK / UNLOCK -> binary command fields (README "Redis Text Protocol")

func c14RunTextLock(c *c14Case) (c14Info, error) {
	var info c14Info
	const key = "C14:TextLockConvert:fields"
	args := make([]string, len(c.Args))
	for i, a := range c.Args {
		args[i] = string(a.bytes())
	}
	lastId, _ := hex.DecodeString(c.LastId)
	tp := &c14TextProto{parser: NewTextParser(make([]byte, 64), make([]byte, 64)), dbId: uint8(c.DbId)}
	copy(tp.lockId[:], lastId)
	// a recycled command object: every field the request defines must be overwritten
	dirty := &LockCommand{Command: Command{Magic: 0xee, Version: 0xee, CommandType: 0xee}, Flag: 0xee, DbId: 0xee, TimeoutFlag: 0xeeee, Timeout: 0xeeee,
		ExpriedFlag: 0xeeee, Expried: 0xeeee, Count: 0xeeee, Rcount: 0xee}
	for i := range dirty.LockId {
		dirty.RequestId[i], dirty.LockId[i], dirty.LockKey[i] = 0xee, 0xee, 0xee
	}
	tp.cmd = dirty
	cmd, _, err := NewTextCommandConverter().ConvertTextLockAndUnLockCommand(tp, args)
	if err != nil {
		return info, c14Fail(key, "in-domain request %q refused: %v", args, err)
	}
	wantType := uint8(COMMAND_LOCK)
	if strings.ToUpper(args[0]) == "UNLOCK" {
		wantType = COMMAND_UNLOCK
	}
	wantKey, kc := c14Normalise([]byte(args[1]))
	info.class("key " + kc)
	opts := map[string]string{}
	for i := 2; i+1 < len(args); i += 2 {
		opts[args[i]] = args[i+1]
	}
	num := func(name string) (uint64, bool) {
		v, ok := opts[name]
		if !ok {
			return 0, false
		}
		var u uint64
		fmt.Sscan(v, &u)
		return u, true
	}
	fail := func(f string, got, want interface{}) (c14Info, error) {
		return info, c14Fail(key, "%q -> %s = %v, README semantics give %v", args, f, got, want)
	}
	if v, ok := num("WILL"); ok && v > 0 {
		wantType += 7 // COMMAND_WILL_LOCK = 8, COMMAND_WILL_UNLOCK = 9
		info.class("WILL")
	}
	if cmd.Magic != MAGIC || cmd.Version != VERSION || cmd.CommandType != wantType {
		return fail("Magic/Version/CommandType", []uint8{cmd.Magic, cmd.Version, cmd.CommandType}, []uint8{MAGIC, VERSION, wantType})
	}
	if cmd.DbId != uint8(c.DbId) {
		return fail("DbId", cmd.DbId, c.DbId)
	}
	if cmd.LockKey != wantKey {
		return fail("LockKey", hex.EncodeToString(cmd.LockKey[:]), hex.EncodeToString(wantKey[:]))
	}
	if v, ok := opts["LOCK_ID"]; ok {
		wantId, ic := c14Normalise([]byte(v))
		info.class("id " + ic)
		if cmd.LockId != wantId {
			return fail("LockId", hex.EncodeToString(cmd.LockId[:]), hex.EncodeToString(wantId[:]))
		}
	} else if wantType == COMMAND_UNLOCK || wantType == COMMAND_WILL_UNLOCK {
		// "if not specified, the last lock_id will be used automatically"
		if cmd.LockId != tp.lockId {
			return fail("LockId (last lock id)", hex.EncodeToString(cmd.LockId[:]), c.LastId)
		}
	} else if bytes.Equal(cmd.LockId[:], bytes.Repeat([]byte{0xee}, 16)) {
		// "The lock ID is automatically generated without specifying the lock_id"
		return fail("LockId (generated)", "left over from the recycled command", "a generated id")
	}
	if v, ok := num("TIMEOUT"); ok {
		// "4 bytes unsigned integer, high 2 bytes is FLAG, low 2 bytes is time"
		if cmd.Timeout != uint16(v) || cmd.TimeoutFlag != uint16(v>>16) {
			return fail("Timeout/TimeoutFlag", []uint16{cmd.Timeout, cmd.TimeoutFlag}, []uint16{uint16(v), uint16(v >> 16)})
		}
		if v>>16 != 0 {
			info.class("TIMEOUT with flag half")
		}
	}
	if v, ok := num("EXPRIED"); ok {
		if cmd.Expried != uint16(v) || cmd.ExpriedFlag != uint16(v>>16) {
			return fail("Expried/ExpriedFlag", []uint16{cmd.Expried, cmd.ExpriedFlag}, []uint16{uint16(v), uint16(v >> 16)})
		}
	}
	if v, ok := num("FLAG"); ok && cmd.Flag != uint8(v) {
		return fail("Flag", cmd.Flag, v)
	} else if !ok && cmd.Flag != 0 {
		return fail("Flag (absent)", cmd.Flag, 0)
	}
	// COUNT n = "maximum locking times": wire Count = n-1 (0 stays 0); same for RCOUNT
	minus1 := func(v uint64) uint64 {
		if v > 0 {
			return v - 1
		}
		return 0
	}
	if v, ok := num("COUNT"); ok && uint64(cmd.Count) != minus1(v) {
		return fail("Count", cmd.Count, minus1(v))
	} else if !ok && cmd.Count != 0 {
		return fail("Count (absent)", cmd.Count, 0)
	}
	if v, ok := num("RCOUNT"); ok && uint64(cmd.Rcount) != minus1(v) {
		return fail("Rcount", cmd.Rcount, minus1(v))
	} else if !ok && cmd.Rcount != 0 {
		return fail("Rcount (absent)", cmd.Rcount, 0)
	}
	if cmd.Data != nil {
		return fail("Data", "set", "nil")
	}
	info.nontrivial = len(opts) >= 3
	return info, nil
}

func TestC14_TextLockConvert(t *testing.T) {
	rapid.Check(t, func(t *rapid.T) {
		c := &c14Case{Kind: "textlock", DbId: rapid.IntRange(0, 255).Draw(t, "dbId"), LastId: hex.EncodeToString(c14GenBytes(t, 16, "lastId"))}
		name := rapid.SampledFrom([]string{"LOCK", "UNLOCK"}).Draw(t, "cmd")
		c.Args = []c14Arg{c14ArgOf([]byte(name)), c14ArgOf(c14GenKeyString(t, "key"))}
		// option grammar of the README; each option at most once (repetition is not documented), documented value ranges
		type opt struct {
			name string
			max  uint64
		}
		pool := []opt{{"LOCK_ID", 0}, {"FLAG", 0xff}, {"RCOUNT", 0xff}, {"WILL", 1}}
		if name == "LOCK" {
			pool = append(pool, opt{"TIMEOUT", 0xffffffff}, opt{"EXPRIED", 0xffffffff}, opt{"COUNT", 0xffff})
		}
		perm := rapid.Permutation(pool).Draw(t, "order")
		k := rapid.IntRange(0, len(perm)).Draw(t, "options")
		for _, o := range perm[:k] {
			c.Args = append(c.Args, c14ArgOf([]byte(o.name)))
			if o.name == "LOCK_ID" {
				c.Args = append(c.Args, c14ArgOf(c14GenKeyString(t, "lockId")))
				continue
			}
			v := rapid.Uint64Range(0, o.max).Draw(t, o.name)
			switch rapid.IntRange(0, 5).Draw(t, o.name+"Edge") {
			case 0:
				v = 0
			case 1:
				v = o.max
			case 2:
				v = v & 0xffff
			}
			c.Args = append(c.Args, c14ArgOf([]byte(fmt.Sprint(v))))
		}
		var parts []interface{}
		for _, a := range c.Args {
			parts = append(parts, a.Hex)
		}
		c14Check(t, "TestC14_TextLockConvert", c, vHash(append(parts, c.DbId, c.LastId)...))
	})
}

// ---------------------------------------------------------------------------------------------
// value frames: constructors of LockCommandData vs the accessors that read them back. The README does not
// describe data frames, so these are round trips only (the server stores a request frame and returns it as result
// data, hence LockResultCommandData is the reader of what LockCommandData wrote).

const c14KeyKV = "C14:NewLockCommandDataSetKV:key-length-field"

func c14RunFrame(c *c14Case) (c14Info, error) {
	var info c14Info
	key := "C14:ValueFrame:" + c.Sub
	info.class("frame:" + c.Sub)
	lenOK := func(b []byte) error {
		if len(b) < 6 || int(uint32(b[0])|uint32(b[1])<<8|uint32(b[2])<<16|uint32(b[3])<<24) != len(b)-4 {
			return c14Fail(key, "frame length prefix does not match frame size %d: % x", len(b), b[:4])
		}
		return nil
	}
	switch c.Sub {
	case "props":
		data := c.Data.bytes()
		stage, typ, flag := uint8(c.Nums[0]), uint8(c.Nums[1]), uint8(c.Nums[2])
		var props []*LockCommandDataProperty
		if len(c.Nums) > 3 && c.Nums[3] == 1 {
			props = []*LockCommandDataProperty{}
		}
		for _, p := range c.Props {
			v := p.Value.bytes()
			if p.Nil {
				v = nil
			}
			props = append(props, NewLockCommandDataProperty(uint8(p.Code), v))
		}
		d := NewLockCommandDataFromBytes(data, stage, typ, flag, props)
		ds := NewLockCommandDataFromString(string(data), stage, typ, flag, props)
		if !bytes.Equal(d.Data, ds.Data) {
			return info, c14Fail(key, "FromBytes and FromString build different frames")
		}
		if err := lenOK(d.Data); err != nil {
			return info, err
		}
		wantFlag := flag
		if props != nil {
			wantFlag |= LOCK_DATA_FLAG_CONTAINS_PROPERTY
		}
		r := NewLockResultCommandDataFromOriginBytes(d.Data)
		q := NewLockCommandDataFromOriginBytes(d.Data)
		if r.CommandStage != stage || r.CommandType != typ || r.DataFlag != wantFlag || q.CommandStage != stage || q.CommandType != typ || q.DataFlag != wantFlag {
			return info, c14Fail(key, "stage/type/flag read back as %d/%d/%#x, built with %d/%d/%#x", r.CommandStage, r.CommandType, r.DataFlag, stage, typ, wantFlag)
		}
		if typ != LOCK_DATA_COMMAND_TYPE_UNSET {
			if !bytes.Equal(r.GetBytesValue(), data) || !bytes.Equal(q.GetBytesValue(), data) || r.GetStringValue() != string(data) || r.GetValueSize() != len(data) {
				return info, c14Fail(key, "value read back as %x, built with %x (frame %x)", r.GetBytesValue(), data, d.Data)
			}
		}
		got := r.GetDataProperties()
		if (props == nil) != (got == nil) || len(got) != len(props) {
			return info, c14Fail(key, "%d properties read back, %d written", len(got), len(props))
		}
		for i, p := range props {
			if got[i].Code != p.Code || !bytes.Equal(got[i].Value, p.Value) {
				return info, c14Fail(key, "property %d read back as (%d,%x), written (%d,%x)", i, got[i].Code, got[i].Value, p.Code, p.Value)
			}
			first := true
			for _, e := range props[:i] {
				if e.Code == p.Code {
					first = false
				}
			}
			if one := r.GetDataProperty(p.Code); first && (one == nil || !bytes.Equal(one.Value, p.Value)) {
				return info, c14Fail(key, "GetDataProperty(%d) does not return the first property with that code", p.Code)
			}
		}
		info.nontrivial = len(props) > 0 && len(data) > 0
		if len(props) > 0 {
			info.class("with properties")
		}
	case "array":
		var vals [][]byte
		for _, a := range c.Args {
			vals = append(vals, a.bytes())
		}
		d := NewLockCommandDataSetArray(vals)
		if err := lenOK(d.Data); err != nil {
			return info, err
		}
		got := NewLockResultCommandDataFromOriginBytes(d.Data).GetArrayValue()
		if len(got) != len(vals) {
			return info, c14Fail(key, "%d elements read back, %d written", len(got), len(vals))
		}
		for i := range vals {
			if !bytes.Equal(got[i], vals[i]) {
				return info, c14Fail(key, "element %d read back as %x, written %x", i, got[i], vals[i])
			}
		}
		info.nontrivial = len(vals) >= 2
	case "kv":
		m := map[string][]byte{}
		same := true
		for k, v := range c.KV {
			kb, _ := hex.DecodeString(k)
			vb, _ := hex.DecodeString(v)
			m[string(kb)] = vb
			if len(kb) != len(vb) {
				same = false
			}
		}
		if !same {
			key = c14KeyKV
			info.class("key and value of different length")
		}
		d := NewLockCommandDataSetKV(m)
		if err := lenOK(d.Data); err != nil {
			return info, err
		}
		var got map[string][]byte
		if _, err := c14Guard(key, func() (c14Info, error) {
			got = NewLockResultCommandDataFromOriginBytes(d.Data).GetKVValue()
			return info, nil
		}); err != nil {
			return info, c14Fail(key, "GetKVValue on the frame built by NewLockCommandDataSetKV(%q): %v (frame %x)", m, err, d.Data)
		}
		if len(got) != len(m) {
			return info, c14Fail(key, "%d pairs read back, %d written (frame %x)", len(got), len(m), d.Data)
		}
		for k, v := range m {
			if !bytes.Equal(got[k], v) {
				return info, c14Fail(key, "key %q read back as %x, written %x (frame %x)", k, got[k], v, d.Data)
			}
		}
		info.nontrivial = len(m) >= 1 && !same
	case "execute":
		inner, _ := hex.DecodeString(c.Inner)
		cmd := &LockCommand{}
		_ = cmd.Decode(inner) // field carrier only; LockCommand's own codec is checked by the round-trip properties
		cmd.Flag &^= LOCK_FLAG_CONTAINS_DATA
		if c.Data != nil {
			cmd.Data = NewLockCommandDataSetData(c.Data.bytes())
		}
		stage := uint8(c.Nums[0])
		want := *cmd
		d := NewLockCommandDataExecuteData(cmd, stage)
		if d == nil {
			return info, c14Fail(key, "constructor returned nil")
		}
		if err := lenOK(d.Data); err != nil {
			return info, err
		}
		if d.CommandStage != stage || d.CommandType != LOCK_DATA_COMMAND_TYPE_EXECUTE || NewLockCommandDataFromOriginBytes(d.Data).CommandStage != stage {
			return info, c14Fail(key, "stage/type read back as %d/%d", d.CommandStage, d.CommandType)
		}
		back := &LockCommand{}
		if err := NewLockCommandDataFromOriginBytes(d.Data).DecodeLockCommand(back); err != nil {
			return info, c14Fail(key, "DecodeLockCommand: %v", err)
		}
		if c.Data != nil {
			want.Flag |= LOCK_FLAG_CONTAINS_DATA
			if back.Data == nil || !bytes.Equal(back.Data.Data, want.Data.Data) {
				return info, c14Fail(key, "nested data frame lost")
			}
		} else if back.Data != nil {
			return info, c14Fail(key, "nested data frame invented")
		}
		back.Data, want.Data = nil, nil
		if *back != want {
			return info, c14Fail(key, "nested command read back as %+v, written %+v", *back, want)
		}
		info.nontrivial = c.Data != nil
	case "scalar":
		v := c.Nums[0]
		if got := NewLockCommandDataIncrData(int64(v)); got.GetIncrValue() != int64(v) || NewLockResultCommandDataFromOriginBytes(got.Data).GetIncrValue() != int64(v) || lenOK(got.Data) != nil {
			return info, c14Fail(key, "INCR %d read back as %d", int64(v), got.GetIncrValue())
		}
		if got := NewLockCommandDataShiftData(uint32(v)); got.GetShiftLengthValue() != uint32(v) || lenOK(got.Data) != nil {
			return info, c14Fail(key, "SHIFT %d read back as %d", uint32(v), got.GetShiftLengthValue())
		}
		if got := NewLockCommandDataPopData(uint32(v)); got.GetPopCountValue() != uint32(v) || lenOK(got.Data) != nil {
			return info, c14Fail(key, "POP %d read back as %d", uint32(v), got.GetPopCountValue())
		}
		info.nontrivial = v > 0xff
	default:
		return info, fmt.Errorf("bad sub %q", c.Sub)
	}
	return info, nil
}

func TestC14_ValueFrames(t *testing.T) {
	st := vstat("TestC14_ValueFrames")
	rapid.Check(t, func(t *rapid.T) {
		c := &c14Case{Kind: "frame", Sub: rapid.SampledFrom([]string{"props", "props", "array", "kv", "execute", "scalar"}).Draw(t, "sub")}
		small := rapid.SliceOfN(rapid.Byte(), 0, 40)
		switch c.Sub {
		case "props":
			a := c14ArgOf(small.Draw(t, "data"))
			c.Data = &a
			// flag bits other than CONTAINS_PROPERTY (0x10), which the constructor owns
			c.Nums = []uint64{uint64(rapid.IntRange(0, 3).Draw(t, "stage")), uint64(rapid.IntRange(0, 8).Draw(t, "type")),
				uint64(rapid.SampledFrom([]int{0, 1, 2, 4, 0x20, 0x27}).Draw(t, "flag")), 0}
			n := rapid.IntRange(0, 4).Draw(t, "nprops")
			if n == 0 && rapid.Bool().Draw(t, "emptyList") {
				c.Nums[3] = 1 // empty but non-nil property list
			}
			for i := 0; i < n; i++ {
				p := c14Prop{Code: rapid.IntRange(0, 255).Draw(t, "code")}
				switch rapid.IntRange(0, 4).Draw(t, "valueKind") {
				case 0:
					p.Nil = true
				case 1:
					p.Value = c14ArgOf(rapid.SliceOfN(rapid.Byte(), 200, 400).Draw(t, "longValue"))
				default:
					p.Value = c14ArgOf(rapid.SliceOfN(rapid.Byte(), 1, 40).Draw(t, "value"))
				}
				c.Props = append(c.Props, p)
			}
		case "array":
			// non-empty elements: how an empty element is represented is not stated anywhere
			n := rapid.IntRange(0, 6).Draw(t, "n")
			for i := 0; i < n; i++ {
				c.Args = append(c.Args, c14ArgOf(rapid.SliceOfN(rapid.Byte(), 1, 40).Draw(t, "elem")))
			}
		case "kv":
			c.KV = map[string]string{}
			n := rapid.IntRange(0, 4).Draw(t, "n")
			known := vIsKnown(c14KeyKV)
			for i := 0; i < n; i++ {
				k := rapid.SliceOfN(rapid.Byte(), 1, 12).Draw(t, "k")
				v := rapid.SliceOfN(rapid.Byte(), 1, 12).Draw(t, "v")
				if known {
					st.Exclude("keys and values of different length not generated: known finding " + c14KeyKV)
					v = append(v, k...)[:len(k)]
				}
				c.KV[hex.EncodeToString(k)] = hex.EncodeToString(v)
			}
		case "execute":
			inner := rapid.SliceOfN(rapid.Byte(), 64, 64).Draw(t, "inner")
			c.Inner = hex.EncodeToString(inner)
			c.Nums = []uint64{uint64(rapid.IntRange(0, 3).Draw(t, "stage"))}
			if rapid.Bool().Draw(t, "withData") {
				a := c14ArgOf(small.Draw(t, "data"))
				c.Data = &a
			}
		case "scalar":
			c.Nums = []uint64{rapid.Uint64().Draw(t, "v")}
		}
		kv := make([]string, 0, len(c.KV))
		for k, v := range c.KV {
			kv = append(kv, k+"="+v)
		}
		sort.Strings(kv)
		parts := []interface{}{c.Sub, fmt.Sprint(c.Nums), c.Inner, fmt.Sprint(c.Props), fmt.Sprint(c.Args), strings.Join(kv, ",")}
		if c.Data != nil {
			parts = append(parts, c.Data.Hex)
		}
		c14Check(t, "TestC14_ValueFrames", c, vHash(parts...))
	})
}

// ---------------------------------------------------------------------------------------------
// replay of committed / freshly found cases without rapid

func TestC14_Replay(t *testing.T) {
	for _, f := range vReplayFiles("C14") {
		var head struct {
			Kind string `json:"kind"`
		}
		if _, err := vLoadReplay(f, &head); err != nil {
			t.Fatalf("cannot load replay %s: %v", f, err)
		}
		if _, ok := map[string]bool{"roundtrip": true, "decenc": true, "textreq": true, "textresp": true, "keyid": true, "render": true, "textlock": true, "frame": true}[head.Kind]; !ok {
			continue // a case of the server package
		}
		var c c14Case
		key, err := vLoadReplay(f, &c)
		if err != nil {
			t.Fatalf("cannot load replay %s: %v", f, err)
		}
		_, rerr := c14Run(&c)
		fmt.Printf("VERIF-KF key=%s reproduced=%v file=%s %v\n", key, rerr != nil, f, rerr)
	}
}
