package server

import (
	"encoding/json"
	"fmt"
	"testing"
)

// TestC10_Replay re-executes committed / freshly found C10 cases without rapid ("forward" scripts and
// "expiry" cases). Suppressions for listed findings are off while replaying.
func TestC10_Replay(t *testing.T) {
	for _, f := range vReplayFiles("C10") {
		var raw json.RawMessage
		key, err := vLoadReplay(f, &raw)
		if err != nil {
			t.Fatalf("cannot load replay %s: %v", f, err)
		}
		var kind struct {
			Kind string `json:"kind"`
		}
		_ = json.Unmarshal(raw, &kind)
		var rerr error
		got := ""
		n09ReplayMode = true
		switch kind.Kind {
		case "forward":
			var c n10Case
			if err = json.Unmarshal(raw, &c); err != nil {
				t.Fatalf("replay %s: %v", f, err)
			}
			tries := vEnvInt("VERIF_REPLAY_TRIES", 5)
			for i := 0; i < tries && rerr == nil; i++ {
				out := n10RunCase(&c)
				if out.info.inconclusive != "" {
					fmt.Printf("VERIF-NOTE replay %s inconclusive: %.300s\n", f, out.info.inconclusive)
					continue
				}
				rerr = out.err
				got = " observed-key=" + out.key
			}
		case "expiry":
			var c n10ExpCase
			if err = json.Unmarshal(raw, &c); err != nil {
				t.Fatalf("replay %s: %v", f, err)
			}
			_, k, e, inc := n10RunExpiry(&c)
			if inc != "" {
				fmt.Printf("VERIF-NOTE replay %s inconclusive: %.300s\n", f, inc)
			}
			rerr = e
			got = " observed-key=" + k
		default:
			n09ReplayMode = false
			t.Fatalf("replay %s: unknown kind %q", f, kind.Kind)
		}
		n09ReplayMode = false
		fmt.Printf("VERIF-KF key=%s reproduced=%v file=%s%s %v\n", key, rerr != nil, f, got, rerr)
	}
}
