#!/bin/bash
# dev helper: build harness against ${VERIF_REPO:-/repo} and run one test regex in a fresh scratch dir
# usage: tools/dev.sh <pkg> <testregex> [checks] [seed] [extra test args...]
export GOFLAGS=-mod=mod GOPROXY=off GOSUMDB=off GOTOOLCHAIN=local
PKG=$1; RUN=$2; CHECKS=${3:-300}; SEED=${4:-5}; shift 4
B=$(mktemp -d -t verif-dev-XXXXXX)
trap 'rm -rf "$B"' EXIT
/verif/harness/gen_build.sh $B || exit 2
(cd ${VERIF_REPO:-/repo} && go test -c -vet=off -tags verif -modfile $B/go.mod -overlay $B/overlay.json -o $B/t.test ./$PKG) || exit 2
mkdir -p $B/run/fail $B/run/data && cd $B/run
# exclusions by construction as the driver sets them: every key listed as known (all properties)
export VERIF_KNOWN_KEYS=${VERIF_KNOWN_KEYS-$(python3 -c "import json;print(','.join(f['key'] for f in json.load(open('/verif/known_findings.json'))['findings'] if f['status']=='known'))")}
VERIF_STATS=$B/run/stats.json VERIF_FAILDIR=$B/run/fail VERIF_DATADIR=$B/run/data VERIF_REPLAY_DIR=/verif/replays $B/t.test -test.run "$RUN" -rapid.checks $CHECKS -rapid.seed $SEED -test.timeout ${DEV_TIMEOUT:-300s} "$@" 2>&1 | grep -v "rapid\] draw" > $B/out.txt
rc=${PIPESTATUS[0]}
head -c ${DEV_HEAD:-6000} $B/out.txt
echo; echo "== rc=$rc"
if ls $B/run/fail/*.json >/dev/null 2>&1; then
  mkdir -p /tmp/verif-dev-last && cp $B/run/fail/*.json /tmp/verif-dev-last/ && echo "case files copied to /tmp/verif-dev-last/"
fi
[ -f $B/run/stats.json ] && python3 -c "
import json,sys
d=json.load(open('$B/run/stats.json'))
for t,s in d.items():
    print(t, 'evals',s['evaluations'],'nontrivial',s['nontrivial_cases']); 
    for k,v in sorted(s['classes'].items()): print('   ',v,k)
"
