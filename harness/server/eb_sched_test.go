package server

// Engine B: controlled schedules (DESIGN §4). A sequential prefix (engine A) sets up holders and waiters;
// then 2..5 logical threads (client requests, timeout/expiry sweeps of one clock second) run as goroutines
// that park at the shard-mutex hook points H2 (about to lock) / H3 (just unlocked). Exactly one registered
// goroutine runs at a time and the rapid-drawn schedule decides which parked thread continues, so an
// execution is a function of the case. After every segment (nobody inside a critical section) the
// in-package snapshot is compared with the previous one.

import (
	"bytes"
	"fmt"
	"os"
	"runtime"
	"sort"
	"strconv"
	"strings"
	"sync"
	"testing"
	"time"

	"pgregory.net/rapid"
)

type bThread struct {
	Ops   []aOp `json:"ops,omitempty"`   // client thread: requests issued one after the other
	Sweep int   `json:"sweep,omitempty"` // sweeper thread: advance the clock by Sweep seconds and run both sweeps
	Demote bool `json:"demote,omitempty"` // role-change thread: SLock.updateState(STATE_FOLLOWER), as a leader that loses leadership does (C10)
}

type bCase struct {
	Prefix   aCase     `json:"prefix"`
	Threads  []bThread `json:"threads"`
	Schedule []int     `json:"schedule"` // which runnable thread continues at each scheduling point (mod #runnable)
	// Stall (1-based thread number, 0 = none): that thread runs first up to its first scheduling point and is then
	// continued only when no other thread can run (a request parked in front of the shard mutex for a long time)
	Stall int `json:"stall,omitempty"`
}

func (c *bCase) fingerprint() uint64 {
	var sb strings.Builder
	for _, t := range c.Threads {
		for _, o := range t.Ops {
			sb.WriteString(o.String())
		}
		fmt.Fprintf(&sb, "|%d;", t.Sweep)
	}
	return vHash(c.Prefix.fingerprint(), sb.String(), fmt.Sprint(c.Schedule, c.Stall))
}

func bGoid() int64 {
	var buf [64]byte
	n := runtime.Stack(buf[:], false)
	f := bytes.Fields(buf[:n])
	if len(f) < 2 {
		return -1
	}
	id, _ := strconv.ParseInt(string(f[1]), 10, 64)
	return id
}

type bSched struct {
	mu      sync.Mutex
	byGoid  map[int64]int
	resume  []chan struct{}
	events  chan bEvent
	done    []bool
	started []bool
}

type bEvent struct {
	thread int
	kind   int // 0 parked, 1 finished, 2 panicked
	msg    string
}

func (s *bSched) yield(point int) {
	if point != verifPointBeforeLock && point != verifPointAfterUnlock {
		return
	}
	s.mu.Lock()
	idx, ok := s.byGoid[bGoid()]
	s.mu.Unlock()
	if !ok {
		return
	}
	s.events <- bEvent{idx, 0, ""}
	<-s.resume[idx]
}

type bInfo struct {
	segments     int
	switches     int
	grantsInRace int
	sweeperRaces int
	newHolders   int
	removed      int
	queueGrants  int
	asyncReplies int
}

const bWatchdog = 20 * time.Second

// bRun executes a case. The returned violation (if any) is tagged with the properties it decides.
func bRun(c *bCase, pick func(n int) int) (info bInfo, viol *aViolation, hist string, inconclusive string) {
	pc := c.Prefix
	e, err := aNewEnv(&pc)
	if err != nil {
		return info, nil, "", "cannot create instance: " + err.Error()
	}
	abandon := false
	defer func() {
		vSetYieldExtra(func(int) {})
		if !abandon {
			e.close()
		}
	}()
	for _, op := range pc.Ops {
		if msg := aSafe(e, func() { e.apply(op) }); msg != "" {
			return info, &aViolation{"C01,C03,C04,C17", msg}, e.history(), ""
		}
		if e.mon.stop {
			break
		}
	}
	if v := e.mon.verdict(); v != nil {
		return info, v, e.history(), ""
	}
	// ---- concurrent phase
	e.mon.passive = true
	if bKnownCmdReuse && !bProbeCmdReuse {
		// known finding: the command object of a hold is freed by whoever ends or re-terms the hold while the thread
		// that was granted it may still be about to send its reply with that object; the connection pools then hand
		// the object to an unrelated request. While listed, the harness clients do not recycle command objects, so
		// the search continues behind it (the committed replay uses the pools).
		e.freshCmds = true
		bCmdReuseExcluded++
	}
	bRemoved = map[string][]aSnapHold{}
	bFirstReq = len(e.reqs)
	e.logf("--- concurrent phase: %d threads", len(c.Threads))
	s := &bSched{byGoid: map[int64]int{}, events: make(chan bEvent, 64)}
	n := len(c.Threads)
	s.resume = make([]chan struct{}, n)
	s.done = make([]bool, n)
	s.started = make([]bool, n)
	for i := range c.Threads {
		s.resume[i] = make(chan struct{})
	}
	vSetYieldExtra(s.yield)
	for i := range c.Threads {
		th := c.Threads[i]
		idx := i
		go func() {
			s.mu.Lock()
			s.byGoid[bGoid()] = idx
			s.mu.Unlock()
			<-s.resume[idx]
			defer func() {
				s.mu.Lock()
				delete(s.byGoid, bGoid())
				s.mu.Unlock()
				if r := recover(); r != nil {
					s.events <- bEvent{idx, 2, fmt.Sprintf("panic: %v\n%s", r, vRepoFrames())}
					return
				}
				s.events <- bEvent{idx, 1, ""}
			}()
			if th.Demote {
				e.inst.slock.updateState(STATE_FOLLOWER)
			}
			if th.Sweep > 0 {
				e.tick(aOp{K: "tick", N: th.Sweep})
			}
			for _, op := range th.Ops {
				if op.K == "tick" {
					e.tick(op)
				} else {
					e.send(op)
				}
			}
		}()
	}
	prev := bSnapAll(e)
	step := 0
	last := -1
	var deferred *aViolation
	deferredHist := ""
	var demSnap bSnap
	demFirstReq := 1 << 30 // index of the first request sent after the role change had finished
	for {
		var runnable []int
		for i := 0; i < n; i++ {
			if !s.done[i] {
				runnable = append(runnable, i)
			}
		}
		if len(runnable) == 0 {
			break
		}
		if c.Stall > 0 && c.Stall <= n && !s.done[c.Stall-1] {
			if step == 0 {
				runnable = []int{c.Stall - 1}
			} else if len(runnable) > 1 {
				var rest []int
				for _, i := range runnable {
					if i != c.Stall-1 {
						rest = append(rest, i)
					}
				}
				runnable = rest
			}
		}
		k := runnable[pick(len(runnable))%len(runnable)]
		if last >= 0 && k != last {
			info.switches++
		}
		last = k
		step++
		e.logf("  [sched %d] thread %d continues", step, k)
		s.resume[k] <- struct{}{}
		var ev bEvent
		select {
		case ev = <-s.events:
		case <-time.After(bWatchdog):
			abandon = true
			return info, nil, e.history(), fmt.Sprintf("thread %d neither parked nor finished within %v", k, bWatchdog)
		}
		if ev.kind == 2 {
			abandon = true
			return info, &aViolation{"C01,C03,C04,C17", fmt.Sprintf("thread %d: %s", ev.thread, ev.msg)}, e.history(), ""
		}
		if ev.kind == 1 {
			s.done[ev.thread] = true
		}
		info.segments++
		cur := bSnapAll(e)
		if demSnap != nil {
			// C10: a node that is no longer the leader neither grants, queues nor releases anything in answer to a client
			if d := bSnapDiff(demSnap, cur); d != "" {
				h := e.history()
				abandon = !bFinish(s)
				return info, &aViolation{"C10", "after the node had left leadership its lock table changed in answer to a client request: " + d}, h, ""
			}
		} else {
			for i, th := range c.Threads {
				if th.Demote && s.done[i] {
					demSnap = cur
					demFirstReq = len(e.reqs)
					e.logf("  --- role change finished: the node is a follower now")
				}
			}
		}
		if v := bTransition(e, prev, cur, &info); v != nil {
			if pc.Prop == "*" || pc.Prop == "" || strings.Contains(v.Props, pc.Prop) {
				// let the other threads run to their end so that the instance can be closed, then report
				h := e.history()
				abandon = !bFinish(s)
				return info, v, h, ""
			}
			// a violation of another property only: the run goes on, so that what follows from it for the property under
			// test (e.g. the SUCCED reply of a hold that no key records) is still observed
			if deferred == nil {
				deferred, deferredHist = v, e.history()
			}
		}
		prev = cur
		if v := e.mon.verdict(); v != nil {
			h := e.history()
			abandon = !bFinish(s)
			return info, v, h, ""
		}
	}
	vSetYieldExtra(func(int) {})
	if demSnap != nil {
		// a follower cannot be drained by client requests; what C10 asks for was checked after every segment, and no
		// request sent after the role change may have been answered SUCCED
		for _, r := range e.reqs {
			if r.Idx >= demFirstReq && r.Terminal >= 0 && r.Replies[r.Terminal].Result == rSUCCED {
				return info, &aViolation{"C10", fmt.Sprintf("request #%d, sent after the node had left leadership, was answered SUCCED", r.Idx)}, e.history(), ""
			}
		}
		return info, nil, "", ""
	}
	// ---- quiescence: end-of-schedule checks, then drain from the snapshot
	if v := bQuiescent(e, prev); v != nil {
		return info, v, e.history(), ""
	}
	if deferred != nil {
		return info, deferred, deferredHist, ""
	}
	e.logf("--- drain")
	if msg := aSafe(e, func() { bDrain(e, prev) }); msg != "" {
		return info, &aViolation{"C17,C03", msg}, e.history(), ""
	}
	for _, r := range e.reqs {
		if !r.InFlight && r.Terminal >= 0 && len(r.Replies) > 0 && r.Replies[r.Terminal].Time != r.Time {
			info.asyncReplies++
		}
	}
	if v := e.mon.verdict(); v != nil {
		return info, v, e.history(), ""
	}
	if os.Getenv("VERIF_B_TRACE") != "" {
		fmt.Printf("VERIF-TRACE engine B case\n%s\n", e.history())
	}
	return info, nil, "", ""
}

// bFinish lets every unfinished thread run to its end (round robin) so that the instance can be closed
// normally after a verdict; false if a thread does not come back (the instance is then abandoned).
func bFinish(s *bSched) bool {
	for rounds := 0; rounds < 10000; rounds++ {
		k := -1
		for i := range s.done {
			if !s.done[i] {
				k = i
				break
			}
		}
		if k < 0 {
			return true
		}
		s.resume[k] <- struct{}{}
		select {
		case ev := <-s.events:
			if ev.kind != 0 {
				s.done[ev.thread] = true
			}
		case <-time.After(3 * time.Second):
			return false
		}
	}
	return false
}

type bSnap map[string]*aSnapKey

// bSnapDiff: difference of two lock tables in holders (LockId, depth) and queued requests; "" if none.
func bSnapDiff(a, b bSnap) string {
	keys := map[string]bool{}
	for k := range a {
		keys[k] = true
	}
	for k := range b {
		keys[k] = true
	}
	ids := make([]string, 0, len(keys))
	for k := range keys {
		ids = append(ids, k)
	}
	sort.Strings(ids)
	sig := func(k *aSnapKey) string {
		if k == nil {
			return "-"
		}
		var sb strings.Builder
		for _, h := range k.Holders {
			fmt.Fprintf(&sb, "h%x/%d ", h.Id[:3], h.Depth)
		}
		for _, w := range k.Waiters {
			fmt.Fprintf(&sb, "w%x ", w.Id[:3])
		}
		return sb.String()
	}
	for _, id := range ids {
		if x, y := sig(a[id]), sig(b[id]); x != y && !(x == "" && y == "-") && !(x == "-" && y == "") {
			return fmt.Sprintf("key %s: [%s] -> [%s]", id, x, y)
		}
	}
	return ""
}

func bSnapAll(e *aEnv) bSnap {
	out := bSnap{}
	for di, d := range e.dbs {
		if d == nil {
			continue
		}
		for _, k := range aSnapshot(di, d) {
			out[fmt.Sprintf("%d/%x", di, k.Key)] = k
		}
	}
	return out
}

func bSum(k *aSnapKey) int {
	n := 0
	for _, h := range k.Holders {
		n += int(h.Depth)
	}
	return n
}

// bTransition checks one segment: what changed between two consecutive quiescent-inside snapshots.
var bRemoved = map[string][]aSnapHold{} // per key: holders that left it without expiring (reset per run)
var bFirstReq int                        // index of the first request of the concurrent phase

func bTransition(e *aEnv, prev, cur bSnap, info *bInfo) *aViolation {
	for id, k := range cur {
		if k.Foreign != "" {
			return &aViolation{"C01,C17", fmt.Sprintf("key %s records a request of another key: %s", id, k.Foreign)}
		}
		if bSum(k) != int(k.Locked) {
			return &aViolation{"C17", fmt.Sprintf("key %s: locked counter %d, sum of holder depths %d", id, k.Locked, bSum(k))}
		}
		p := prev[id]
		if p == nil {
			p = &aSnapKey{}
		}
		before := map[int]aSnapHold{}
		for _, h := range p.Holders {
			before[h.Req] = h
		}
		pids := map[[16]byte]aSnapHold{}
		for _, h := range p.Holders {
			pids[h.Id] = h
		}
		for _, h := range k.Holders {
			if _, ok := pids[h.Id]; ok {
				continue // same LockId held before: re-lock / update / unchanged
			}
			info.newHolders++
			sum := bSum(p)
			if sum > 0 {
				info.grantsInRace++
				if !(sum <= int(h.Count) && sum <= int(p.Holders[0].Count)) {
					return &aViolation{"C01", fmt.Sprintf("key %s: request #%d (Count %d) became a new holder while %d holds were outstanding (oldest holder's Count %d)", id, h.Req, h.Count, sum, p.Holders[0].Count)}
				}
			}
			// was it queued? then it must have been the first live waiter
			for i, w := range p.Waiters {
				if w.Req == h.Req {
					info.queueGrants++
					if i != 0 {
						return &aViolation{"C04", fmt.Sprintf("key %s: queued request #%d was granted from queue position %d, ahead of #%d", id, h.Req, i, p.Waiters[0].Req)}
					}
				}
			}
		}
		if len(k.Holders) < len(p.Holders) {
			info.removed++
		}
	}
	// C01: "a hold is outstanding from its SUCCED reply until its unlock is accepted, it expires, or it is rolled back":
	// a holder that is gone from a key needs a cause - an unlock request for THAT key bearing its LockId (or the
	// unlock-first flag) that has been sent (its reply may still be on its way), or a deadline that has passed
	for id, p := range prev {
		k := cur[id]
		still := map[[16]byte]bool{}
		if k != nil {
			for _, h := range k.Holders {
				still[h.Id] = true
			}
		}
		for _, h := range p.Holders {
			if still[h.Id] {
				continue
			}
			if h.EF&efUNLIMITED == 0 && h.ExpriedTime <= e.now+1 {
				continue // expired (or about to: the sweeps run a second ahead)
			}
			if h.AckCount != 0xff {
				continue // ack pending: rolled back by the ack machinery (C11)
			}
			bRemoved[id] = append(bRemoved[id], h)
			// every holder that left this key without expiring needs its own unlock request: maximum matching between the
			// removed holders and the unlock requests for the key (bearing the LockId, or with the unlock-first flag) that
			// have been sent and not refused
			var cands []*aReq
			for _, r := range e.reqs {
				if r.Idx >= bFirstReq && r.Op.K == "unlock" && r.Op.Db == p.Db && r.Key == p.Key && (r.InFlight || (r.Terminal >= 0 && r.Replies[r.Terminal].Result == rSUCCED)) {
					cands = append(cands, r)
				}
			}
			rem := bRemoved[id]
			matchOf := make([]int, len(cands)) // request index -> removed holder index + 1
			var try func(hi int, seen []bool) bool
			try = func(hi int, seen []bool) bool {
				for ci, r := range cands {
					if seen[ci] || (r.LockId != rem[hi].Id && r.Op.F&ufFIRST == 0) {
						continue
					}
					seen[ci] = true
					if matchOf[ci] == 0 || try(matchOf[ci]-1, seen) {
						matchOf[ci] = hi + 1
						return true
					}
				}
				return false
			}
			for hi := range rem {
				if !try(hi, make([]bool, len(cands))) {
					return &aViolation{"C01,C17", fmt.Sprintf("key %s: the hold of LockId %x (request #%d, deadline in %d s) is gone although it has not expired and the unlock requests sent for that key (bearing a holder's LockId, or the unlock-first flag) do not account for all %d holders that left it", id, h.Id[:3], h.Req, h.ExpriedTime-e.now, len(rem))}
				}
			}
		}
	}
	if v := bSuccedHeld(e, cur); v != nil {
		return v
	}
	// STATE counters vs census
	for di, d := range e.dbs {
		if d == nil {
			continue
		}
		locked, waits, keys := 0, 0, 0
		for id, k := range cur {
			if strings.HasPrefix(id, fmt.Sprintf("%d/", di)) {
				keys++
				locked += bSum(k)
				waits += len(k.Waiters)
			}
		}
		st := d.GetState()
		if int(st.LockedCount) != locked || int(st.WaitCount) != waits || int(st.KeyCount) != keys {
			return &aViolation{"C17", fmt.Sprintf("db %d between critical sections: STATE LockedCount/WaitCount/KeyCount = %d/%d/%d, census %d/%d/%d", di, st.LockedCount, st.WaitCount, st.KeyCount, locked, waits, keys)}
		}
	}
	return nil
}

// bQuiescent: all threads finished - no key may have an admissible request at the head of its queue, and every LOCK of
// the concurrent phase that was answered SUCCED holds its key (unless something sent meanwhile may have ended the hold).
func bQuiescent(e *aEnv, cur bSnap) *aViolation {
	if v := bSuccedHeld(e, cur); v != nil {
		return v
	}
	return bQuiescentQueues(e, cur)
}

// bSuccedHeld: a LOCK of the concurrent phase that has been answered SUCCED is a holder in its key's lock table, unless a
// request sent meanwhile may have ended or re-termed the hold (C01: a hold is outstanding from its SUCCED reply on).
func bSuccedHeld(e *aEnv, cur bSnap) *aViolation {
	for _, r := range e.reqs {
		if r.Idx < bFirstReq || r.Op.K != "lock" || r.Terminal < 0 || r.Replies[r.Terminal].Result != rSUCCED {
			continue
		}
		if r.Op.E == 0 || r.Op.EF&efUNLIMITED == 0 && r.Op.EF&efMINUTE == 0 && r.Op.E < 20 || r.Op.TF&0x1000 != 0 || r.Op.F&(fSHOW|fCONCHECK) != 0 || r.Expried > 0 {
			continue // holds nothing by design, may have expired, ack machinery, or does not take a hold
		}
		excused := false
		for _, u := range e.reqs {
			if u.Idx >= bFirstReq && u.Idx != r.Idx && u.Op.Db == r.Op.Db && u.Key == r.Key &&
				(u.Op.K == "unlock" && (u.LockId == r.LockId || u.Op.F&ufFIRST != 0) || u.Op.K == "lock" && u.LockId == r.LockId) {
				excused = true // an unlock that may have released it, or another request bearing the LockId (re-lock / update)
			}
		}
		if excused {
			continue
		}
		k := cur[fmt.Sprintf("%d/%x", r.Op.Db, r.Key)]
		held := false
		if k != nil {
			for _, h := range k.Holders {
				if h.Id == r.LockId {
					held = true
				}
			}
		}
		if !held {
			return &aViolation{"C01,C03", fmt.Sprintf("request #%d (%s) was answered SUCCED but its key's lock table does not contain the hold (nothing sent since could have released it)", r.Idx, r.Op.String())}
		}
	}
	return nil
}

func bQuiescentQueues(e *aEnv, cur bSnap) *aViolation {
	left := map[string]bool{} // keys on which a queued request left by TIMEOUT / cancel (known finding tolerance)
	for _, r := range e.reqs {
		if r.Op.K == "lock" && r.Terminal >= 0 {
			res := r.Replies[r.Terminal].Result
			if (res == rTIMEOUT && r.Op.T > 0) || res == rUNLOCK {
				left[fmt.Sprintf("%d/%x", r.Op.Db, r.Key)] = true
			}
		}
	}
	ids := make([]string, 0, len(cur))
	for id := range cur {
		ids = append(ids, id)
	}
	sort.Strings(ids)
	for _, id := range ids {
		k := cur[id]
		if len(k.Waiters) == 0 {
			continue
		}
		if aKnownNoWake && left[id] {
			continue
		}
		head := k.Waiters[0]
		var hr *aReq
		if head.Req >= 0 && head.Req < len(e.reqs) {
			hr = e.reqs[head.Req]
		}
		if hr == nil {
			continue
		}
		sum := bSum(k)
		wwu := hr.Op.TF&tfWWU != 0
		adm := false
		if sum == 0 {
			adm = !wwu
		} else if hr.Op.Cnt != 0 {
			adm = sum <= int(k.Holders[0].Count) && sum <= hr.Op.Cnt
		}
		// an update/re-lock may have raised a holder's Count without a wake-up pass (not claimed by C04)
		raised := false
		for _, r := range e.reqs {
			if r.Op.K == "lock" && r.Key == k.Key && r.Op.Db == k.Db && (r.Op.F&fUPDATE != 0 || r.Terminal >= 0 && r.Replies[r.Terminal].LRCount > 1) {
				raised = true
			}
		}
		if adm && !raised {
			return &aViolation{"C04", fmt.Sprintf("key %s at the end of the schedule: queued request #%d (Count %d) is at the head of the queue and admissible (%d holds outstanding) but was not granted", id, head.Req, hr.Op.Cnt, sum)}
		}
	}
	return nil
}

// bDrain releases everything the snapshot shows (the ledger was not driven during the concurrent phase),
// advances the clock and checks that all counts return to zero and every request got its terminal reply.
func bDrain(e *aEnv, cur bSnap) {
	ids := make([]string, 0, len(cur))
	for id := range cur {
		ids = append(ids, id)
	}
	sort.Strings(ids)
	for _, id := range ids {
		k := cur[id]
		ki := keyIndex(k.Key)
		for _, w := range k.Waiters {
			e.send(aOp{K: "unlock", Db: k.Db, Key: ki, Id: idIndex(w.Id), F: ufCANCEL})
		}
	}
	// cancelling can grant waiters behind the cancelled one: release whatever holds exist now, repeatedly
	for round := 0; round < 6; round++ {
		any := false
		for _, k := range bSnapAll(e) {
			ki := keyIndex(k.Key)
			for _, w := range k.Waiters {
				any = true
				e.send(aOp{K: "unlock", Db: k.Db, Key: ki, Id: idIndex(w.Id), F: ufCANCEL})
			}
			for _, h := range k.Holders {
				any = true
				e.send(aOp{K: "unlock", Db: k.Db, Key: ki, Id: idIndex(h.Id), Rc: 0})
			}
		}
		if !any {
			break
		}
	}
	e.tick(aOp{K: "tick", N: 24})
	for di, d := range e.dbs {
		if d == nil {
			continue
		}
		st := d.GetState()
		if st.LockedCount != 0 || st.WaitCount != 0 || st.KeyCount != 0 {
			e.mon.viol("C17", "after the drain db %d reports LockedCount=%d WaitCount=%d KeyCount=%d", di, st.LockedCount, st.WaitCount, st.KeyCount)
		}
		for _, s := range aSnapshot(di, d) {
			e.mon.viol("C17", "after the drain key %x is still live in db %d (refCount %d, %d holders, %d waiters)", s.Key, di, s.RefCount, len(s.Holders), len(s.Waiters))
		}
	}
	e.mon.scanFreed()
	for _, r := range e.reqs {
		if r.Terminal < 0 {
			e.mon.viol("C03", "request #%d (%s) never got a terminal reply", r.Idx, r.Op.String())
		}
	}
}

// ---------------------------------------------------------------------------------------------
// generation

func bGenCase(t *rapid.T, prop string) *bCase {
	c := &bCase{}
	c.Prefix = aCase{Prop: prop}
	c.Prefix.Conc = rapid.SampledFrom([]int{1, 1, 2}).Draw(t, "conc")
	c.Prefix.FastKeys = rapid.SampledFrom([]int{1, 4, 64}).Draw(t, "fastKeys")
	c.Prefix.AofTime = rapid.SampledFrom([]int{0, 1}).Draw(t, "aofTime")
	c.Prefix.Clients = 5 // one client (connection) per thread: a connection processes its requests one at a time
	return c
}

// bGenOp draws a request on one of two hot keys so that the threads really contend.
const bKeyCmdReuse = "C03:update-frees-previous-command-before-its-reply"

var bKnownCmdReuse = vIsKnownSuffix("update-frees-previous-command-before-its-reply")
var bCmdReuseExcluded int
var bProbeCmdReuse bool

// bGenOpC: request of a thread of the concurrent phase.
func bGenOpC(t *rapid.T, clients int, fresh *int, ids []int, concurrent bool) aOp {
	return bGenOp(t, clients, fresh, ids)
}

// bGenOp draws a request on one of two hot keys so that the threads really contend.
func bGenOp(t *rapid.T, clients int, fresh *int, ids []int) aOp {
	op := aOp{C: rapid.IntRange(0, clients-1).Draw(t, "client"), Key: rapid.IntRange(0, 1).Draw(t, "key")}
	pickId := func() int {
		if len(ids) > 0 && pct(t, "idKnown") < 70 {
			return ids[rapid.IntRange(0, len(ids)-1).Draw(t, "idIdx")]
		}
		*fresh++
		return 200 + *fresh
	}
	if pct(t, "isLock") < 60 {
		op.K = "lock"
		*fresh++
		op.Id = 200 + *fresh
		if pct(t, "relock") < 15 {
			op.Id = pickId()
		}
		op.Cnt = rapid.SampledFrom([]int{0, 0, 1, 1, 2, 0xffff}).Draw(t, "count")
		op.Rc = rapid.SampledFrom([]int{0, 0, 1, 2}).Draw(t, "rcount")
		op.T = rapid.SampledFrom([]int{0, 1, 2, 5, 30}).Draw(t, "timeout")
		op.E = rapid.SampledFrom([]int{1, 2, 5, 30, 30}).Draw(t, "expried")
		if pct(t, "prio") < 12 {
			op.TF |= tfPRIO
			op.Rc = rapid.IntRange(0, 3).Draw(t, "priority")
		}
		if pct(t, "upd") < 8 {
			op.F |= fUPDATE
		}
	} else {
		op.K = "unlock"
		op.Id = pickId()
		op.Rc = rapid.SampledFrom([]int{0, 0, 1}).Draw(t, "rcountU")
		x := pct(t, "uflags")
		if x < 10 {
			op.F |= ufFIRST
		} else if x < 22 {
			op.F |= ufCANCEL
		}
	}
	return op
}

func bProp(test, prop string) func(t *rapid.T) {
	st := vstat(test)
	return func(t *rapid.T) {
		c := bGenCase(t, prop)
		fresh := 0
		var ids []int
		// prefix: a few sequential requests that leave holders and waiters with near deadlines behind
		for i := rapid.IntRange(1, 8).Draw(t, "nPrefix"); i > 0; i-- {
			op := bGenOp(t, c.Prefix.Clients, &fresh, ids)
			if op.K == "lock" {
				ids = append(ids, op.Id)
			}
			c.Prefix.Ops = append(c.Prefix.Ops, op)
		}
		if pct(t, "prefixTick") < 40 {
			c.Prefix.Ops = append(c.Prefix.Ops, aOp{K: "tick", N: rapid.IntRange(1, 2).Draw(t, "prefixTickN")})
		}
		nth := rapid.IntRange(2, 5).Draw(t, "threads")
		if prop == "C10" {
			// a leader loses leadership (SLock.updateState as ReplicationManager.SwitchToFollower does) while client requests
			// are in flight: one of them is held back in front of the shard mutex across the role change
			nth = 0
			c.Prefix.Ops = nil
			c.Prefix.Conc = 1 // updateState takes every shard mutex in turn; with one shard it never parks while holding one
			var held []aOp
			for i := rapid.IntRange(1, 3).Draw(t, "demHolds"); i > 0; i-- {
				fresh++
				op := aOp{K: "lock", C: 0, Key: rapid.IntRange(0, 1).Draw(t, "demKey"), Id: 200 + fresh, Cnt: rapid.SampledFrom([]int{1, 2, 0xffff}).Draw(t, "demCount"), Rc: rapid.IntRange(0, 2).Draw(t, "demRcount"), E: 30}
				c.Prefix.Ops = append(c.Prefix.Ops, op)
				held = append(held, op)
			}
			req := func(label string, client int) aOp {
				h := held[rapid.IntRange(0, len(held)-1).Draw(t, label+"H")]
				switch pct(t, label+"Kind") % 5 {
				case 0:
					return aOp{K: "unlock", C: client, Key: h.Key, Id: h.Id}
				case 1:
					return aOp{K: "unlock", C: client, Key: h.Key, Id: h.Id + 5000, F: ufFIRST}
				case 2:
					return aOp{K: "lock", C: client, Key: h.Key, Id: h.Id, Cnt: h.Cnt, Rc: 2, E: 30} // re-entrant
				case 3:
					return aOp{K: "lock", C: client, Key: h.Key, Id: h.Id + 6000, Cnt: 0xffff, E: 30} // shares the key
				}
				return aOp{K: "lock", C: client, Key: 2 + rapid.IntRange(0, 1).Draw(t, label+"Free"), Id: h.Id + 7000, Cnt: 0, E: 30}
			}
			c.Threads = []bThread{{Ops: []aOp{req("demStalled", 1)}}, {Demote: true}}
			for i := rapid.IntRange(0, 2).Draw(t, "demOthers"); i > 0; i-- {
				c.Threads = append(c.Threads, bThread{Ops: []aOp{req(fmt.Sprintf("demOther%d", i), 1+i)}})
			}
			if pct(t, "demStall") < 75 {
				c.Stall = 1
			}
		}
		if prop != "C10" && (pct(t, "recycleScenario") < 10 || os.Getenv("VERIF_B_SCENARIO") == "recycle" || os.Getenv("VERIF_B_SCENARIO") == "orphan") {
			// key-manager recycling under a stalled request: a request for key 0 is between its manager look-up and
			// the shard mutex while key 0's last hold ends, a sweep recycles its manager and key 1 (unused so far)
			// gets that manager; the stalled request must then start over, not act on key 1's state
			nth = 0
			*(&fresh)++
			idH, idX := 200+fresh, 300+fresh
			c.Prefix.Ops = []aOp{{K: "lock", C: 0, Key: 0, Id: idH, Cnt: 0, E: 30}}
			// "orphan" variant (a quarter of the scenario cases): overflow-map manager, stalled LOCK, the removed manager is
			// not handed out again before the stalled request continues, key 0 is locked again by others meanwhile
			orphan := pct(t, "recycleOrphan") < 25 || os.Getenv("VERIF_B_SCENARIO") == "orphan"
			ovf := pct(t, "recycleOverflow") % 4
			if orphan {
				ovf = 1 + ovf%2
			}
			switch ovf {
			case 1:
				// key 0's manager lives in the overflow map of the key table: another key owns the (only) fast slot
				c.Prefix.FastKeys = 1
				c.Prefix.Ops = []aOp{{K: "lock", C: 0, Key: 40, Id: idH + 7000, Cnt: 0, E: 30}, {K: "lock", C: 0, Key: 0, Id: idH, Cnt: 0, E: 30}}
			case 2:
				// ... or its hold is filed in the long expiry table at once (the manager is moved to the overflow map)
				c.Prefix.Ops = []aOp{{K: "lock", C: 0, Key: 0, Id: idH, Cnt: 0, E: 30, EF: 0x0100}}
			}
			stalled := aOp{K: "unlock", C: 0, Key: 0, Id: idX}
			st3 := pct(t, "recycleStalled") % 3
			if orphan {
				st3 = 2
			}
			switch st3 {
			case 1:
				stalled.F |= ufFIRST
			case 2:
				stalled = aOp{K: "lock", C: 0, Key: 0, Id: idX, Cnt: 0, E: 30}
			}
			// key managers are handed out from a ring that is refilled in batches of 8: the recycled one comes back after
			// the rest of its batch, so a run of fresh keys is locked (with the stalled request's LockId, or - when the
			// stalled request is a LOCK - with other LockIds and Counts that would admit it as one more holder)
			runId, runCnt := func(int) int { return idX }, 0
			if stalled.K == "lock" && pct(t, "recycleShare") < 60 {
				runId = func(k int) int { return idX + 3000 + k }
				runCnt = rapid.SampledFrom([]int{0, 1, 2, 0xffff}).Draw(t, "recycleRunCount")
				stalled.Cnt = rapid.SampledFrom([]int{0, 1, 2, 0xffff}).Draw(t, "recycleStalledCount")
			}
			var run []aOp
			nRun := rapid.IntRange(8, 14).Draw(t, "recycleKeys")
			if pct(t, "recycleShortRun") < 35 || orphan {
				nRun = rapid.IntRange(0, 3).Draw(t, "recycleKeysShort") // the removed manager is still in the free ring, not handed out again
			}
			for k := 1; k <= nRun; k++ {
				run = append(run, aOp{K: "lock", C: 3, Key: k, Id: runId(k), Cnt: runCnt, E: 30})
			}
			if pct(t, "recycleOrdered") < 50 || orphan {
				// one thread ends the hold, lets the sweep remove the key's manager and then locks the fresh keys
				ops := []aOp{{K: "unlock", C: 3, Key: 0, Id: idH}, {K: "tick", N: rapid.IntRange(1, 3).Draw(t, "recycleSweep")}}
				ops = append(ops, run...)
				if pct(t, "recycleRefill") < 50 || orphan {
					// key 0 is taken again by others through its new manager before the stalled request continues
					ops = append(ops, aOp{K: "lock", C: 3, Key: 0, Id: idX + 4000, Cnt: stalled.Cnt, E: 30})
				}
				c.Threads = []bThread{{Ops: []aOp{stalled}}, {Ops: ops}}
			} else {
				c.Threads = []bThread{
					{Ops: []aOp{stalled}},
					{Ops: []aOp{{K: "unlock", C: 1, Key: 0, Id: idH}}},
					{Sweep: rapid.IntRange(1, 3).Draw(t, "recycleSweep")},
					{Ops: run},
				}
			}
			if pct(t, "recycleStall") < 75 || orphan {
				c.Stall = 1
			}
			if pct(t, "recycleExtra") < 50 {
				k := rapid.IntRange(6, 9).Draw(t, "recycleProbeKey")
				c.Threads = append(c.Threads, bThread{Ops: []aOp{{K: "lock", C: 4, Key: k, Id: idX + 2000, Cnt: 0, T: 0, E: 30}}})
			}
		}
		for i := 0; i < nth; i++ {
			th := bThread{}
			if i > 0 && pct(t, "sweeper") < 35 {
				th.Sweep = rapid.IntRange(1, 3).Draw(t, "sweepN")
			} else {
				for j := rapid.IntRange(1, 3).Draw(t, "nOps"); j > 0; j-- {
					op := bGenOpC(t, c.Prefix.Clients, &fresh, ids, true)
					op.C = i
					if op.K == "lock" {
						ids = append(ids, op.Id)
					}
					th.Ops = append(th.Ops, op)
				}
			}
			c.Threads = append(c.Threads, th)
		}
		// the schedule is drawn lazily while the case runs and recorded for the replay
		info, viol, hist, inconclusive := bRun(c, func(n int) int {
			k := rapid.IntRange(0, n-1).Draw(t, "next")
			c.Schedule = append(c.Schedule, k)
			return k
		})
		if inconclusive != "" {
			fmt.Printf("VERIF-INCONCLUSIVE engine B watchdog: %s\n%s\n", inconclusive, hist)
			os.Exit(3)
		}
		cls := []string{}
		if info.switches >= 2 {
			cls = append(cls, ">=2 thread switches")
		}
		if info.grantsInRace > 0 {
			cls = append(cls, "grant while another hold outstanding")
		}
		if info.queueGrants > 0 {
			cls = append(cls, "grant from the wait queue")
		}
		sweeper := false
		for _, th := range c.Threads {
			if th.Sweep > 0 {
				sweeper = true
			}
		}
		if sweeper {
			cls = append(cls, "sweeper thread interleaved with requests")
		}
		st.Class("segments", int64(info.segments))
		for ; bCmdReuseExcluded > 0; bCmdReuseExcluded-- {
			st.Exclude("harness clients do not recycle command objects during the concurrent phase (known finding " + bKeyCmdReuse + ")")
		}
		st.Case(info.switches >= 2 && info.newHolders+info.removed > 0, c.fingerprint(), cls, func() interface{} { return c })
		if viol != nil && (prop == "*" || strings.Contains(viol.Props, prop)) {
			vFail(t, test, prop+":engineB:"+aViolKey(viol.Msg), c, "[%s] %s\n--- history ---\n%s", viol.Props, viol.Msg, hist)
		}
	}
}

func bReplayTest(t *testing.T, prop string) {
	for _, f := range vReplayFiles(prop) {
		var c bCase
		key, err := vLoadReplay(f, &c)
		if err != nil || len(c.Threads) == 0 {
			continue // not an engine-B case
		}
		c.Prefix.Prop = prop
		i := 0
		saved := aKnownNoWake
		aKnownNoWake = false
		bProbeCmdReuse = true
		_, viol, _, inc := bRun(&c, func(n int) int {
			if i < len(c.Schedule) {
				i++
				return c.Schedule[i-1]
			}
			return 0
		})
		aKnownNoWake = saved
		bProbeCmdReuse = false
		msg := inc
		if viol != nil && strings.Contains(viol.Props, prop) {
			msg = viol.Msg
		}
		fmt.Printf("VERIF-KF key=%s reproduced=%v file=%s %s\n", key, msg != "", f, msg)
	}
}

func TestC01_EngineB(t *testing.T) { rapid.Check(t, bProp("TestC01_EngineB", "C01")) }
func TestC03_EngineB(t *testing.T) { rapid.Check(t, bProp("TestC03_EngineB", "C03")) }
func TestC04_EngineB(t *testing.T) { rapid.Check(t, bProp("TestC04_EngineB", "C04")) }
func TestC17_EngineB(t *testing.T) { rapid.Check(t, bProp("TestC17_EngineB", "C17")) }
func TestCAll_EngineB(t *testing.T) { rapid.Check(t, bProp("TestCAll_EngineB", "*")) }
func TestC10_EngineB(t *testing.T)  { rapid.Check(t, bProp("TestC10_EngineB", "C10")) }

func TestC01_ReplayB(t *testing.T) { bReplayTest(t, "C01") }
func TestC10_ReplayB(t *testing.T) { bReplayTest(t, "C10") }
func TestC03_ReplayB(t *testing.T) { bReplayTest(t, "C03") }
func TestC04_ReplayB(t *testing.T) { bReplayTest(t, "C04") }
func TestC17_ReplayB(t *testing.T) { bReplayTest(t, "C17") }
