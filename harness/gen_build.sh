#!/bin/bash
# usage: gen_build.sh <outdir>
# Generates <outdir>/go.mod, go.sum and overlay.json that inject /verif/harness/<pkg>/*.go
# as zz_verif_*_test.go files into /repo/<pkg> without touching /repo.
set -e
OUT="$1"
mkdir -p "$OUT"
H=/verif/harness
REPO="${VERIF_REPO:-/repo}"
export REPO
cp "$REPO/go.mod" "$OUT/go.mod"
cp "$REPO/go.sum" "$OUT/go.sum"
cat >> "$OUT/go.mod" <<EOM

require pgregory.net/rapid v1.3.0
EOM
python3 - "$OUT" <<'EOP'
import json,os,sys,glob,re
out=sys.argv[1]
repo=os.environ.get("REPO","/repo")
rep={}
tmpl=open("/verif/harness/common/vstats.go.in").read()
for pkg in ("server","protocol","client"):
    g=os.path.join(out,f"vstats_{pkg}_test.go")
    open(g,"w").write(tmpl.replace("PKGNAME",pkg))
    rep[f"{repo}/{pkg}/zz_verif_vstats_test.go"]=g
    for f in sorted(glob.glob(f"/verif/harness/{pkg}/*.go")):
        b=os.path.basename(f)
        skip=os.environ.get("VERIF_HARNESS_SKIP","")
        if skip and re.search(skip,b): continue
        if not b.endswith("_test.go"): b=b[:-3]+"_test.go"
        rep[f"{repo}/{pkg}/zz_verif_{b}"]=f
json.dump({"Replace":rep},open(os.path.join(out,"overlay.json"),"w"),indent=1)
EOP
