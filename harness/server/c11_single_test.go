package server

// C11 layer 1: generator + properties for the single-node engine (c11_engine_test.go).

import (
	"encoding/json"
	"fmt"
	"os"
	"path/filepath"
	"sort"
	"strings"
	"sync/atomic"
	"testing"

	"pgregory.net/rapid"
)

func k11GenVal(t *rapid.T) *aVal {
	v := &aVal{}
	v.Op = rapid.SampledFrom([]string{"set", "set", "incr", "incr", "append", "append", "push", "push", "pop", "shift", "unset"}).Draw(t, "valop")
	switch v.Op {
	case "set", "append":
		v.B = rapid.SliceOfN(rapid.Byte(), 1, 6).Draw(t, "payload")
		if v.Op == "set" && rapid.IntRange(0, 3).Draw(t, "num") == 0 {
			v.B = []byte{rapid.Byte().Draw(t, "n0"), 0, 0, 0, 0, 0, 0, 0}
		}
	case "incr":
		v.N = rapid.SampledFrom([]int64{1, -1, 2, 100, 1 << 40}).Draw(t, "incr")
	case "push":
		v.B = rapid.SliceOfN(rapid.Byte(), 1, 4).Draw(t, "elem")
	case "pop", "shift":
		v.N = int64(rapid.IntRange(1, 3).Draw(t, "n"))
	}
	return v
}

type k11GenState struct {
	nextId int
	ids    map[int][]int // key -> LockIds used
	ackIds map[int][]int // key -> LockIds of ack-required requests
	held   bool
	lastV  map[int]string
}

func (g *k11GenState) fresh(key int, ack bool) int {
	id := g.nextId
	g.nextId++
	g.ids[key] = append(g.ids[key], id)
	if ack {
		g.ackIds[key] = append(g.ackIds[key], id)
	}
	return id
}

// k11GenCompeteUnlock: an unlock that competes with a hold awaiting acknowledgement: by its LockId, through the
// unlock-first fallback (flag 0x01 with a LockId nobody holds: the key's oldest holder is picked, which is or is
// not the pending one), with the cancel-wait flag (0x02) aimed at the pending LockId, a queued LockId or nothing.
func k11GenCompeteUnlock(t *rapid.T, g *k11GenState, key int, pendingId int, waiterIds []int) k11Op {
	op := k11Op{K: "unlock", Key: key, Id: pendingId, C: rapid.IntRange(0, 2).Draw(t, "cuC")}
	switch rapid.IntRange(0, 7).Draw(t, "cuKind") {
	case 0, 1:
		op.Rc = rapid.IntRange(0, 1).Draw(t, "curc")
	case 2, 3:
		op.UF, op.Id = 0x01, g.fresh(key, false)
	case 4:
		op.UF, op.Id = 0x03, g.fresh(key, false)
	case 5:
		op.UF = 0x02
	case 6:
		op.UF = 0x02
		if len(waiterIds) > 0 {
			op.Id = waiterIds[rapid.IntRange(0, len(waiterIds)-1).Draw(t, "cuWaiter")]
		} else {
			op.Id = g.fresh(key, false)
		}
	default:
		op.UF = 0x01
	}
	return op
}

func k11GenOps(t *rapid.T, g *k11GenState, nkeys, nops int, cluster bool) []k11Op {
	var ops []k11Op
	pick := func(l []int, label string) int {
		// bias towards recent entries
		n := len(l)
		if n > 3 && rapid.IntRange(0, 2).Draw(t, label+"Recent") > 0 {
			return l[n-1-rapid.IntRange(0, 2).Draw(t, label+"Back")]
		}
		return l[rapid.IntRange(0, n-1).Draw(t, label)]
	}
	for i := 0; i < nops; i++ {
		key := rapid.IntRange(0, nkeys-1).Draw(t, "key")
		r := rapid.IntRange(0, 99).Draw(t, "kind")
		switch {
		case r < 30: // ack-required lock, new LockId
			op := k11Op{K: "lock", Ack: true, Key: key, C: rapid.IntRange(0, 2).Draw(t, "c")}
			op.Id = g.fresh(key, true)
			op.T = rapid.SampledFrom([]int{0, 1, 2, 3, 6, 6, 12}).Draw(t, "T")
			op.E = rapid.IntRange(3, 30).Draw(t, "E")
			op.Cnt = rapid.SampledFrom([]int{0, 0, 0, 1, 2}).Draw(t, "cnt")
			op.EF = rapid.SampledFrom([]int{0, 0, 0, 0, 0x0100, 0x0100, 0x0200}).Draw(t, "ef")
			if rapid.IntRange(0, 99).Draw(t, "hasV") < 55 {
				op.V = k11GenVal(t)
			}
			ops = append(ops, op)
		case r < 45: // ordinary lock
			op := k11Op{K: "lock", Key: key, C: rapid.IntRange(0, 2).Draw(t, "c")}
			op.Id = g.fresh(key, false)
			op.T = rapid.SampledFrom([]int{0, 2, 5, 9, 15}).Draw(t, "T")
			op.E = rapid.IntRange(2, 30).Draw(t, "E")
			op.Cnt = rapid.SampledFrom([]int{0, 0, 1, 2}).Draw(t, "cnt")
			op.EF = rapid.SampledFrom([]int{0, 0, 0, 0x0100, 0x0100, 0x0200}).Draw(t, "ef")
			if rapid.IntRange(0, 99).Draw(t, "hasV") < 35 {
				op.V = k11GenVal(t)
			}
			ops = append(ops, op)
		case r < 57: // competing request for a LockId used by an ack-required request
			if len(g.ackIds[key]) == 0 {
				continue
			}
			op := k11Op{K: "lock", Key: key, C: rapid.IntRange(0, 2).Draw(t, "c")}
			op.Id = pick(g.ackIds[key], "ackId")
			op.Ack = rapid.Bool().Draw(t, "ack")
			op.T = rapid.SampledFrom([]int{0, 3}).Draw(t, "T")
			op.E = rapid.IntRange(3, 20).Draw(t, "E")
			op.Cnt = rapid.SampledFrom([]int{0, 1, 2}).Draw(t, "cnt")
			op.Rc = rapid.SampledFrom([]int{0, 0, 1, 2}).Draw(t, "rc")
			if rapid.IntRange(0, 99).Draw(t, "hasV") < 25 {
				op.V = k11GenVal(t)
			}
			ops = append(ops, op)
		case r < 72: // unlock
			if len(g.ids[key]) == 0 {
				continue
			}
			op := k11Op{K: "unlock", Key: key, C: rapid.IntRange(0, 2).Draw(t, "c")}
			if len(g.ackIds[key]) > 0 && rapid.Bool().Draw(t, "ofAck") {
				op.Id = pick(g.ackIds[key], "uAckId")
			} else {
				op.Id = pick(g.ids[key], "uId")
			}
			op.Rc = rapid.SampledFrom([]int{0, 0, 0, 1}).Draw(t, "urc")
			switch rapid.IntRange(0, 9).Draw(t, "uflag") {
			case 0:
				op.UF, op.Id = 0x01, g.fresh(key, false)
			case 1:
				op.UF = 0x02
			case 2:
				op.UF = 0x01
			}
			ops = append(ops, op)
		case r < 84:
			ops = append(ops, k11Op{K: "tick", N: rapid.SampledFrom([]int{1, 1, 2, 3, 4, 8}).Draw(t, "secs")})
		default:
			if cluster {
				continue
			}
			if !g.held {
				ops = append(ops, k11Op{K: "hold"})
				g.held = true
			} else {
				ops = append(ops, k11Op{K: "release", Fault: rapid.SampledFrom([]string{"", "", "file", "file", "data"}).Draw(t, "fault")})
				g.held = false
			}
		}
	}
	return ops
}

// k11GenScenario: the configuration the property names as non-trivial, with drawn details: an
// ack-required request with a value operation becomes pending (fresh or out of the queue), requests
// queue behind it, then the acknowledgement fails (write error / timeout) or succeeds.
func k11GenScenario(t *rapid.T, g *k11GenState, key int) []k11Op {
	var ops []k11Op
	if rapid.Bool().Draw(t, "seedValue") {
		op := k11Op{K: "lock", Key: key, Id: g.fresh(key, false), E: 20, Cnt: 2, V: k11GenVal(t)}
		ops = append(ops, op)
		if rapid.Bool().Draw(t, "seedUnlock") {
			ops = append(ops, k11Op{K: "unlock", Key: key, Id: op.Id})
		}
	}
	fromQueue := rapid.Bool().Draw(t, "fromQueue")
	blocker := -1
	if fromQueue {
		blocker = g.fresh(key, false)
		ops = append(ops, k11Op{K: "lock", Key: key, Id: blocker, E: rapid.IntRange(2, 25).Draw(t, "bE"), Cnt: 0})
	}
	park := rapid.IntRange(0, 3).Draw(t, "parkInsteadOfHold") == 0
	if park {
		ops = append(ops, k11Op{K: "parkflush"})
	} else {
		ops = append(ops, k11Op{K: "hold"})
	}
	g.held = true
	ack := k11Op{K: "lock", Ack: true, Key: key, Id: g.fresh(key, true), C: 1}
	ack.T = rapid.SampledFrom([]int{1, 2, 4, 10, 10}).Draw(t, "ackT")
	ack.E = rapid.IntRange(5, 30).Draw(t, "ackE")
	ack.Cnt = rapid.SampledFrom([]int{0, 0, 1, 2}).Draw(t, "ackCnt")
	if rapid.IntRange(0, 9).Draw(t, "ackHasV") < 8 {
		ack.V = k11GenVal(t)
	}
	ops = append(ops, ack)
	if fromQueue {
		if rapid.Bool().Draw(t, "byExpiry") {
			ops = append(ops, k11Op{K: "tick", N: rapid.IntRange(1, 4).Draw(t, "waitSecs")})
		}
		ops = append(ops, k11Op{K: "unlock", Key: key, Id: blocker})
	}
	var waiterIds []int
	nw := rapid.IntRange(0, 3).Draw(t, "waiters")
	for i := 0; i < nw; i++ {
		w := k11Op{K: "lock", Key: key, C: 2, T: rapid.SampledFrom([]int{3, 8, 20}).Draw(t, "wT"), E: rapid.IntRange(3, 20).Draw(t, "wE")}
		w.Ack = rapid.IntRange(0, 2).Draw(t, "wAck") == 0
		w.Id = g.fresh(key, w.Ack)
		w.Cnt = rapid.SampledFrom([]int{0, 0, 1, 2}).Draw(t, "wCnt")
		if rapid.IntRange(0, 2).Draw(t, "wHasV") == 0 {
			w.V = k11GenVal(t)
		}
		waiterIds = append(waiterIds, w.Id)
		ops = append(ops, w)
	}
	for i := rapid.IntRange(0, 2).Draw(t, "competing"); i > 0; i-- {
		if rapid.Bool().Draw(t, "competeUnlock") {
			ops = append(ops, k11GenCompeteUnlock(t, g, key, ack.Id, waiterIds))
		} else {
			q := k11Op{K: "lock", Key: key, Id: ack.Id, Ack: rapid.Bool().Draw(t, "cAck"), T: rapid.SampledFrom([]int{0, 4}).Draw(t, "cT"), E: 9, Rc: rapid.IntRange(0, 1).Draw(t, "crc")}
			if rapid.IntRange(0, 3).Draw(t, "cHasV") == 0 {
				q.V = k11GenVal(t)
			}
			ops = append(ops, q)
		}
	}
	switch rapid.IntRange(0, 5).Draw(t, "ending") {
	case 0, 1:
		ops = append(ops, k11Op{K: "release", Fault: "file"})
	case 2:
		ops = append(ops, k11Op{K: "tick", N: ack.T + rapid.IntRange(1, 3).Draw(t, "over")}, k11Op{K: "release"})
	case 3:
		ops = append(ops, k11Op{K: "release", Fault: "data"})
	case 4:
		ops = append(ops, k11Op{K: "tick", N: rapid.IntRange(1, 2).Draw(t, "short")}, k11Op{K: "release", Fault: rapid.SampledFrom([]string{"", "file"}).Draw(t, "f2")})
	default:
		ops = append(ops, k11Op{K: "release"})
	}
	if park {
		// release (and its faults) are no-ops while parked; the flush is let go instead
		ops = append(ops, k11Op{K: "unparkflush"})
	}
	g.held = false
	if rapid.Bool().Draw(t, "thenUnlock") {
		ops = append(ops, k11Op{K: "unlock", Key: key, Id: ack.Id})
	}
	return ops
}

func k11GenSingle(t *rapid.T) *k11Case {
	c := &k11Case{Kind: "single"}
	c.Conc = rapid.SampledFrom([]int{1, 2, 4}).Draw(t, "conc")
	c.FastKeys = rapid.SampledFrom([]int{1, 64}).Draw(t, "fastkeys")
	c.AofBuf = rapid.SampledFrom([]int{64, 128, 4096, 4096}).Draw(t, "aofbuf")
	c.Clients = rapid.IntRange(1, 3).Draw(t, "clients")
	nkeys := rapid.IntRange(1, 2).Draw(t, "nkeys")
	g := &k11GenState{ids: map[int][]int{}, ackIds: map[int][]int{}}
	parts := rapid.IntRange(1, 4).Draw(t, "parts")
	for p := 0; p < parts; p++ {
		if rapid.IntRange(0, 9).Draw(t, "scenario") < 6 {
			if g.held {
				c.Ops = append(c.Ops, k11Op{K: "release"})
				g.held = false
			}
			c.Ops = append(c.Ops, k11GenScenario(t, g, rapid.IntRange(0, nkeys-1).Draw(t, "skey"))...)
		} else {
			c.Ops = append(c.Ops, k11GenOps(t, g, nkeys, rapid.IntRange(3, 14).Draw(t, "nops"), false)...)
		}
	}
	return c
}

// k11Exclusions removes by construction what a listed (known, unrepaired) finding would trip over.
// Returns a note per exclusion made.
func k11Exclusions(c *k11Case, st *vStat) {
	if vIsKnown(k11KeyMajority) && c.Kind == "cluster" && c.AckMode == 1 && c.Followers >= 2 {
		// two follower acks complete a majority count of 2 without the leader's own write: majority mode only with
		// one follower (steps that address follower 1 become no-ops)
		c.Followers = 1
		if st != nil {
			st.Exclude("majority mode reduced to one follower (known finding " + k11KeyMajority + ")")
		}
	}
	if vIsKnown(k11KeyTwice) && c.AofBuf < 4096 {
		// a write error that surfaces inside Aof.PushLock (buffer full => Flush inside WriteLock) fails the ack twice
		for _, o := range c.Ops {
			if o.K == "release" && o.Fault != "" {
				c.AofBuf = 4096
				if st != nil {
					st.Exclude("append-file buffer of one or two records not combined with a write fault (known finding " + k11KeyTwice + ")")
				}
				break
			}
		}
	}
	if vIsKnown(k11KeyNeverAof) {
		for i := range c.Ops {
			// the first holder's persistence delay is inherited by every later holder of the key
			if o := &c.Ops[i]; o.K == "lock" && o.EF&0x0200 != 0 {
				o.EF &^= 0x0200
				if st != nil {
					st.Exclude("never-persist expiry flag removed (known finding " + k11KeyNeverAof + ")")
				}
			}
		}
	}
	if vIsKnown(k11KeyReentrant) {
		// no ack-required request for a LockId that may already hold the key
		seen := map[[2]int]bool{}
		for i := range c.Ops {
			o := &c.Ops[i]
			if o.K != "lock" {
				continue
			}
			id := [2]int{o.Key, o.Id}
			if seen[id] && o.Ack && o.Rc > 0 {
				o.Rc = 0
				if st != nil {
					st.Exclude("re-entrant ack-required request made non-re-entrant (known finding " + k11KeyReentrant + ")")
				}
			}
			seen[id] = true
		}
	}
}

func k11Classes(in k11Info) []string {
	var cls []string
	add := func(b bool, s string) {
		if b {
			cls = append(cls, s)
		}
	}
	add(in.ackSucceeded > 0, "ack-required grant acknowledged (record found on disk at reply time)")
	add(in.ackFresh > 0, "ack-pending fresh grant")
	add(in.ackFromQueue > 0, "ack-pending grant out of the wait queue")
	add(in.ackFailedWrite > 0, "ack failed: log write error")
	add(in.ackFailedData > 0, "ack failed: value file write error")
	add(in.dataFaultSucceeded > 0, "value file closed but batch carried no value: acknowledged")
	add(in.ackTimedOut > 0, "ack wait timed out")
	add(in.ackWaitingLock > 0, "LOCK_ACK_WAITING to a lock request")
	add(in.ackWaitingUnlock > 0, "LOCK_ACK_WAITING to an unlock request")
	add(in.unlockFirstPending > 0, "unlock-first (foreign LockId) fell back to a hold awaiting acknowledgement")
	add(in.unlockFirst > 0, "unlock-first (foreign LockId) resolved to the key's oldest holder")
	add(in.cancelledWaiters > 0, "queued request cancelled by a cancel-wait unlock")
	add(in.failedWithValue > 0, "failed ack after a value operation")
	add(in.failedWithValueAndWaiter > 0, "failed ack after a value operation with a waiter queued behind")
	add(in.valueRestoreChecked > 0, "value restore checked on the error reply")
	add(in.valueRestoreSnapChecked > 0, "value restore checked on the stored value")
	add(in.ambiguousValue > 0, "value restore not checked: interleaved value operations")
	add(in.waitersServedAfterFailure > 0, "waiter granted after a failed ack")
	add(in.wakeChecks > 0, "head-of-queue admissibility checked after a failed ack")
	add(in.staleWakeSkips > 0, "wake check skipped (known C04 finding)")
	add(in.succPreValueChecked > 0, "pre-operation value checked on the SUCCED reply")
	add(in.unlockAfterAck > 0, "acknowledged hold unlocked normally")
	add(in.reentrant > 0, "re-entrant grant")
	add(in.pendingMax > 1, ">1 hold awaiting acknowledgement at once")
	add(in.queuedBehindPending > 0, "request queued behind an ack-pending hold")
	add(in.holdPhases > 0, "append-file writers parked by the harness")
	add(in.parkPhases > 0, "leader's idle flush parked (records buffered and registered, not written)")
	add(in.parkedWithBuffered > 0, "flush parked with records still buffered at unpark")
	add(in.parkHookBlocks > 0, "flush blocked at hook point 20 while parked")
	var fr []string
	for k := range in.failResults {
		fr = append(fr, k)
	}
	sort.Strings(fr)
	for _, k := range fr {
		cls = append(cls, "failure answered "+k)
	}
	var vk []string
	for k := range in.valueKindsFailed {
		vk = append(vk, k)
	}
	sort.Strings(vk)
	for _, k := range vk {
		cls = append(cls, "rolled back value op "+k)
	}
	// cluster
	add(in.decidedByFollower > 0, "ack decided by follower frames")
	add(in.ackFramesNegated > 0, "follower ack frame negated")
	add(in.ackFramesDropped > 0, "follower ack frame dropped + connection cut")
	add(in.ackFramesDelayed > 0, "follower ack frame delayed")
	add(in.failedByFollower > 0, "ack failed by a follower frame / lost frame")
	add(in.demotions > 0, "leader demoted")
	add(in.demotedPending > 0, "leader demoted while an ack was pending")
	add(in.followersChecked > 0, "follower state checked after quiescence")
	return cls
}

func k11Nontrivial(in k11Info) bool { return in.failedWithValueAndWaiter > 0 }

func k11Inconclusive(why string) {
	fmt.Printf("VERIF-INCONCLUSIVE %s\n", why)
	vFlush()
	os.Exit(3)
}

func k11FirstKey(o *k11Out) string {
	if len(o.viols) == 0 {
		return ""
	}
	return o.viols[0].Key
}

func TestC11_SingleNode(t *testing.T) {
	st := vstat("TestC11_SingleNode")
	rapid.Check(t, func(t *rapid.T) {
		c := k11GenSingle(t)
		k11Exclusions(c, st)
		out := k11RunSingle(c)
		if out.inconclusive != "" && len(out.viols) == 0 {
			k11Inconclusive(out.inconclusive)
		}
		for i := 0; i < out.info.knownLateReply; i++ {
			st.KnownHit(k11KeyLateReply)
		}
		for i := 0; i < out.info.excludedRollback; i++ {
			st.Exclude("value operation whose roll-back is inexact in the current state replaced by SET (known finding " + k11KeyRollback + ")")
		}
		for i := 0; i < out.info.excludedBytesOnArray; i++ {
			st.Exclude("APPEND/SHIFT that could meet an array value replaced by SET (malformed arrays are C15's domain)")
		}
		for i := 0; i < out.info.skippedDupQueued; i++ {
			st.Exclude("lock request for a LockId that is still queued skipped (duplicate LockId in the queue is not C11)")
		}
		st.Case(k11Nontrivial(out.info), c.fingerprint(), k11Classes(out.info), func() interface{} { return c })
		if os.Getenv("VERIF_K11_SURVEY") != "" {
			for _, v := range out.viols {
				st.Class("SURVEY "+v.Key+" "+v.Sig, 1)
				fn := os.Getenv("VERIF_K11_SURVEY") + "/" + strings.NewReplacer(":", "_", " ", "_", "=", "-").Replace(v.Key+"_"+v.Sig) + ".json"
				if fi, err := os.Stat(fn); err != nil || fi.Size() > int64(len(out.history)+len(c.Ops)*80) {
					b, _ := json.Marshal(map[string]interface{}{"key": v.Key, "message": v.Msg, "case": c})
					_ = os.WriteFile(fn, append(b, []byte("\n"+v.Msg+"\n"+out.history+"\n")...), 0644)
				}
			}
			return
		}
		if err := out.err(); err != nil {
			vFail(t, "TestC11_SingleNode", k11FirstKey(&out), c, "%v", err)
		}
	})
}

func TestC11_Replay(t *testing.T) {
	for _, f := range vReplayFiles("C11") {
		var raw json.RawMessage
		key, err := vLoadReplay(f, &raw)
		if err != nil {
			t.Fatalf("cannot load replay %s: %v", f, err)
		}
		var c k11Case
		if err = json.Unmarshal(raw, &c); err != nil {
			t.Fatalf("replay %s: %v", f, err)
		}
		var rerr error
		got := ""
		tries := 1
		if c.Kind == "cluster" {
			tries = vEnvInt("VERIF_REPLAY_TRIES", 10) // real sockets: inputs replay, schedules do not
		}
		for i := 0; i < tries && rerr == nil; i++ {
			var out k11Out
			if c.Kind == "cluster" {
				out = k11RunCluster(&c, true)
			} else {
				out = k11RunSingleOpts(&c, true)
			}
			if out.inconclusive != "" && len(out.viols) == 0 {
				if os.Getenv("VERIF_K11_TRACE") != "" {
					fmt.Printf("---- inconclusive run of %s\n%s\n%s\n----\n", f, out.inconclusive, out.history)
				}
				fmt.Printf("VERIF-NOTE replay %s inconclusive: %s\n", f, strings.SplitN(out.inconclusive, "\n", 2)[0])
				continue
			}
			rerr = out.err()
			got = " observed-key=" + k11FirstKey(&out)
			if os.Getenv("VERIF_K11_TRACE") != "" {
				fmt.Printf("---- history of %s\n%s\n----\n", f, out.history)
			}
		}
		fmt.Printf("VERIF-KF key=%s reproduced=%v file=%s%s %v\n", key, rerr != nil, f, got, rerr)
	}
	_ = os.Stdout.Sync()
}

// ---------------------------------------------------------------------------------------------
// layer 2: cluster cases

func k11GenCluster(t *rapid.T) *k11Case {
	c := &k11Case{Kind: "cluster", Conc: 2, FastKeys: 64, AofBuf: 4096}
	c.Clients = rapid.IntRange(1, 2).Draw(t, "clients")
	c.Followers = rapid.SampledFrom([]int{1, 1, 2}).Draw(t, "followers")
	c.AckMode = rapid.SampledFrom([]int{1, 2, 2}).Draw(t, "ackmode")
	g := &k11GenState{ids: map[int][]int{}, ackIds: map[int][]int{}}
	key := 0
	stalled := make([]bool, c.Followers)
	parts := rapid.IntRange(1, 3).Draw(t, "parts")
	demoted := false
	for p := 0; p < parts && !demoted; p++ {
		// optional prelude: a value on the key / an acknowledged hold without faults
		if rapid.IntRange(0, 2).Draw(t, "prelude") == 0 {
			op := k11Op{K: "lock", Key: key, Id: g.fresh(key, false), E: 40, Cnt: 2, V: k11GenVal(t)}
			c.Ops = append(c.Ops, op)
			if rapid.Bool().Draw(t, "preUnlock") {
				c.Ops = append(c.Ops, k11Op{K: "unlock", Key: key, Id: op.Id})
			}
		}
		if rapid.IntRange(0, 3).Draw(t, "plainAck") == 0 {
			op := k11Op{K: "lock", Ack: true, Key: key, Id: g.fresh(key, true), T: 5, E: 40, Cnt: 2}
			if rapid.Bool().Draw(t, "paV") {
				op.V = k11GenVal(t)
			}
			c.Ops = append(c.Ops, op)
			if rapid.Bool().Draw(t, "paUnlock") {
				c.Ops = append(c.Ops, k11Op{K: "unlock", Key: key, Id: op.Id})
			}
		}
		fromQueue := rapid.IntRange(0, 2).Draw(t, "fromQueue") == 0
		blocker := -1
		if fromQueue {
			blocker = g.fresh(key, false)
			c.Ops = append(c.Ops, k11Op{K: "lock", Key: key, Id: blocker, E: 40, Cnt: 0})
		}
		// stall some followers
		nst := 0
		for f := 0; f < c.Followers; f++ {
			if !stalled[f] && rapid.IntRange(0, 3).Draw(t, "stall") > 0 {
				c.Ops = append(c.Ops, k11Op{K: "stall", F: f})
				stalled[f] = true
			}
			if stalled[f] {
				nst++
			}
		}
		parkOdds := 3
		if c.AckMode == 1 && c.Followers >= 2 {
			parkOdds = 1 // the configuration in which follower acks alone can reach the count
		}
		parked := rapid.IntRange(0, parkOdds).Draw(t, "parkflush") == 0
		if parked {
			c.Ops = append(c.Ops, k11Op{K: "parkflush"})
		}
		ack := k11Op{K: "lock", Ack: true, Key: key, Id: g.fresh(key, true), C: 1}
		ack.T = rapid.SampledFrom([]int{2, 4, 10, 10}).Draw(t, "ackT")
		ack.E = rapid.IntRange(30, 60).Draw(t, "ackE")
		ack.Cnt = rapid.SampledFrom([]int{0, 0, 1, 2}).Draw(t, "ackCnt")
		if rapid.IntRange(0, 9).Draw(t, "ackHasV") < 8 {
			ack.V = k11GenVal(t)
		}
		c.Ops = append(c.Ops, ack)
		if fromQueue {
			c.Ops = append(c.Ops, k11Op{K: "unlock", Key: key, Id: blocker})
		}
		var waiterIds []int
		for i := rapid.IntRange(0, 2).Draw(t, "waiters"); i > 0; i-- {
			w := k11Op{K: "lock", Key: key, C: 2, T: rapid.SampledFrom([]int{5, 12}).Draw(t, "wT"), E: rapid.IntRange(30, 60).Draw(t, "wE")}
			w.Ack = rapid.IntRange(0, 2).Draw(t, "wAck") == 0
			w.Id = g.fresh(key, w.Ack)
			w.Cnt = rapid.SampledFrom([]int{0, 0, 1, 2}).Draw(t, "wCnt")
			if rapid.IntRange(0, 2).Draw(t, "wHasV") == 0 {
				w.V = k11GenVal(t)
			}
			waiterIds = append(waiterIds, w.Id)
			c.Ops = append(c.Ops, w)
		}
		for i := rapid.IntRange(0, 2).Draw(t, "competing"); i > 0; i-- {
			if rapid.Bool().Draw(t, "competeUnlock") {
				c.Ops = append(c.Ops, k11GenCompeteUnlock(t, g, key, ack.Id, waiterIds))
			} else {
				c.Ops = append(c.Ops, k11Op{K: "lock", Key: key, Id: ack.Id, Ack: rapid.Bool().Draw(t, "cAck"), T: 0, E: 30})
			}
		}
		switch rapid.IntRange(0, 6).Draw(t, "ending") {
		case 0:
			c.Ops = append(c.Ops, k11Op{K: "demote"})
			demoted = true
		case 1:
			c.Ops = append(c.Ops, k11Op{K: "tick", N: ack.T + rapid.IntRange(1, 2).Draw(t, "over")})
		case 2:
			c.Ops = append(c.Ops, k11Op{K: "tick", N: 1})
		}
		if parked && rapid.IntRange(0, 3).Draw(t, "unparkFirst") > 0 {
			c.Ops = append(c.Ops, k11Op{K: "unparkflush"})
			parked = false
		}
		for f := 0; f < c.Followers; f++ {
			if stalled[f] && rapid.IntRange(0, 4).Draw(t, "unstall") > 0 {
				c.Ops = append(c.Ops, k11Op{K: "unstall", F: f, Mode: rapid.SampledFrom([]string{"pass", "pass", "negate", "negate", "drop"}).Draw(t, "mode")})
				stalled[f] = false
			}
		}
		if parked {
			c.Ops = append(c.Ops, k11Op{K: "unparkflush"})
		}
		if rapid.Bool().Draw(t, "thenUnlock") {
			c.Ops = append(c.Ops, k11Op{K: "unlock", Key: key, Id: ack.Id})
		}
		if rapid.IntRange(0, 3).Draw(t, "tail") == 0 {
			c.Ops = append(c.Ops, k11GenOps(t, g, 1, rapid.IntRange(1, 5).Draw(t, "ntail"), true)...)
		}
	}
	return c
}

func k11ClusterNontrivial(in k11Info) bool { return in.decidedByFollower > 0 }

func TestC11_Cluster(t *testing.T) {
	st := vstat("TestC11_Cluster")
	rapid.Check(t, func(t *rapid.T) {
		c := k11GenCluster(t)
		k11Exclusions(c, st)
		out := k11RunCluster(c, false)
		if out.inconclusive != "" && len(out.viols) == 0 {
			// (a violation observed before a wait ran into its watchdog stays an observation: e.g. a requester that is
			// never answered makes the next wait expire)
			k11Inconclusive(out.inconclusive + "\n" + out.history)
		}
		for i := 0; i < out.info.knownLateReply; i++ {
			st.KnownHit(k11KeyLateReply)
		}
		for i := 0; i < out.info.excludedRollback; i++ {
			st.Exclude("value operation whose roll-back is inexact in the current state replaced by SET (known finding " + k11KeyRollback + ")")
		}
		st.Case(k11ClusterNontrivial(out.info), c.fingerprint(), k11Classes(out.info), func() interface{} { return c })
		if os.Getenv("VERIF_K11_SURVEY") != "" {
			for _, v := range out.viols {
				st.Class("SURVEY "+v.Key+" "+v.Sig, 1)
				fn := os.Getenv("VERIF_K11_SURVEY") + "/cl_" + strings.NewReplacer(":", "_", " ", "_", "=", "-").Replace(v.Key+"_"+v.Sig) + ".json"
				if fi, err := os.Stat(fn); err != nil || fi.Size() > int64(len(out.history)+len(c.Ops)*80) {
					b, _ := json.Marshal(map[string]interface{}{"key": v.Key, "message": v.Msg, "case": c})
					_ = os.WriteFile(fn, append(b, []byte("\n"+v.Msg+"\n"+out.history+"\n")...), 0644)
				}
			}
			return
		}
		if err := out.err(); err != nil {
			// real sockets and goroutines: a verdict is only printed if the same case fails with the same key
			// again on a fresh cluster (up to 3 more executions); otherwise it is kept as an anomaly, not judged
			key := k11FirstKey(&out)
			for i := 0; i < 3; i++ {
				again := k11RunCluster(c, false)
				if k11FirstKey(&again) == key {
					vFail(t, "TestC11_Cluster", key, c, "(reproduced on re-execution %d)\n%v", i+1, err)
				}
			}
			st.Class("unreproduced anomaly (not judged)", 1)
			n := atomic.AddInt64(&k11Anomalies, 1)
			fn := filepath.Join(os.Getenv("VERIF_FAILDIR"), fmt.Sprintf("C11.anomaly-%d-%d.json", os.Getpid(), n))
			b, _ := json.MarshalIndent(map[string]interface{}{"test": "TestC11_Cluster", "key": key, "message": err.Error(), "case": c}, "", " ")
			_ = os.WriteFile(fn, b, 0644)
			fmt.Printf("VERIF-ANOMALY key=%s file=%s\n", key, fn)
		}
	})
}

var k11Anomalies int64
