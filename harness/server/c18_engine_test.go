package server

// C18 / engine D of DESIGN.md: connection life cycle.
//
// One in-process leader per run (hook H1: no wall-clock sweeps, the harness owns LockDB.currentTime),
// 2..6 client connections (binary and text) plus a watcher connection W, every connection served by the
// real Server.handle in its own goroutine over an in-memory net.Conn. The harness serialises: it acts
// only when every handler goroutine is parked (in Read on an empty input queue, in the text protocol's
// wait for a queued lock, or finished), so a run is reproducible although real goroutines are involved.
//
// This file is the rapid-free executor; generator, property, replay and child entry live in c18_test.go.
// All identifiers are prefixed d18.

import (
	"bytes"
	"encoding/hex"
	"errors"
	"fmt"
	"io"
	"net"
	"os"
	"runtime"
	"runtime/debug"
	"sort"
	"strconv"
	"strings"
	"sync"
	"time"

	"github.com/snower/slock/protocol"
)

// ---------------------------------------------------------------------------------------------
// case data (plain JSON)

type d18Cmd struct {
	Op  string `json:"op"`            // init | lock | unlock | will_lock | will_unlock | ping
	Cid int    `json:"cid,omitempty"` // init: index into the client id pool
	Key int    `json:"key,omitempty"`
	Id  int    `json:"id,omitempty"` // LockId index
	T   int    `json:"t,omitempty"`  // Timeout (s)
	E   int    `json:"e,omitempty"`  // Expried (s)
	Cnt int    `json:"cnt,omitempty"`
	Rc  int    `json:"rc,omitempty"`
	KA  bool   `json:"ka,omitempty"` // lock: TIMEOUT_FLAG_KEEPLIVED (0x8000): renewed at every timeout while the stream is alive
}

func (c d18Cmd) String() string {
	switch c.Op {
	case "init":
		return fmt.Sprintf("INIT(client%d)", c.Cid)
	case "ping":
		return "PING"
	}
	ka := ""
	if c.KA {
		ka = " keepalive-timeout"
	}
	return fmt.Sprintf("%s(k%d id%d T=%d E=%d count=%d rcount=%d%s)", strings.ToUpper(c.Op), c.Key, c.Id, c.T, c.E, c.Cnt, c.Rc, ka)
}

func (c d18Cmd) timeoutFlag() uint16 {
	if c.KA && c.Op == "lock" {
		return protocol.TIMEOUT_FLAG_KEEPLIVED
	}
	return 0
}

func (c d18Cmd) isWill() bool { return c.Op == "will_lock" || c.Op == "will_unlock" }

type d18Step struct {
	K     string   `json:"k"`               // open | send | close | tick
	C     int      `json:"c,omitempty"`     // connection index
	Text  bool     `json:"text,omitempty"`  // open: text protocol connection
	Cmds  []d18Cmd `json:"cmds,omitempty"`  // send
	Batch bool     `json:"batch,omitempty"` // send on a binary connection: all frames arrive in one read
	How   string   `json:"how,omitempty"`   // close: eof | magic | version | server | eof+server | proto-race
	Twice bool     `json:"twice,omitempty"` // close: call Close() on the protocol object once more afterwards
	N     int      `json:"n,omitempty"`     // tick: seconds
}

func (s d18Step) String() string {
	switch s.K {
	case "open":
		if s.Text {
			return fmt.Sprintf("open c%d (text)", s.C)
		}
		return fmt.Sprintf("open c%d (binary)", s.C)
	case "send":
		var p []string
		for _, c := range s.Cmds {
			p = append(p, c.String())
		}
		b := ""
		if s.Batch {
			b = " [one read]"
		}
		return fmt.Sprintf("c%d send%s %s", s.C, b, strings.Join(p, ", "))
	case "close":
		t := ""
		if s.Twice {
			t = " + second Close()"
		}
		return fmt.Sprintf("c%d close how=%s%s", s.C, s.How, t)
	case "tick":
		return fmt.Sprintf("tick %d s", s.N)
	case "session":
		return "session check (checkServerProtocolSession)"
	}
	return s.K
}

type d18Case struct {
	Steps []d18Step `json:"steps"`
}

func (c *d18Case) fingerprint() uint64 {
	var sb strings.Builder
	for _, s := range c.Steps {
		sb.WriteString(s.String())
		sb.WriteByte(';')
	}
	return vHash(sb.String())
}

func (c *d18Case) String() string {
	var sb strings.Builder
	for i, s := range c.Steps {
		fmt.Fprintf(&sb, "  %2d. %s\n", i, s.String())
	}
	return sb.String()
}

// ---------------------------------------------------------------------------------------------
// identifiers on the wire

const d18Epoch = int64(1700000000)

func d18Key(i int) (k [16]byte) {
	k[0], k[1] = byte(i+1), byte((i+1)>>8)
	k[14], k[15] = 0x18, 0x4b
	return
}

func d18LockId(i int) (k [16]byte) {
	k[0], k[1] = byte(i+1), byte((i+1)>>8)
	k[14], k[15] = 0x18, 0x1d
	return
}

func d18LockIdx(k [16]byte) int {
	if k[14] != 0x18 || k[15] != 0x1d {
		return -1
	}
	return (int(k[0]) | int(k[1])<<8) - 1
}

func d18KeyIdx(k [16]byte) int {
	if k[14] != 0x18 || k[15] != 0x4b {
		return -1
	}
	return (int(k[0]) | int(k[1])<<8) - 1
}

// client id pool: 0 and 1 are ordinary ids, 2 is the all-zero id (the id every connection that never
// sent INIT implicitly carries in its proxy objects).
func d18ClientId(i int) (k [16]byte) {
	if i == 2 {
		return
	}
	k[0] = byte(0xc0 + i)
	k[14], k[15] = 0x18, 0xc1
	return
}

func d18ReqId(n int) (k [16]byte) {
	k[0], k[1], k[2], k[3] = byte(n), byte(n>>8), byte(n>>16), byte(n>>24)
	k[12], k[13], k[14], k[15] = 0x44, 0x31, 0x38, 0x21
	return
}

func d18ReqIdx(k [16]byte) int {
	if k[12] != 0x44 || k[13] != 0x31 || k[14] != 0x38 || k[15] != 0x21 {
		return -1
	}
	return int(k[0]) | int(k[1])<<8 | int(k[2])<<16 | int(k[3])<<24
}

// ---------------------------------------------------------------------------------------------
// in-memory connection

type d18Addr struct{ port int }

func (a d18Addr) Network() string { return "tcp" }
func (a d18Addr) String() string  { return fmt.Sprintf("127.0.0.1:%d", a.port) }

type d18Conn struct {
	mu       sync.Mutex
	cond     *sync.Cond
	in       [][]byte // one element = what one Read of the server can see at most
	out      []byte
	reading  bool // the handler goroutine is parked in Read on an empty queue
	eof      bool // client side finished sending
	closed   bool // Close() was called (by the server side)
	port     int
	lateW    int // writes attempted after Close
	lateData []byte
}

func d18NewConn(port int) *d18Conn {
	c := &d18Conn{port: port}
	c.cond = sync.NewCond(&c.mu)
	return c
}

func (c *d18Conn) Read(p []byte) (int, error) {
	c.mu.Lock()
	defer c.mu.Unlock()
	for len(c.in) == 0 && !c.closed && !c.eof {
		c.reading = true
		c.cond.Broadcast()
		c.cond.Wait()
	}
	c.reading = false
	if c.closed {
		return 0, net.ErrClosed
	}
	if len(c.in) == 0 {
		return 0, io.EOF
	}
	n := copy(p, c.in[0])
	if n == len(c.in[0]) {
		c.in = c.in[1:]
	} else {
		c.in[0] = c.in[0][n:]
	}
	return n, nil
}

func (c *d18Conn) Write(p []byte) (int, error) {
	c.mu.Lock()
	defer c.mu.Unlock()
	if c.closed {
		c.lateW++
		if len(c.lateData) < 4096 {
			c.lateData = append(c.lateData, p...)
		}
		return 0, net.ErrClosed
	}
	c.out = append(c.out, p...)
	c.cond.Broadcast()
	return len(p), nil
}

func (c *d18Conn) Close() error {
	c.mu.Lock()
	c.closed = true
	c.cond.Broadcast()
	c.mu.Unlock()
	return nil
}
func (c *d18Conn) LocalAddr() net.Addr                { return d18Addr{5658} }
func (c *d18Conn) RemoteAddr() net.Addr               { return d18Addr{c.port} }
func (c *d18Conn) SetDeadline(t time.Time) error      { return nil }
func (c *d18Conn) SetReadDeadline(t time.Time) error  { return nil }
func (c *d18Conn) SetWriteDeadline(t time.Time) error { return nil }

func (c *d18Conn) push(chunk []byte) {
	c.mu.Lock()
	c.in = append(c.in, chunk)
	c.cond.Broadcast()
	c.mu.Unlock()
}

func (c *d18Conn) finish() {
	c.mu.Lock()
	c.eof = true
	c.cond.Broadcast()
	c.mu.Unlock()
}

// parked: the handler has consumed everything that was sent and waits for more input.
func (c *d18Conn) parked() bool {
	c.mu.Lock()
	defer c.mu.Unlock()
	return c.reading && len(c.in) == 0
}

func (c *d18Conn) takeOut() []byte {
	c.mu.Lock()
	defer c.mu.Unlock()
	b := c.out
	c.out = nil
	return b
}

// ---------------------------------------------------------------------------------------------
// harness-side view of a connection

type d18Sent struct {
	Conn int
	Cmd  d18Cmd
	What string // lock | unlock | will | init | ping | state | garbage | drain | ref-will
}

type d18Frame struct {
	Type   byte
	Req    int // index into env.sent, -1 unknown
	ReqId  [16]byte
	Result byte
	LockId [16]byte
	Key    [16]byte
	At     int64
	Raw    []byte
}

type d18Peer struct {
	idx           int
	text          bool
	conn          *d18Conn
	stream        *Stream
	done          chan struct{}
	pan           interface{}
	stack         string
	proto         ServerProtocol
	opened        bool
	sentAny       bool
	cid           int // client id index announced with INIT, -1 none
	wills         []d18Cmd
	pending       *d18Cmd // text: command whose reply has not arrived yet
	pendKind      string
	closeReq      *d18Step // close requested but deferred (text connection in a lock wait)
	closing       bool     // close initiated by the harness, handler not finished yet
	dead          bool     // handler finished
	inbuf         []byte   // output not yet parsed
	frames        []d18Frame
	textRep       int // complete text replies received
	queuedAtClose int
	heldAtClose   int
	willsAtClose  int
	how           string
}

// ---------------------------------------------------------------------------------------------
// environment

type d18Violation struct {
	Key string
	Msg string
}

func (v *d18Violation) Error() string { return v.Msg }

type d18Inconclusive struct{ Msg string }

func (v *d18Inconclusive) Error() string { return v.Msg }

type d18Info struct {
	Steps            int
	Closes           int
	ClosesWithWill   int
	NontrivCloses    int // close with >= 1 will and >= 1 queued request of that connection
	WillsRun         int
	LateToSucc       int // replies for a dead connection's request that arrived on its successor
	LateDropped      int // queued requests of dead connections that ended without any frame
	Expired          int
	TimedOut         int
	Reconnects       int
	TextBlockedClose int
	Deferred         int
	Skipped          int
	Classes          map[string]bool
	NeedChild        bool // the run stopped in front of a close that is predicted to kill the process
}

type d18Opts struct {
	Ref     bool // reference run: wills are not registered; the watcher executes them after the close
	NoGuard bool // execute closes that are predicted to overflow the stack (child process only)
	Trace   bool
}

type d18Env struct {
	c           *d18Case
	opts        d18Opts
	inst        *vInst
	db          *LockDB
	now         int64
	toQ         [][]*LockQueue
	exQ         [][]*LockQueue
	peers       map[int]*d18Peer
	order       []int
	w           *d18Peer
	sent        []d18Sent
	snaps       []string // canonical lock table after every step
	log         []string
	info        d18Info
	nextPort    int
	viol        *d18Violation
	inClose     bool
	textHook    func(p *d18Peer, cmd *d18Cmd, el []string) // nil in engine D
	lastInit    map[int]*d18Peer
	ownedWaits  []d18ClosedWait
	closedWaits map[[2]int]d18ClosedWait // queued requests left behind by connections without a client id, with the deadline they had at the close
}

// d18ClosedWait: a request that was queued when its connection was closed. A keep-alive time-out flag
// renews a queued request only while its connection is alive; from the close on its deadline is final.
type d18ClosedWait struct {
	Key, Id   int
	Deadline  int64
	Conn      int
	KeepAlive bool
}

const d18WatcherIdx = 99

func (e *d18Env) logf(format string, a ...interface{}) {
	e.log = append(e.log, fmt.Sprintf("[t+%d] ", e.now-d18Epoch)+fmt.Sprintf(format, a...))
}

func (e *d18Env) history() string {
	h := e.log
	if len(h) > 300 {
		h = h[len(h)-300:]
	}
	return strings.Join(h, "\n")
}

func (e *d18Env) fail(key, format string, a ...interface{}) {
	if e.viol == nil {
		e.viol = &d18Violation{Key: key, Msg: fmt.Sprintf(format, a...)}
	}
}

var d18Watchdog = 10 * time.Second

func d18Abort(why string) {
	fmt.Printf("VERIF-INCONCLUSIVE C18 %s\n", why)
	vFlush()
	os.Exit(3)
}

func d18NewEnv(c *d18Case, opts d18Opts) (*d18Env, error) {
	inst, err := vNewInst(vInstOpts{NoCheckLoop: true, DBConcurrent: 2, DBFastKeyCount: 64})
	if err != nil {
		return nil, err
	}
	e := &d18Env{c: c, opts: opts, inst: inst, now: d18Epoch, peers: map[int]*d18Peer{}, nextPort: 41000, lastInit: map[int]*d18Peer{}, closedWaits: map[[2]int]d18ClosedWait{}}
	e.info.Classes = map[string]bool{}
	d := inst.slock.GetOrNewDB(0)
	d.currentTime, d.checkTimeoutTime, d.checkExpriedTime = e.now, e.now, e.now
	e.db = d
	e.toQ = make([][]*LockQueue, d.managerMaxGlocks)
	e.exQ = make([][]*LockQueue, d.managerMaxGlocks)
	for i := range e.toQ {
		e.toQ[i] = make([]*LockQueue, 5)
		e.exQ[i] = make([]*LockQueue, 5)
		for j := 0; j < 5; j++ {
			e.toQ[i][j] = NewLockQueue(4, 16, 64)
			e.exQ[i][j] = NewLockQueue(4, 16, 64)
		}
	}
	return e, nil
}

func (e *d18Env) close() {
	for _, p := range e.allPeers() {
		if p.opened && !p.dead && !e.opts.NoGuard && e.wouldRecurse(p) {
			// the run was abandoned in front of this close (it is executed in a child process instead);
			// tearing the connection down must not walk into the recursion either: forget its wills
			if bp, ok := p.proto.(*BinaryServerProtocol); ok {
				bp.glock.Lock()
				bp.willCommands = nil
				bp.glock.Unlock()
			}
		}
	}
	for _, p := range e.allPeers() {
		if p.opened && !p.dead {
			p.conn.finish()
			_ = p.conn.Close()
		}
	}
	for _, p := range e.allPeers() {
		if p.opened && !p.dead {
			select {
			case <-p.done:
			case <-time.After(2 * time.Second):
			}
		}
	}
	e.inst.vClose(false, true)
}

func (e *d18Env) allPeers() []*d18Peer {
	out := []*d18Peer{}
	if e.w != nil {
		out = append(out, e.w)
	}
	for _, i := range e.order {
		out = append(out, e.peers[i])
	}
	return out
}

func (e *d18Env) openPeer(idx int, text bool) *d18Peer {
	p := &d18Peer{idx: idx, text: text, cid: -1, done: make(chan struct{})}
	e.nextPort++
	p.conn = d18NewConn(e.nextPort)
	p.stream = NewStream(p.conn)
	_ = e.inst.server.addStream(p.stream)
	p.opened = true
	go func() {
		defer close(p.done)
		defer func() {
			if r := recover(); r != nil {
				p.pan = r
				p.stack = string(debug.Stack())
			}
		}()
		e.inst.server.handle(p.stream)
	}()
	return p
}

// ---------------------------------------------------------------------------------------------
// encoding

func (e *d18Env) newReq(conn int, cmd d18Cmd, what string) (int, [16]byte) {
	n := len(e.sent)
	e.sent = append(e.sent, d18Sent{conn, cmd, what})
	return n, d18ReqId(n)
}

func d18LockFrame(ctype uint8, req [16]byte, c d18Cmd) []byte {
	lc := protocol.LockCommand{Command: protocol.Command{Magic: protocol.MAGIC, Version: protocol.VERSION, CommandType: ctype, RequestId: req},
		Flag: 0, DbId: 0, LockId: d18LockId(c.Id), LockKey: d18Key(c.Key), TimeoutFlag: c.timeoutFlag(), Timeout: uint16(c.T), ExpriedFlag: 0, Expried: uint16(c.E),
		Count: uint16(c.Cnt), Rcount: uint8(c.Rc)}
	b := make([]byte, 64)
	_ = lc.Encode(b)
	return b
}

func (e *d18Env) binaryFrame(p *d18Peer, c d18Cmd, what string) []byte {
	_, req := e.newReq(p.idx, c, what)
	switch c.Op {
	case "init":
		ic := protocol.InitCommand{Command: protocol.Command{Magic: protocol.MAGIC, Version: protocol.VERSION, CommandType: protocol.COMMAND_INIT, RequestId: req}, ClientId: d18ClientId(c.Cid)}
		b := make([]byte, 64)
		_ = ic.Encode(b)
		return b
	case "ping":
		pc := protocol.PingCommand{Command: protocol.Command{Magic: protocol.MAGIC, Version: protocol.VERSION, CommandType: protocol.COMMAND_PING, RequestId: req}}
		b := make([]byte, 64)
		_ = pc.Encode(b)
		return b
	case "state":
		sc := protocol.StateCommand{Command: protocol.Command{Magic: protocol.MAGIC, Version: protocol.VERSION, CommandType: protocol.COMMAND_STATE, RequestId: req}}
		b := make([]byte, 64)
		_ = sc.Encode(b)
		return b
	case "lock":
		return d18LockFrame(protocol.COMMAND_LOCK, req, c)
	case "unlock":
		return d18LockFrame(protocol.COMMAND_UNLOCK, req, c)
	case "will_lock":
		return d18LockFrame(protocol.COMMAND_WILL_LOCK, req, c)
	case "will_unlock":
		return d18LockFrame(protocol.COMMAND_WILL_UNLOCK, req, c)
	}
	return nil
}

func d18Resp(args ...string) []byte {
	var b bytes.Buffer
	fmt.Fprintf(&b, "*%d\r\n", len(args))
	for _, a := range args {
		fmt.Fprintf(&b, "$%d\r\n%s\r\n", len(a), a)
	}
	return b.Bytes()
}

func d18TextCommand(c d18Cmd) []byte {
	key, id := d18Key(c.Key), d18LockId(c.Id)
	name := "LOCK"
	if c.Op == "unlock" || c.Op == "will_unlock" {
		name = "UNLOCK"
	}
	args := []string{name, hex.EncodeToString(key[:]), "LOCK_ID", hex.EncodeToString(id[:]), "TIMEOUT", strconv.Itoa(c.T | int(c.timeoutFlag())<<16), "EXPRIED", strconv.Itoa(c.E),
		"COUNT", strconv.Itoa(c.Cnt + 1), "RCOUNT", strconv.Itoa(c.Rc + 1)}
	if c.isWill() {
		args = append(args, "WILL", "1")
	}
	return d18Resp(args...)
}

// d18ParseResp returns the length of the first complete RESP value in b (0 = incomplete, -1 = malformed)
// and its flattened elements.
func d18ParseResp(b []byte) (int, []string) {
	if len(b) == 0 {
		return 0, nil
	}
	line := func(off int) (string, int) {
		i := bytes.Index(b[off:], []byte("\r\n"))
		if i < 0 {
			return "", 0
		}
		return string(b[off : off+i]), off + i + 2
	}
	switch b[0] {
	case '+', '-', ':':
		s, n := line(0)
		if n == 0 {
			return 0, nil
		}
		return n, []string{s}
	case '$':
		s, n := line(0)
		if n == 0 {
			return 0, nil
		}
		l, err := strconv.Atoi(s[1:])
		if err != nil {
			return -1, nil
		}
		if l < 0 {
			return n, []string{"(nil)"}
		}
		if len(b) < n+l+2 {
			return 0, nil
		}
		return n + l + 2, []string{string(b[n : n+l])}
	case '*':
		s, n := line(0)
		if n == 0 {
			return 0, nil
		}
		cnt, err := strconv.Atoi(s[1:])
		if err != nil {
			return -1, nil
		}
		var out []string
		off := n
		for i := 0; i < cnt; i++ {
			m, el := d18ParseResp(b[off:])
			if m <= 0 {
				return m, nil
			}
			out = append(out, el...)
			off += m
		}
		return off, out
	}
	return -1, nil
}

// ---------------------------------------------------------------------------------------------
// synchronisation

// textQueued: the lock request a text connection is waiting for is still in the key's wait queue.
// Only state that the handler goroutine published under the key's mutex is read (the Lock object and
// the proxy it was created with); stream.protocol itself is written by the handler without
// synchronisation while the connection starts up.
func (e *d18Env) textQueued(p *d18Peer) bool {
	if p.pending == nil || p.pending.Op != "lock" || p.pending.T == 0 {
		return false // only a LOCK with a timeout can wait in a queue
	}
	probe := &protocol.LockCommand{LockKey: d18Key(p.pending.Key)}
	m := e.db.GetLockManager(probe)
	if m == nil {
		return false
	}
	m.glock.LowPriorityLock()
	defer m.glock.LowPriorityUnlock()
	if m.lockKey != probe.LockKey || m.waitLocks == nil {
		return false
	}
	for _, n := range m.waitLocks.IterNodes() {
		for _, l := range n {
			if l == nil || l.timeouted || l.command == nil || l.locked > 0 || l.protocol == nil {
				continue
			}
			if l.command.LockId != d18LockId(p.pending.Id) {
				continue // e.g. the queued request of an earlier PUSH of the same connection
			}
			if tp, ok := l.protocol.serverProtocol.(*TextServerProtocol); ok && tp != nil && tp.stream == p.stream {
				return true
			}
		}
	}
	return false
}

func (p *d18Peer) finished() bool {
	select {
	case <-p.done:
		return true
	default:
		return false
	}
}

// settle waits until every handler goroutine is parked, then takes in what the connections received.
func (e *d18Env) settle() {
	// two passes: a handler that finishes its work late can still write to (binary) or wake up (text) a
	// connection that was looked at earlier in the first pass; after the first pass no binary handler is
	// executing a command any more, so the second pass only waits for woken text handlers to park again
	for pass := 0; pass < 2; pass++ {
		for _, p := range e.allPeers() {
			if p.opened && !p.dead {
				e.waitParked(p)
			}
		}
	}
	for _, p := range e.allPeers() {
		if !p.opened || p.dead {
			continue
		}
		if p.proto == nil && p.stream.protocol != nil {
			p.proto = p.stream.protocol
		}
		e.intake(p)
		if p.finished() {
			e.onDead(p)
		}
	}
	// deferred closes of text connections whose wait has ended - one at a time, never nested inside
	// another close (its before/after comparison must see that close only)
	if e.inClose {
		return
	}
	for again := true; again; {
		again = false
		for _, p := range e.allPeers() {
			if p.opened && !p.dead && p.closeReq != nil && p.pending == nil && e.viol == nil && !e.info.NeedChild {
				st := *p.closeReq
				p.closeReq = nil
				e.logf("c%d is idle again: deferred close how=%s", p.idx, st.How)
				e.doClose(p, st)
				again = true
				break
			}
		}
	}
}

func (e *d18Env) waitParked(p *d18Peer) {
	deadline := time.Time{}
	for spin := 0; ; spin++ {
		if p.finished() {
			return
		}
		if p.conn.parked() {
			return
		}
		if p.text && p.pending != nil && e.textQueued(p) {
			return
		}
		if spin < 200 {
			runtime.Gosched()
			continue
		}
		if deadline.IsZero() {
			deadline = time.Now().Add(d18Watchdog)
		} else if time.Now().After(deadline) {
			d18Abort(fmt.Sprintf("handler of connection c%d is neither parked nor finished after %v\ncase:\n%s\nhistory:\n%s", p.idx, d18Watchdog, e.c.String(), e.history()))
		}
		time.Sleep(20 * time.Microsecond)
	}
}

func (e *d18Env) onDead(p *d18Peer) {
	if p.dead {
		return
	}
	p.dead = true
	e.intake(p)
	if p.pan != nil {
		e.fail("C18:panic:"+w18TopFunc(p.stack), "panic escaped Server.handle on connection c%d (the server process would die): %v\n%s", p.idx, p.pan, d18TrimStack(p.stack))
	}
	if !p.closing {
		e.logf("c%d: handler ended (connection closed by the server)", p.idx)
	}
}

// allowedReq: may connection p receive a frame that answers request s?
func (e *d18Env) allowedReq(p *d18Peer, s d18Sent) bool {
	if s.Conn == p.idx {
		return true
	}
	// late reply of a dead connection that had announced the same client id
	if q, ok := e.peers[s.Conn]; ok && q != p && q.cid >= 0 && q.cid == p.cid && (q.dead || q.closing) {
		return true
	}
	return false
}

func (e *d18Env) intake(p *d18Peer) {
	b := p.conn.takeOut()
	if len(b) == 0 {
		return
	}
	p.inbuf = append(p.inbuf, b...)
	if p.text {
		for len(p.inbuf) > 0 {
			n, el := d18ParseResp(p.inbuf)
			if n == 0 {
				return
			}
			if n < 0 {
				e.fail("C18:text:malformed-reply", "connection c%d (text) received bytes that are not a RESP value: %q", p.idx, p.inbuf)
				p.inbuf = nil
				return
			}
			p.inbuf = p.inbuf[n:]
			p.textRep++
			if e.textHook != nil {
				// another engine (C03 text replies) judges text replies itself
				cmd := p.pending
				p.pending = nil
				e.textHook(p, cmd, el)
				continue
			}
			if p.pending == nil {
				e.logf("  <- c%d UNSOLICITED text reply %q", p.idx, el)
				e.fail("C18:misrouted:unsolicited-text-reply", "connection c%d (text) received a reply although it has no command outstanding: %q", p.idx, el)
				continue
			}
			cmd := *p.pending
			p.pending = nil
			e.logf("  <- c%d text reply to %v: %s", p.idx, cmd, d18Short(el))
			if cmd.isWill() {
				if len(el) != 1 || el[0] != "+OK" {
					e.fail("C18:text:will-registration-reply", "text WILL registration %v answered %q, want +OK", cmd, el)
				}
				continue
			}
			if len(el) >= 4 && el[2] == "LOCK_ID" {
				id := d18LockId(cmd.Id)
				if el[3] != hex.EncodeToString(id[:]) {
					e.fail("C18:misrouted:text-reply-other-lock", "connection c%d (text) asked %v and received a reply about LockId %s", p.idx, cmd, el[3])
				}
			} else {
				e.fail("C18:text:unexpected-reply", "connection c%d (text) asked %v and received %q", p.idx, cmd, el)
			}
		}
		return
	}
	for len(p.inbuf) >= 64 {
		f := p.inbuf[:64]
		p.inbuf = p.inbuf[64:]
		fr := d18Frame{Type: f[2], Result: f[19], At: e.now, Raw: append([]byte{}, f...)}
		copy(fr.ReqId[:], f[3:19])
		fr.Req = d18ReqIdx(fr.ReqId)
		if fr.Type == protocol.COMMAND_LOCK || fr.Type == protocol.COMMAND_UNLOCK {
			copy(fr.LockId[:], f[22:38])
			copy(fr.Key[:], f[38:54])
		}
		p.frames = append(p.frames, fr)
		if f[0] != protocol.MAGIC || f[1] != protocol.VERSION {
			e.fail("C18:binary:malformed-frame", "connection c%d received a frame with magic/version %#x/%#x: %x", p.idx, f[0], f[1], f)
			continue
		}
		if fr.Req < 0 || fr.Req >= len(e.sent) {
			e.logf("  <- c%d frame with UNKNOWN RequestId %x type=%d result=%d", p.idx, fr.ReqId, fr.Type, fr.Result)
			key := "C18:misrouted:unknown-request-id"
			if p.cid == 2 {
				key = d18KeyZeroId // server-generated RequestId of a dead text connection's request
			}
			e.fail(key, "connection c%d received a frame whose RequestId %x no binary connection of the harness ever sent (type %d, result %s, LockId idx %d, key idx %d)",
				p.idx, fr.ReqId, fr.Type, aResultName(fr.Result), d18LockIdx(fr.LockId), d18KeyIdx(fr.Key))
			continue
		}
		s := e.sent[fr.Req]
		e.logf("  <- c%d %s reply to #%d (c%d %s %v)", p.idx, aResultName(fr.Result), fr.Req, s.Conn, s.What, s.Cmd)
		if !e.allowedReq(p, s) {
			key := "C18:misrouted:reply-on-foreign-connection"
			if p.cid == 2 && e.cidOf(s.Conn) < 0 {
				// the receiver announced the all-zero client id, the sender never announced one
				key = d18KeyZeroId
			}
			e.fail(key, "connection c%d (client id %d) received the %s reply to request #%d, which connection c%d (client id %d) sent: %v",
				p.idx, p.cid, aResultName(fr.Result), fr.Req, s.Conn, e.cidOf(s.Conn), s.Cmd)
			continue
		}
		if s.Conn != p.idx {
			e.info.LateToSucc++
			e.info.Classes["late-reply-delivered-to-successor"] = true
		}
		switch fr.Result {
		case protocol.RESULT_EXPRIED:
			e.info.Expired++
		case protocol.RESULT_TIMEOUT:
			e.info.TimedOut++
		}
	}
}

func (e *d18Env) cidOf(conn int) int {
	if conn == d18WatcherIdx {
		return -1
	}
	if q, ok := e.peers[conn]; ok {
		return q.cid
	}
	return -1
}

func d18Short(el []string) string {
	if len(el) >= 2 {
		return el[0] + " " + el[1]
	}
	return strings.Join(el, " ")
}

// ---------------------------------------------------------------------------------------------
// snapshots

type d18Snap struct {
	keys []*aSnapKey
	str  string
}

func (e *d18Env) snapshot() *d18Snap {
	ks := aSnapshot(0, e.db)
	var sb strings.Builder
	for _, k := range ks {
		fmt.Fprintf(&sb, "k%d locked=%d", d18KeyIdx(k.Key), k.Locked)
		hs := append([]aSnapHold{}, k.Holders...)
		// holder order is part of the state (oldest first decides the capacity); keep it
		for _, h := range hs {
			fmt.Fprintf(&sb, " H(id%d depth=%d count=%d rcount=%d exp=t+%d)", d18LockIdx(h.Id), h.Depth, h.Count, h.Rcount, h.ExpriedTime-d18Epoch)
		}
		for _, w := range k.Waiters {
			fmt.Fprintf(&sb, " W(id%d to=t+%d)", d18LockIdx(w.Id), w.TimeoutTime-d18Epoch)
		}
		sb.WriteString("\n")
	}
	return &d18Snap{ks, sb.String()}
}

func (s *d18Snap) counts() (holds int, depth int, waits int) {
	for _, k := range s.keys {
		holds += len(k.Holders)
		for _, h := range k.Holders {
			depth += int(h.Depth)
		}
		waits += len(k.Waiters)
	}
	return
}

// ownedBy counts the live queued requests / holds whose Lock object routes replies through one of the
// proxy objects of connection p.
func (e *d18Env) ownedBy(p *d18Peer) (queued, held int) {
	e.ownedWaits = e.ownedWaits[:0]
	var proxies []*ProxyServerProtocol
	switch tp := p.proto.(type) {
	case *BinaryServerProtocol:
		proxies = tp.proxys
	case *TextServerProtocol:
		proxies = tp.proxys
	default:
		return
	}
	own := func(l *Lock) bool {
		for _, x := range proxies {
			if l.protocol == x {
				return true
			}
		}
		return false
	}
	d := e.db
	for i := uint16(0); i < d.managerMaxGlocks; i++ {
		d.managerGlocks[i].Lock()
	}
	defer func() {
		for i := uint16(0); i < d.managerMaxGlocks; i++ {
			d.managerGlocks[i].Unlock()
		}
	}()
	visit := func(m *LockManager) {
		seen := map[*Lock]bool{}
		add := func(l *Lock) {
			if l == nil || l.locked == 0 || l.command == nil || seen[l] {
				return
			}
			seen[l] = true
			if own(l) {
				held++
			}
		}
		add(m.currentLock)
		if m.locks != nil {
			for i := range m.locks.IterNodes() {
				for _, l := range m.locks.IterNodeQueues(int32(i)) {
					add(l)
				}
			}
		}
		if m.waitLocks != nil {
			for _, n := range m.waitLocks.IterNodes() {
				for _, l := range n {
					if l == nil || l.timeouted || l.command == nil || l.locked > 0 {
						continue
					}
					if own(l) {
						queued++
						e.ownedWaits = append(e.ownedWaits, d18ClosedWait{Key: d18KeyIdx(m.lockKey), Id: d18LockIdx(l.command.LockId), Deadline: l.timeoutTime, Conn: p.idx,
							KeepAlive: l.command.TimeoutFlag&protocol.TIMEOUT_FLAG_KEEPLIVED != 0})
					}
				}
			}
		}
	}
	seenM := map[*LockManager]bool{}
	for i := range d.fastLocks {
		fv := &d.fastLocks[i]
		if fv.lock == 2 && fv.manager != nil && fv.manager.refCount != 0xffffffff && !seenM[fv.manager] {
			seenM[fv.manager] = true
			visit(fv.manager)
		}
	}
	d.mGlock.RLock()
	for _, m := range d.locks {
		if m.refCount != 0xffffffff && !seenM[m] {
			seenM[m] = true
			visit(m)
		}
	}
	d.mGlock.RUnlock()
	return
}

// deadQueued lists the queued requests (request index -> sending connection) that were sent by a binary
// connection which has ended and had announced a client id.
func (e *d18Env) deadQueued() map[int]int {
	out := map[int]int{}
	d := e.db
	for i := uint16(0); i < d.managerMaxGlocks; i++ {
		d.managerGlocks[i].Lock()
	}
	defer func() {
		for i := uint16(0); i < d.managerMaxGlocks; i++ {
			d.managerGlocks[i].Unlock()
		}
	}()
	visit := func(m *LockManager) {
		if m.waitLocks == nil {
			return
		}
		for _, n := range m.waitLocks.IterNodes() {
			for _, l := range n {
				if l == nil || l.timeouted || l.command == nil || l.locked > 0 {
					continue
				}
				r := d18ReqIdx(l.command.RequestId)
				if r < 0 || r >= len(e.sent) {
					continue
				}
				// (the all-zero id counts as "no id announced")
				if q, ok := e.peers[e.sent[r].Conn]; ok && q.dead && !q.text && q.cid >= 0 && q.cid != 2 {
					out[r] = q.idx
				}
			}
		}
	}
	seenM := map[*LockManager]bool{}
	for i := range d.fastLocks {
		fv := &d.fastLocks[i]
		if fv.lock == 2 && fv.manager != nil && fv.manager.refCount != 0xffffffff && !seenM[fv.manager] {
			seenM[fv.manager] = true
			visit(fv.manager)
		}
	}
	d.mGlock.RLock()
	for _, m := range d.locks {
		if m.refCount != 0xffffffff && !seenM[m] {
			seenM[m] = true
			visit(m)
		}
	}
	d.mGlock.RUnlock()
	return out
}

// registered returns the live connection that is entered in slock.clients under the client id, or nil.
func (e *d18Env) registered(cid int) *d18Peer {
	e.inst.slock.clientsGlock.Lock()
	sp, ok := e.inst.slock.clients[d18ClientId(cid)]
	e.inst.slock.clientsGlock.Unlock()
	if !ok || sp == nil {
		return nil
	}
	for _, i := range e.order {
		p := e.peers[i]
		if p.opened && !p.dead && !p.closing && p.proto != nil && p.proto == sp {
			return p
		}
	}
	return nil
}

// successor: the connection that announced the client id most recently (INIT), if it is alive. Kept by
// the harness, on purpose not read from slock.clients: whether the server registered the announcement is
// part of what is being checked. If the most recent announcer has ended, nothing is demanded (an older
// live announcer was displaced from the table and the entry went away with its displacer).
func (e *d18Env) successor(cid int) *d18Peer {
	p := e.lastInit[cid]
	if p == nil || !p.opened || p.dead || p.closing {
		return nil
	}
	return p
}

type d18LateWatch struct {
	queued map[int]int
	reg    map[int]*d18Peer
}

func (e *d18Env) lateBefore() *d18LateWatch {
	w := &d18LateWatch{queued: e.deadQueued(), reg: map[int]*d18Peer{}}
	for _, owner := range w.queued {
		cid := e.peers[owner].cid
		if _, ok := w.reg[cid]; !ok {
			w.reg[cid] = e.successor(cid)
		}
	}
	return w
}

// lateAfter: a queued request of a dead connection ended during the step while one and the same live
// connection was registered under the dead connection's client id: the terminal reply must have arrived
// there ("delivered to that connection").
func (e *d18Env) lateAfter(w *d18LateWatch) {
	if len(w.queued) == 0 {
		return
	}
	now := e.deadQueued()
	var reqs []int
	for r := range w.queued {
		if _, still := now[r]; !still {
			reqs = append(reqs, r)
		}
	}
	sort.Ints(reqs)
	for _, r := range reqs {
		owner := e.peers[w.queued[r]]
		s := w.reg[owner.cid]
		if s == nil || s != e.successor(owner.cid) {
			e.info.LateDropped++
			e.info.Classes["late-reply-dropped-no-successor"] = true
			continue
		}
		// any connection that announced this client id will do: a proxy that was re-bound to an earlier
		// successor keeps delivering there while that one lives
		got := false
		for _, i := range e.order {
			q := e.peers[i]
			if q == owner || q.cid != owner.cid {
				continue
			}
			for _, f := range q.frames {
				if f.Req == r {
					got = true
				}
			}
		}
		if !got && d18StrictSuccessor {
			e.fail("C18:late-reply:lost-although-successor-connected", "request #%d (%v) of the dead connection c%d (client id %d) ended while connection c%d was the live connection that had announced the same client id most recently, but no reply for it arrived on any connection that announced this id",
				r, e.sent[r].Cmd, owner.idx, owner.cid, s.idx)
		}
	}
}

// d18StrictSuccessor: read "dropped - or, if a client that announced the same client id has reconnected,
// delivered to that connection" as: with a registered successor the reply is delivered. VERIF_C18_LENIENT=1
// accepts a silent drop in that situation as well.
var d18StrictSuccessor = os.Getenv("VERIF_C18_LENIENT") == ""

// ---------------------------------------------------------------------------------------------
// steps

func (e *d18Env) peer(idx int) *d18Peer { return e.peers[idx] }

func (e *d18Env) stepOpen(st d18Step) {
	if _, ok := e.peers[st.C]; ok {
		return
	}
	p := e.openPeer(st.C, st.Text)
	e.peers[st.C] = p
	e.order = append(e.order, st.C)
	e.settle()
}

// announces: the case contains an INIT on this connection.
func (e *d18Env) announces(conn int) bool {
	for _, st := range e.c.Steps {
		if st.K == "send" && st.C == conn {
			for _, c := range st.Cmds {
				if c.Op == "init" {
					return true
				}
			}
		}
	}
	return false
}

// idQueued: a request bearing this LockId is still queued on the key.
func (e *d18Env) idQueued(c d18Cmd) bool {
	if c.Op != "lock" {
		return false
	}
	key, id := d18Key(c.Key), d18LockId(c.Id)
	for _, k := range e.snapshot().keys {
		if k.Key != key {
			continue
		}
		for _, w := range k.Waiters {
			if w.Id == id {
				return true
			}
		}
	}
	return false
}

func (e *d18Env) stepSend(st d18Step) {
	if len(st.Cmds) > 0 {
		var keep []d18Cmd
		inStep := map[[2]int]bool{}
		for _, c := range st.Cmds {
			dup := c.Op == "lock" && inStep[[2]int{c.Key, c.Id}]
			if c.Op == "lock" && c.T > 0 {
				inStep[[2]int{c.Key, c.Id}] = true
			}
			if dup || e.idQueued(c) {
				e.info.Skipped++
				e.logf("   (skipped %v: a request with this LockId is still queued on the key)", c)
				continue
			}
			if c.Op == "lock" {
				delete(e.closedWaits, [2]int{c.Key, c.Id})
			}
			if c.KA && e.announces(st.C) {
				// domain of the check (also for hand-written / older case files): keep-alive time-outs only on
				// connections that never announce a client id. With an id, a successor that adopted the dead
				// connection's proxy keeps the request alive through its own stream, and whether it adopted the
				// proxy depends on whether another late reply (e.g. a will's) was delivered before the
				// timeout - the will-free reference run is then no reference any more.
				c.KA = false
				e.logf("   (keep-alive flag dropped from %v: c%d announces a client id)", c, st.C)
			}
			keep = append(keep, c)
		}
		st.Cmds = keep
	}
	p := e.peer(st.C)
	if p == nil || !p.opened || p.dead || p.closing || p.closeReq != nil {
		e.info.Skipped++
		e.logf("   (skipped: connection c%d is not open)", st.C)
		return
	}
	if p.text {
		for _, c := range st.Cmds {
			if p.pending != nil {
				e.info.Skipped++
				e.logf("   (skipped %v: c%d is waiting for a queued lock)", c, p.idx)
				continue
			}
			if c.Op == "init" || c.Op == "ping" {
				continue
			}
			if c.isWill() {
				p.wills = append(p.wills, c)
				if e.opts.Ref {
					continue
				}
			}
			cc := c
			p.pending = &cc
			p.sentAny = true
			p.conn.push(d18TextCommand(c))
			e.settle()
			if e.viol != nil {
				return
			}
		}
		return
	}
	var chunks [][]byte
	for _, c := range st.Cmds {
		if c.isWill() {
			p.wills = append(p.wills, c)
			if e.opts.Ref {
				continue
			}
		}
		if c.Op == "init" {
			p.cid = c.Cid
			e.lastInit[c.Cid] = p // the harness's own record of who announced the id last (not slock.clients)
		}
		what := c.Op
		if c.isWill() {
			what = "will"
		}
		chunks = append(chunks, e.binaryFrame(p, c, what))
	}
	if len(chunks) == 0 {
		return
	}
	if !p.sentAny {
		// the very first read decides the protocol: exactly one 64-byte frame
		p.sentAny = true
		p.conn.push(chunks[0])
		chunks = chunks[1:]
		e.settle()
		if e.viol != nil || len(chunks) == 0 {
			return
		}
	}
	if st.Batch {
		var all []byte
		for _, ch := range chunks {
			all = append(all, ch...)
		}
		p.conn.push(all)
		e.settle()
		return
	}
	for _, ch := range chunks {
		p.conn.push(ch)
		e.settle()
		if e.viol != nil {
			return
		}
	}
}

// wouldRecurse: the connection is a binary one that sent INIT, is still registered under its client
// id, and has wills. BinaryServerProtocol.Close runs the wills while `closed && inited` and
// slock.clients[id] == itself; ProcessLockResultCommand then forwards the reply to
// clients[id].ProcessLockResultCommandLocked, i.e. to itself, without end. A Go stack overflow cannot be
// recovered, so the harness does not walk into it in-process.
func (e *d18Env) wouldRecurse(p *d18Peer) bool {
	bp, ok := p.proto.(*BinaryServerProtocol)
	if !ok || bp == nil {
		return false
	}
	if !bp.inited || bp.willCommands == nil || bp.willCommands.Len() == 0 {
		return false
	}
	e.inst.slock.clientsGlock.Lock()
	sp, ok := e.inst.slock.clients[bp.proxys[0].clientId]
	e.inst.slock.clientsGlock.Unlock()
	return ok && sp == ServerProtocol(bp)
}

func (e *d18Env) stepClose(st d18Step) {
	p := e.peer(st.C)
	if p == nil || !p.opened || p.dead || p.closing || p.closeReq != nil {
		e.info.Skipped++
		e.logf("   (skipped: connection c%d is not open)", st.C)
		return
	}
	if p.text && p.pending != nil {
		if len(p.wills) > 0 || st.How != "server" {
			// the close would take effect inside a later sweep, concurrently with it: apply it as soon as the
			// connection is idle again instead (EOF and protocol errors are only seen then anyway)
			cp := st
			p.closeReq = &cp
			e.info.Deferred++
			e.logf("   (c%d is waiting for a queued lock: close deferred until its reply has arrived)", p.idx)
			return
		}
		e.info.TextBlockedClose++
		e.info.Classes["server-close-while-text-lock-waits"] = true
	}
	e.doClose(p, st)
	e.settle()
}

func (e *d18Env) doClose(p *d18Peer, st d18Step) {
	e.inClose = true
	defer func() { e.inClose = false }()
	q, h := e.ownedBy(p)
	p.queuedAtClose, p.heldAtClose, p.willsAtClose, p.how = q, h, len(p.wills), st.How
	if p.cid < 0 {
		// (a connection with a client id hands its proxy to a successor, whose stream then keeps the
		// request alive - that is the reconnect feature, not judged here)
		for _, cw := range e.ownedWaits {
			e.closedWaits[[2]int{cw.Key, cw.Id}] = cw
			if cw.KeepAlive {
				kind := "binary"
				if p.text {
					kind = "text"
				}
				e.info.Classes["close-with-queued-keepalive-request:"+st.How+":"+kind] = true
			}
		}
	}
	e.info.Closes++
	if len(p.wills) > 0 {
		e.info.ClosesWithWill++
		if q > 0 {
			e.info.NontrivCloses++
		}
	}
	kind := "binary"
	if p.text {
		kind = "text"
	}
	e.info.Classes["close:"+st.How+":"+kind] = true
	if len(p.wills) > 0 {
		e.info.Classes["close-with-wills:"+kind] = true
	}
	if q > 0 {
		e.info.Classes["close-with-queued-requests:"+kind] = true
	}
	if h > 0 {
		e.info.Classes["close-with-holds:"+kind] = true
	}
	if !e.opts.Ref && !e.opts.NoGuard && e.wouldRecurse(p) {
		e.info.NeedChild = true
		e.logf("   close of c%d not executed in-process: predicted unbounded recursion", p.idx)
		return
	}
	pre := e.snapshot()
	e.logf("   before the close: c%d owns %d queued requests, %d holds, %d wills; lock table:\n%s", p.idx, q, h, len(p.wills), d18Indent(pre.str))
	p.closing = true
	how := st.How
	if p.text && (how == "magic" || how == "version") {
		how = "garbage"
	}
	var raceDone chan struct{}
	switch how {
	case "eof":
		p.conn.finish()
	case "magic", "version":
		if !p.sentAny {
			// the first frame decides the protocol; a bad magic makes it a text connection
			p.conn.finish()
			break
		}
		_, req := e.newReq(p.idx, d18Cmd{Op: "ping"}, "garbage")
		f := make([]byte, 64)
		f[0], f[1], f[2] = protocol.MAGIC, protocol.VERSION, protocol.COMMAND_LOCK
		if how == "magic" {
			f[0] = 0x57
		} else {
			f[1] = 0x02
		}
		copy(f[3:19], req[:])
		p.conn.push(f)
	case "garbage":
		p.conn.push([]byte("GARBAGE 1 2\r\n"))
	case "server":
		_ = p.stream.Close()
	case "eof+server":
		p.conn.finish()
		_ = p.stream.Close()
	case "proto-race":
		// a second party closes the protocol object (as SubscribeManager does with a slow subscriber)
		// while the client end goes away
		if p.proto == nil {
			p.conn.finish()
			break
		}
		raceDone = make(chan struct{})
		pr := p.proto
		go func() {
			defer close(raceDone)
			defer func() {
				if r := recover(); r != nil {
					p.pan = r
					p.stack = string(debug.Stack())
				}
			}()
			_ = pr.Close()
		}()
		p.conn.finish()
	default:
		p.conn.finish()
	}
	if p.text && p.pending != nil {
		// server-side close while the handler sits in a lock wait: it only notices when the wait ends
		e.settle()
		return
	}
	e.waitDone(p, raceDone)
	e.onDead(p)
	e.settle()
	e.afterClose(p, st, pre)
}

// d18CloseStuckOnWillReply: some goroutine sits in TextServerProtocol.Close -> will command ->
// ProcessLockResultCommand on a channel send (the reply channel of the text protocol has room for four
// results and nobody reads it during Close).
func d18CloseStuckOnWillReply() bool {
	buf := make([]byte, 1<<20)
	buf = buf[:runtime.Stack(buf, true)]
	for _, g := range strings.Split(string(buf), "\n\n") {
		if strings.Contains(g, "chan send") && strings.Contains(g, "(*TextServerProtocol).ProcessLockResultCommand") && strings.Contains(g, "(*TextServerProtocol).Close") {
			return true
		}
	}
	return false
}

func (e *d18Env) waitDone(p *d18Peer, extra chan struct{}) {
	t := time.NewTimer(d18Watchdog)
	defer t.Stop()
	if p.text && len(p.wills) >= 5 {
		select {
		case <-p.done:
		case <-time.After(1500 * time.Millisecond):
			if d18CloseStuckOnWillReply() {
				e.fail("C18:text:close-blocks-on-will-replies", "closing the text connection c%d with %d wills never finishes: Close() is blocked sending the fifth will's result into the protocol's reply channel (capacity 4, no reader); the remaining wills do not run and the stream is never closed",
					p.idx, len(p.wills))
				panic(d18StopRun{})
			}
		}
	}
	select {
	case <-p.done:
	case <-t.C:
		d18Abort(fmt.Sprintf("handler of connection c%d did not end %v after its connection was closed (how=%s)\ncase:\n%s\nhistory:\n%s", p.idx, d18Watchdog, p.how, e.c.String(), e.history()))
	}
	if extra != nil {
		select {
		case <-extra:
		case <-t.C:
			d18Abort(fmt.Sprintf("second Close() of connection c%d did not return\ncase:\n%s\nhistory:\n%s", p.idx, e.c.String(), e.history()))
		}
	}
}

func d18Indent(s string) string {
	if s == "" {
		return "      (empty)"
	}
	return "      " + strings.ReplaceAll(strings.TrimRight(s, "\n"), "\n", "\n      ")
}

func (e *d18Env) afterClose(p *d18Peer, st d18Step, pre *d18Snap) {
	post := e.snapshot()
	if len(p.wills) == 0 || e.opts.Ref {
		// a close without wills executes nothing: the lock table must be exactly what it was
		if post.str != pre.str {
			e.fail("C18:close:lock-table-changed-without-will", "closing connection c%d (how=%s, no will registered on the server) changed the lock table\nbefore:\n%s\nafter:\n%s",
				p.idx, st.How, d18Indent(pre.str), d18Indent(post.str))
			return
		}
	}
	if e.opts.Ref && len(p.wills) > 0 {
		// reference semantics of a will: the same command, executed once, in registration order, now
		for _, wc := range p.wills {
			c := wc
			if c.Op == "will_lock" {
				c.Op = "lock"
			} else {
				c.Op = "unlock"
			}
			e.w.conn.push(e.binaryFrame(e.w, c, "ref-will"))
			e.settle()
		}
		post = e.snapshot()
	}
	e.info.WillsRun += len(p.wills)
	e.logf("   after the close of c%d:\n%s", p.idx, d18Indent(post.str))
	if p.proto != nil && (st.Twice || st.How == "proto-race") {
		func() {
			defer func() {
				if r := recover(); r != nil {
					e.fail("C18:panic:second-close", "second Close() of the protocol object of c%d panicked: %v", p.idx, r)
				}
			}()
			_ = p.proto.Close()
		}()
		e.settle()
		again := e.snapshot()
		if again.str != post.str {
			e.fail("C18:close:second-close-has-effects", "a second Close() on the protocol object of connection c%d changed the lock table (wills executed again?)\nafter the first close:\n%s\nafter the second:\n%s",
				p.idx, d18Indent(post.str), d18Indent(again.str))
		}
	}
}

// stepSession runs what Server.checkProtocolFreeCommandQueue runs every 120 s of wall time: the session
// check that trims the proxy list of a connection which adopted more than four proxies of earlier
// connections of its client id. Every handler is parked, as between two commands of a quiet server.
func (e *d18Env) stepSession() {
	most := 0
	for _, i := range e.order {
		p := e.peers[i]
		if bp, ok := p.proto.(*BinaryServerProtocol); ok && bp != nil && !p.dead {
			bp.glock.Lock()
			if n := len(bp.proxys); n > most {
				most = n
			}
			bp.glock.Unlock()
		}
	}
	if most > 4 {
		e.info.Classes["session-check-trims-adopted-proxies"] = true
	}
	if most > 2 {
		e.info.Classes["connection-adopted-two-or-more-proxies"] = true
	}
	e.logf("   largest proxy list before the check: %d", most)
	_ = e.inst.slock.checkServerProtocolSession()
	e.settle()
}

// tick: the bodies of LockDB.checkTimeOut / checkExpried for every elapsed second and shard, run in the
// harness goroutine; after every sweep call the handlers that were woken are waited for.
func (e *d18Env) stepTick(n int) {
	for s := 0; s < n; s++ {
		before := e.snapshot()
		closesBefore := e.info.Closes
		e.now++
		d := e.db
		d.currentTime = e.now
		c := d.checkTimeoutTime
		d.checkTimeoutTime = e.now + 1
		for ; c <= e.now; c++ {
			for i := uint16(0); i < d.managerMaxGlocks; i++ {
				d.checkTimeTimeOut(c, e.now, i, e.toQ[i])
				e.settle()
			}
		}
		c = d.checkExpriedTime
		d.checkExpriedTime = e.now + 1
		for ; c <= e.now; c++ {
			for i := uint16(0); i < d.managerMaxGlocks; i++ {
				d.checkTimeExpried(c, e.now, i, e.exQ[i])
				e.settle()
			}
		}
		if e.viol != nil {
			return
		}
		e.checkClock(before, e.snapshot(), e.info.Closes != closesBefore)
	}
}

// checkClock: property parts 2 and 3 against the virtual clock.
func (e *d18Env) checkClock(before, after *d18Snap, unlocksPossible bool) {
	type hk struct {
		key, id [16]byte
	}
	have := map[hk]aSnapHold{}
	stillQueued := map[[2]int]bool{}
	defer func() {
		for k := range e.closedWaits {
			if !stillQueued[k] {
				delete(e.closedWaits, k)
			}
		}
	}()
	for _, k := range after.keys {
		for _, h := range k.Holders {
			have[hk{k.Key, h.Id}] = h
			if h.ExpriedTime <= e.now-1 {
				e.fail("C18:clock:hold-outlives-expiry", "at t+%d key k%d is still held by id%d whose expiry time was t+%d", e.now-d18Epoch, d18KeyIdx(k.Key), d18LockIdx(h.Id), h.ExpriedTime-d18Epoch)
			}
		}
		for _, w := range k.Waiters {
			if cw, ok := e.closedWaits[[2]int{d18KeyIdx(k.Key), d18LockIdx(w.Id)}]; ok {
				stillQueued[[2]int{cw.Key, cw.Id}] = true
				if w.TimeoutTime != cw.Deadline {
					e.fail("C18:clock:queued-request-of-closed-connection-renewed", "the request id%d queued on key k%d was left behind by connection c%d, closed when the request's timeout stood at t+%d; at t+%d it is still queued and its timeout has been moved to t+%d (keep-alive flag: %v) - a request of a connection that is gone must end at its timeout",
						cw.Id, cw.Key, cw.Conn, cw.Deadline-d18Epoch, e.now-d18Epoch, w.TimeoutTime-d18Epoch, cw.KeepAlive)
				}
			}
			if w.TimeoutTime <= e.now-1 {
				e.fail("C18:clock:queued-request-never-ends", "at t+%d the request id%d is still queued on key k%d although its timeout was t+%d", e.now-d18Epoch, d18LockIdx(w.Id), d18KeyIdx(k.Key), w.TimeoutTime-d18Epoch)
			}
		}
	}
	if unlocksPossible {
		// a deferred close ran inside this second: its wills may have unlocked something
		return
	}
	for _, k := range before.keys {
		for _, h := range k.Holders {
			if h.ExpriedTime > e.now {
				a, ok := have[hk{k.Key, h.Id}]
				if !ok || a.Depth < h.Depth {
					e.fail("C18:clock:hold-lost-before-expiry", "the hold of id%d on key k%d (depth %d, expiry t+%d) disappeared during the clock step to t+%d although nobody unlocked it",
						d18LockIdx(h.Id), d18KeyIdx(k.Key), h.Depth, h.ExpriedTime-d18Epoch, e.now-d18Epoch)
				}
			}
		}
	}
}

// ---------------------------------------------------------------------------------------------
// final drain and census

func (e *d18Env) drain() {
	e.logf("drain")
	// end every remaining client connection (their wills run) first
	for _, i := range append([]int{}, e.order...) {
		p := e.peers[i]
		if p.opened && !p.dead && !p.closing {
			if p.closeReq == nil && !(p.text && p.pending != nil) {
				e.logf("drain: closing c%d", p.idx)
				e.doClose(p, d18Step{K: "close", C: p.idx, How: "eof"})
				if e.viol != nil || e.info.NeedChild {
					return
				}
			} else if p.closeReq == nil {
				cp := d18Step{K: "close", C: p.idx, How: "eof"}
				p.closeReq = &cp
			}
		}
	}
	// every connection is closed now (or will be as soon as its lock wait ends): what they left queued with
	// Timeout <= 9 s must end on the clock alone, before the drain starts to unlock anything
	e.stepTick(10)
	if e.viol != nil {
		return
	}
	for round := 0; round < 40; round++ {
		s := e.snapshot()
		holds, _, waits := s.counts()
		if holds == 0 && waits == 0 {
			break
		}
		for _, k := range s.keys {
			for _, h := range k.Holders {
				c := d18Cmd{Op: "unlock", Key: d18KeyIdx(k.Key), Id: d18LockIdx(h.Id)}
				e.w.conn.push(e.binaryFrame(e.w, c, "drain"))
				e.settle()
			}
		}
		if holds == 0 {
			e.stepTick(1)
		}
		if e.viol != nil {
			return
		}
	}
	e.stepTick(24)
	if e.viol != nil {
		return
	}
	for _, i := range e.order {
		p := e.peers[i]
		if p.opened && !p.dead {
			e.fail("C18:close:handler-never-ends", "connection c%d (how=%s) was closed but its handler goroutine is still running after the drain (text=%v pending=%v)", p.idx, p.how, p.text, p.pending != nil)
			return
		}
	}
	// census over the wire (STATE on the watcher) and in-package
	e.w.conn.push(e.binaryFrame(e.w, d18Cmd{Op: "state"}, "state"))
	e.settle()
	var st *protocol.StateResultCommand
	for i := len(e.w.frames) - 1; i >= 0; i-- {
		if e.w.frames[i].Type == protocol.COMMAND_STATE {
			st = &protocol.StateResultCommand{}
			_ = st.Decode(e.w.frames[i].Raw)
			break
		}
	}
	if st == nil {
		e.fail("C18:watcher:no-state-reply", "the watcher connection received no answer to STATE")
		return
	}
	if st.State.LockedCount != 0 || st.State.WaitCount != 0 || st.State.KeyCount != 0 {
		e.fail("C18:census:counters-not-zero", "after the drain STATE reports LockedCount=%d WaitCount=%d KeyCount=%d (want 0/0/0)", st.State.LockedCount, st.State.WaitCount, st.State.KeyCount)
		return
	}
	if s := e.snapshot(); len(s.keys) != 0 {
		e.fail("C18:census:keys-left", "after the drain the lock table still has live keys:\n%s", d18Indent(s.str))
		return
	}
	if s := aScanFreed(e.db); s != "" {
		e.fail("C18:census:freed-lock-reachable", "after the drain: %s", s)
		return
	}
	e.inst.slock.clientsGlock.Lock()
	nc := len(e.inst.slock.clients)
	e.inst.slock.clientsGlock.Unlock()
	if nc != 0 {
		e.fail("C18:census:client-table-entry-left", "after every client connection ended, slock.clients still has %d entries", nc)
	}
}

// ---------------------------------------------------------------------------------------------
// running a case

type d18StopRun struct{}

type d18Run struct {
	Snaps []string // lock table after every step (index = step), then after the drain
	Info  d18Info
	Viol  *d18Violation
	Hist  string
}

func d18Execute(c *d18Case, opts d18Opts) (run *d18Run, err error) {
	e, err := d18NewEnv(c, opts)
	if err != nil {
		return nil, &d18Inconclusive{"cannot create instance: " + err.Error()}
	}
	defer e.close()
	run = &d18Run{}
	defer func() {
		if r := recover(); r != nil {
			if _, ok := r.(d18StopRun); ok {
				run.Info, run.Viol, run.Hist = e.info, e.viol, e.history()
				return
			}
			e.fail("C18:panic:"+w18TopFunc(string(debug.Stack())), "panic in the harness goroutine while it drove the server (sweep / reply path): %v\n%s", r, d18TrimStack(string(debug.Stack())))
		}
		run.Info, run.Viol, run.Hist = e.info, e.viol, e.history()
	}()
	e.w = e.openPeer(d18WatcherIdx, false)
	e.w.sentAny = true
	e.w.conn.push(e.binaryFrame(e.w, d18Cmd{Op: "ping"}, "ping"))
	e.settle()
	for i, st := range c.Steps {
		e.logf("step %d: %s", i, st.String())
		watch := e.lateBefore()
		switch st.K {
		case "open":
			e.stepOpen(st)
		case "send":
			e.stepSend(st)
		case "close":
			e.stepClose(st)
		case "tick":
			e.stepTick(st.N)
		case "session":
			e.stepSession()
		}
		e.info.Steps++
		if e.viol == nil && !e.info.NeedChild {
			e.lateAfter(watch)
		}
		if e.viol != nil || e.info.NeedChild {
			return run, nil
		}
		run.Snaps = append(run.Snaps, e.snapshot().str)
	}
	e.drain()
	if e.viol == nil && !e.info.NeedChild {
		run.Snaps = append(run.Snaps, e.snapshot().str)
	}
	return run, nil
}

// d18Check runs the case for real and, if it registers wills, once more as the reference (wills
// replaced by the same commands sent by the watcher at the close), and compares the lock tables step
// by step.
func d18Check(c *d18Case, noGuard bool) (info d18Info, viol *d18Violation, err error) {
	real, err := d18Execute(c, d18Opts{NoGuard: noGuard})
	if err != nil {
		return info, nil, err
	}
	info = real.Info
	if real.Viol != nil {
		real.Viol.Msg += "\ncase:\n" + c.String() + "history:\n" + real.Hist
		return info, real.Viol, nil
	}
	if info.NeedChild {
		return info, nil, nil
	}
	hasWill := false
	for _, st := range c.Steps {
		for _, cm := range st.Cmds {
			if cm.isWill() {
				hasWill = true
			}
		}
	}
	if !hasWill {
		return info, nil, nil
	}
	ref, err := d18Execute(c, d18Opts{Ref: true})
	if err != nil {
		return info, nil, err
	}
	if ref.Viol != nil {
		ref.Viol.Key += ":reference-run"
		ref.Viol.Msg = "(in the reference run, where wills are replaced by ordinary commands of the watcher) " + ref.Viol.Msg + "\ncase:\n" + c.String() + "history:\n" + ref.Hist
		return info, ref.Viol, nil
	}
	for i := 0; i < len(real.Snaps) && i < len(ref.Snaps); i++ {
		if real.Snaps[i] == ref.Snaps[i] {
			continue
		}
		what, key := "after the final drain", "C18:will:effects-differ-from-reference"
		if i < len(c.Steps) {
			what = fmt.Sprintf("after step %d (%s)", i, c.Steps[i].String())
			st := c.Steps[i]
			isWillReg := false
			for _, cm := range st.Cmds {
				if cm.isWill() {
					isWillReg = true
				}
			}
			if st.K == "send" && isWillReg {
				key = "C18:will:effect-before-close"
			}
			if st.K == "close" {
				text := false
				for _, o := range c.Steps {
					if o.K == "open" && o.C == st.C {
						text = o.Text
					}
				}
				if text {
					key = "C18:will:effects-differ-from-reference:text"
					if i > 0 && real.Snaps[i] == real.Snaps[i-1] {
						key = "C18:text:will-never-executed"
					}
				} else {
					key = "C18:will:effects-differ-from-reference:binary"
				}
			}
		}
		v := &d18Violation{Key: key, Msg: fmt.Sprintf("lock table %s differs from the reference (each will executed exactly once, in registration order, at the close)\nobserved:\n%s\nreference:\n%s\ncase:\n%shistory of the real run:\n%s",
			what, d18Indent(real.Snaps[i]), d18Indent(ref.Snaps[i]), c.String(), real.Hist)}
		return info, v, nil
	}
	return info, nil, nil
}

// ---------------------------------------------------------------------------------------------
// stack helpers

func w18TopFunc(stack string) string {
	lines := strings.Split(stack, "\n")
	start := 0
	for i, l := range lines {
		if strings.HasPrefix(l, "panic(") || strings.HasPrefix(l, "runtime.sigpanic") {
			start = i + 1
		}
	}
	for i := start; i < len(lines); i++ {
		l := lines[i]
		if !strings.HasPrefix(l, "github.com/snower/slock/") {
			continue
		}
		if i+1 < len(lines) && strings.Contains(lines[i+1], "zz_verif_") {
			continue
		}
		fn := strings.TrimPrefix(l, "github.com/snower/slock/")
		if j := strings.LastIndex(fn, "("); j > 0 {
			fn = fn[:j]
		}
		return fn
	}
	return "unknown"
}

func d18TrimStack(s string) string {
	if os.Getenv("D18_FULLSTACK") != "" {
		return s
	}
	lines := strings.Split(s, "\n")
	var out []string
	for _, l := range lines {
		if strings.HasPrefix(l, "\t") {
			continue
		}
		if j := strings.LastIndex(l, "("); j > 0 {
			l = l[:j]
		}
		if strings.HasPrefix(l, "github.com/snower/slock/") || strings.HasPrefix(l, "panic") {
			out = append(out, "  "+l)
		}
		if len(out) > 14 {
			break
		}
	}
	return strings.Join(out, "\n")
}

var _ = errors.New
var _ = sort.Strings
