package server

// C13 / engine W of DESIGN.md: wire fuzzing of one in-process leader.
//
// This file holds the rapid-free executor: instance life cycle, fake connections, the bystander
// probe and the derivation of failure keys from panic stacks. Generators and tests live in
// c13_wire_test.go. Everything is prefixed w13 / W13 so that it cannot clash with other harness
// files of package server.

import (
	"bytes"
	"encoding/hex"
	"errors"
	"fmt"
	"io"
	"net"
	"os"
	"path/filepath"
	"regexp"
	"runtime/debug"
	"strings"
	"sync"
	"sync/atomic"
	"time"

	"github.com/hhkbp2/go-logging"
	"github.com/snower/slock/protocol"
)

// ---------------------------------------------------------------------------------------------
// case data (plain JSON)

type w13Conn struct {
	Kind   string   `json:"kind"`                // binary | text | raw (what the generator intended; informational)
	Hex    string   `json:"hex"`                 // the byte stream the client sends
	Chunks []int    `json:"chunks,omitempty"`    // sizes of the reads the server sees, applied cyclically; empty = one read
	Linger int      `json:"linger_ms,omitempty"` // pause after the connection ended, before the probe (lets ms / 1 s timers fire)
	Note   []string `json:"note,omitempty"`      // rendering of the structured commands (before mutation)
	Mut    []string `json:"mut,omitempty"`       // mutations applied to the rendered stream
}

type w13Case struct {
	Shape string `json:"shape,omitempty"` // generator's case shape (informational)
	Tries int    `json:"tries,omitempty"` // replays only: timing-dependent case, run up to this many times
	Cross string `json:"cross,omitempty"` // reply-batch shape: how the batched replies meet the end of the 4096-byte writer buffer
	Pool  string `json:"pool,omitempty"`  // pool shape: resource kind / way of release
	PoolN int    `json:"pool_n,omitempty"`
	// exec-tight shape: stage+1, nested length minus bytes present, property block length (-1: none)
	ExecStage int `json:"exec_stage,omitempty"`
	ExecDelta int `json:"exec_delta,omitempty"`
	ExecProps int `json:"exec_props,omitempty"`
	// instance configuration of the case: aof_queue_size (0 = the harness default 4096); the executor task free
	// list, the AOF channel free list and the AOF lock queues have aof_queue_size/64 entries
	AofQueue int       `json:"aof_queue_size,omitempty"`
	Fanout   int       `json:"fanout,omitempty"`     // fan-out shape: number of sub-frames of the PIPELINE frame
	FanCap   int       `json:"fanout_cap,omitempty"` // ... and the capacity it is aimed at (aof_queue_size/64)
	FanKind  string    `json:"fanout_kind,omitempty"`
	Conns    []w13Conn `json:"conns"`
}

func (c *w13Case) fingerprint() uint64 {
	parts := []interface{}{}
	if c.AofQueue != 0 {
		parts = append(parts, fmt.Sprint("aof_queue_size=", c.AofQueue))
	}
	for _, cn := range c.Conns {
		parts = append(parts, cn.Hex, fmt.Sprint(cn.Chunks))
	}
	return vHash(parts...)
}

func (cn *w13Conn) bytes() []byte {
	b, _ := hex.DecodeString(cn.Hex)
	return b
}

// ---------------------------------------------------------------------------------------------
// domain filter for byte streams whose structure is not known (mutated / raw / fuzz input):
// administrative commands with a designed global effect are not "malformed input".

var w13AdminWords = [][]byte{
	[]byte("SHUTDOWN"), []byte("SLAVEOF"), []byte("FLUSHDB"), []byte("FLUSHALL"), []byte("REWRITEAOF"),
	[]byte("CONFIG"), []byte("CLIENT"), []byte("REPLSET"), []byte("SYNC"), []byte("REPL_"),
}

// w13AdminWord returns the first administrative command word contained in the stream
// (case-insensitively), or "". A text command name is one RESP bulk string and therefore always a
// contiguous run of stream bytes, whatever the split into reads; the binary CALL method name is a
// contiguous run inside one frame.
func w13AdminWord(b []byte) string {
	up := bytes.ToUpper(b)
	for _, w := range w13AdminWords {
		if bytes.Contains(up, w) {
			return string(w)
		}
	}
	return ""
}

// ---------------------------------------------------------------------------------------------
// fake connections

type w13Addr struct{ port int }

func (a w13Addr) Network() string { return "tcp" }
func (a w13Addr) String() string  { return fmt.Sprintf("127.0.0.1:%d", a.port) }

const w13KeepOut = 1 << 16

// w13ScriptConn serves a fixed list of read chunks, then EOF, and records what is written.
type w13ScriptConn struct {
	mu      sync.Mutex
	data    []byte
	chunks  []int
	ci      int
	rem     int // bytes left of the current chunk
	pos     int
	reads   int
	out     []byte
	outLen  int
	closed  bool
	port    int
	eofSeen bool
}

func w13NewScriptConn(data []byte, chunks []int, port int) *w13ScriptConn {
	return &w13ScriptConn{data: data, chunks: chunks, port: port}
}

func (c *w13ScriptConn) Read(p []byte) (int, error) {
	c.mu.Lock()
	defer c.mu.Unlock()
	if c.closed {
		return 0, net.ErrClosed
	}
	if c.pos >= len(c.data) || len(p) == 0 {
		c.eofSeen = true
		return 0, io.EOF
	}
	n := len(c.data) - c.pos
	if len(c.chunks) > 0 {
		// a chunk is delivered in several reads if the caller's buffer is smaller
		if c.rem <= 0 {
			c.rem = c.chunks[c.ci%len(c.chunks)]
			c.ci++
			if c.rem <= 0 {
				c.rem = 1
			}
		}
		if c.rem < n {
			n = c.rem
		}
	}
	if n > len(p) {
		n = len(p)
	}
	if len(c.chunks) > 0 {
		c.rem -= n
	}
	copy(p, c.data[c.pos:c.pos+n])
	c.pos += n
	c.reads++
	return n, nil
}

func (c *w13ScriptConn) Write(p []byte) (int, error) {
	c.mu.Lock()
	defer c.mu.Unlock()
	if c.closed {
		return 0, net.ErrClosed
	}
	c.outLen += len(p)
	if len(c.out) < w13KeepOut {
		c.out = append(c.out, p...)
	}
	return len(p), nil
}

func (c *w13ScriptConn) Close() error {
	c.mu.Lock()
	c.closed = true
	c.mu.Unlock()
	return nil
}
func (c *w13ScriptConn) LocalAddr() net.Addr                { return w13Addr{5658} }
func (c *w13ScriptConn) RemoteAddr() net.Addr               { return w13Addr{c.port} }
func (c *w13ScriptConn) SetDeadline(t time.Time) error      { return nil }
func (c *w13ScriptConn) SetReadDeadline(t time.Time) error  { return nil }
func (c *w13ScriptConn) SetWriteDeadline(t time.Time) error { return nil }

// w13PipeConn is an interactive connection: the harness sends requests and waits for replies.
type w13PipeConn struct {
	mu     sync.Mutex
	cond   *sync.Cond
	in     []byte
	out    []byte
	closed bool // closed by the server side
	eof    bool // client side finished sending
	port   int
}

func w13NewPipeConn(port int) *w13PipeConn {
	c := &w13PipeConn{port: port}
	c.cond = sync.NewCond(&c.mu)
	return c
}

func (c *w13PipeConn) Read(p []byte) (int, error) {
	c.mu.Lock()
	defer c.mu.Unlock()
	for len(c.in) == 0 && !c.closed && !c.eof {
		c.cond.Wait()
	}
	if c.closed {
		return 0, net.ErrClosed
	}
	if len(c.in) == 0 {
		return 0, io.EOF
	}
	n := copy(p, c.in)
	c.in = c.in[n:]
	return n, nil
}

func (c *w13PipeConn) Write(p []byte) (int, error) {
	c.mu.Lock()
	defer c.mu.Unlock()
	if c.closed {
		return 0, net.ErrClosed
	}
	c.out = append(c.out, p...)
	c.cond.Broadcast()
	return len(p), nil
}

func (c *w13PipeConn) Close() error {
	c.mu.Lock()
	c.closed = true
	c.cond.Broadcast()
	c.mu.Unlock()
	return nil
}
func (c *w13PipeConn) LocalAddr() net.Addr                { return w13Addr{5658} }
func (c *w13PipeConn) RemoteAddr() net.Addr               { return w13Addr{c.port} }
func (c *w13PipeConn) SetDeadline(t time.Time) error      { return nil }
func (c *w13PipeConn) SetReadDeadline(t time.Time) error  { return nil }
func (c *w13PipeConn) SetWriteDeadline(t time.Time) error { return nil }

func (c *w13PipeConn) send(b []byte) {
	c.mu.Lock()
	c.in = append(c.in, b...)
	c.cond.Broadcast()
	c.mu.Unlock()
}

func (c *w13PipeConn) finish() {
	c.mu.Lock()
	c.eof = true
	c.cond.Broadcast()
	c.mu.Unlock()
}

var errW13Timeout = errors.New("no reply within the probe watchdog")

// recv waits until want(out) > 0 and consumes that many bytes of server output.
func (c *w13PipeConn) recv(want func([]byte) int, d time.Duration) ([]byte, error) {
	timer := time.AfterFunc(d, func() {
		c.mu.Lock()
		c.cond.Broadcast()
		c.mu.Unlock()
	})
	defer timer.Stop()
	deadline := time.Now().Add(d)
	c.mu.Lock()
	defer c.mu.Unlock()
	for {
		if n := want(c.out); n > 0 {
			r := append([]byte(nil), c.out[:n]...)
			c.out = c.out[n:]
			return r, nil
		}
		if c.closed {
			return nil, errors.New("connection closed by the server")
		}
		if !time.Now().Before(deadline) {
			return nil, errW13Timeout
		}
		c.cond.Wait()
	}
}

func w13WantN(n int) func([]byte) int {
	return func(b []byte) int {
		if len(b) >= n {
			return n
		}
		return 0
	}
}

func w13WantLine(b []byte) int {
	if i := bytes.Index(b, []byte("\r\n")); i >= 0 {
		return i + 2
	}
	return 0
}

// ---------------------------------------------------------------------------------------------
// instance

var (
	w13Seq     uint64
	w13LogOnce sync.Once
	w13Log     logging.Logger
)

func w13Logger() logging.Logger {
	w13LogOnce.Do(func() {
		l := logging.GetLogger("verif.c13")
		l.SetPropagate(false)
		if os.Getenv("VERIF_C13_LOG") != "" {
			h := logging.NewStdoutHandler()
			l.AddHandler(h)
			_ = l.SetLevel(logging.LevelInfo)
		} else {
			l.AddHandler(logging.NewNullHandler())
			_ = l.SetLevel(logging.LevelCritical)
		}
		w13Log = l
	})
	return w13Log
}

type w13Handler struct {
	stream *Stream
	done   chan struct{}
	pan    interface{} // recovered panic value
	stack  string
}

type w13Instance struct {
	slock   *SLock
	server  *Server
	dir     string
	port    int
	by      *w13PipeConn
	byH     *w13Handler
	dirty   bool // a handler panicked or is still running: mutexes may be held
	stuck   []*w13Handler
	created time.Time

	noStop    bool // executors could not be put in place: changing db.status would be unsafe
	frozenDbs []*LockDB
	held      []*PriorityMutex
	frozen    int
}

// w13NewInstance builds the instance in two steps: NewSLock (which replaces the package global
// defaultServerProtocol) runs inside "swap", the rest (AOF files, db 0) outside.
func w13NewInstance(aofQueue int, swap func(create func())) (*w13Instance, error) {
	if aofQueue < 64 {
		aofQueue = 4096
	}
	base := os.Getenv("VERIF_DATADIR")
	if base == "" {
		base = os.TempDir()
	}
	dir := filepath.Join(base, "c13", fmt.Sprintf("i%d-%d", os.Getpid(), atomic.AddUint64(&w13Seq, 1)))
	if err := os.MkdirAll(dir, 0755); err != nil {
		return nil, err
	}
	cfg := &ServerConfig{Bind: "127.0.0.1", Port: 5658, Log: "-", LogLevel: "ERROR", LogRotatingSize: 67108864, LogBackupCount: 5,
		LogBufferFlushTime: 1, DataDir: dir, DBFastKeyCount: 4096, DBConcurrent: 2, DBLockAofTime: 1, DBLockAofParcentTime: 0.3,
		AofQueueSize: uint(aofQueue), AofFileRewriteSize: 67174400, AofFileBufferSize: 4096, AofRingBufferSize: 65536, AofRingBufferMaxSize: 1 << 22,
		SubscribeEnabled: true}
	logger := w13Logger()
	var slock *SLock
	var server *Server
	swap(func() {
		slock = NewSLock(cfg, logger)
		server = NewServer(slock)
	})
	if err := slock.Init(server); err != nil {
		return nil, fmt.Errorf("init leader: %v", err)
	}
	if slock.state != STATE_LEADER {
		return nil, fmt.Errorf("instance is not a leader (state %d)", slock.state)
	}
	// db 0 exists before any client byte arrives: a new db starts its first time-out / expiry sweep per
	// shard at once, and if the very request that created the db panics while holding a shard mutex,
	// those sweep goroutines stay blocked for ever and keep the whole instance in memory
	db := slock.GetOrNewDB(0)
	time.Sleep(200 * time.Microsecond)
	for i := uint16(0); i < db.managerMaxGlocks; i++ {
		db.managerGlocks[i].LowPriorityLock()
		db.managerGlocks[i].LowPriorityUnlock()
	}
	return &w13Instance{slock: slock, server: server, dir: dir, port: 40000, created: time.Now()}, nil
}

// serve runs Server.handle for one connection the way Server.Serve does, with a recover() that turns
// an escaping panic (== death of the real process) into data.
func (in *w13Instance) serve(conn net.Conn) *w13Handler {
	stream := NewStream(conn)
	_ = in.server.addStream(stream)
	h := &w13Handler{stream: stream, done: make(chan struct{})}
	go func() {
		defer close(h.done)
		defer func() {
			if r := recover(); r != nil {
				h.pan = r
				h.stack = string(debug.Stack())
			}
		}()
		in.server.handle(stream)
	}()
	return h
}

// Only one SLock may be live per process at the time NewSLock runs: NewSLock replaces the package
// global defaultServerProtocol, and ProxyServerProtocol.ProcessLockResultCommandLocked reads that
// global several times between locking and unlocking slock.clientsGlock ("unlock of unlocked mutex"
// if the global changes in between - an artefact of running several instances in one process, not a
// defect of the server). Therefore the finished instance is frozen (all its shard mutexes are held, so
// none of its timer / executor goroutines can reach that code) for the instant in which NewSLock
// replaces the global; after the switch its proxies no longer compare equal to the global and never
// enter that block again.
var (
	w13SwitchMu sync.Mutex
	w13Prev     *w13Instance
	// instances whose goroutines have not ended yet: each holds several MB per db for about a second
	w13Closing  = make(chan struct{}, 48)
	w13DirtySem = make(chan struct{}, 96)
)

func w13NextInstance(aofQueue int) (*w13Instance, error) {
	w13SwitchMu.Lock()
	defer w13SwitchMu.Unlock()
	prev := w13Prev
	w13Prev = nil
	in, err := w13NewInstance(aofQueue, func(create func()) {
		// the previous instance is frozen only for the instant in which the global changes: holding
		// its shard mutexes for longer makes its sweep goroutines queue up behind them
		if prev != nil && !prev.dirty {
			prev.freeze()
			if prev.frozen > 0 {
				time.Sleep(100 * time.Microsecond) // sections that run after the shard mutex was released
			}
		}
		create()
		if prev != nil {
			prev.unfreeze()
		}
	})
	if prev != nil {
		prev.close()
	}
	return in, err
}

// w13TooManyDbs: a LOCK creates the db it names, and every db costs several MB of queues here (about
// 60 MB with the default configuration). A stream that names many databases is a resource question,
// not a malformed-input question; cases that can touch more than eight are left out (counted).
func w13TooManyDbs(b []byte) bool {
	seen := map[byte]bool{}
	for i := 0; i+21 <= len(b); i++ {
		if b[i] == 0x56 && b[i+1] == 0x01 && (b[i+2] == 1 || b[i+2] == 8) {
			seen[b[i+20]] = true
		}
	}
	n := len(seen) + bytes.Count(bytes.ToUpper(b), []byte("SELECT"))
	return n > 8
}

// retire ends the bystander connection and parks the instance until the next one exists.
func (in *w13Instance) retire() {
	if in.by != nil {
		in.by.finish()
		if in.byH != nil {
			select {
			case <-in.byH.done:
			case <-time.After(5 * time.Second):
				in.dirty = true
			}
		}
	}
	in.ensureExecutors()
	if in.dirty {
		// a handler panicked or is stuck: the instance is garbage. Stop its timer loops right now (the
		// 500 ms / 1 s ticks would otherwise park goroutines on a shard mutex that is never released,
		// and those keep the whole instance in memory); the rest happens in close().
		if !in.noStop {
			in.slock.state = STATE_CLOSE
			for _, db := range in.allDbs() {
				db.status = STATE_CLOSE
			}
		}
	}
	w13SwitchMu.Lock()
	old := w13Prev
	w13Prev = in
	w13SwitchMu.Unlock()
	if old != nil { // cannot happen with one case at a time; be safe
		old.close()
	}
}

// ensureExecutors gives every shard of every db its executor and waits until both Run goroutines of
// each have counted themselves. LockDB.PushExecutorLockCommand tests db.status and creates a missing
// executor without synchronisation; an executor that comes into being after the state has left
// STATE_LEADER closes its closeWaiter twice (each Run goroutine sees "running count 0"). That is a
// race of role changes / shutdown, not of client input; with all executors in place it cannot occur
// when the harness stops the instance.
func (in *w13Instance) ensureExecutors() {
	for _, db := range in.allDbs() {
		locked := false
		for try := 0; try < 400 && !locked; try++ { // a panicked handler cannot hold db.glock, but be safe
			if locked = db.glock.TryLock(); !locked {
				time.Sleep(50 * time.Microsecond)
			}
		}
		if !locked {
			in.dirty, in.noStop = true, true
			continue
		}
		for i := range db.executors {
			if db.executors[i] == nil {
				db.executors[i] = NewLockDBExecutor(db, db.managerGlocks[i])
			}
		}
		db.glock.Unlock()
		for _, ex := range db.executors {
			for i := 0; i < 4000; i++ {
				ex.queueLock.Lock()
				n := ex.runningCount
				ex.queueLock.Unlock()
				if n >= 2 {
					break
				}
				time.Sleep(250 * time.Microsecond)
			}
		}
	}
}

func (in *w13Instance) allDbs() []*LockDB {
	// SLock.glock may be held for good by a handler that is stuck inside it; the table of databases is
	// then read without it (entries are only ever added)
	for try := 0; try < 200; try++ {
		if in.slock.glock.TryLock() {
			defer in.slock.glock.Unlock()
			break
		}
		time.Sleep(time.Millisecond)
	}
	dbs := []*LockDB{}
	for _, db := range in.slock.dbs {
		if db != nil {
			dbs = append(dbs, db)
		}
	}
	return dbs
}

// freeze takes every shard mutex of every db (TryLock with a deadline: a panicked handler may have
// left one locked for ever).
func (in *w13Instance) freeze() {
	in.frozenDbs = in.allDbs()
	for _, db := range in.frozenDbs {
		for _, g := range db.managerGlocks {
			ok := false
			for try := 0; try < 2000 && !ok; try++ {
				if ok = g.mutex.TryLock(); !ok {
					time.Sleep(50 * time.Microsecond)
				}
			}
			if !ok {
				in.dirty = true
				in.held = append(in.held, nil)
				continue
			}
			in.held = append(in.held, g)
			in.frozen++
		}
	}
}

func (in *w13Instance) unfreeze() {
	for _, g := range in.held {
		if g != nil {
			g.mutex.Unlock()
		}
	}
	in.held, in.frozen = nil, 0
}

// close releases the instance in the background.
//
// The shutdown path of the server (SLock.PrepareClose -> LockDB.Close: forced time-out / expiry of
// everything that is still queued) is not what C13 is about, and it has races and panics of its own
// (double close of LockDBExecutor.closeWaiter when a Run goroutine starts late, forced time-out of an
// ack-pending lock in ProcessRecoverLockData). So the harness only stops the goroutines of the
// instance, without flushing its lock state:
//   - SLock.updateState(STATE_CLOSE) flips every db while holding all shard mutexes (no request is in
//     flight at that moment) and drains the AOF / subscribe queues; the per-db timer loops then end;
//   - executors, AOF channels and subscribe channels are told to end; files and managers are closed.
//
// Dirty instances (a handler panicked or is stuck: shard mutexes may be held for ever) only get their
// timer loops stopped where the shard mutexes can be taken with TryLock.
func (in *w13Instance) close() {
	w13Closing <- struct{}{} // blocks while too many instances are still winding down
	go func() {
		defer func() { <-w13Closing }()
		defer func() { _ = os.RemoveAll(in.dir) }()
		dbs := in.allDbs()
		if in.dirty {
			// A shard mutex may be locked for ever. Everything that does not need one is still ended so
			// that the garbage collector can take the instance back (a run that shrinks a crash leaves
			// hundreds of such instances behind): the timer loops (they would otherwise start a sweep
			// goroutine per shard and second, each blocking on the dead mutex), the AOF and subscribe
			// channels, and the executors (bounded wait: a Run goroutine may sit on the dead mutex).
			if in.noStop {
				return
			}
			in.slock.state = STATE_CLOSE
			for _, db := range dbs {
				db.status = STATE_CLOSE
			}
			for _, db := range dbs {
				for i := uint16(0); i < db.managerMaxGlocks; i++ {
					in.slock.GetAof().CloseAofChannel(db.aofChannels[i])
					if db.subscribeChannels != nil {
						in.slock.GetSubscribeManager().CloseSubscribeChannel(db.subscribeChannels[i])
					}
					if ex := db.executors[i]; ex != nil {
						go func() {
							defer func() { _ = recover() }()
							ex.Close()
						}()
					}
				}
			}
			// the managers own goroutines that keep the whole instance reachable
			// (TransparencyManager.Run, ...); their Close may wait for something that sits on the dead
			// mutex, so it runs unattended
			go func() {
				defer func() { _ = recover() }()
				time.Sleep(1200 * time.Millisecond)
				in.slock.replicationManager.Close()
				if in.slock.subscribeManager != nil {
					in.slock.subscribeManager.Close()
				}
				in.slock.admin.Close()
				in.slock.aof.Close()
			}()
			// Whatever still refers to the instance (goroutines parked on the dead mutex), its bulk is
			// dropped after everything that can still run has ended (the timer loops need up to a second
			// to notice the state): several MB of queues per db. Until then the instance counts against
			// w13DirtySem, which bounds the memory that a run shrinking a crash can pile up.
			w13DirtySem <- struct{}{}
			go func() {
				defer func() { <-w13DirtySem }()
				time.Sleep(2 * time.Second)
				for _, db := range dbs {
					db.fastLocks, db.locks, db.freeLockManagers, db.freeLocks = nil, nil, nil, nil
					db.timeoutLocks, db.expriedLocks, db.longTimeoutLocks, db.longExpriedLocks = nil, nil, nil, nil
					db.millisecondTimeoutLocks, db.millisecondExpriedLocks, db.waitRemoveLockManagers = nil, nil, nil
					db.freeLongWaitQueues, db.freeMillisecondWaitQueues = nil, nil
				}
			}()
			return
		}
		done := make(chan struct{})
		go func() {
			defer close(done)
			defer func() {
				if r := recover(); r != nil {
					fmt.Printf("VERIF-NOTE C13 instance clean-up panicked (ignored, outside the property): %v\n", r)
				}
			}()
			in.slock.updateState(STATE_CLOSE)
			for _, db := range dbs {
				for i := uint16(0); i < db.managerMaxGlocks; i++ {
					db.managerGlocks[i].LowPriorityLock()
					if ex := db.executors[i]; ex != nil {
						// safe: both Run goroutines had started before the state changed (ensureExecutors).
						// The slot is left in place: a straggler that passed the state test of
						// PushExecutorLockCommand earlier must not create a fresh executor now.
						ex.Close()
					}
					in.slock.GetAof().CloseAofChannel(db.aofChannels[i])
					if db.subscribeChannels != nil {
						in.slock.GetSubscribeManager().CloseSubscribeChannel(db.subscribeChannels[i])
					}
					db.managerGlocks[i].LowPriorityUnlock()
				}
			}
			time.Sleep(1200 * time.Millisecond) // the timer loops notice STATE_CLOSE within a second
			in.slock.aof.Close()
			in.slock.replicationManager.Close()
			if in.slock.subscribeManager != nil {
				in.slock.subscribeManager.Close()
			}
			in.slock.admin.Close()
			in.slock.glock.Lock()
			for i := range in.slock.dbs {
				in.slock.dbs[i] = nil
			}
			in.slock.glock.Unlock()
		}()
		select {
		case <-done:
		case <-time.After(60 * time.Second):
		}
	}()
}

// ---------------------------------------------------------------------------------------------
// binary frames used by the probe

func w13Frame(cmdType byte, reqId byte) []byte {
	f := make([]byte, 64)
	f[0], f[1], f[2] = protocol.MAGIC, protocol.VERSION, cmdType
	for i := 0; i < 16; i++ {
		f[3+i] = reqId
	}
	return f
}

var (
	w13PrivKey    = [16]byte{0xc1, 0x3b, 0x79, 0x5e, 0x70, 0x72, 0x69, 0x76, 0x61, 0x74, 0x65, 0x6b, 0x65, 0x79, 0x9d, 0x01}
	w13PrivLockId = [16]byte{0xc1, 0x3b, 0x79, 0x5e, 0x6c, 0x6f, 0x63, 0x6b, 0x2d, 0x69, 0x64, 0x2d, 0x5a, 0xa5, 0x9d, 0x02}
	w13PrivClient = [16]byte{0xc1, 0x3b, 0x79, 0x5e, 0x63, 0x6c, 0x69, 0x65, 0x6e, 0x74, 0x2d, 0x69, 0x64, 0xa5, 0x9d, 0x03}
)

func w13LockFrame(cmdType byte, reqId byte, timeout uint16, expried uint16) []byte {
	f := w13Frame(cmdType, reqId)
	f[19], f[20] = 0, 0
	copy(f[21:37], w13PrivLockId[:])
	copy(f[37:53], w13PrivKey[:])
	f[53], f[54] = byte(timeout), byte(timeout>>8)
	f[57], f[58] = byte(expried), byte(expried>>8)
	return f
}

func w13ProbeWatchdog() time.Duration {
	return time.Duration(vEnvInt("VERIF_C13_PROBE_MS", 20000)) * time.Millisecond
}

// heldValues counts the held keys that carry a stored value (statistics only; unsynchronised reads of a
// quiescent instance: the connection has ended).
func (in *w13Instance) heldValues() (held int, props int) {
	look := func(m *LockManager) {
		if m == nil || m.locked == 0 || m.currentData == nil {
			return
		}
		if d := m.currentData.GetData(); d != nil {
			held++
			if len(d) >= 6 && d[5]&protocol.LOCK_DATA_FLAG_CONTAINS_PROPERTY != 0 {
				props++
			}
		}
	}
	for _, db := range in.allDbs() {
		for i := range db.fastLocks {
			look(db.fastLocks[i].manager)
		}
		db.mGlock.RLock()
		for _, m := range db.locks {
			look(m)
		}
		db.mGlock.RUnlock()
	}
	return
}

func w13SettleTime() time.Duration {
	return time.Duration(vEnvInt("VERIF_C13_SETTLE_MS", 400)) * time.Millisecond
}

// releaseWaiters forces the time-out of every queued lock request of the instance.
func (in *w13Instance) releaseWaiters() {
	defer func() {
		if r := recover(); r != nil {
			fmt.Printf("VERIF-NOTE C13 forced time-out panicked (ignored, FLUSHDB path is outside the property): %v\n", r)
		}
	}()
	for _, db := range in.allDbs() {
		for i := uint16(0); i < db.managerMaxGlocks; i++ {
			db.managerGlocks[i].LowPriorityLock()
			db.flushTimeOut(i, true)
			db.managerGlocks[i].LowPriorityUnlock()
		}
	}
}

func w13HandlerWatchdog() time.Duration {
	return time.Duration(vEnvInt("VERIF_C13_WATCHDOG_MS", 25000)) * time.Millisecond
}

// request sends one 64-byte frame on an interactive connection and checks type, request id and
// result code of the 64-byte reply.
func w13Request(c *w13PipeConn, frame []byte, wantResult byte, what string) error {
	c.send(frame)
	r, err := c.recv(w13WantN(64), w13ProbeWatchdog())
	if err != nil {
		return fmt.Errorf("%s: %w", what, err)
	}
	if r[0] != protocol.MAGIC || r[1] != protocol.VERSION || r[2] != frame[2] || !bytes.Equal(r[3:19], frame[3:19]) {
		return fmt.Errorf("%s: reply does not match the request: % x", what, r[:22])
	}
	if r[19] != wantResult {
		return fmt.Errorf("%s: result code %d, want %d", what, r[19], wantResult)
	}
	return nil
}

// establish opens the bystander connection: INIT, then LOCK on a private key.
func (in *w13Instance) establish() error {
	in.by = w13NewPipeConn(39999)
	in.byH = in.serve(in.by)
	f := w13Frame(protocol.COMMAND_INIT, 0xb1)
	copy(f[19:35], w13PrivClient[:])
	if err := w13Request(in.by, f, protocol.RESULT_SUCCED, "bystander INIT"); err != nil {
		return err
	}
	return w13Request(in.by, w13LockFrame(protocol.COMMAND_LOCK, 0xb2, 0, 600), protocol.RESULT_SUCCED, "bystander LOCK")
}

// probe: the bystander still holds its lock and is answered correctly; fresh connections are served.
func (in *w13Instance) probe() error {
	select {
	case <-in.byH.done:
		if in.byH.pan != nil {
			return fmt.Errorf("bystander handler panicked: %v", in.byH.pan)
		}
		return errors.New("bystander connection was closed by the server")
	default:
	}
	if err := w13Request(in.by, w13Frame(protocol.COMMAND_PING, 0xb3), protocol.RESULT_SUCCED, "bystander PING"); err != nil {
		return err
	}
	// holder re-locking with Rcount 0: LOCKED_ERROR while the hold exists, SUCCED if it was lost
	if err := w13Request(in.by, w13LockFrame(protocol.COMMAND_LOCK, 0xb4, 0, 600), protocol.RESULT_LOCKED_ERROR, "bystander re-LOCK of the held private key"); err != nil {
		return err
	}
	if err := w13Request(in.by, w13LockFrame(protocol.COMMAND_UNLOCK, 0xb5, 0, 0), protocol.RESULT_SUCCED, "bystander UNLOCK of the held private key"); err != nil {
		return err
	}
	if err := w13Request(in.by, w13LockFrame(protocol.COMMAND_LOCK, 0xb6, 0, 600), protocol.RESULT_SUCCED, "bystander LOCK after UNLOCK"); err != nil {
		return err
	}
	// fresh binary connection
	fb := w13NewPipeConn(39998)
	hb := in.serve(fb)
	err := w13Request(fb, w13Frame(protocol.COMMAND_PING, 0xb7), protocol.RESULT_SUCCED, "fresh binary connection PING")
	fb.finish()
	if err != nil {
		return err
	}
	// fresh text connection
	ft := w13NewPipeConn(39997)
	ht := in.serve(ft)
	ft.send([]byte("*1\r\n$4\r\nPING\r\n"))
	r, err := ft.recv(w13WantLine, w13ProbeWatchdog())
	ft.finish()
	if err != nil {
		return fmt.Errorf("fresh text connection PING: %w", err)
	}
	if string(r) != "+PONG\r\n" {
		return fmt.Errorf("fresh text connection PING answered %q", r)
	}
	for _, h := range []*w13Handler{hb, ht} {
		select {
		case <-h.done:
			if h.pan != nil {
				return fmt.Errorf("fresh connection handler panicked: %v", h.pan)
			}
		case <-time.After(w13ProbeWatchdog()):
			return errors.New("fresh connection handler did not end after EOF")
		}
	}
	return nil
}

// ---------------------------------------------------------------------------------------------
// failure keys

var w13FuncRe = regexp.MustCompile(`^github\.com/snower/slock/([A-Za-z0-9_/]+)\.(.+?)\(`)

// w13FirstRepoFunc returns the innermost function of the repository on a panicking stack, e.g.
// "protocol.NewLockCommandDataFromOriginBytes" or "server.(*LockManager).ProcessLockData".
// Harness frames (files named zz_verif_*) are skipped.
func w13FirstRepoFunc(stack string) string {
	lines := strings.Split(stack, "\n")
	start := 0
	for i, l := range lines {
		if strings.HasPrefix(l, "panic(") || strings.HasPrefix(l, "runtime.sigpanic") || strings.HasPrefix(l, "runtime.panic") || strings.HasPrefix(l, "runtime.goPanic") {
			start = i + 1
		}
	}
	for i := start; i < len(lines); i++ {
		m := w13FuncRe.FindStringSubmatch(lines[i])
		if m == nil {
			continue
		}
		if i+1 < len(lines) && strings.Contains(lines[i+1], "zz_verif_") {
			continue
		}
		fn := m[2]
		fn = strings.TrimSuffix(fn, "(...)")
		// closures: f.func1 -> f
		fn = regexp.MustCompile(`\.func\d+(\.\d+)*$`).ReplaceAllString(fn, "")
		pkg := m[1]
		if j := strings.LastIndex(pkg, "/"); j >= 0 {
			pkg = pkg[j+1:]
		}
		return pkg + "." + fn
	}
	return "unknown"
}

var w13BinaryNames = map[byte]string{0: "INIT", 1: "LOCK", 2: "UNLOCK", 3: "STATE", 4: "ADMIN", 5: "PING", 6: "QUIT", 7: "CALL",
	8: "WILL_LOCK", 9: "WILL_UNLOCK", 10: "LEADER", 11: "SUBSCRIBE", 12: "PUBLISH"}

// w13BinaryCommandAt walks a byte stream the way a binary connection frames it and names the n-th
// (1-based) command. Used only to label failure keys, never for a verdict.
func w13BinaryCommandAt(b []byte, n int) string {
	off := 0
	for i := 1; off+64 <= len(b); i++ {
		t, flag := b[off+2], b[off+19]
		if i == n {
			if name, ok := w13BinaryNames[t]; ok {
				return name
			}
			return fmt.Sprintf("TYPE%d", t)
		}
		next := off + 64
		switch t {
		case 1, 2, 8, 9:
			if flag&0x20 != 0 {
				if next+4 > len(b) {
					return "?"
				}
				l := int(uint32(b[next]) | uint32(b[next+1])<<8 | uint32(b[next+2])<<16 | uint32(b[next+3])<<24)
				if l < 0 || l > CONTENT_DATA_MAX_LENGTH {
					return "?"
				}
				next += 4 + l
			}
		case 7:
			l := int(uint32(b[off+22]) | uint32(b[off+23])<<8 | uint32(b[off+24])<<16 | uint32(b[off+25])<<24)
			if l < 0 || l > CONTENT_DATA_MAX_LENGTH {
				return "?"
			}
			next += l
		case 4:
			return "?"
		}
		off = next
	}
	return "?"
}

// w13CrashKey builds "C13:<binary|text>:<COMMAND>:<function>" for a panic that escaped Server.handle.
func w13CrashKey(h *w13Handler, sent []byte) string {
	proto, cmd := "text", "?"
	fn := w13FirstRepoFunc(h.stack)
	inText := strings.Contains(h.stack, "(*TextServerProtocol)")
	switch p := h.stream.protocol.(type) {
	case *TextServerProtocol:
		if p.parser != nil {
			if c := p.parser.GetCommandType(); c != "" {
				cmd = c
			}
		}
		if strings.Contains(h.stack, "(*BinaryServerProtocol)") {
			proto = "binary-admin"
		}
	case *BinaryServerProtocol:
		proto = "binary"
		if !inText {
			cmd = w13BinaryCommandAt(sent, int(p.totalCommandCount))
		}
	default:
		if strings.Contains(h.stack, "(*BinaryServerProtocol)") && !inText {
			proto = "binary"
		}
	}
	if len(cmd) > 24 {
		cmd = cmd[:24]
	}
	cmd = regexp.MustCompile(`[^A-Za-z0-9_?-]`).ReplaceAllString(cmd, "_")
	return "C13:" + proto + ":" + cmd + ":" + fn
}

// ---------------------------------------------------------------------------------------------
// executor

type w13ConnInfo struct {
	Parsed   int    // complete commands that reached a handler
	Proto    string // what the server made of the connection: binary | text | none
	OutLen   int
	Reads    int
	Finished bool
	Released int // rounds of forced time-outs that were needed to end the handler

	HeldValues int // held keys with a stored value after the connection ended
	HeldProps  int // ... whose stored value has the property flag
}

type w13Info struct {
	Conns        []w13ConnInfo
	Inconclusive string
	PanicKey     string
}

type w13Failure struct {
	Key string
	Msg string
}

func (f *w13Failure) Error() string { return f.Msg }

func w13Short(b []byte) string {
	if len(b) > 96 {
		return fmt.Sprintf("%x...(%d bytes)", b[:96], len(b))
	}
	return fmt.Sprintf("%x", b)
}

// w13RunCase executes a case on a fresh instance. It returns a *w13Failure for a violation of the
// property; harness problems (cannot create the instance) are returned as plain errors in
// info.Inconclusive.
func w13RunCase(c *w13Case) (info w13Info, fail *w13Failure) {
	in, err := w13NextInstance(c.AofQueue)
	if err != nil {
		info.Inconclusive = "cannot create instance: " + err.Error()
		return
	}
	defer in.retire()
	if err = in.establish(); err != nil {
		// nothing of the case has run yet: this is a harness / environment problem
		info.Inconclusive = "cannot establish the bystander connection: " + err.Error()
		in.dirty = true
		return
	}
	for i := range c.Conns {
		data := c.Conns[i].bytes()
		conn := w13NewScriptConn(data, c.Conns[i].Chunks, in.port+i)
		in.slock.clientsGlock.Lock()
		before := in.slock.statsTotalCommandCount
		in.slock.clientsGlock.Unlock()
		h := in.serve(conn)
		ci := w13ConnInfo{Proto: "none"}
		select {
		case <-h.done:
			ci.Finished = true
		case <-time.After(w13SettleTime()):
			// The script is consumed and the handler is still busy: it waits for the answer to a queued
			// lock (text commands are synchronous). Instead of sitting out a wall-clock wait of unknown
			// length, let time "pass" for everything that is queued: the server's own forced time-out
			// (LockDB.flushTimeOut, what FLUSHDB runs) answers every waiter with TIMEOUT.
			deadline := time.Now().Add(w13HandlerWatchdog())
			for !ci.Finished && time.Now().Before(deadline) {
				in.releaseWaiters()
				ci.Released++
				select {
				case <-h.done:
					ci.Finished = true
				case <-time.After(150 * time.Millisecond):
				}
				if ci.Released >= 40 && !ci.Finished {
					select {
					case <-h.done:
						ci.Finished = true
					case <-time.After(time.Until(deadline)):
					}
					break
				}
			}
		}
		if !ci.Finished {
			in.dirty = true
			in.stuck = append(in.stuck, h)
			info.Conns = append(info.Conns, ci)
			info.Inconclusive = fmt.Sprintf("handler of connection %d still running %v after the script ended and %d forced time-outs (stream %s)", i, w13HandlerWatchdog(), ci.Released, w13Short(data))
			return
		}
		conn.mu.Lock()
		ci.OutLen, ci.Reads = conn.outLen, conn.reads
		conn.mu.Unlock()
		if h.pan != nil {
			in.dirty = true
			key := w13CrashKey(h, data)
			info.PanicKey = key
			info.Conns = append(info.Conns, ci)
			fail = &w13Failure{Key: key, Msg: fmt.Sprintf("panic escaped Server.handle on connection %d (the server process would die): %v\n%s", i, h.pan, w13TrimStack(h.stack))}
			return
		}
		in.slock.clientsGlock.Lock()
		ci.Parsed = int(in.slock.statsTotalCommandCount - before)
		in.slock.clientsGlock.Unlock()
		if len(data) >= 64 && conn.firstReadLen() == 64 && data[0] == 0x56 && data[1] == 0x01 {
			ci.Proto = "binary"
		} else if len(data) > 0 {
			ci.Proto = "text"
		}
		ci.HeldValues, ci.HeldProps = in.heldValues()
		info.Conns = append(info.Conns, ci)
		if l := c.Conns[i].Linger; l > 0 {
			if l > 5000 {
				l = 5000
			}
			time.Sleep(time.Duration(l) * time.Millisecond)
		}
		if err = in.probe(); err != nil {
			in.dirty = true
			key := "C13:probe:other-connection-affected"
			if errors.Is(err, errW13Timeout) {
				key = "C13:probe:no-answer"
			}
			fail = &w13Failure{Key: key, Msg: fmt.Sprintf("after connection %d (%s): %v", i, w13Short(data), err)}
			return
		}
	}
	return
}

// firstReadLen: how many bytes the very first Read of the server could see.
func (c *w13ScriptConn) firstReadLen() int {
	n := len(c.data)
	if len(c.chunks) > 0 && c.chunks[0] > 0 && c.chunks[0] < n {
		n = c.chunks[0]
	}
	if n > 64 {
		n = 64
	}
	return n
}

var (
	w13StackArgsRe = regexp.MustCompile(`\([^()]*\)$`)
	w13StackOffRe  = regexp.MustCompile(` \+0x[0-9a-f]+$`)
	w13StackGoRe   = regexp.MustCompile(` in goroutine \d+$`)
)

// w13TrimStack keeps the frames from the panic down and removes everything that differs between two
// runs of the same case (argument values, pc offsets, goroutine numbers): rapid only shrinks failures
// whose message is reproducible.
func w13TrimStack(s string) string {
	lines := strings.Split(s, "\n")
	out := []string{}
	keep := false
	for _, l := range lines {
		if strings.HasPrefix(l, "panic(") {
			keep = true
			out = out[:0]
		}
		if !keep {
			continue
		}
		if strings.HasPrefix(l, "\t") {
			l = w13StackOffRe.ReplaceAllString(l, "")
		} else {
			l = w13StackGoRe.ReplaceAllString(l, "")
			l = w13StackArgsRe.ReplaceAllString(l, "(...)")
		}
		out = append(out, l)
		if len(out) > 24 {
			break
		}
	}
	if len(out) == 0 {
		return "(no panic frame in stack)"
	}
	return strings.Join(out, "\n")
}
