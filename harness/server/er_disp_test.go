package server

// Engine R, dispatcher unit ("RD"): the REAL per-database dispatcher goroutines LockDB.checkTimeOut / LockDB.checkExpried
// under a harness-owned clock.
//
// Engine A sweeps with a copy of the dispatcher loop (aEnv.tick), engine R runs the real dispatchers but cannot move the wall
// clock. Here the instance is created with the no-check-loop hook (nothing of startCheckLoop runs), the harness starts
// `go db.checkTimeOut(tw)` and `go db.checkExpried(ew)` itself and plays the part of updateCurrentTime: it sets
// db.currentTime and signals both waiters - in steps of one second and in JUMPS of 2..70 s (suspended process, clock step,
// long stall). Real time is used only to wait until the goroutines the dispatchers spawned have finished.

import (
	"encoding/json"
	"fmt"
	"os"
	"path/filepath"
	"runtime"
	"strings"
	"sync"
	"sync/atomic"
	"testing"
	"time"

	"github.com/snower/slock/protocol"
	"pgregory.net/rapid"
)

const dEFzeroAof = int(protocol.EXPRIED_FLAG_ZEOR_AOF_TIME)

type dStep struct {
	K   string `json:"k"` // lock | unlock | step (N x 1 s) | jump (N s at once)
	C   int    `json:"c,omitempty"`
	Key int    `json:"key,omitempty"`
	Id  int    `json:"id,omitempty"`
	T   int    `json:"t,omitempty"`
	E   int    `json:"e,omitempty"`
	EF  int    `json:"ef,omitempty"`
	Cnt int    `json:"cnt,omitempty"`
	N   int    `json:"n,omitempty"`
}

func (s dStep) String() string {
	switch s.K {
	case "lock":
		return fmt.Sprintf("lock c%d k%d id%d T=%ds E=%s count=%d", s.C, s.Key, s.Id, s.T, rDurName(s.E, s.EF&^dEFzeroAof, s.EF&rEFunlimited != 0)+map[bool]string{true: "+zero-aof-time", false: ""}[s.EF&dEFzeroAof != 0], s.Cnt)
	case "unlock":
		return fmt.Sprintf("unlock c%d k%d id%d", s.C, s.Key, s.Id)
	case "step":
		return fmt.Sprintf("clock: %d x 1 s", s.N)
	case "jump":
		return fmt.Sprintf("clock: jump of %d s", s.N)
	}
	return s.K
}

// dCase shares no field name with the other engines' cases except "engine" (value "RD").
type dCase struct {
	Engine   string  `json:"engine"`
	DbConc   int     `json:"dbconc"`
	NClients int     `json:"nclients"`
	Steps    []dStep `json:"dsteps"`
}

func (c *dCase) String() string {
	var sb strings.Builder
	fmt.Fprintf(&sb, "dbconc=%d clients=%d\n", c.DbConc, c.NClients)
	for i, s := range c.Steps {
		fmt.Fprintf(&sb, "  #%d %v\n", i, s)
	}
	return sb.String()
}

func (c *dCase) fingerprint() uint64 {
	var sb strings.Builder
	for _, s := range c.Steps {
		sb.WriteString(s.String())
		sb.WriteByte(';')
	}
	return vHash("RD", c.DbConc, c.NClients, sb.String())
}

type dReply struct {
	step   int
	res    uint8
	lr     uint8
	client int
	at     int64 // harness clock (seconds since the start of the case) when the callback ran
}

type dHold struct {
	req       int
	key, id   int
	g         int64
	e         int64
	unlimited bool
	long      bool // filed in the long table at once (zero-aof-time flag, E > 5)
	ended     bool
}

type dReq struct {
	op       dStep
	sent     int64
	answered bool
}

type dViol struct {
	Key, Msg string
}

type dInfo struct {
	jumpsOverWheel, dueInSkippedWindow, agedHolds, agedWaiters, longAtOnce, expiries, timeouts, catchupFired, queueGrants int
	settleTimeouts                                                                                                        int
}

type dEnv struct {
	c       *dCase
	db      *LockDB
	tw, ew  chan struct{}
	epoch   int64
	now     int64 // seconds since epoch
	mu      sync.Mutex
	replies []dReply
	seen    int
	reqs    map[int]*dReq
	holds   []*dHold
	hist    []string
	base    int
	info    dInfo
	viols   []dViol
	lastOp  string
	done    int32
}

func (e *dEnv) logf(f string, a ...interface{}) {
	e.hist = append(e.hist, fmt.Sprintf("[t+%d] ", e.now)+fmt.Sprintf(f, a...))
}

func (e *dEnv) viol(key, f string, a ...interface{}) {
	e.viols = append(e.viols, dViol{key, fmt.Sprintf(f, a...)})
}

func (e *dEnv) nReplies() int {
	e.mu.Lock()
	defer e.mu.Unlock()
	return len(e.replies)
}

// settle: wait until the dispatchers have taken the new second and the goroutines they spawned have ended.
// Returns false when the bounded wait ran out (never a verdict).
func (e *dEnv) settle() bool {
	abs := e.epoch + e.now
	deadline := time.Now().Add(2 * time.Second)
	for e.db.checkExpriedTime != abs+1 || e.db.checkTimeoutTime != abs+1 {
		if time.Now().After(deadline) {
			return false
		}
		time.Sleep(50 * time.Microsecond)
	}
	lastChange := time.Now()
	lastN := e.nReplies()
	for {
		time.Sleep(100 * time.Microsecond)
		n := e.nReplies()
		if n != lastN {
			lastN, lastChange = n, time.Now()
			continue
		}
		g := runtime.NumGoroutine()
		if g <= e.base && time.Since(lastChange) > 300*time.Microsecond {
			e.base = g
			return true
		}
		if time.Since(lastChange) > 50*time.Millisecond {
			if g < e.base {
				e.base = g
			}
			return true
		}
		if time.Now().After(deadline) {
			return false
		}
	}
}

func (e *dEnv) advance(secs int64) bool {
	e.now += secs
	e.db.currentTime = e.epoch + e.now
	e.tw <- struct{}{} // as updateCurrentTime: time-outs first, then expiries
	e.ew <- struct{}{}
	return e.settle()
}

func (e *dEnv) send(i int, s dStep, p *MemWaiterServerProtocol) {
	cmd := &protocol.LockCommand{}
	cmd.Magic, cmd.Version = protocol.MAGIC, protocol.VERSION
	cmd.CommandType = protocol.COMMAND_LOCK
	if s.K == "unlock" {
		cmd.CommandType = protocol.COMMAND_UNLOCK
	}
	cmd.RequestId = aReqId(i)
	cmd.LockId, cmd.LockKey = aLockId(s.Id), aKey(s.Key)
	cmd.Timeout, cmd.Expried, cmd.ExpriedFlag = uint16(s.T), uint16(s.E), uint16(s.EF)
	cmd.Count = uint16(s.Cnt)
	e.reqs[i] = &dReq{op: s, sent: e.now}
	e.logf("#%d -> %v", i, s)
	_ = p.ProcessLockCommand(cmd)
}

// digest: feed the replies that arrived since the last call to the ledger, then check what must have happened by now.
func (e *dEnv) digest(catchup int64) {
	e.mu.Lock()
	fresh := append([]dReply{}, e.replies[e.seen:]...)
	e.seen = len(e.replies)
	e.mu.Unlock()
	for _, r := range fresh {
		q := e.reqs[r.step]
		e.logf("   <- c%d req#%d %s lrcount=%d", r.client, r.step, aResultName(r.res), r.lr)
		if q == nil {
			e.viol("C05:disp:stray-reply", "reply %s for a RequestId (step %d) that was never sent", aResultName(r.res), r.step)
			continue
		}
		if r.res == protocol.RESULT_EXPRIED {
			var h *dHold
			for _, x := range e.holds {
				if x.req == r.step {
					h = x
				}
			}
			switch {
			case h == nil:
				e.viol("C06:disp:notice-for-no-hold", "EXPRIED for request #%d which holds nothing", r.step)
			case h.ended:
				e.viol("C06:disp:notice-after-end", "EXPRIED for hold of request #%d which had already ended", r.step)
			case h.unlimited:
				e.viol("C06:disp:unlimited-expired", "hold of request #%d has unlimited expiry but got EXPRIED at t+%d", r.step, r.at)
				h.ended = true
			default:
				h.ended = true
				e.info.expiries++
				if catchup > 1 {
					e.info.catchupFired++
				}
				if r.at-h.g < h.e {
					e.viol("C06:disp:expiry-early", "hold of request #%d (%v) granted at t+%d got EXPRIED at t+%d: %d s < E", r.step, q.op, h.g, r.at, r.at-h.g)
				}
			}
			continue
		}
		if q.answered {
			e.viol("C05:disp:two-terminal-replies", "request #%d (%v) got a second terminal reply %s", r.step, q.op, aResultName(r.res))
			continue
		}
		q.answered = true
		if q.op.K == "unlock" {
			if r.res == protocol.RESULT_SUCCED && r.lr == 0 {
				for _, x := range e.holds {
					if !x.ended && x.key == q.op.Key && x.id == q.op.Id {
						x.ended = true
					}
				}
			}
			continue
		}
		switch r.res {
		case protocol.RESULT_SUCCED:
			if r.lr == 0 {
				continue
			}
			h := &dHold{req: r.step, key: q.op.Key, id: q.op.Id, g: r.at, e: int64(q.op.E), unlimited: q.op.EF&rEFunlimited != 0,
				long: q.op.EF&dEFzeroAof != 0 && q.op.E > 5}
			e.holds = append(e.holds, h)
			if h.long {
				e.info.longAtOnce++
			}
			if r.at > q.sent {
				e.info.queueGrants++
			}
		case protocol.RESULT_TIMEOUT:
			if q.op.T > 0 {
				e.info.timeouts++
				if catchup > 1 {
					e.info.catchupFired++
				}
				if r.at-q.sent < int64(q.op.T) {
					e.viol("C05:disp:timeout-early", "request #%d (%v) queued at t+%d got TIMEOUT at t+%d: %d s < T", r.step, q.op, q.sent, r.at, r.at-q.sent)
				}
				if r.at-q.sent > 9 {
					e.info.agedWaiters++
				}
			}
		}
	}
	if !e.missesPending(false) {
		return
	}
	// something that must have happened has not: the settle heuristic may have returned while a spawned sweep goroutine
	// had not yet run - wait generously (real time costs nothing here), take what arrived, then judge
	time.Sleep(150 * time.Millisecond)
	if catchup >= 0 {
		e.digest(-1)
		return
	}
	e.missesPending(true)
}

// missesPending: what must have happened by now (allowance: the windows [E, E+2] / [T, T+2] of the statements).
func (e *dEnv) missesPending(record bool) (any bool) {
	for _, h := range e.holds {
		if !h.ended && !h.unlimited && e.now-h.g >= h.e+2 {
			any = true
			if !record {
				continue
			}
			h.ended = true // reported once
			where := "wheel"
			if h.long {
				where = "long table at once (zero-aof-time flag, E > 5)"
			} else if h.e >= 44 {
				where = "aged into the long table"
			}
			e.viol("C06:disp:expiry-missed", "hold of request #%d (%v; %s) granted at t+%d is still there at t+%d, %d s after the grant (E + 2 = %d); last clock move: %s",
				h.req, e.reqs[h.req].op, where, h.g, e.now, e.now-h.g, h.e+2, e.lastOp)
		}
	}
	live := map[int]int{}
	for _, h := range e.holds {
		if !h.ended {
			live[h.key]++
		}
	}
	for i := 0; i < len(e.c.Steps); i++ {
		q := e.reqs[i]
		if q == nil || q.answered || q.op.K != "lock" {
			continue
		}
		if q.op.T == 0 || e.now-q.sent >= int64(q.op.T)+2 || live[q.op.Key] == 0 {
			any = true
			if !record {
				continue
			}
		}
		if q.op.T == 0 {
			q.answered = true
			e.viol("C05:disp:timeout0-not-immediate", "request #%d (%v) has Timeout 0 and got no reply", i, q.op)
		} else if e.now-q.sent >= int64(q.op.T)+2 {
			q.answered = true
			e.viol("C05:disp:timeout-missed", "request #%d (%v) queued at t+%d is unanswered at t+%d, %d s later (T + 2 = %d); last clock move: %s", i, q.op, q.sent, e.now, e.now-q.sent, q.op.T+2, e.lastOp)
		} else if live[q.op.Key] == 0 {
			q.answered = true
			e.viol("C06:disp:waiter-not-served", "request #%d (%v) is still queued at t+%d although no hold is left on its key; last clock move: %s", i, q.op, e.now, e.lastOp)
		}
	}
	return
}

// aftermath: after a miss, 20 further one-second steps tell "late" (the entry was still filed somewhere and comes up at
// a later wheel turn) from "lost" (nothing will ever end it). Diagnosis only, appended to the message.
func (e *dEnv) aftermath() {
	miss := false
	for _, x := range e.viols {
		if strings.HasSuffix(x.Key, "-missed") {
			miss = true
		}
	}
	if !miss {
		return
	}
	before := e.nReplies()
	for k := 0; k < 20; k++ {
		if !e.advance(1) {
			break
		}
	}
	time.Sleep(50 * time.Millisecond)
	e.mu.Lock()
	var got []string
	for _, r := range e.replies[before:] {
		got = append(got, fmt.Sprintf("req#%d %s at t+%d", r.step, aResultName(r.res), r.at))
	}
	e.mu.Unlock()
	note := "; 20 further one-second steps brought nothing: the entry is lost to the sweep"
	if len(got) > 0 {
		note = "; 20 further one-second steps brought: " + strings.Join(got, ", ")
	}
	for i := range e.viols {
		if strings.HasSuffix(e.viols[i].Key, "-missed") {
			e.viols[i].Msg += note
		}
	}
}

type dOutcome struct {
	viols        []dViol
	info         dInfo
	hist         string
	inconclusive string
	panic        string
}

func dNewInst(c *dCase) (*vInst, *LockDB, error) {
	vInstMu.Lock()
	defer vInstMu.Unlock()
	o := vInstOpts{DataDir: vScratchDir("erd"), DBConcurrent: uint(c.DbConc), NoCheckLoop: true}
	atomic.StoreInt32(&vNoCheckLoop, 1)
	slock := NewSLock(vConfig(o), vQuietLogger())
	server := NewServer(slock)
	if err := slock.Init(server); err != nil {
		return nil, nil, err
	}
	db := slock.GetOrNewDB(0) // startCheckLoop returns at once: hook
	return &vInst{slock, server, o.DataDir, o}, db, nil
}

func dExec(c *dCase) (out dOutcome) {
	defer func() {
		if p := recover(); p != nil {
			out.panic = fmt.Sprintf("%v\n%s", p, vRepoFrames())
		}
	}()
	inst, db, err := dNewInst(c)
	if err != nil {
		out.inconclusive = "instance: " + err.Error()
		return
	}
	e := &dEnv{c: c, db: db, tw: make(chan struct{}, 16), ew: make(chan struct{}, 16), epoch: db.currentTime, reqs: map[int]*dReq{}}
	clients := make([]*MemWaiterServerProtocol, c.NClients)
	for i := range clients {
		idx := i
		p := NewMemWaiterServerProtocol(inst.slock)
		_ = p.SetResultCallback(func(_ *MemWaiterServerProtocol, cmd *protocol.LockCommand, result uint8, _ uint16, lrcount uint8, _ []byte) error {
			if atomic.LoadInt32(&e.done) != 0 {
				return nil
			}
			e.mu.Lock()
			e.replies = append(e.replies, dReply{aReqIdx(cmd.RequestId), result, lrcount, idx, e.now})
			e.mu.Unlock()
			return nil
		})
		clients[i] = p
	}
	go db.checkTimeOut(e.tw) // the real dispatchers; updateCurrentTime's part is played by advance()
	go db.checkExpried(e.ew)
	defer func() {
		atomic.StoreInt32(&e.done, 1)
		inst.vClose(false, true) // marks the db closed: the dispatchers leave their loops at the next signal
		close(e.tw)
		close(e.ew)
	}()
	time.Sleep(2 * time.Millisecond)
	e.base = runtime.NumGoroutine()
	e.lastOp = "start"
	if !e.advance(0) { // the first signal of updateCurrentTime
		out.inconclusive = "settle watchdog at start"
		return
	}
	finish := func() {
		out.viols, out.info = e.viols, e.info
		out.hist = c.String() + strings.Join(e.hist, "\n")
	}
	for i, s := range c.Steps {
		switch s.K {
		case "lock", "unlock":
			e.send(i, s, clients[s.C%len(clients)])
			e.digest(0)
		case "step":
			for k := 0; k < s.N; k++ {
				e.lastOp = "1 s step"
				if !e.advance(1) {
					e.info.settleTimeouts++
					out.inconclusive = "settle watchdog"
					finish()
					return
				}
				e.digest(1)
			}
		case "jump":
			e.lastOp = fmt.Sprintf("jump of %d s (t+%d -> t+%d)", s.N, e.now, e.now+int64(s.N))
			if int64(s.N) > EXPRIED_QUEUE_LENGTH {
				e.info.jumpsOverWheel++
				for _, h := range e.holds {
					// deadline second inside the part of the jump that lies more than one wheel turn back
					if !h.ended && !h.unlimited && (h.long || e.now-h.g >= 44) && h.g+h.e+1 <= e.now+int64(s.N)-EXPRIED_QUEUE_LENGTH {
						e.info.dueInSkippedWindow++
					}
				}
			}
			for _, h := range e.holds {
				if !h.ended && e.now-h.g >= 44 {
					e.info.agedHolds++
				}
			}
			e.logf("clock: %s", e.lastOp)
			if !e.advance(int64(s.N)) {
				e.info.settleTimeouts++
				out.inconclusive = "settle watchdog"
				finish()
				return
			}
			e.digest(int64(s.N))
		}
		if len(e.viols) > 0 {
			e.aftermath()
			finish() // stop at the first violating step
			return
		}
	}
	// end: release the unlimited holds, let 70 s pass, everything finite must be over, every key must be free
	for _, h := range e.holds {
		if !h.ended && h.unlimited {
			i := len(c.Steps) + len(e.reqs)
			e.send(i, dStep{K: "unlock", Key: h.key, Id: h.id}, clients[0])
		}
	}
	e.digest(0)
	e.lastOp = "final jump of 70 s"
	e.logf("clock: %s", e.lastOp)
	if !e.advance(70) {
		out.inconclusive = "settle watchdog"
		finish()
		return
	}
	e.digest(70)
	if len(e.viols) > 0 {
		e.aftermath()
	}
	if len(e.viols) == 0 {
		keys := map[int]bool{}
		for _, s := range c.Steps {
			if s.K == "lock" {
				keys[s.Key] = true
			}
		}
		for _, h := range e.holds {
			if !h.ended {
				delete(keys, h.key) // a request granted out of the queue during the final jump still holds the key
			}
		}
		for k := range keys {
			i := 100000 + k
			e.send(i, dStep{K: "lock", Key: k, Id: 900 + k, E: 5}, clients[0])
			e.mu.Lock()
			ok := len(e.replies) > 0 && e.replies[len(e.replies)-1].step == i && e.replies[len(e.replies)-1].res == protocol.RESULT_SUCCED
			e.mu.Unlock()
			if !ok {
				e.viol("C06:disp:capacity-not-freed", "after every hold on k%d ended, a probe LOCK with Count 0 is not granted", k)
			}
		}
	}
	finish()
	return
}

// ---------------------------------------------------------------------------------------------------------------------

func dGenCase(t *rapid.T) *dCase {
	c := &dCase{Engine: "RD"}
	c.DbConc = rapid.SampledFrom([]int{1, 2, 4}).Draw(t, "dbconc")
	c.NClients = rapid.IntRange(1, 3).Draw(t, "clients")
	nkeys := rapid.IntRange(1, 3).Draw(t, "keys")
	n := rapid.IntRange(4, 28).Draw(t, "steps")
	nextId := 0
	var ids []dStep
	budget := 260 // seconds of virtual time per case
	for len(c.Steps) < n {
		kind := rGenDur(t, "step-kind", []int{48, 6, 22, 24}) // lock | unlock | 1-s steps | jump
		if len(c.Steps) == 0 || (kind == 1 && len(ids) == 0) {
			kind = 0
		}
		switch kind {
		case 0:
			s := dStep{K: "lock", C: rapid.IntRange(0, c.NClients-1).Draw(t, "client"), Key: rapid.IntRange(0, nkeys-1).Draw(t, "key"), Id: nextId}
			nextId++
			s.Cnt = rapid.SampledFrom([]int{0, 0, 1, 2, 2}).Draw(t, "count")
			switch rGenDur(t, "timeout-kind", []int{40, 25, 20, 15}) {
			case 1:
				s.T = rapid.IntRange(1, 8).Draw(t, "T")
			case 2:
				s.T = rapid.IntRange(9, 40).Draw(t, "T") // re-checked more than 8 times when the clock moves in 1-s steps: long-wait table
			case 3:
				s.T = rapid.IntRange(41, 60).Draw(t, "T")
			}
			switch rGenDur(t, "expiry-kind", []int{22, 18, 30, 22, 8}) {
			case 0:
				s.E = rapid.IntRange(1, 5).Draw(t, "E")
			case 1:
				s.E = rapid.IntRange(6, 43).Draw(t, "E")
			case 2:
				s.E, s.EF = rapid.IntRange(6, 60).Draw(t, "E"), dEFzeroAof // long table at once
			case 3:
				s.E = rapid.IntRange(44, 60).Draw(t, "E") // aged into the long table by 1-s steps
			default:
				s.E, s.EF = 1, rEFunlimited
			}
			if rapid.IntRange(0, 5).Draw(t, "small-zero-aof") == 0 && s.EF == 0 {
				s.EF = dEFzeroAof
			}
			ids = append(ids, s)
			c.Steps = append(c.Steps, s)
		case 1:
			x := rapid.SampledFrom(ids).Draw(t, "target")
			c.Steps = append(c.Steps, dStep{K: "unlock", C: x.C, Key: x.Key, Id: x.Id})
		case 2:
			k := rapid.SampledFrom([]int{1, 1, 2, 3, 5, 9, 12, 46, 50}).Draw(t, "seconds")
			if k > budget {
				k = 1
			}
			budget -= k
			c.Steps = append(c.Steps, dStep{K: "step", N: k})
		default:
			var j int
			switch rGenDur(t, "jump-kind", []int{30, 40, 30}) {
			case 0:
				j = rapid.IntRange(2, 16).Draw(t, "jump")
			case 1:
				j = rapid.IntRange(17, 40).Draw(t, "jump")
			default:
				j = rapid.IntRange(41, 70).Draw(t, "jump")
			}
			c.Steps = append(c.Steps, dStep{K: "jump", N: j})
		}
	}
	return c
}

func dClasses(o dOutcome) (bool, []string) {
	var cls []string
	add := func(b bool, s string) {
		if b {
			cls = append(cls, s)
		}
	}
	in := o.info
	add(o.inconclusive != "", "inconclusive (not judged): "+o.inconclusive)
	add(in.jumpsOverWheel > 0, "clock jump longer than one wheel turn (> 16 s)")
	add(in.dueInSkippedWindow > 0, "long-table hold due more than one wheel turn before the end of a jump")
	add(in.longAtOnce > 0, "hold filed in the long table at once (zero-aof-time flag, E > 5)")
	add(in.agedHolds > 0, "hold older than 44 s when the clock jumped (aged into the long table)")
	add(in.agedWaiters > 0, "TIMEOUT after more than 9 s of waiting")
	add(in.catchupFired > 0, "EXPRIED / TIMEOUT delivered by the catch-up after a jump")
	add(in.expiries > 0, "EXPRIED delivered by the real dispatcher")
	add(in.timeouts > 0, "TIMEOUT delivered by the real dispatcher")
	add(in.queueGrants > 0, "grant from the wait queue")
	return in.catchupFired > 0 && in.jumpsOverWheel > 0, cls
}

func dProp(test, prop string) func(*rapid.T) {
	st := vstat(test)
	return func(t *rapid.T) {
		c := dGenCase(t)
		o := dExec(c)
		nt, cls := dClasses(o)
		st.Case(nt, c.fingerprint(), cls, func() interface{} { return c })
		if o.panic != "" {
			vFail(t, test, prop+":disp:panic:"+vTopRepoFunc(), c, "panic: %s\n%s", o.panic, o.hist)
		}
		var x *dViol
		for i := range o.viols {
			if strings.HasPrefix(o.viols[i].Key, prop+":") {
				x = &o.viols[i]
				break
			}
		}
		if x == nil {
			for _, y := range o.viols {
				st.Class("violation of the sibling property (reported by its own test): "+y.Key, 1)
				if dir := os.Getenv("VERIF_FAILDIR"); dir != "" {
					b, _ := json.MarshalIndent(map[string]interface{}{"test": test, "key": y.Key, "message": y.Msg + "\n" + o.hist, "case": c}, "", " ")
					_ = os.WriteFile(filepath.Join(dir, fmt.Sprintf("ER.sibling-%d.json", atomic.AddInt64(&rAnomalySeq, 1))), b, 0644)
				}
			}
			return
		}
		// the goroutines the dispatchers spawn are real: confirm by re-execution
		for k := 0; k < 2; k++ {
			o2 := dExec(c)
			for _, y := range o2.viols {
				if y.Key == x.Key {
					vFail(t, test, x.Key, c, "%s\n--- history ---\n%s\n--- confirming run ---\n%s", x.Msg, o.hist, o2.hist)
				}
			}
		}
		st.Class("unreproduced anomaly (not judged)", 1)
		if dir := os.Getenv("VERIF_FAILDIR"); dir != "" {
			n := atomic.AddInt64(&rAnomalySeq, 1)
			f := filepath.Join(dir, fmt.Sprintf("ER.anomaly-%d.json", n))
			b, _ := json.MarshalIndent(map[string]interface{}{"test": test, "key": x.Key, "message": x.Msg + "\n" + o.hist, "case": c}, "", " ")
			_ = os.WriteFile(f, b, 0644)
			fmt.Printf("VERIF-ANOMALY key=%s file=%s %s\n", x.Key, f, x.Msg)
		}
	}
}

func TestC05_Dispatcher(t *testing.T) { rapid.Check(t, dProp("TestC05_Dispatcher", "C05")) }
func TestC06_Dispatcher(t *testing.T) { rapid.Check(t, dProp("TestC06_Dispatcher", "C06")) }

// dReplay: used by TestC0x_RTReplay for files whose case has engine "RD".
func dReplay(f, key, prop string) (handled bool) {
	var c dCase
	if _, err := vLoadReplay(f, &c); err != nil || c.Engine != "RD" || len(c.Steps) == 0 {
		return false
	}
	msg := ""
	var last dOutcome
	for k := 0; k < 3 && msg == ""; k++ {
		last = dExec(&c)
		if last.panic != "" {
			msg = "panic: " + last.panic
		}
		for _, x := range last.viols {
			if x.Key == key || (key == "" && strings.HasPrefix(x.Key, prop+":")) {
				msg = x.Msg
				break
			}
		}
	}
	fmt.Printf("VERIF-KF key=%s reproduced=%v file=%s %s\n", key, msg != "", f, strings.ReplaceAll(msg, "\n", " | "))
	if testing.Verbose() {
		fmt.Println(last.hist)
	}
	return true
}
