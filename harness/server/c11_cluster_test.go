package server

// C11 layer 2: leader + 1..2 followers in one process. Each follower's `slaveof` is a harness-owned
// TCP proxy in front of the leader's port. Leader->follower bytes pass untouched; in the
// follower->leader direction the proxy parses 64-byte frames and owns the acknowledgement frames
// (LockResultCommand, frame[2]==COMMAND_LOCK, frame[19]==Result, LockId at 22, LockKey at 38):
//   stall f            - hold every ack frame of follower f in the proxy (the acks are "delayed")
//   unstall f pass     - forward the held frames in order, keep forwarding
//   unstall f negate   - forward the held frames with Result=RESULT_ERROR (negative ack), then pass
//   unstall f drop     - discard the held frames and cut the connection (acks lost); no reconnect
// The proxy counts, per key/LockId, the positive ack frames it has handed to the leader's socket; the
// count is taken *before* the write, so "forwarded" precedes anything the leader does with the frame.
//
// Followers join before the workload starts and the harness waits for the handshake (the join-time
// races of replication belong to C09). The leader runs on a harness-owned clock that starts at the wall
// clock (followers compute expiry from the record's command time with their own clock).
//
// Real sockets: every wait has a watchdog; a miss is reported as inconclusive, never as a violation.

import (
	"fmt"
	"io"
	"net"
	"runtime"
	"strings"
	"sync"
	"sync/atomic"
	"time"

	"github.com/snower/slock/protocol"
)

type k11Node struct {
	inst   *vInst
	ln     net.Listener
	addr   string
	closed int32
}

func k11StartNode(o vInstOpts, startSync bool) (*k11Node, error) {
	ln, err := net.Listen("tcp", "127.0.0.1:0")
	if err != nil {
		return nil, err
	}
	o.Port = uint(ln.Addr().(*net.TCPAddr).Port)
	inst, err := vNewInst(o)
	if err != nil {
		_ = ln.Close()
		return nil, err
	}
	n := &k11Node{inst: inst, ln: ln, addr: ln.Addr().String()}
	inst.server.server = ln
	go func() {
		for {
			conn, aerr := ln.Accept()
			if aerr != nil {
				return
			}
			stream := NewStream(conn)
			if inst.server.addStream(stream) != nil {
				_ = stream.Close()
				continue
			}
			go inst.server.handle(stream)
		}
	}()
	if startSync {
		if err = inst.slock.replicationManager.StartSync(); err != nil {
			n.close(false)
			return nil, err
		}
	}
	return n, nil
}

func (n *k11Node) close(removeDir bool) {
	if !atomic.CompareAndSwapInt32(&n.closed, 0, 1) {
		return
	}
	_ = n.ln.Close()
	_ = n.inst.server.CloseStreams()
	n.inst.vClose(false, removeDir)
}

// ---------------------------------------------------------------------------------------------
// proxy

type k11Proxy struct {
	ln     net.Listener
	addr   string
	target string
	idx    int

	mu        sync.Mutex
	conns     []net.Conn
	replConn  net.Conn // leader side of the replication connection
	stalled   bool
	held      [][]byte
	dead      bool // connection cut by the harness; no reconnect
	closed    bool
	positive  map[string]int // key/lockid -> positive ack frames handed to the leader
	negative  map[string]int
	seen      int
	forwarded int // ack frames handed to the leader on the current (only) connection
	log       []string
	onAck     func() // called (without the mutex) after a frame was handed over
}

func k11NewProxy(idx int, target string) (*k11Proxy, error) {
	ln, err := net.Listen("tcp", "127.0.0.1:0")
	if err != nil {
		return nil, err
	}
	p := &k11Proxy{ln: ln, addr: ln.Addr().String(), target: target, idx: idx, positive: map[string]int{}, negative: map[string]int{}}
	go func() {
		for {
			c, aerr := ln.Accept()
			if aerr != nil {
				return
			}
			go p.serve(c)
		}
	}()
	return p, nil
}

func k11AckId(frame []byte) string {
	return fmt.Sprintf("%d/%x", (int(frame[38])|int(frame[39])<<8)-1, frame[22:38])
}

func (p *k11Proxy) logf(format string, a ...interface{}) {
	p.log = append(p.log, fmt.Sprintf(format, a...))
}

func (p *k11Proxy) serve(c net.Conn) {
	p.mu.Lock()
	if p.closed || p.dead {
		p.mu.Unlock()
		_ = c.Close()
		return
	}
	p.conns = append(p.conns, c)
	p.mu.Unlock()
	s, err := net.DialTimeout("tcp", p.target, 2*time.Second)
	if err != nil {
		_ = c.Close()
		return
	}
	p.mu.Lock()
	if p.closed || p.dead {
		p.mu.Unlock()
		_ = c.Close()
		_ = s.Close()
		return
	}
	p.conns = append(p.conns, s)
	p.replConn = s
	p.mu.Unlock()
	// leader -> follower: untouched
	go func() {
		_, _ = io.Copy(c, s)
		_ = c.Close()
		_ = s.Close()
	}()
	// follower -> leader: frame by frame
	hdr := make([]byte, 64)
	for {
		if _, err = io.ReadFull(c, hdr); err != nil {
			break
		}
		frame := append([]byte{}, hdr...)
		if frame[0] == byte(protocol.MAGIC) && frame[2] == protocol.COMMAND_CALL {
			cl := int(uint32(frame[22]) | uint32(frame[23])<<8 | uint32(frame[24])<<16 | uint32(frame[25])<<24)
			if cl > 0 {
				body := make([]byte, cl)
				if _, err = io.ReadFull(c, body); err != nil {
					break
				}
				frame = append(frame, body...)
			}
			if _, err = s.Write(frame); err != nil {
				break
			}
			continue
		}
		if frame[0] == byte(protocol.MAGIC) && frame[2] == protocol.COMMAND_LOCK {
			if frame[20]&protocol.LOCK_FLAG_CONTAINS_DATA != 0 {
				// not produced by the follower ack path; forward raw if it ever happens
				p.mu.Lock()
				p.logf("ack frame with data flag - forwarded raw")
				p.mu.Unlock()
			}
			p.mu.Lock()
			p.seen++
			if p.stalled {
				p.held = append(p.held, frame)
				p.logf("ack #%d for %s result=%d HELD", p.seen, k11AckId(frame), frame[19])
				p.mu.Unlock()
				continue
			}
			ok := p.forwardLocked(s, frame)
			cb := p.onAck
			p.mu.Unlock()
			if cb != nil {
				cb()
			}
			if !ok {
				break
			}
			continue
		}
		// handshake "started" frame and anything else
		if _, err = s.Write(frame); err != nil {
			break
		}
	}
	_ = c.Close()
	_ = s.Close()
}

// forwardLocked counts, then writes. Caller holds p.mu (keeps count and write atomic with respect to
// the harness reading the counters).
func (p *k11Proxy) forwardLocked(s net.Conn, frame []byte) bool {
	id := k11AckId(frame)
	if frame[19] == 0 {
		p.positive[id]++
	} else {
		p.negative[id]++
	}
	p.logf("ack for %s result=%d -> leader", id, frame[19])
	p.forwarded++
	_, err := s.Write(frame)
	return err == nil
}

func (p *k11Proxy) stall() {
	p.mu.Lock()
	p.stalled = true
	p.logf("stall")
	p.mu.Unlock()
}

// unstall returns the number of frames that were held.
func (p *k11Proxy) unstall(mode string) (n int) {
	p.mu.Lock()
	held := p.held
	p.held = nil
	n = len(held)
	p.logf("unstall mode=%s held=%d", mode, n)
	switch mode {
	case "drop":
		p.dead = true
		p.stalled = false
		conns := p.conns
		p.conns = nil
		p.mu.Unlock()
		for _, c := range conns {
			_ = c.Close()
		}
		return
	case "negate":
		for _, f := range held {
			f[19] = protocol.RESULT_ERROR
		}
	}
	s := p.replConn
	for _, f := range held {
		if s != nil {
			p.forwardLocked(s, f)
		}
	}
	p.stalled = false
	cb := p.onAck
	p.mu.Unlock()
	if cb != nil && n > 0 {
		cb()
	}
	return
}

func (p *k11Proxy) close() {
	p.mu.Lock()
	p.closed = true
	conns := p.conns
	p.conns = nil
	p.mu.Unlock()
	_ = p.ln.Close()
	for _, c := range conns {
		_ = c.Close()
	}
}

// ---------------------------------------------------------------------------------------------
// cluster environment

type k11Cluster struct {
	c          *k11Case
	e          *k11Env
	leader     *k11Node
	fol        []*k11Node
	prox       []*k11Proxy
	demoted    bool
	deadlocked bool
	abandon    bool // the leader is wedged: do not run its teardown
	clockOnly  bool // final phase: pending requests wait for their timeout only
}

const k11Watch = 4 * time.Second

func k11InstOpts(c *k11Case) vInstOpts {
	return vInstOpts{DBConcurrent: uint(c.Conc), DBFastKeyCount: uint(c.FastKeys), AofFileBufferSize: uint(c.AofBuf), AofAckMode: uint(c.AckMode), NoCheckLoop: true}
}

func (cl *k11Cluster) alive() int {
	n := 0
	for _, p := range cl.prox {
		p.mu.Lock()
		if !p.dead {
			n++
		}
		p.mu.Unlock()
	}
	return n
}

// needed follower acks for a cluster of n connected followers
func k11Needed(mode, n int) int {
	if mode == 1 {
		return (n+1)/2 + 1 - 1
	}
	return n
}

// stuck: can an ack-required request registered now be completed without the harness unstalling?
func (cl *k11Cluster) stuck() bool {
	if cl.e != nil && cl.e.parked {
		return true // the leader's own write is outstanding: no acknowledgement may complete
	}
	free := 0
	for _, p := range cl.prox {
		p.mu.Lock()
		if !p.dead && !p.stalled {
			free++
		}
		p.mu.Unlock()
	}
	return free < k11Needed(cl.c.AckMode, cl.alive())
}

func (cl *k11Cluster) close() {
	for _, p := range cl.prox {
		p.close()
	}
	if cl.e != nil {
		cl.e.closeClients()
	}
	var wg sync.WaitGroup
	for _, f := range cl.fol {
		wg.Add(1)
		go func(f *k11Node) { defer wg.Done(); f.close(true) }(f)
	}
	wg.Wait()
	if cl.leader != nil {
		if cl.abandon {
			_ = cl.leader.ln.Close()
			atomic.AddInt64(&vAbandoned, 1)
			return
		}
		cl.leader.close(true)
	}
}

func k11NewCluster(c *k11Case) (*k11Cluster, string) {
	cl := &k11Cluster{c: c}
	o := k11InstOpts(c)
	o.DataDir = vScratchDir("k11-leader")
	leader, err := k11StartNode(o, false)
	if err != nil {
		return nil, "leader: " + err.Error()
	}
	cl.leader = leader
	for i := 0; i < c.Followers; i++ {
		p, perr := k11NewProxy(i, leader.addr)
		if perr != nil {
			cl.close()
			return nil, "proxy: " + perr.Error()
		}
		cl.prox = append(cl.prox, p)
		fo := k11InstOpts(c)
		fo.DataDir = vScratchDir(fmt.Sprintf("k11-f%d", i))
		fo.SlaveOf = p.addr
		f, ferr := k11StartNode(fo, true)
		if ferr != nil {
			cl.close()
			return nil, "follower: " + ferr.Error()
		}
		cl.fol = append(cl.fol, f)
		// wait for the handshake: leader has i+1 server channels, follower reached STATE_FOLLOWER
		deadline := time.Now().Add(k11Watch)
		for {
			mgr := leader.inst.slock.replicationManager
			mgr.glock.Lock()
			n := len(mgr.serverChannels)
			mgr.glock.Unlock()
			if n == i+1 && f.inst.slock.state == STATE_FOLLOWER {
				break
			}
			if time.Now().After(deadline) {
				cl.close()
				return nil, fmt.Sprintf("follower %d did not finish the handshake (leader channels %d, follower state %d)", i, n, f.inst.slock.state)
			}
			time.Sleep(200 * time.Microsecond)
		}
	}
	e, err := k11NewEnv(c, vInstOpts{}, leader.inst)
	if err != nil {
		cl.close()
		return nil, "env: " + err.Error()
	}
	cl.e = e
	e.now = time.Now().Unix()
	e.epoch = e.now
	d := e.db
	d.currentTime, d.checkTimeoutTime, d.checkExpriedTime = e.now, e.now, e.now
	e.ackGate = cl.gate
	e.majorityTwo = c.AckMode == 1 && c.Followers >= 2
	e.stuck = cl.stuck
	e.anyNegative = func(r *k11Req) bool {
		id := fmt.Sprintf("%d/%x", r.Op.Key, r.LockId)
		for _, p := range cl.prox {
			p.mu.Lock()
			n := p.negative[id]
			p.mu.Unlock()
			if n > 0 {
				return true
			}
		}
		return false
	}
	return cl, ""
}

// gate: at SUCCED time of an ack-required request, enough positive ack frames must have been forwarded.
// Sound lower bound: the requirement of the followers still connected now (connections only go away).
func (cl *k11Cluster) gate(r *k11Req) string {
	id := fmt.Sprintf("%d/%x", r.Op.Key, r.LockId)
	need := k11Needed(cl.c.AckMode, cl.alive()) * cl.e.succ[id]
	got := 0
	for _, p := range cl.prox {
		p.mu.Lock()
		got += p.positive[id]
		p.mu.Unlock()
	}
	if need > 0 {
		cl.e.info.decidedByFollower++
	}
	if got < need {
		return fmt.Sprintf("when the proxies had forwarded %d positive acknowledgement frame(s) for it; ack mode %d with %d connected follower(s) needs %d", got, cl.c.AckMode, cl.alive(), need)
	}
	return ""
}

// replState: where the replication pipeline stands (diagnosis of an inconclusive wait)
func (cl *k11Cluster) replState() string {
	var sb strings.Builder
	mgr := cl.leader.inst.slock.replicationManager
	mgr.glock.Lock()
	fmt.Fprintf(&sb, "leader: ring seq=%d serverActiveCount=%d channels=%d\n", mgr.bufferQueue.seq, atomic.LoadUint32(&mgr.serverActiveCount), len(mgr.serverChannels))
	for i, ch := range mgr.serverChannels {
		fmt.Fprintf(&sb, "  server channel %d: pushed=%d sent=%d acks read=%d pulledState=%d cursor seq=%d written=%v\n", i, ch.state.pushCount, ch.state.sendCount, ch.state.ackCount, atomic.LoadUint32(&ch.pulledState), ch.bufferCursor.seq, ch.bufferCursor.writed)
	}
	mgr.glock.Unlock()
	for i, f := range cl.fol {
		if cc := f.inst.slock.replicationManager.clientChannel; cc != nil {
			fmt.Fprintf(&sb, "follower %d: received=%d replayed=%d appended=%d acks written=%d\n", i, cc.state.recvCount, cc.state.replayCount, cc.state.appendCount, cc.state.ackCount)
		} else {
			fmt.Fprintf(&sb, "follower %d: no client channel\n", i)
		}
	}
	return sb.String()
}

func (cl *k11Cluster) proxyLogs() string {
	var sb strings.Builder
	for i, p := range cl.prox {
		p.mu.Lock()
		fmt.Fprintf(&sb, "proxy of follower %d (dead=%v stalled=%v):\n", i, p.dead, p.stalled)
		l := p.log
		if len(l) > 60 {
			l = l[len(l)-60:]
		}
		for _, x := range l {
			sb.WriteString("    " + x + "\n")
		}
		p.mu.Unlock()
	}
	return sb.String()
}

// settle waits until nothing asynchronous is outstanding: leader persistence idle, no unanswered
// ack-pending request unless it is stuck behind a stalled / dead follower, followers' queues idle.
// Returns (stable, inconclusive).
func (cl *k11Cluster) settle() (bool, string) {
	e := cl.e
	deadline := time.Now().Add(k11Watch)
	for {
		if e.parked {
			if !k11QueuesIdle(e.inst.slock.aof) {
				return false, "leader persistence queue did not drain (flush parked)"
			}
		} else if !vAofIdle(e.inst.slock.aof) {
			return false, "leader persistence queue did not drain"
		}
		e.classify()
		e.mu.Lock()
		pend := e.pendingUnanswered()
		e.mu.Unlock()
		if len(pend) == 0 {
			return true, ""
		}
		if e.parked && !cl.demoted {
			// make "nothing completes while the leader has not written" an observation, not luck: every follower
			// that is free to answer has answered each pending request and the leader has digested those frames
			if inc := cl.waitFollowerAcksDigested(); inc != "" {
				return false, inc
			}
			e.classify()
			return false, ""
		}
		if cl.stuck() || cl.demoted || cl.clockOnly {
			// pending requests legitimately wait for the harness
			return false, ""
		}
		if time.Now().After(deadline) {
			return false, fmt.Sprintf("ack-required request #%d unanswered after the watchdog although no follower is stalled\n%s%s", pend[0].Idx, cl.replState(), cl.proxyLogs())
		}
		time.Sleep(200 * time.Microsecond)
	}
}

// waitFollowerAcksDigested (flush parked): every connected, unstalled follower has acknowledged every request
// that is pending on the leader, the proxies have handed those frames over, the leader's replication servers have
// read them all and its persistence queues have processed them.
func (cl *k11Cluster) waitFollowerAcksDigested() string {
	e := cl.e
	deadline := time.Now().Add(k11Watch)
	for {
		e.classify()
		e.mu.Lock()
		var ids []string
		for _, r := range e.pendingUnanswered() {
			if r.State == k11Pending {
				ids = append(ids, fmt.Sprintf("%d/%x", r.Op.Key, r.LockId))
			}
		}
		e.mu.Unlock()
		missing := ""
		fwd := uint64(0)
		for i, p := range cl.prox {
			p.mu.Lock()
			if !p.dead {
				fwd += uint64(p.forwarded)
				if !p.stalled {
					for _, id := range ids {
						if p.positive[id]+p.negative[id] == 0 {
							missing = fmt.Sprintf("follower %d has not acknowledged %s", i, id)
						}
					}
				}
			}
			p.mu.Unlock()
		}
		if missing == "" {
			mgr := cl.leader.inst.slock.replicationManager
			mgr.glock.Lock()
			got := uint64(0)
			for _, ch := range mgr.serverChannels {
				got += ch.state.ackCount
			}
			mgr.glock.Unlock()
			if got >= fwd {
				if !k11QueuesIdle(e.inst.slock.aof) {
					return "leader persistence queue did not drain (flush parked)"
				}
				return ""
			}
			missing = fmt.Sprintf("leader has read %d of %d acknowledgement frames", got, fwd)
		}
		if time.Now().After(deadline) {
			return missing + " within the watchdog while the leader's flush was parked\n" + cl.proxyLogs()
		}
		time.Sleep(200 * time.Microsecond)
	}
}

// waitHeld waits until every stalled live proxy holds at least one frame per pending request, so that
// "pending" is a settled state (used before asserting LOCK_ACK_WAITING).
func (cl *k11Cluster) waitFollowersIdle() string {
	for i, f := range cl.fol {
		cl.prox[i].mu.Lock()
		dead := cl.prox[i].dead
		cl.prox[i].mu.Unlock()
		if dead {
			continue
		}
		if !vAofIdle(f.inst.slock.aof) {
			return fmt.Sprintf("follower %d persistence queue did not drain", i)
		}
	}
	return ""
}

func (cl *k11Cluster) step(op k11Op) string {
	e := cl.e
	e.beginStep()
	switch op.K {
	case "lock", "unlock":
		e.send(op)
	case "tick":
		e.logf("tick %d", op.N)
		for s := 0; s < op.N; s++ {
			e.tickOne()
			if _, inc := cl.settle(); inc != "" {
				return inc
			}
		}
	case "stall":
		if op.F < len(cl.prox) {
			cl.prox[op.F].mu.Lock()
			dead := cl.prox[op.F].dead
			cl.prox[op.F].mu.Unlock()
			if !dead {
				cl.prox[op.F].stall()
				e.logf("stall follower %d", op.F)
			}
		}
	case "unstall":
		if op.F < len(cl.prox) {
			p := cl.prox[op.F]
			p.mu.Lock()
			was := p.stalled && !p.dead
			if p.dead {
				p.stalled = false
			}
			p.mu.Unlock()
			if !was {
				return ""
			}
			// let the follower's acks of everything sent so far reach the proxy first
			if inc := cl.waitAcksHeld(op.F); inc != "" {
				return inc
			}
			aliveBefore := cl.alive()
			p.mu.Lock()
			var released []string
			for _, fr := range p.held {
				released = append(released, k11AckId(fr))
			}
			p.mu.Unlock()
			n := p.unstall(op.Mode)
			if op.Mode != "drop" {
				// the leader digests the released frames asynchronously: wait until each request they belong to is
				// answered, unless (positive frames) it provably still lacks an acknowledgement of a stalled follower
				if inc := cl.waitDigested(released, op.Mode == "negate"); inc != "" {
					return inc
				}
			}
			if op.Mode == "drop" {
				// the leader must have noticed the cut before the next request is registered (else that request
				// would wait for a follower that is gone - legitimate, but not what the next step wants to test)
				deadline := time.Now().Add(k11Watch)
				for {
					mgr := cl.leader.inst.slock.replicationManager
					mgr.glock.Lock()
					nch := len(mgr.serverChannels)
					mgr.glock.Unlock()
					// ... and the sender goroutine of the cut connection must be gone: while it still counts as active,
					// WakeupServerChannel believes every channel is awake and does not wake the sleeping survivor, so the
					// next record stays in the ring (lost wake-up in replication - C09's domain; seen as a ~0.1 % inconclusive)
					quiet := atomic.LoadUint32(&mgr.serverActiveCount) == 0
					if nch <= cl.alive() && (quiet || time.Now().After(deadline.Add(-k11Watch+200*time.Millisecond))) {
						break
					}
					if time.Now().After(deadline) {
						return "leader did not drop the server channel of the cut connection within the watchdog"
					}
					time.Sleep(200 * time.Microsecond)
				}
			}
			e.mu.Lock()
			if op.Mode == "drop" && k11Needed(cl.c.AckMode, aliveBefore) > cl.alive() {
				for _, r := range e.reqs {
					if r.State == k11Pending && r.Terminal < 0 {
						r.doomed = true
					}
				}
			}
			e.logf("unstall follower %d mode=%s (%d frames)", op.F, op.Mode, n)
			switch op.Mode {
			case "negate":
				e.info.ackFramesNegated += n
				if n > 0 {
					e.faultActive = "negative-ack"
				}
			case "drop":
				e.info.ackFramesDropped += n
			default:
				e.info.ackFramesDelayed += n
			}
			e.mu.Unlock()
		}
	case "parkflush":
		if !cl.demoted {
			e.park()
		}
	case "unparkflush":
		e.unpark()
	case "demote":
		if cl.demoted {
			return ""
		}
		e.unpark() // demotion waits for the writers (WaitFlushAofChannel)
		e.mu.Lock()
		np := len(e.pendingUnanswered())
		e.info.demotions++
		if np > 0 {
			e.info.demotedPending++
		}
		e.faultActive = "demotion"
		e.logf("demote leader (%d ack-pending)", np)
		e.mu.Unlock()
		cl.demoted = true
		if why := cl.demote(); why != "" {
			return why
		}
	}
	stable, inc := cl.settle()
	if inc != "" {
		return inc
	}
	if op.K == "unstall" || op.K == "demote" {
		e.mu.Lock()
		if e.faultActive == "negative-ack" || (e.faultActive == "demotion" && len(e.pendingUnanswered()) == 0) {
			if e.faultActive == "negative-ack" {
				e.faultActive = ""
			}
		}
		e.mu.Unlock()
	}
	if stable {
		e.reconcile("after " + op.String())
	}
	return ""
}

const k11KeyDemote = "C11:leader-demotion-self-deadlock"

// demote runs ReplicationManager.SwitchToFollower("") on the leader. On the unchanged tree that call
// dead-locks on its own mutex (SwitchToFollower holds ReplicationManager.glock across SLock.updateState,
// whose quit-leader branch calls WaitServerSynced, which takes the same mutex). While that finding is
// listed the harness performs the statements of SwitchToFollower itself with the mutex released around
// updateState (the obvious repair) so that what demotion does to pending acks can still be checked.
func (cl *k11Cluster) demote() string {
	e := cl.e
	mgr := cl.leader.inst.slock.replicationManager
	sl := cl.leader.inst.slock
	done := make(chan struct{})
	emulate := e.known(k11KeyDemote)
	go func() {
		defer close(done)
		if !emulate {
			_ = mgr.SwitchToFollower("")
			return
		}
		mgr.glock.Lock()
		mgr.leaderAddress = ""
		mgr.glock.Unlock()
		sl.updateState(STATE_FOLLOWER)
		for _, db := range sl.dbs {
			if db != nil {
				for i := uint16(0); i < db.managerMaxGlocks; i++ {
					db.managerGlocks[i].Lock()
					db.managerGlocks[i].Unlock()
				}
			}
		}
		_ = sl.aof.WaitFlushAofChannel()
		_ = mgr.WakeupServerChannel()
		_ = mgr.WaitServerSynced()
		for _, db := range mgr.ackDbs {
			if db != nil {
				_ = db.SwitchToFollower()
			}
		}
		mgr.isLeader = false
	}()
	select {
	case <-done:
		return ""
	case <-time.After(k11Watch):
	}
	// not a timing miss if the goroutine sits in the self-deadlock: look at its stack
	buf := make([]byte, 1<<20)
	st := string(buf[:runtime.Stack(buf, true)])
	for _, blk := range strings.Split(st, "\n\n") {
		if strings.Contains(blk, "SwitchToFollower") && strings.Contains(blk, "WaitServerSynced") && strings.Contains(blk, "sync.(*Mutex).Lock") {
			e.mu.Lock()
			e.viol(k11KeyDemote, "ReplicationManager.SwitchToFollower(\"\") on the leader never returns: it holds ReplicationManager.glock and, through SLock.updateState -> WaitServerSynced, waits for the same mutex:\n%s", k11RepoFrames(blk))
			e.mu.Unlock()
			cl.deadlocked = true
			return ""
		}
	}
	return "demotion did not finish within the watchdog"
}

// waitAcksHeld: before a stalled proxy is released, wait until the follower has answered every record
// that is pending on the leader (so that negate / drop really hits the frames of the pending requests).
func (cl *k11Cluster) waitAcksHeld(f int) string {
	e := cl.e
	p := cl.prox[f]
	if cl.demoted {
		return "" // a demoted node replicates nothing any more
	}
	deadline := time.Now().Add(k11Watch)
	for {
		e.classify()
		e.mu.Lock()
		var ids []string
		for _, r := range e.pendingUnanswered() {
			if r.State == k11Pending {
				ids = append(ids, fmt.Sprintf("%d/%x", r.Op.Key, r.LockId))
			}
		}
		e.mu.Unlock()
		p.mu.Lock()
		missing := ""
		for _, id := range ids {
			found := false
			for _, fr := range p.held {
				if k11AckId(fr) == id {
					found = true
				}
			}
			if !found && p.positive[id]+p.negative[id] == 0 {
				missing = id
			}
		}
		p.mu.Unlock()
		if missing == "" {
			return ""
		}
		if time.Now().After(deadline) {
			return fmt.Sprintf("follower %d never acknowledged %s within the watchdog\n%s", f, missing, cl.proxyLogs())
		}
		time.Sleep(200 * time.Microsecond)
	}
}

func (cl *k11Cluster) waitDigested(ids []string, negative bool) string {
	e := cl.e
	deadline := time.Now().Add(k11Watch)
	for _, id := range ids {
		for {
			e.mu.Lock()
			open := false
			for _, r := range e.reqs {
				if r.Op.K == "lock" && r.Op.Ack && r.Terminal < 0 && !r.doomed && r.State != k11Queued && fmt.Sprintf("%d/%x", r.Op.Key, r.LockId) == id {
					open = true
				}
			}
			e.mu.Unlock()
			if !open {
				break
			}
			if !negative {
				got := 0
				for _, p := range cl.prox {
					p.mu.Lock()
					got += p.positive[id]
					p.mu.Unlock()
				}
				if got < k11Needed(cl.c.AckMode, cl.alive()) || e.parked {
					break // cannot complete yet
				}
			}
			if cl.demoted {
				break
			}
			if time.Now().After(deadline) {
				return fmt.Sprintf("request of %s not answered within the watchdog after its acknowledgement frames were released\n%s", id, cl.proxyLogs())
			}
			time.Sleep(100 * time.Microsecond)
		}
	}
	return ""
}

// followersAgree: after final quiescence every connected follower holds exactly the leader's holds.
func (cl *k11Cluster) followersAgree() (viol string, inc string) {
	e := cl.e
	lead := map[string]bool{}
	for _, s := range aSnapshot(0, e.db) {
		for _, h := range s.Holders {
			lead[fmt.Sprintf("%x/%x", s.Key[:2], h.Id[:3])] = true
		}
	}
	target := cl.leader.inst.slock.replicationManager.currentAofId
	for i, f := range cl.fol {
		cl.prox[i].mu.Lock()
		dead := cl.prox[i].dead
		cl.prox[i].mu.Unlock()
		if dead {
			continue
		}
		deadline := time.Now().Add(k11Watch)
		for {
			diff := ""
			caught := false
			if cc := f.inst.slock.replicationManager.clientChannel; cc != nil {
				caught = cc.currentAofId == target || cc.state.recvCount >= 0 && cc.state.replayCount == cc.state.recvCount && cc.state.appendCount == cc.state.recvCount
			}
			if vAofIdle(f.inst.slock.aof) {
				fd := f.inst.slock.dbs[0]
				got := map[string]bool{}
				if fd != nil {
					for _, s := range aSnapshot(0, fd) {
						for _, h := range s.Holders {
							got[fmt.Sprintf("%x/%x", s.Key[:2], h.Id[:3])] = true
						}
					}
				}
				for k := range lead {
					if !got[k] {
						diff = "follower lacks hold " + k
					}
				}
				for k := range got {
					if !lead[k] {
						diff = "follower still has hold " + k + " (key/LockId prefix) that the leader does not have"
					}
				}
				if diff == "" {
					e.info.followersChecked++
					break
				}
			}
			if time.Now().After(deadline) {
				if caught && diff != "" {
					return fmt.Sprintf("follower %d: %s after it had replayed everything it received", i, diff), ""
				}
				return "", fmt.Sprintf("follower %d did not converge within the watchdog (%s)", i, diff)
			}
			time.Sleep(300 * time.Microsecond)
		}
	}
	return "", ""
}

func k11RunCluster(c *k11Case, replay bool) (out k11Out) {
	cl, inc := k11NewCluster(c)
	if inc != "" {
		out.inconclusive = inc
		return
	}
	e := cl.e
	if replay {
		e.known = func(string) bool { return false }
		e.knownSuffix = e.known
	}
	finish := func() {
		e.unpark()
		e.mu.Lock()
		out.viols, out.info = e.viols, e.info
		out.history = e.history() + "\n" + cl.proxyLogs()
		if out.inconclusive == "" {
			out.inconclusive = e.inconcl
		}
		e.mu.Unlock()
		cl.close()
	}
	defer func() {
		if p := recover(); p != nil {
			e.mu.TryLock()
			e.mu.Unlock()
			e.viol("C11:panic", "panic in the harness goroutine: %v", p)
			finish()
		}
	}()
	for _, op := range c.Ops {
		if inc = cl.step(op); inc != "" {
			out.inconclusive = inc
			finish()
			return
		}
		if e.inconcl != "" || cl.deadlocked {
			if cl.deadlocked {
				cl.abandon = true
			}
			finish()
			return
		}
	}
	e.unpark()
	// final: release every stalled proxy, then let pending requests that lost an ack run into their timeout
	for i := range cl.prox {
		if inc = cl.step(k11Op{K: "unstall", F: i, Mode: "pass"}); inc != "" {
			out.inconclusive = inc
			finish()
			return
		}
	}
	for i := 0; i < 40; i++ {
		e.classify()
		e.mu.Lock()
		np := len(e.pendingUnanswered())
		for _, r := range e.reqs {
			if r.doomed && r.Terminal < 0 {
				np++
			}
		}
		e.mu.Unlock()
		if np == 0 {
			break
		}
		cl.clockOnly = true // from here on pending requests are expected to wait for the clock only
		if inc = cl.step(k11Op{K: "tick", N: 1}); inc != "" {
			out.inconclusive = inc
			finish()
			return
		}
	}
	e.mu.Lock()
	for _, r := range e.reqs {
		if r.doomed && r.Terminal < 0 {
			r.doomed = false
		}
	}
	for _, r := range e.pendingUnanswered() {
		e.viol("C11:no-reply", "ack-required request #%d (%v) still unanswered %d s after it was sent", r.Idx, r.Op, e.now-r.Time)
	}
	e.mu.Unlock()
	if !vAofIdle(e.inst.slock.aof) {
		out.inconclusive = "leader persistence queue did not drain at the end"
		finish()
		return
	}
	e.reconcile("at the end")
	if len(e.viols) == 0 && !cl.wasDemoted() {
		v, inc2 := cl.followersAgree()
		if inc2 != "" {
			out.inconclusive = inc2
		} else if v != "" {
			e.mu.Lock()
			e.viol("C11:follower-state-differs", "%s", v)
			e.mu.Unlock()
		}
	}
	finish()
	return
}

func (cl *k11Cluster) wasDemoted() bool {
	return cl.leader.inst.slock.state != STATE_LEADER
}
