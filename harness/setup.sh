#!/bin/bash
# Offline setup: warms the Go build cache by compiling the harness test binaries once.
set -e
export GOFLAGS=-mod=mod GOPROXY=off GOSUMDB=off GOTOOLCHAIN=local
cd "$(dirname "$0")/.."
B=$(mktemp -d -t verif-setup-XXXXXX)
trap 'rm -rf "$B"' EXIT
./harness/gen_build.sh "$B"
for pkg in server protocol client; do
  if ls harness/$pkg/*.go >/dev/null 2>&1; then
    (cd /repo && go test -c -vet=off -tags verif -modfile "$B/go.mod" -overlay "$B/overlay.json" -o "$B/$pkg.test" ./$pkg)
  fi
done
echo "setup ok"
