package server

// C20: every internal queue refines a plain deque (resp. a stable priority queue).
// Engine Q of DESIGN.md: pure model-based properties. Cases are plain data (qCase) so that the
// shrunk failure can be replayed without rapid (TestC20_Replay).

import (
	"fmt"
	"testing"

	"github.com/snower/slock/protocol"
	"pgregory.net/rapid"
)

type qOp struct {
	Op string `json:"op"`
	A  int    `json:"a,omitempty"`
	B  int    `json:"b,omitempty"`
}

type qCase struct {
	Kind  string `json:"kind"` // which queue / sub-property
	Base  int    `json:"base,omitempty"`
	Nodes int    `json:"nodes,omitempty"`
	Size  int    `json:"size,omitempty"`
	Ops   []qOp  `json:"ops"`
}

type qInfo struct {
	nodeCross   int // times the tail or head moved to another node
	maintPart   int // maintenance ops executed on a partially filled queue
	holes       int
	reprSwitch  int
	maxLen      int
	deadSkipped int
}

func qGuard(f func() (qInfo, error)) (info qInfo, err error) {
	defer func() {
		if r := recover(); r != nil {
			err = fmt.Errorf("panic: %v", r)
		}
	}()
	return f()
}

func (c *qCase) fingerprint() uint64 {
	return vHash(c.Kind, c.Base, c.Nodes, c.Size, fmt.Sprint(c.Ops))
}

// ---------------------------------------------------------------------------------------------
// generic node deque (LockQueue / LockCommandQueue / LockManagerQueue are copy-pasted code)

type nodeDeque[E comparable] interface {
	Push(E) error
	PushLeft(E) error
	Pop() E
	PopRight() E
	Head() E
	Tail() E
	Shrink(int32) int32
	Reset() error
	Rellac() error
	Resize() error
	Restructuring() error
	Len() int32
	IterNodes() [][]E
	IterNodeQueues(int32) []E
	freeQueue()
}

type nodeDequePos struct{ hn, hq, tn, tq int32 }

func runNodeDeque[E comparable](c *qCase, q nodeDeque[E], mk func(int) E, pos func() nodeDequePos) (qInfo, error) {
	var info qInfo
	var zero E
	ids := map[E]int{}
	elems := map[int]E{}
	next := 1
	model := []int{} // 0 = hole
	slack, slackKnown := 0, true
	idOf := func(e E) int {
		if e == zero {
			return 0
		}
		id, ok := ids[e]
		if !ok {
			return -1
		}
		return id
	}
	last := pos()
	for step, op := range c.Ops {
		fail := func(format string, a ...interface{}) (qInfo, error) {
			return info, fmt.Errorf("step %d %v: %s (model=%v)", step, op, fmt.Sprintf(format, a...), model)
		}
		switch op.Op {
		case "push":
			e := mk(next)
			ids[e], elems[next] = next, e
			if err := q.Push(e); err != nil {
				return fail("Push returned %v", err)
			}
			model = append(model, next)
			next++
		case "pushleft":
			e := mk(next)
			err := q.PushLeft(e)
			if err != nil {
				if slackKnown && slack > 0 {
					return fail("PushLeft refused (%v) although %d slots were popped from the front", err, slack)
				}
			} else {
				if slackKnown && slack == 0 {
					return fail("PushLeft accepted with no room before the head")
				}
				ids[e], elems[next] = next, e
				model = append([]int{next}, model...)
				next++
				if slackKnown {
					slack--
				}
			}
		case "pop":
			got := idOf(q.Pop())
			want := 0
			if len(model) > 0 {
				want = model[0]
				model = model[1:]
				slack++
			}
			if got != want {
				return fail("Pop = %d want %d", got, want)
			}
		case "popright":
			got := idOf(q.PopRight())
			want := 0
			if len(model) > 0 {
				want = model[len(model)-1]
				model = model[:len(model)-1]
			}
			if got != want {
				return fail("PopRight = %d want %d", got, want)
			}
		case "hole":
			// in-place removal as LongWaitLockQueue.Remove does it: the slot becomes nil
			if len(model) == 0 {
				break
			}
			k := op.A % len(model)
			if model[k] == 0 {
				break
			}
			idx, done := 0, false
			for i := range q.IterNodes() {
				s := q.IterNodeQueues(int32(i))
				if k < idx+len(s) {
					s[k-idx] = zero
					done = true
					break
				}
				idx += len(s)
			}
			if !done {
				return fail("iteration shorter than model: cannot reach position %d", k)
			}
			model[k] = 0
			info.holes++
		case "restructuring":
			if len(model) > 0 {
				info.maintPart++
			}
			_ = q.Restructuring()
			nm := model[:0:0]
			for _, v := range model {
				if v != 0 {
					nm = append(nm, v)
				}
			}
			model = nm
			slack, slackKnown = 0, true
		case "resize":
			if len(model) > 0 {
				info.maintPart++
			}
			_ = q.Resize()
			slackKnown = false
		case "freequeue":
			if len(model) > 0 {
				info.maintPart++
			}
			q.freeQueue()
		case "reset":
			// precondition respected by every caller in the tree: the queue is drained
			if len(model) != 0 {
				break
			}
			_ = q.Reset()
			slack, slackKnown = 0, true
		case "rellac":
			if len(model) != 0 {
				break
			}
			_ = q.Rellac()
			slack, slackKnown = 0, true
		case "shrink":
			if len(model) > 0 {
				info.maintPart++
			}
			q.Shrink(int32(op.A))
			slackKnown = false
		}
		// observations after every step
		if int(q.Len()) != len(model) {
			return fail("Len = %d want %d", q.Len(), len(model))
		}
		wh, wt := 0, 0
		if len(model) > 0 {
			wh, wt = model[0], model[len(model)-1]
		}
		if got := idOf(q.Head()); got != wh {
			return fail("Head = %d want %d", got, wh)
		}
		if got := idOf(q.Tail()); got != wt {
			return fail("Tail = %d want %d", got, wt)
		}
		if op.Op == "iter" || step%7 == 3 || step == len(c.Ops)-1 {
			var got []int
			for i := range q.IterNodes() {
				for _, e := range q.IterNodeQueues(int32(i)) {
					got = append(got, idOf(e))
				}
			}
			if fmt.Sprint(got) != fmt.Sprint(model) && !(len(got) == 0 && len(model) == 0) {
				return fail("iteration = %v", got)
			}
		}
		p := pos()
		if p.hn != last.hn || p.tn != last.tn {
			info.nodeCross++
		}
		last = p
		if len(model) > info.maxLen {
			info.maxLen = len(model)
		}
	}
	// drain: everything still in the model comes out in order
	for len(model) > 0 {
		got := idOf(q.Pop())
		if got != model[0] {
			return info, fmt.Errorf("final drain: Pop = %d want %d (model=%v)", got, model[0], model)
		}
		model = model[1:]
	}
	if q.Pop() != zero || q.Len() != 0 {
		return info, fmt.Errorf("final drain: queue not empty after model is")
	}
	return info, nil
}

func runNodeDequeCase(c *qCase) (qInfo, error) {
	b, n, s := int32(c.Base), int32(c.Nodes), int32(c.Size)
	switch c.Kind {
	case "LockQueue", "LockQueue+shrink":
		q := NewLockQueue(b, n, s)
		return runNodeDeque[*Lock](c, q, func(i int) *Lock { return &Lock{} },
			func() nodeDequePos {
				return nodeDequePos{q.headNodeIndex, q.headQueueIndex, q.tailNodeIndex, q.tailQueueIndex}
			})
	case "LockCommandQueue", "LockCommandQueue+shrink":
		q := NewLockCommandQueue(b, n, s)
		return runNodeDeque[*protocol.LockCommand](c, q, func(i int) *protocol.LockCommand { return &protocol.LockCommand{} },
			func() nodeDequePos {
				return nodeDequePos{q.headNodeIndex, q.headQueueIndex, q.tailNodeIndex, q.tailQueueIndex}
			})
	case "LockManagerQueue", "LockManagerQueue+shrink":
		q := NewLockManagerQueue(b, n, s)
		return runNodeDeque[*LockManager](c, q, func(i int) *LockManager { return &LockManager{} },
			func() nodeDequePos {
				return nodeDequePos{q.headNodeIndex, q.headQueueIndex, q.tailNodeIndex, q.tailQueueIndex}
			})
	}
	return qInfo{}, fmt.Errorf("unknown kind %q", c.Kind)
}

var qNodeOps = []string{"push", "pop", "popright", "pushleft", "hole", "restructuring", "resize", "freequeue", "reset", "rellac", "iter"}

func genNodeDequeCase(t *rapid.T, kind string, withShrink bool) *qCase {
	c := &qCase{Kind: kind}
	c.Base = rapid.IntRange(1, 4).Draw(t, "base")
	c.Nodes = c.Base + rapid.IntRange(0, 6).Draw(t, "extraNodes")
	c.Size = rapid.IntRange(1, 8).Draw(t, "size")
	segs := rapid.IntRange(1, 12).Draw(t, "segments")
	for s := 0; s < segs; s++ {
		pushBias := rapid.SampledFrom([]int{15, 45, 60, 85}).Draw(t, "pushBias")
		n := rapid.IntRange(1, 60).Draw(t, "segLen")
		for i := 0; i < n; i++ {
			r := rapid.IntRange(0, 99).Draw(t, "r")
			var op qOp
			switch {
			case r < pushBias*8/10:
				op.Op = "push"
			case r < 80:
				op.Op = rapid.SampledFrom([]string{"pop", "pop", "pop", "popright"}).Draw(t, "popKind")
			default:
				if withShrink && r >= 97 {
					op = qOp{Op: "shrink", A: rapid.IntRange(0, 16).Draw(t, "shrinkSize")}
				} else {
					op.Op = rapid.SampledFrom(qNodeOps[3:]).Draw(t, "maint")
					if op.Op == "hole" {
						op.A = rapid.IntRange(0, 1<<20).Draw(t, "holePos")
					}
				}
			}
			c.Ops = append(c.Ops, op)
		}
	}
	return c
}

func c20NodeDequeProp(test, kind string, withShrink bool) func(t *rapid.T) {
	st := vstat(test)
	return func(t *rapid.T) {
		c := genNodeDequeCase(t, kind, withShrink)
		info, err := qGuard(func() (qInfo, error) { return runNodeDequeCase(c) })
		cls := []string{}
		if info.nodeCross >= 2 {
			cls = append(cls, "crossed>=2 node boundaries")
		}
		if info.maintPart > 0 {
			cls = append(cls, "maintenance on partially filled queue")
		}
		if info.holes > 0 {
			cls = append(cls, "holes")
		}
		st.Case(info.nodeCross >= 2 && info.maintPart >= 1, c.fingerprint(), cls, func() interface{} { return c })
		if err != nil {
			key := "C20:" + kind + ":model-mismatch"
			if withShrink {
				key = "C20:Shrink:frees-live-head-node"
			}
			vFail(t, test, key, c, "%v", err)
		}
	}
}

func TestC20_NodeDeque_LockQueue(t *testing.T) {
	rapid.Check(t, c20NodeDequeProp("TestC20_NodeDeque_LockQueue", "LockQueue", false))
}

func TestC20_NodeDeque_LockCommandQueue(t *testing.T) {
	rapid.Check(t, c20NodeDequeProp("TestC20_NodeDeque_LockCommandQueue", "LockCommandQueue", false))
}

func TestC20_NodeDeque_LockManagerQueue(t *testing.T) {
	rapid.Check(t, c20NodeDequeProp("TestC20_NodeDeque_LockManagerQueue", "LockManagerQueue", false))
}

// Shrink has no caller in the tree; it is generated only here so that its (expected) finding does
// not hide anything else. Skipped while the finding is listed as known: the committed replay
// re-establishes it on every run instead.
func TestC20_NodeDeque_Shrink(t *testing.T) {
	if vIsKnown("C20:Shrink:frees-live-head-node") {
		vstat("TestC20_NodeDeque_Shrink").Exclude("Shrink sub-property skipped: listed known finding C20:Shrink:frees-live-head-node (probed by committed replay)")
		t.Skip("known finding C20:Shrink:frees-live-head-node")
	}
	rapid.Check(t, c20NodeDequeProp("TestC20_NodeDeque_Shrink", "LockQueue+shrink", true))
}

// ---------------------------------------------------------------------------------------------
// per-key ring queues: FIFO and stable priority queue

func qPrioLock(id int, prio int) *Lock {
	cmd := &protocol.LockCommand{}
	cmd.LockId[0], cmd.LockId[1], cmd.LockId[2] = byte(id), byte(id>>8), byte(id>>16)
	if prio > 0 {
		cmd.TimeoutFlag = protocol.TIMEOUT_FLAG_RCOUNT_IS_PRIORITY
		cmd.Rcount = uint8(prio)
	} else if prio < 0 {
		// an ordinary re-entrant request: Rcount is a depth limit, not a priority (the flag is absent): priority 0
		cmd.Rcount = uint8(-prio)
	}
	return &Lock{command: cmd, locked: 0, refCount: 100, ackCount: 0xff}
}

func qLockPrio(l *Lock) int {
	if l.command.TimeoutFlag&protocol.TIMEOUT_FLAG_RCOUNT_IS_PRIORITY != 0 {
		return int(l.command.Rcount)
	}
	return 0
}

type pqModel struct {
	items []*Lock // arrival order
}

func (m *pqModel) order(priority bool) []*Lock {
	if !priority {
		return m.items
	}
	out := make([]*Lock, 0, len(m.items))
	for p := 255; p >= 0; p-- {
		for _, l := range m.items {
			if qLockPrio(l) == p {
				out = append(out, l)
			}
		}
	}
	return out
}

func (m *pqModel) remove(l *Lock) {
	for i, x := range m.items {
		if x == l {
			m.items = append(m.items[:i:i], m.items[i+1:]...)
			return
		}
	}
}

func flatten(nodes [][]*Lock) []*Lock {
	var out []*Lock
	for _, n := range nodes {
		out = append(out, n...)
	}
	return out
}

func sameLocks(a, b []*Lock) bool {
	if len(a) != len(b) {
		return false
	}
	for i := range a {
		if a[i] != b[i] {
			return false
		}
	}
	return true
}

func lockIds(ls []*Lock) []int {
	out := []int{}
	for _, l := range ls {
		if l == nil {
			out = append(out, 0)
		} else {
			out = append(out, int(l.command.LockId[0])|int(l.command.LockId[1])<<8|int(l.command.LockId[2])<<16)
		}
	}
	return out
}

func runRingCase(c *qCase) (qInfo, error) {
	var info qInfo
	priority := c.Kind == "PriorityRing"
	var q ILockManagerRingQueue
	if priority {
		q = NewLockManagerPriorityRingQueue(c.Size)
	} else {
		q = NewLockManagerRingQueue(c.Size)
	}
	m := &pqModel{}
	next := 1
	prios := map[int]bool{}
	for step, op := range c.Ops {
		fail := func(format string, a ...interface{}) (qInfo, error) {
			return info, fmt.Errorf("step %d %v: %s (model=%v)", step, op, fmt.Sprintf(format, a...), lockIds(m.order(priority)))
		}
		switch op.Op {
		case "push":
			p := 0
			if priority {
				p = op.A
			} else {
				p = c.Base // a plain ring only ever holds one priority (AddWaitLock switches otherwise)
			}
			l := qPrioLock(next, p)
			next++
			prios[p] = true
			q.Push(l)
			m.items = append(m.items, l)
		case "pop":
			ord := m.order(priority)
			got := q.Pop()
			if len(ord) == 0 {
				if got != nil {
					return fail("Pop on empty returned an element")
				}
				break
			}
			if got != ord[0] {
				return fail("Pop = %v want %v", lockIds([]*Lock{got}), lockIds(ord[:1]))
			}
			m.remove(got)
		}
		ord := m.order(priority)
		if q.Len() != len(ord) {
			return fail("Len = %d want %d", q.Len(), len(ord))
		}
		if len(ord) == 0 {
			if q.Head() != nil {
				return fail("Head on empty != nil")
			}
			if q.MaxPriority() != 0 {
				return fail("MaxPriority on empty = %d", q.MaxPriority())
			}
		} else {
			if q.Head() != ord[0] {
				return fail("Head = %v want %v", lockIds([]*Lock{q.Head()}), lockIds(ord[:1]))
			}
			if int(q.MaxPriority()) != qLockPrio(ord[0]) {
				return fail("MaxPriority = %d want %d", q.MaxPriority(), qLockPrio(ord[0]))
			}
		}
		if got := flatten(q.IterNodes()); !sameLocks(got, ord) {
			return fail("IterNodes = %v", lockIds(got))
		}
		if len(ord) > info.maxLen {
			info.maxLen = len(ord)
		}
	}
	info.reprSwitch = len(prios)
	return info, nil
}

func genRingCase(t *rapid.T, kind string) *qCase {
	c := &qCase{Kind: kind, Size: rapid.IntRange(1, 16).Draw(t, "size"), Base: rapid.IntRange(0, 3).Draw(t, "prio")}
	prioPool := rapid.SliceOfN(rapid.IntRange(0, 255), 1, 6).Draw(t, "prioPool")
	segs := rapid.IntRange(1, 10).Draw(t, "segments")
	for s := 0; s < segs; s++ {
		pushBias := rapid.SampledFrom([]int{20, 50, 80}).Draw(t, "pushBias")
		n := rapid.IntRange(1, 50).Draw(t, "segLen")
		for i := 0; i < n; i++ {
			if rapid.IntRange(0, 99).Draw(t, "r") < pushBias {
				c.Ops = append(c.Ops, qOp{Op: "push", A: rapid.SampledFrom(prioPool).Draw(t, "p")})
			} else {
				c.Ops = append(c.Ops, qOp{Op: "pop"})
			}
		}
	}
	return c
}

func c20RingProp(test, kind string) func(t *rapid.T) {
	st := vstat(test)
	return func(t *rapid.T) {
		c := genRingCase(t, kind)
		info, err := qGuard(func() (qInfo, error) { return runRingCase(c) })
		cls := []string{}
		if info.maxLen > c.Size {
			cls = append(cls, "grew beyond initial capacity")
		}
		if info.reprSwitch >= 3 {
			cls = append(cls, ">=3 priorities")
		}
		st.Case(info.maxLen > c.Size && (kind == "Ring" || info.reprSwitch >= 2), c.fingerprint(), cls, func() interface{} { return c })
		if err != nil {
			vFail(t, test, "C20:"+kind+":model-mismatch", c, "%v", err)
		}
	}
}

func TestC20_Ring(t *testing.T)         { rapid.Check(t, c20RingProp("TestC20_Ring", "Ring")) }
func TestC20_PriorityRing(t *testing.T) { rapid.Check(t, c20RingProp("TestC20_PriorityRing", "PriorityRing")) }

// ---------------------------------------------------------------------------------------------
// holder queue through LockManager.AddLock / RemoveLock / GetLockedLock, plus the raw container.
// Abstract view: the ordered list of live holders. The oldest live holder is currentLock, lookups by
// LockId find exactly the live holder, released holders may linger in the container (lazily
// discarded) but are never returned as live.

func qBareManager() *LockManager {
	db := &LockDB{}
	db.currentTime = 1000
	m := &LockManager{lockDb: db, freeLocks: NewLockQueue(2, 16, 64), state: &protocol.LockDBState{}}
	return m
}

func runHolderCase(c *qCase) (qInfo, error) {
	var info qInfo
	m := qBareManager()
	live := []*Lock{}
	all := map[*Lock]bool{}
	next := 1
	freeIds := []int{}
	for step, op := range c.Ops {
		fail := func(format string, a ...interface{}) (qInfo, error) {
			return info, fmt.Errorf("step %d %v: %s (live=%v)", step, op, fmt.Sprintf(format, a...), lockIds(live))
		}
		switch op.Op {
		case "add":
			id := next
			// re-use the LockId of a released holder now and then (unlock followed by lock of the same id)
			if op.A%4 == 0 && len(freeIds) > 0 {
				id = freeIds[op.B%len(freeIds)]
				freeIds = append(freeIds[:op.B%len(freeIds)], freeIds[op.B%len(freeIds)+1:]...)
			} else {
				next++
			}
			l := qPrioLock(id, 0)
			l.manager = m
			l.refCount = 1
			l.command.Expried = 10
			m.refCount++
			m.AddLock(l)
			m.locked++
			live = append(live, l)
			all[l] = true
		case "remove":
			if len(live) == 0 {
				break
			}
			k := op.A % len(live)
			if op.B%3 == 0 {
				k = 0 // release the oldest more often: promotion path
			}
			l := live[k]
			m.RemoveLock(l)
			m.locked--
			freeIds = append(freeIds, lockIds([]*Lock{l})[0])
			live = append(live[:k:k], live[k+1:]...)
		case "get":
			if len(live) == 0 {
				break
			}
		}
		// invariants
		if len(live) == 0 {
			if m.currentLock != nil {
				return fail("currentLock set although no holder is left")
			}
		} else {
			if m.currentLock != live[0] {
				cur := []*Lock{m.currentLock}
				if m.currentLock == nil || m.currentLock.command == nil {
					return fail("currentLock nil/freed although holders are left")
				}
				return fail("currentLock = %v, oldest live holder = %v", lockIds(cur), lockIds(live[:1]))
			}
			for _, l := range live {
				if l.command == nil || l.manager == nil {
					return fail("live holder was freed")
				}
				if got := m.GetLockedLock(l.command); got != l {
					return fail("GetLockedLock(%v) = %v", lockIds([]*Lock{l}), got)
				}
			}
			for _, id := range freeIds {
				probe := qPrioLock(id, 0)
				if got := m.GetLockedLock(probe.command); got != nil {
					return fail("GetLockedLock of released id %d returned %v", id, lockIds([]*Lock{got}))
				}
			}
			// raw container: live holders after the first, in order, possibly interleaved with dead entries
			if m.locks != nil {
				var seq []*Lock
				for i := range m.locks.IterNodes() {
					for _, l := range m.locks.IterNodeQueues(int32(i)) {
						if l != nil && l.locked > 0 {
							seq = append(seq, l)
						} else if l != nil {
							info.deadSkipped++
						}
					}
				}
				if !sameLocks(seq, live[1:]) {
					return fail("container iteration (live entries) = %v want %v", lockIds(seq), lockIds(live[1:]))
				}
				n := m.locks.Len()
				if n < len(live)-1 {
					return fail("container Len = %d < live entries %d", n, len(live)-1)
				}
				if m.locks.scaleQueue != nil {
					info.reprSwitch = 1
				}
			}
		}
		if len(live) > info.maxLen {
			info.maxLen = len(live)
		}
	}
	return info, nil
}

func genHolderCase(t *rapid.T) *qCase {
	c := &qCase{Kind: "Holder"}
	big := rapid.IntRange(0, 9).Draw(t, "big") == 0
	segs := rapid.IntRange(1, 10).Draw(t, "segments")
	for s := 0; s < segs; s++ {
		addBias := rapid.SampledFrom([]int{25, 50, 75, 90}).Draw(t, "addBias")
		n := rapid.IntRange(1, 40).Draw(t, "segLen")
		if big {
			n = rapid.IntRange(40, 400).Draw(t, "segLenBig")
		}
		for i := 0; i < n; i++ {
			if rapid.IntRange(0, 99).Draw(t, "r") < addBias {
				c.Ops = append(c.Ops, qOp{Op: "add", A: rapid.IntRange(0, 7).Draw(t, "a"), B: rapid.IntRange(0, 1000).Draw(t, "b")})
			} else {
				c.Ops = append(c.Ops, qOp{Op: "remove", A: rapid.IntRange(0, 1<<16).Draw(t, "a"), B: rapid.IntRange(0, 2).Draw(t, "b")})
			}
		}
	}
	return c
}

func TestC20_HolderQueue(t *testing.T) {
	st := vstat("TestC20_HolderQueue")
	rapid.Check(t, func(t *rapid.T) {
		c := genHolderCase(t)
		info, err := qGuard(func() (qInfo, error) { return runHolderCase(c) })
		cls := []string{}
		if info.maxLen > 7 {
			cls = append(cls, ">6 holders (inline slice grew)")
		}
		if info.reprSwitch > 0 {
			cls = append(cls, "map-backed scale queue reached (>128)")
		}
		if info.deadSkipped > 0 {
			cls = append(cls, "released holder lingering inside container")
		}
		st.Case(info.maxLen > 7 && info.deadSkipped > 0, c.fingerprint(), cls, func() interface{} { return c })
		if err != nil {
			vFail(t, "TestC20_HolderQueue", "C20:Holder:model-mismatch", c, "%v", err)
		}
	})
}

// ---------------------------------------------------------------------------------------------
// wait queue through LockManager.AddWaitLock / GetWaitLock / waitLocks.Pop: a stable priority queue
// (FIFO while all priorities are equal) in which answered entries are discarded lazily.

func runWaitCase(c *qCase) (qInfo, error) {
	var info qInfo
	m := qBareManager()
	pm := &pqModel{}
	next := 1
	priorities := map[int]bool{}
	for step, op := range c.Ops {
		fail := func(format string, a ...interface{}) (qInfo, error) {
			return info, fmt.Errorf("step %d %v: %s (model=%v)", step, op, fmt.Sprintf(format, a...), lockIds(pm.order(true)))
		}
		switch op.Op {
		case "add":
			l := qPrioLock(next, op.A)
			next++
			l.manager = m
			l.refCount = 1
			m.refCount++
			m.AddWaitLock(l)
			pm.items = append(pm.items, l)
			priorities[op.A] = true
		case "timeout":
			// what RemoveTimeOut does to an entry that stays in the container
			if len(pm.items) == 0 {
				break
			}
			l := pm.items[op.A%len(pm.items)]
			l.timeouted = true
			l.refCount++ // keep it from being recycled while the harness still looks at it
			pm.remove(l)
		case "grant":
			// wakeUpWaitLock: the head live waiter is marked answered and leaves at the next GetWaitLock
			ord := pm.order(true)
			got := m.GetWaitLock()
			if len(ord) == 0 {
				if got != nil {
					return fail("GetWaitLock returned %v on an empty model", lockIds([]*Lock{got}))
				}
				break
			}
			if got != ord[0] {
				return fail("GetWaitLock = %v want %v", lockIds([]*Lock{got}), lockIds(ord[:1]))
			}
			got.timeouted = true
			got.refCount++
			pm.remove(got)
		}
		ord := pm.order(true)
		got := m.GetWaitLock()
		if len(ord) == 0 {
			if got != nil {
				return fail("GetWaitLock returned %v, model empty", lockIds([]*Lock{got}))
			}
		} else if got != ord[0] {
			return fail("GetWaitLock = %v want %v", lockIds([]*Lock{got}), lockIds(ord[:1]))
		}
		if m.waitLocks != nil {
			var seq []*Lock
			for _, n := range m.waitLocks.IterNodes() {
				for _, l := range n {
					if l != nil && !l.timeouted {
						seq = append(seq, l)
					}
				}
			}
			if !sameLocks(seq, ord) {
				return fail("container iteration (live entries) = %v", lockIds(seq))
			}
			if m.waitLocks.Len() < len(ord) {
				return fail("container Len %d < live %d", m.waitLocks.Len(), len(ord))
			}
			if len(ord) > 0 && int(m.waitLocks.MaxPriority()) != qLockPrio(ord[0]) {
				return fail("MaxPriority = %d want %d", m.waitLocks.MaxPriority(), qLockPrio(ord[0]))
			}
			if m.waitLocks.fastIndex < 0 {
				info.reprSwitch |= 2
			} else if m.waitLocks.ringQueue != nil {
				info.reprSwitch |= 1
			}
		}
		if len(ord) > info.maxLen {
			info.maxLen = len(ord)
		}
	}
	if len(priorities) > 1 {
		info.reprSwitch |= 4
	}
	return info, nil
}

func genWaitCase(t *rapid.T) *qCase {
	c := &qCase{Kind: "Wait"}
	prioPool := rapid.SliceOfN(rapid.SampledFrom([]int{0, 0, 0, 1, 1, 2, 5, 9, 200, 255, -1, -3, -9}), 1, 4).Draw(t, "prioPool")
	big := rapid.IntRange(0, 9).Draw(t, "big") == 0
	segs := rapid.IntRange(1, 10).Draw(t, "segments")
	for s := 0; s < segs; s++ {
		addBias := rapid.SampledFrom([]int{25, 50, 75, 90}).Draw(t, "addBias")
		n := rapid.IntRange(1, 40).Draw(t, "segLen")
		if big {
			n = rapid.IntRange(40, 400).Draw(t, "segLenBig")
			if rapid.IntRange(0, 1).Draw(t, "flood") == 0 {
				// a flood of equal-priority waiters (the FIFO container spills into its plain ring beyond the
				// in-line slice: 8,16,..,~143/256), then a waiter of another priority: the container is rebuilt as
				// a priority queue from the in-line slice and the ring
				p := rapid.SampledFrom(prioPool).Draw(t, "floodPrio")
				for i := rapid.IntRange(130, 420).Draw(t, "floodLen"); i > 0; i-- {
					c.Ops = append(c.Ops, qOp{Op: "add", A: p})
				}
				c.Ops = append(c.Ops, qOp{Op: "add", A: (p + rapid.SampledFrom([]int{1, 3, 250}).Draw(t, "floodOther")) % 256})
			}
		}
		for i := 0; i < n; i++ {
			r := rapid.IntRange(0, 99).Draw(t, "r")
			switch {
			case r < addBias:
				c.Ops = append(c.Ops, qOp{Op: "add", A: rapid.SampledFrom(prioPool).Draw(t, "p")})
			case r < addBias+(100-addBias)/3:
				c.Ops = append(c.Ops, qOp{Op: "timeout", A: rapid.IntRange(0, 1<<16).Draw(t, "a")})
			default:
				c.Ops = append(c.Ops, qOp{Op: "grant"})
			}
		}
	}
	return c
}

func TestC20_WaitQueue(t *testing.T) {
	st := vstat("TestC20_WaitQueue")
	rapid.Check(t, func(t *rapid.T) {
		c := genWaitCase(t)
		info, err := qGuard(func() (qInfo, error) { return runWaitCase(c) })
		cls := []string{}
		if info.maxLen > 8 {
			cls = append(cls, ">8 waiters")
		}
		if info.reprSwitch&1 != 0 {
			cls = append(cls, "plain ring reached (>128)")
		}
		if info.reprSwitch&2 != 0 {
			cls = append(cls, "priority ring reached")
		}
		st.Case(info.maxLen > 8 && info.reprSwitch&3 != 0, c.fingerprint(), cls, func() interface{} { return c })
		if err != nil {
			vFail(t, "TestC20_WaitQueue", "C20:Wait:model-mismatch", c, "%v", err)
		}
	})
}

// ---------------------------------------------------------------------------------------------
// long-wait table queue: push, in-place Remove by recorded index, restructuring, sweep by Len()+Pop()

func runLongWaitCase(c *qCase) (qInfo, error) {
	var info qInfo
	db := &LockDB{}
	db.longTimeoutLocks = []map[int64]*LongWaitLockQueue{{}}
	db.longExpriedLocks = []map[int64]*LongWaitLockQueue{{}}
	db.freeLongWaitQueues = []*LongWaitLockFreeQueue{{make([]*LongWaitLockQueue, 4), -1, 3}}
	q := NewLongWaitLockQueue(int32(c.Base), int32(c.Nodes), int32(c.Size), 0, 77)
	db.longTimeoutLocks[0][77] = q
	db.longExpriedLocks[0][77] = q
	model := []*Lock{}
	next := 1
	for step, op := range c.Ops {
		fail := func(format string, a ...interface{}) (qInfo, error) {
			return info, fmt.Errorf("step %d %v: %s (model=%v)", step, op, fmt.Sprintf(format, a...), lockIds(model))
		}
		switch op.Op {
		case "push":
			l := qPrioLock(next, 0)
			next++
			if err := q.Push(l); err != nil {
				return fail("Push: %v", err)
			}
			model = append(model, l)
		case "remove":
			if len(model) == 0 {
				break
			}
			k := op.A % len(model)
			l := model[k]
			q.Remove(l)
			model = append(model[:k:k], model[k+1:]...)
			info.holes++
			if l.longWaitIndex != 0 {
				return fail("Remove left longWaitIndex set")
			}
		case "restructure", "restructureE":
			if len(model) == 0 {
				break // the real callers restructure only while entries are left or free the queue
			}
			if len(model) > 0 && info.holes > 0 {
				info.maintPart++
			}
			if op.Op == "restructure" {
				db.restructuringLongTimeOutQueue(q)
			} else {
				db.restructuringLongExpriedQueue(q)
			}
		}
		// every remaining entry is still addressable through its recorded index
		for _, l := range model {
			ni, qi := int32(l.longWaitIndex>>32), int32(l.longWaitIndex&0xffffffff)-1
			if l.longWaitIndex == 0 || int(ni) >= len(q.locks.queues) || q.locks.queues[ni] == nil || int(qi) >= len(q.locks.queues[ni]) || q.locks.queues[ni][qi] != l {
				return fail("entry %v not found at its recorded index (%d,%d)", lockIds([]*Lock{l}), ni, qi)
			}
		}
		if q.locks.tailNodeIndex > 0 {
			info.nodeCross = int(q.locks.tailNodeIndex)
		}
		if len(model) > info.maxLen {
			info.maxLen = len(model)
		}
	}
	// the sweep of checkTimeTimeOut: Len() pops, holes come out as nil
	n := q.Len()
	var got []*Lock
	for ; n > 0; n-- {
		if l := q.Pop(); l != nil {
			got = append(got, l)
		}
	}
	if !sameLocks(got, model) {
		return info, fmt.Errorf("sweep returned %v want %v", lockIds(got), lockIds(model))
	}
	if q.Pop() != nil {
		return info, fmt.Errorf("sweep of Len() pops left entries behind")
	}
	return info, nil
}

func genLongWaitCase(t *rapid.T) *qCase {
	c := &qCase{Kind: "LongWait"}
	c.Base = rapid.IntRange(1, 4).Draw(t, "base")
	c.Nodes = c.Base + rapid.IntRange(0, 6).Draw(t, "extraNodes")
	c.Size = rapid.IntRange(1, 8).Draw(t, "size")
	segs := rapid.IntRange(1, 10).Draw(t, "segments")
	for s := 0; s < segs; s++ {
		pushBias := rapid.SampledFrom([]int{30, 55, 85}).Draw(t, "pushBias")
		n := rapid.IntRange(1, 50).Draw(t, "segLen")
		for i := 0; i < n; i++ {
			r := rapid.IntRange(0, 99).Draw(t, "r")
			switch {
			case r < pushBias:
				c.Ops = append(c.Ops, qOp{Op: "push"})
			case r < 92:
				c.Ops = append(c.Ops, qOp{Op: "remove", A: rapid.IntRange(0, 1<<16).Draw(t, "a")})
			default:
				c.Ops = append(c.Ops, qOp{Op: rapid.SampledFrom([]string{"restructure", "restructureE"}).Draw(t, "which")})
			}
		}
	}
	return c
}

func TestC20_LongWaitQueue(t *testing.T) {
	st := vstat("TestC20_LongWaitQueue")
	rapid.Check(t, func(t *rapid.T) {
		c := genLongWaitCase(t)
		info, err := qGuard(func() (qInfo, error) { return runLongWaitCase(c) })
		cls := []string{}
		if info.nodeCross >= 2 {
			cls = append(cls, "crossed>=2 node boundaries")
		}
		if info.maintPart > 0 {
			cls = append(cls, "restructure with holes")
		}
		st.Case(info.nodeCross >= 2 && info.maintPart > 0, c.fingerprint(), cls, func() interface{} { return c })
		if err != nil {
			vFail(t, "TestC20_LongWaitQueue", "C20:LongWait:model-mismatch", c, "%v", err)
		}
	})
}

// ---------------------------------------------------------------------------------------------
// replay of committed / freshly found cases without rapid

func runQCase(c *qCase) (qInfo, error) {
	switch c.Kind {
	case "Ring", "PriorityRing":
		return runRingCase(c)
	case "Holder":
		return runHolderCase(c)
	case "Wait":
		return runWaitCase(c)
	case "LongWait":
		return runLongWaitCase(c)
	}
	return runNodeDequeCase(c)
}

func TestC20_Replay(t *testing.T) {
	for _, f := range vReplayFiles("C20") {
		var c qCase
		key, err := vLoadReplay(f, &c)
		if err != nil {
			t.Fatalf("cannot load replay %s: %v", f, err)
		}
		var rerr error
		func() {
			defer func() {
				if r := recover(); r != nil {
					rerr = fmt.Errorf("panic: %v", r)
				}
			}()
			_, rerr = runQCase(&c)
		}()
		fmt.Printf("VERIF-KF key=%s reproduced=%v file=%s %v\n", key, rerr != nil, f, rerr)
	}
}
