package server

// Engine A: sequential lock engine under a virtual clock (DESIGN §4).
// One fresh leader instance per case, no wall-clock sweep goroutines (hook H1); the harness owns
// LockDB.currentTime and runs the timeout / expiry sweeps itself. Every request and every reply is
// fed to the monitor (ea_monitor_test.go), which keeps a reference ledger and checks C01..C06, C15, C17.

import (
	"fmt"
	"sort"
	"strings"
	"time"

	"github.com/snower/slock/protocol"
)

// aEpoch is the virtual clock origin. Engine A uses a fixed one; engine P (persistence) sets it relative
// to the wall clock because recovery code reads time.Now().
var aEpoch = int64(1700000000)

const aFixedEpoch = int64(1700000000)

type aOp struct {
	K   string `json:"k"`             // lock | unlock | tick | collect
	C   int    `json:"c,omitempty"`   // client
	Db  int    `json:"db,omitempty"`
	Key int    `json:"key,omitempty"`
	Id  int    `json:"id,omitempty"`
	F   int    `json:"f,omitempty"`   // Flag
	T   int    `json:"t,omitempty"`   // Timeout
	TF  int    `json:"tf,omitempty"`  // TimeoutFlag
	E   int    `json:"e,omitempty"`   // Expried
	EF  int    `json:"ef,omitempty"`  // ExpriedFlag
	Cnt int    `json:"cnt,omitempty"` // Count
	Rc  int    `json:"rc,omitempty"`  // Rcount
	N   int    `json:"n,omitempty"`   // tick: seconds
	J   bool   `json:"j,omitempty"`   // tick: one clock jump followed by the catch-up loop
	X   bool   `json:"x,omitempty"`   // tick: expiry sweep before timeout sweep
	V   *aVal  `json:"v,omitempty"`   // value operation (flag 0x20)
}

func (o aOp) String() string {
	switch o.K {
	case "tick":
		return fmt.Sprintf("tick(%d jump=%v exfirst=%v)", o.N, o.J, o.X)
	case "lock", "unlock":
		s := fmt.Sprintf("%s c%d db%d k%d id%d flag=%#x T=%d/%#x E=%d/%#x count=%d rcount=%d", o.K, o.C, o.Db, o.Key, o.Id, o.F, o.T, o.TF, o.E, o.EF, o.Cnt, o.Rc)
		if o.V != nil {
			s += " val=" + o.V.String()
		}
		return s
	}
	return o.K
}

type aCase struct {
	Prop     string `json:"prop"`
	Conc     int    `json:"conc"`
	FastKeys int    `json:"fastkeys"`
	AofTime  int    `json:"aoftime"`
	Clients  int    `json:"clients"`
	Ops      []aOp  `json:"ops"`
	// engine P only
	AofBuf      int `json:"aofbuf,omitempty"`      // aof_file_buffer_size
	RewriteSize int `json:"rewritesize,omitempty"` // aof_file_rewrite_size
	EpochOff    int `json:"epochoff,omitempty"`    // >0: virtual clock starts EpochOff seconds before the wall clock
	After       []aOp `json:"after,omitempty"`     // C07: locks taken on the restarted instance, before the second restart
	TailTick    bool  `json:"tailtick,omitempty"`  // C16: the history ends with a clock step of 55..185 s (the case starts with a clock lag of 205 s)
	DataDir     string `json:"-"`
}

func (c *aCase) fingerprint() uint64 {
	var sb strings.Builder
	for _, o := range c.Ops {
		sb.WriteString(o.String())
		sb.WriteByte(';')
	}
	return vHash(c.Conc, c.FastKeys, c.AofTime, c.Clients, sb.String())
}

func aKey(i int) (k [16]byte) {
	k[0], k[1] = byte(i+1), byte((i+1)>>8)
	k[15] = 0x4b
	return
}

func aLockId(i int) (k [16]byte) {
	k[0], k[1], k[2] = byte(i+1), byte((i+1)>>8), byte((i+1)>>16)
	k[15] = 0x1d
	return
}

func aReqId(i int) (k [16]byte) {
	k[0], k[1], k[2], k[3] = byte(i), byte(i>>8), byte(i>>16), byte(i>>24)
	k[12], k[13], k[14], k[15] = 0x52, 0x45, 0x51, 0x21
	return
}

func aReqIdx(k [16]byte) int {
	if k[12] != 0x52 || k[13] != 0x45 || k[14] != 0x51 || k[15] != 0x21 {
		return -1
	}
	return int(k[0]) | int(k[1])<<8 | int(k[2])<<16 | int(k[3])<<24
}

type aReply struct {
	Result  uint8
	LCount  uint16
	LRCount uint8
	Data    []byte
	LockId  [16]byte
	Time    int64
	Client  int
}

type aReq struct {
	Idx      int
	Op       aOp
	Time     int64
	LockId   [16]byte
	Key      [16]byte
	Replies  []aReply
	Terminal int // index into Replies of the terminal reply, -1 none
	Expried  int // number of EXPRIED notices
	Queued   bool
	InFlight bool
}

type aEnv struct {
	c        *aCase
	inst     *vInst
	now      int64
	dbs      []*LockDB
	toQ      [][][]*LockQueue // per db, per shard: the 5 spare queues of checkTimeOut
	exQ      [][][]*LockQueue
	clients  []*MemWaiterServerProtocol
	reqs     []*aReq
	hist     []aHistRec
	mon      *aMonitor
	sending  *aReq
	shortIds map[[3]int]bool // engine P: LockIds whose hold ends before the restart instant
	// freshCmds: every request gets a newly allocated command object instead of one from the connection's
	// pool (engine B while the command use-after-free finding is listed: recycling is what makes it visible)
	freshCmds bool
}

func aNewEnv(c *aCase) (*aEnv, error) {
	if c.EpochOff > 0 {
		aEpoch = time.Now().Unix() - int64(c.EpochOff)
	} else {
		aEpoch = aFixedEpoch
	}
	inst, err := vNewInst(vInstOpts{DBConcurrent: uint(c.Conc), DBFastKeyCount: uint(c.FastKeys), DBLockAofTime: uint(c.AofTime), NoCheckLoop: true,
		AofFileBufferSize: uint(c.AofBuf), AofFileRewriteSize: uint(c.RewriteSize), DataDir: c.DataDir})
	if err != nil {
		return nil, err
	}
	e := &aEnv{c: c, inst: inst, now: aEpoch, shortIds: map[[3]int]bool{}}
	e.dbs = make([]*LockDB, 2)
	e.toQ = make([][][]*LockQueue, 2)
	e.exQ = make([][][]*LockQueue, 2)
	e.ensureDB(0)
	for i := 0; i < c.Clients; i++ {
		p := NewMemWaiterServerProtocol(inst.slock)
		idx := i
		_ = p.SetResultCallback(func(_ *MemWaiterServerProtocol, cmd *protocol.LockCommand, result uint8, lcount uint16, lrcount uint8, data []byte) error {
			e.onReply(idx, cmd, result, lcount, lrcount, data)
			return nil
		})
		e.clients = append(e.clients, p)
	}
	e.mon = aNewMonitor(e)
	return e, nil
}

// ensureDB creates database db (as the first LOCK addressed to it would) and puts it on the virtual clock.
func (e *aEnv) ensureDB(db int) {
	if e.dbs[db] != nil {
		return
	}
	d := e.inst.slock.GetOrNewDB(uint8(db))
	d.currentTime, d.checkTimeoutTime, d.checkExpriedTime = e.now, e.now, e.now
	e.dbs[db] = d
	tq := make([][]*LockQueue, d.managerMaxGlocks)
	xq := make([][]*LockQueue, d.managerMaxGlocks)
	for i := range tq {
		tq[i] = make([]*LockQueue, 5)
		xq[i] = make([]*LockQueue, 5)
		for j := 0; j < 5; j++ {
			tq[i][j] = NewLockQueue(4, 16, 64)
			xq[i][j] = NewLockQueue(4, 16, 64)
		}
	}
	e.toQ[db], e.exQ[db] = tq, xq
}

func (e *aEnv) close() {
	for _, p := range e.clients {
		_ = p.Close()
	}
	e.inst.vClose(false, true)
}

type aHistRec struct {
	t int64
	f string
	a []interface{}
}

// logf records a history line; it is only formatted when a failure is reported.
func (e *aEnv) logf(format string, a ...interface{}) {
	e.hist = append(e.hist, aHistRec{e.now - aEpoch, format, a})
}

func (e *aEnv) history() string {
	h := e.hist
	if len(h) > 400 {
		h = h[len(h)-400:]
	}
	var sb strings.Builder
	for _, r := range h {
		fmt.Fprintf(&sb, "[t+%d] ", r.t)
		fmt.Fprintf(&sb, r.f, r.a...)
		sb.WriteByte('\n')
	}
	return sb.String()
}

func (e *aEnv) onReply(client int, cmd *protocol.LockCommand, result uint8, lcount uint16, lrcount uint8, data []byte) {
	idx := aReqIdx(cmd.RequestId)
	var d []byte
	if data != nil {
		d = append([]byte{}, data...)
	}
	rp := aReply{result, lcount, lrcount, d, cmd.LockId, e.now, client}
	if idx < 0 || idx >= len(e.reqs) {
		e.logf("  <- c%d UNKNOWN RequestId %x result=%d", client, cmd.RequestId, result)
		e.mon.viol("C03", "reply carries a RequestId the harness never sent: %x (result %d, client %d)", cmd.RequestId, result, client)
		return
	}
	r := e.reqs[idx]
	shown := fmt.Sprintf("%x", d)
	if len(d) > 64 {
		shown = fmt.Sprintf("%x..%x(%d bytes, fnv %016x)", d[:12], d[len(d)-8:], len(d), vHash(d))
	}
	e.logf("  <- c%d req#%d %v lcount=%d lrcount=%d lockid=%d data=%s", client, idx, aResName(result), lcount, lrcount, int(cmd.LockId[0])|int(cmd.LockId[1])<<8, shown)
	r.Replies = append(r.Replies, rp)
	e.mon.onReply(r, &rp)
}

type aResName uint8

func (r aResName) String() string { return aResultName(uint8(r)) }

func aResultName(r uint8) string {
	names := []string{"SUCCED", "UNKNOWN_MAGIC", "UNKNOWN_VERSION", "UNKNOWN_DB", "UNKNOWN_COMMAND", "LOCKED_ERROR", "UNLOCK_ERROR", "UNOWN_ERROR", "TIMEOUT", "EXPRIED", "STATE_ERROR", "ERROR", "LOCK_ACK_WAITING"}
	if int(r) < len(names) {
		return names[r]
	}
	return fmt.Sprintf("RESULT_%d", r)
}

func (e *aEnv) apply(op aOp) {
	switch op.K {
	case "lock", "unlock":
		e.send(op)
	case "tick":
		e.tick(op)
	case "rotate":
		e.rotate()
	case "rotate-only":
		// a rotation whose compaction does not run (as when rotations outpace a compaction still in progress)
		aof := e.inst.slock.aof
		vAofIdle(aof)
		aof.aofGlock.Lock()
		if aof.RewriteAofFile(false) == nil {
			aof.glock.Lock()
			aof.isWaitRewite = false
			aof.glock.Unlock()
		}
		aof.aofGlock.Unlock()
		e.logf("rotate-only -> append.aof.%d", aof.aofFileIndex)
	case "collect":
		// the pool collectors run every 300 s of wall time (Server.handleFreeCollect); emulate that cadence
		for _, d := range e.dbs {
			if d == nil {
				continue
			}
			d.freeCollector.lastCollectTime = time.Now().Unix() - 300
			_ = d.FreeCollect()
		}
	}
	e.mon.afterOp(op)
}

func (e *aEnv) send(op aOp) {
	p := e.clients[op.C%len(e.clients)]
	var cmd *protocol.LockCommand
	if e.freshCmds {
		cmd = &protocol.LockCommand{}
	} else {
		cmd = p.GetLockCommand()
	}
	r := &aReq{Idx: len(e.reqs), Op: op, Time: e.now, Terminal: -1, LockId: aLockId(op.Id), Key: aKey(op.Key)}
	r.Op.C = op.C % len(e.clients)
	cmd.Magic, cmd.Version = protocol.MAGIC, protocol.VERSION
	if op.K == "lock" {
		cmd.CommandType = protocol.COMMAND_LOCK
	} else {
		cmd.CommandType = protocol.COMMAND_UNLOCK
	}
	cmd.RequestId = aReqId(r.Idx)
	cmd.Flag = uint8(op.F)
	cmd.DbId = uint8(op.Db)
	cmd.LockId = r.LockId
	cmd.LockKey = r.Key
	cmd.TimeoutFlag, cmd.Timeout = uint16(op.TF), uint16(op.T)
	cmd.ExpriedFlag, cmd.Expried = uint16(op.EF), uint16(op.E)
	cmd.Count, cmd.Rcount = uint16(op.Cnt), uint8(op.Rc)
	cmd.Data = nil
	if op.V != nil {
		cmd.Data = op.V.commandData()
		cmd.Flag |= 0x20
		r.Op.F |= 0x20
	}
	e.reqs = append(e.reqs, r)
	e.logf("#%d %v", r.Idx, op)
	e.mon.onRequest(r)
	if op.K == "lock" {
		e.ensureDB(op.Db)
	}
	r.InFlight = true
	_ = p.ProcessLockCommand(cmd)
	r.InFlight = false
	e.mon.onReturned(r)
}

// rotate is the admin REWRITEAOF command: new append file + compaction of the older ones, waited for.
func (e *aEnv) rotate() {
	aof := e.inst.slock.aof
	vAofIdle(aof)
	aof.glock.Lock()
	busy := aof.isRewriting || aof.isWaitRewite
	aof.glock.Unlock()
	if busy {
		_ = aof.WaitRewriteAofFiles()
		return
	}
	// RewriteAofFile(true) would run the compaction in a goroutine; run the same body synchronously
	aof.aofGlock.Lock()
	err := aof.RewriteAofFile(false)
	aof.aofGlock.Unlock()
	if err == nil {
		aof.rewriteAofFiles()
	}
	e.logf("rotate -> append.aof.%d", aof.aofFileIndex)
}

// quiesce drains the persistence queue and flushes the append file (a quiescent point of C07).
func (e *aEnv) quiesce() {
	aof := e.inst.slock.aof
	vAofIdle(aof)
	if e.c.RewriteSize > 0 {
		vWaitRewriteRotations()
	} else {
		vWaitRewrite(aof)
	}
	vAofIdle(aof)
	aof.FlushWithLocked()
}

// tick replicates the bodies of LockDB.checkTimeOut / checkExpried (the loops of startCheckLoop that
// H1 switched off) synchronously: every elapsed second, every shard.
func (e *aEnv) tick(op aOp) {
	steps, jump := op.N, 1
	if op.J {
		steps, jump = 1, op.N
	}
	for s := 0; s < steps; s++ {
		e.now += int64(jump)
		nlog := len(e.hist)
		for di, d := range e.dbs {
			if d == nil {
				continue
			}
			d.currentTime = e.now
			sweepT := func() {
				c := d.checkTimeoutTime
				d.checkTimeoutTime = e.now + 1
				for ; c <= e.now; c++ {
					for i := uint16(0); i < d.managerMaxGlocks; i++ {
						d.checkTimeTimeOut(c, e.now, i, e.toQ[di][i])
					}
				}
			}
			sweepE := func() {
				c := d.checkExpriedTime
				d.checkExpriedTime = e.now + 1
				for ; c <= e.now; c++ {
					for i := uint16(0); i < d.managerMaxGlocks; i++ {
						d.checkTimeExpried(c, e.now, i, e.exQ[di][i])
					}
				}
			}
			if op.X {
				sweepE()
				sweepT()
			} else {
				sweepT()
				sweepE()
			}
		}
		e.mon.afterClock()
		if len(e.hist) > nlog {
			// something happened during this second: keep a marker in front of it
			e.hist = append(e.hist, aHistRec{})
			copy(e.hist[nlog+1:], e.hist[nlog:])
			e.hist[nlog] = aHistRec{e.now - aEpoch, "clock", nil}
		}
		if e.mon.stop {
			return
		}
	}
	e.logf("tick done: %v", op)
}

// ---------------------------------------------------------------------------------------------
// in-package snapshot

type aSnapHold struct {
	Id          [16]byte
	Depth       uint8
	Count       uint16
	Rcount      uint8
	TF, EF      uint16
	E           uint16
	ExpriedTime int64
	StartTime   int64
	Req         int
	AckCount    uint8
	IsAof       bool
}

type aSnapWait struct {
	Id          [16]byte
	Req         int
	TimeoutTime int64
	Prio        int
}

type aSnapKey struct {
	Db       int
	Key      [16]byte
	Locked   uint32
	Waited   bool
	RefCount uint32
	Holders  []aSnapHold
	Waiters  []aSnapWait
	Data     []byte
	Slow     bool
	// Foreign: a holder or queued request whose command names another key than the manager it is recorded in ("" if none)
	Foreign string
}

func aSnapManager(db int, m *LockManager) *aSnapKey {
	k := &aSnapKey{Db: db, Key: m.lockKey, Locked: m.locked, Waited: m.waited, RefCount: m.refCount}
	add := func(l *Lock) {
		if l == nil || l.locked == 0 || l.command == nil {
			return
		}
		if l.command.LockKey != m.lockKey && k.Foreign == "" {
			k.Foreign = fmt.Sprintf("holder LockId %x (request #%d) was sent for key %x", l.command.LockId[:3], aReqIdx(l.command.RequestId), l.command.LockKey)
		}
		k.Holders = append(k.Holders, aSnapHold{l.command.LockId, l.locked, l.command.Count, l.command.Rcount, l.command.TimeoutFlag, l.command.ExpriedFlag,
			l.command.Expried, l.expriedTime, l.startTime, aReqIdx(l.command.RequestId), l.ackCount, l.isAof})
	}
	add(m.currentLock)
	if m.locks != nil {
		for i := range m.locks.IterNodes() {
			for _, l := range m.locks.IterNodeQueues(int32(i)) {
				if l != m.currentLock {
					add(l)
				}
			}
		}
	}
	if m.waitLocks != nil {
		for _, n := range m.waitLocks.IterNodes() {
			for _, l := range n {
				if l == nil || l.timeouted || l.command == nil || l.locked > 0 {
					continue
				}
				if l.command.LockKey != m.lockKey && k.Foreign == "" {
					k.Foreign = fmt.Sprintf("queued LockId %x (request #%d) was sent for key %x", l.command.LockId[:3], aReqIdx(l.command.RequestId), l.command.LockKey)
				}
				k.Waiters = append(k.Waiters, aSnapWait{l.command.LockId, aReqIdx(l.command.RequestId), l.timeoutTime, qLockPrio(l)})
			}
		}
	}
	if d := m.GetLockData(); d != nil {
		k.Data = append([]byte{}, d...)
	}
	return k
}

// aSnapshot lists every live key manager of the DB (fast slots and slow map), under the shard mutexes.
func aSnapshot(dbIdx int, d *LockDB) []*aSnapKey {
	for i := uint16(0); i < d.managerMaxGlocks; i++ {
		d.managerGlocks[i].Lock()
	}
	var out []*aSnapKey
	seen := map[*LockManager]bool{}
	for i := range d.fastLocks {
		fv := &d.fastLocks[i]
		if fv.lock == 2 && fv.manager != nil && fv.manager.refCount != 0xffffffff && !seen[fv.manager] {
			seen[fv.manager] = true
			out = append(out, aSnapManager(dbIdx, fv.manager))
		}
	}
	d.mGlock.RLock()
	for _, m := range d.locks {
		if m.refCount != 0xffffffff && !seen[m] {
			seen[m] = true
			k := aSnapManager(dbIdx, m)
			k.Slow = true
			out = append(out, k)
		}
	}
	d.mGlock.RUnlock()
	for i := uint16(0); i < d.managerMaxGlocks; i++ {
		d.managerGlocks[i].Unlock()
	}
	sort.Slice(out, func(i, j int) bool { return string(out[i].Key[:]) < string(out[j].Key[:]) })
	return out
}

// aScanFreed looks for Lock objects that were returned to the free pool (manager == nil) but are
// still reachable from a live holder list, wait queue, wheel slot or long-wait table.
func aScanFreed(d *LockDB) string {
	for i := uint16(0); i < d.managerMaxGlocks; i++ {
		d.managerGlocks[i].Lock()
	}
	defer func() {
		for i := uint16(0); i < d.managerMaxGlocks; i++ {
			d.managerGlocks[i].Unlock()
		}
	}()
	check := func(where string, l *Lock) string {
		if l != nil && l.manager == nil {
			return fmt.Sprintf("freed Lock object reachable from %s", where)
		}
		return ""
	}
	scanQ := func(where string, a, b int, q *LockQueue) string {
		if q.Len() == 0 {
			return ""
		}
		for i := range q.IterNodes() {
			for _, l := range q.IterNodeQueues(int32(i)) {
				if l != nil && l.manager == nil {
					return fmt.Sprintf("freed Lock object reachable from %s %d/%d", where, a, b)
				}
			}
		}
		return ""
	}
	for s := range d.timeoutLocks {
		for sh := range d.timeoutLocks[s] {
			if r := scanQ("timeout wheel slot/shard", s, sh, d.timeoutLocks[s][sh]); r != "" {
				return r
			}
		}
	}
	for s := range d.expriedLocks {
		for sh := range d.expriedLocks[s] {
			if r := scanQ("expiry wheel slot/shard", s, sh, d.expriedLocks[s][sh]); r != "" {
				return r
			}
		}
	}
	for sh := range d.longTimeoutLocks {
		for t, q := range d.longTimeoutLocks[sh] {
			if r := scanQ("long timeout table", int(t-aEpoch), sh, &q.locks); r != "" {
				return r
			}
		}
		for t, q := range d.longExpriedLocks[sh] {
			if r := scanQ("long expiry table", int(t-aEpoch), sh, &q.locks); r != "" {
				return r
			}
		}
	}
	walk := func(m *LockManager) string {
		if s := check("currentLock", m.currentLock); s != "" {
			return s
		}
		if m.locks != nil {
			for i := range m.locks.IterNodes() {
				for _, l := range m.locks.IterNodeQueues(int32(i)) {
					if s := check("holder list", l); s != "" {
						return s
					}
				}
			}
		}
		if m.waitLocks != nil {
			for _, n := range m.waitLocks.IterNodes() {
				for _, l := range n {
					if s := check("wait queue", l); s != "" {
						return s
					}
				}
			}
		}
		return ""
	}
	for i := range d.fastLocks {
		fv := &d.fastLocks[i]
		if fv.lock == 2 && fv.manager != nil && fv.manager.refCount != 0xffffffff {
			if s := walk(fv.manager); s != "" {
				return s
			}
		}
	}
	for _, m := range d.locks {
		if m.refCount != 0xffffffff {
			if s := walk(m); s != "" {
				return s
			}
		}
	}
	return ""
}

// aScanRecycledValues counts key managers sitting in the free ring that still carry a value.
func aScanRecycledValues(d *LockDB) int {
	n := 0
	head, tail := d.freeLockManagerHead, d.freeLockManagerTail
	for i := tail; i != head; {
		i++
		m := d.freeLockManagers[i%d.maxFreeLockManagerCount]
		if m != nil && m.currentData != nil {
			n++
		}
		if i-tail > 100000 {
			break
		}
	}
	return n
}
