package server

// Engine R: real-time mini engine (C05, C06) - executor. Rapid-free.
//
// One fresh in-process leader per case WITH its own loops (updateCurrentTime / checkTimeOut / checkExpried and the
// one-goroutine-per-millisecond-slot wheels), 1..3 in-memory clients, a fixed script of LOCK / UNLOCK / sleep steps.
// Real time is only measured: every request is stamped just before and just after the call into the server, every
// reply inside the result callback. Nothing the executor does depends on a measured time, except that it stops
// observing early once nothing is outstanding any more (the script itself is never altered).
//
// Notes for whoever reads the stamps:
//   * at_us is the monotonic clock relative to the start of the case; unix_s is the wall-clock second of the same
//     instant; srv_s is LockDB.currentTime (the server's sampled clock) read immediately BEFORE the stamp, so
//     srv_s <= unix_s always and unix_s - srv_s is how stale the server's sampled clock was.
//   * gid is the goroutine that produced the stamp: the trigger of an asynchronous grant is the previous stamp of
//     the same goroutine (EXPRIED callback -> wake-up pass -> SUCCED callback run in one goroutine; an unlock's
//     wake-up pass runs inside the script goroutine's call).

import (
	"fmt"
	"runtime"
	"sort"
	"strings"
	"sync"
	"sync/atomic"
	"time"

	"github.com/snower/slock/protocol"
)

const (
	rTFms        = int(protocol.TIMEOUT_FLAG_MILLISECOND_TIME)
	rEFms        = int(protocol.EXPRIED_FLAG_MILLISECOND_TIME)
	rTFmin       = int(protocol.TIMEOUT_FLAG_MINUTE_TIME)
	rEFmin       = int(protocol.EXPRIED_FLAG_MINUTE_TIME)
	rEFunlimited = int(protocol.EXPRIED_FLAG_UNLIMITED_EXPRIED_TIME)
	rFupdate     = int(protocol.LOCK_FLAG_UPDATE_WHEN_LOCKED)

	rMaxCaseMs     = 7000 // hard cap of script + tail
	rGraceMs       = 120  // keep observing this long after nothing is outstanding any more
	rLoadLimit     = 200 * time.Millisecond
	rMinSlack      = 50 * time.Millisecond
	rMsGranularity = 2 * time.Millisecond // a millisecond timer may truncate both "now" readings to whole ms

	// A period longer than rLongMs is not waited for: the request / hold is only WATCHED for a window after it was set,
	// long enough for every hand-over between the timer structures (at most MILLISECOND_QUEUE_LENGTH ms on the millisecond
	// wheel, then the next second tick; a second-granularity entry is examined at the next one or two ticks). An answer
	// before the sound lower bound is the violation; what is still pending at the end is abandoned with the instance.
	rLongMs        = 4000
	rWatchMsFlagMs = MILLISECOND_QUEUE_LENGTH + 1100
	rWatchSecMs    = 2200
)

type rStep struct {
	K   string `json:"k"` // lock | unlock | sleep
	C   int    `json:"c,omitempty"`
	Key int    `json:"key,omitempty"`
	Id  int    `json:"id,omitempty"`
	F   int    `json:"f,omitempty"`
	T   int    `json:"t,omitempty"`
	TF  int    `json:"tf,omitempty"`
	E   int    `json:"e,omitempty"`
	EF  int    `json:"ef,omitempty"`
	Cnt int    `json:"cnt,omitempty"`
	Rc  int    `json:"rc,omitempty"`
	D   int    `json:"d,omitempty"` // sleep: milliseconds
}

func (s rStep) String() string {
	switch s.K {
	case "sleep":
		return fmt.Sprintf("sleep %dms", s.D)
	case "lock":
		return fmt.Sprintf("lock c%d k%d id%d flag=%#x T=%s E=%s count=%d rcount=%d", s.C, s.Key, s.Id, s.F, rDurName(s.T, s.TF, false), rDurName(s.E, s.EF, s.EF&rEFunlimited != 0), s.Cnt, s.Rc)
	case "unlock":
		return fmt.Sprintf("unlock c%d k%d id%d rcount=%d", s.C, s.Key, s.Id, s.Rc)
	}
	return s.K
}

func rDurName(v int, flag int, unlimited bool) string {
	if unlimited {
		return "unlimited"
	}
	if flag&rTFms != 0 { // the millisecond and minute bits have the same values in both flag words
		return fmt.Sprintf("%dms", v)
	}
	if flag&rTFmin != 0 {
		return fmt.Sprintf("%dmin", v)
	}
	return fmt.Sprintf("%ds", v)
}

// rDurMs: a Timeout / Expried value in milliseconds (millisecond flag wins over the minute flag, as in the server).
func rDurMs(v int, flag int) int64 {
	switch {
	case flag&rTFms != 0:
		return int64(v)
	case flag&rTFmin != 0:
		return int64(v) * 60000
	}
	return int64(v) * 1000
}

// rWatchMs: how long a period of d ms is observed after it was set (see rLongMs).
func rWatchMs(d int64, flag int) int64 {
	if d <= rLongMs {
		return d
	}
	if flag&rTFms != 0 {
		return rWatchMsFlagMs
	}
	return rWatchSecMs
}

// rCase deliberately shares no JSON field name with engine A's aCase / engine B's bCase (their replay loaders skip
// files whose "ops" / "threads" are absent).
type rCase struct {
	Engine   string  `json:"engine"`  // always "R"
	Profile  string  `json:"profile"` // C05 | C06 (generator profile, informational)
	DbConc   int     `json:"dbconc"`
	AofSecs  int     `json:"aofsecs"`  // db_lock_aof_time
	NClients int     `json:"nclients"` // 1..3
	PhaseMs  int     `json:"phase_ms"` // >=0: the script starts at this offset inside a wall-clock second; -1: wherever
	Script   []rStep `json:"script"`
}

func (c *rCase) fingerprint() uint64 {
	var sb strings.Builder
	for _, s := range c.Script {
		sb.WriteString(s.String())
		sb.WriteByte(';')
	}
	return vHash("R", c.DbConc, c.AofSecs, c.NClients, c.PhaseMs/50, sb.String())
}

func (c *rCase) String() string {
	var sb strings.Builder
	fmt.Fprintf(&sb, "dbconc=%d aofsecs=%d clients=%d phase=%d\n", c.DbConc, c.AofSecs, c.NClients, c.PhaseMs)
	for i, s := range c.Script {
		fmt.Fprintf(&sb, "  #%d %v\n", i, s)
	}
	return sb.String()
}

type rEv struct {
	Seq     int    `json:"seq"`
	Kind    string `json:"kind"` // send | ret | reply | sleep
	Step    int    `json:"step"`
	AtUs    int64  `json:"at_us"`
	UnixS   int64  `json:"unix_s"`
	SrvS    int64  `json:"srv_s"`
	FracNs  int64  `json:"frac_ns,omitempty"` // sub-second part of the wall-clock reading
	Gid     int64  `json:"gid"`
	Res     int    `json:"res,omitempty"`
	ResName string `json:"res_name,omitempty"`
	LCount  int    `json:"lcount,omitempty"`
	LRCount int    `json:"lrcount,omitempty"`
	Client  int    `json:"client,omitempty"`
	EndUs   int64  `json:"end_us,omitempty"` // sleep: when it returned

	at time.Duration
}

type rRun struct {
	c         *rCase
	start     time.Time
	db        *LockDB
	scriptGid int64
	mu        sync.Mutex
	evs       []*rEv
	done      int32

	MaxOvershootUs int64  `json:"calibration_max_overshoot_us"`
	SleepOverUs    int64  `json:"script_sleep_max_overshoot_us"`
	StallUs        int64  `json:"observed_stall_us"` // stamp -> record, and gaps between consecutive stamps of one goroutine
	EndUs          int64  `json:"observed_until_us"`
	WallDriftUs    int64  `json:"wall_vs_monotonic_drift_us"`
	Discarded      string `json:"discarded,omitempty"`
	Err            string `json:"error,omitempty"`
	Events         []*rEv `json:"events"`
	Panic          string `json:"panic,omitempty"`
	TailCapMs      int    `json:"tail_cap_ms"`
	StoppedEarly   bool   `json:"stopped_when_idle"`
	StartPhaseMs   int64  `json:"start_phase_ms"` // offset of the script's start inside its wall-clock second
}

func rGid() int64 {
	var b [48]byte
	n := runtime.Stack(b[:], false)
	// "goroutine 123 ["
	var id int64
	for i := 10; i < n; i++ {
		ch := b[i]
		if ch < '0' || ch > '9' {
			break
		}
		id = id*10 + int64(ch-'0')
	}
	return id
}

func (r *rRun) stamp(kind string, step int) *rEv {
	srv := r.db.currentTime // before the wall-clock reading: srv <= unix second of the stamp
	now := time.Now()
	ev := &rEv{Kind: kind, Step: step, SrvS: srv, UnixS: now.Unix(), FracNs: int64(now.Nanosecond()), Gid: rGid(), at: now.Sub(r.start)}
	ev.AtUs = int64(ev.at / time.Microsecond)
	return ev
}

func (r *rRun) record(ev *rEv) {
	r.mu.Lock()
	ev.Seq = len(r.evs)
	r.evs = append(r.evs, ev)
	// a running goroutine that was descheduled between taking the stamp and getting here: a direct sample of how long
	// this machine stalls running (not sleeping) goroutines
	if d := int64((time.Since(r.start) - ev.at) / time.Microsecond); d > r.StallUs && ev.Kind != "sleep" {
		r.StallUs = d
	}
	r.mu.Unlock()
}

func (r *rRun) onReply(client int, cmd *protocol.LockCommand, result uint8, lcount uint16, lrcount uint8) {
	ev := r.stamp("reply", aReqIdx(cmd.RequestId))
	if atomic.LoadInt32(&r.done) != 0 {
		return
	}
	ev.Res, ev.ResName, ev.LCount, ev.LRCount, ev.Client = int(result), aResultName(result), int(lcount), int(lrcount), client
	r.record(ev)
}

func (r *rRun) snapshot() []*rEv {
	r.mu.Lock()
	defer r.mu.Unlock()
	return append([]*rEv{}, r.evs...)
}

// rNewInst: as vNewInst (real loops) but database 0 is also created while the creation mutex is held, because
// NewLockDB reads the package-global Config that the next instance's NewSLock replaces.
func rNewInst(c *rCase) (*vInst, *LockDB, error) {
	vInstMu.Lock()
	defer vInstMu.Unlock()
	o := vInstOpts{DataDir: vScratchDir("er"), DBConcurrent: uint(c.DbConc), DBLockAofTime: uint(c.AofSecs)}
	atomic.StoreInt32(&vNoCheckLoop, 0)
	slock := NewSLock(vConfig(o), vQuietLogger())
	server := NewServer(slock)
	if err := slock.Init(server); err != nil {
		return nil, nil, err
	}
	db := slock.GetOrNewDB(0)
	return &vInst{slock, server, o.DataDir, o}, db, nil
}

// rScriptNominalMs: duration of the script if every sleep were exact and requests took no time.
func rScriptNominalMs(c *rCase) (total int, maxT int, maxE int) {
	for _, s := range c.Script {
		switch s.K {
		case "sleep":
			total += s.D
		case "lock":
			if t := int(rWatchMs(rDurMs(s.T, s.TF), s.TF)); t > maxT {
				maxT = t
			}
			if s.EF&rEFunlimited == 0 {
				if e := int(rWatchMs(rDurMs(s.E, s.EF), s.EF)); e > maxE {
					maxE = e
				}
			}
		}
	}
	return
}

// rExec runs the case once. It never judges.
func rExec(c *rCase) (run *rRun) {
	run = &rRun{c: c}
	defer func() {
		if p := recover(); p != nil {
			run.Panic = fmt.Sprintf("%v\n%s", p, vRepoFrames())
		}
	}()
	if c.NClients < 1 || c.NClients > 3 || len(c.Script) == 0 || len(c.Script) > 40 {
		run.Err = "malformed case"
		return
	}
	inst, db, err := rNewInst(c)
	if err != nil {
		run.Err = "instance: " + err.Error()
		return
	}
	run.db = db
	// Clients are never closed while the instance lives: MemWaiterServerProtocol.Close re-points its proxies at the
	// package-global defaultServerProtocol, which belongs to whichever instance was created last in this process.
	clients := make([]*MemWaiterServerProtocol, c.NClients)
	for i := range clients {
		idx := i
		p := NewMemWaiterServerProtocol(inst.slock)
		_ = p.SetResultCallback(func(_ *MemWaiterServerProtocol, cmd *protocol.LockCommand, result uint8, lcount uint16, lrcount uint8, _ []byte) error {
			run.onReply(idx, cmd, result, lcount, lrcount)
			return nil
		})
		clients[i] = p
	}
	defer func() {
		atomic.StoreInt32(&run.done, 1)
		inst.vClose(false, true)
	}()

	// calibration: how late does this process wake up from a 1 ms sleep while the case runs?
	var calStop int32
	var calMax int64
	calDone := make(chan struct{})
	go func() {
		defer close(calDone)
		for atomic.LoadInt32(&calStop) == 0 {
			t0 := time.Now()
			time.Sleep(time.Millisecond)
			over := int64(time.Since(t0)-time.Millisecond) / int64(time.Microsecond)
			if over > atomic.LoadInt64(&calMax) {
				atomic.StoreInt64(&calMax, over)
			}
		}
	}()

	if c.PhaseMs >= 0 {
		nowMs := time.Now().UnixNano() / 1e6
		d := (int64(c.PhaseMs%1000) - nowMs%1000 + 1000) % 1000
		time.Sleep(time.Duration(d) * time.Millisecond)
	}
	run.start = time.Now()
	wall0 := run.start.UnixNano()
	run.StartPhaseMs = (wall0 / 1e6) % 1000
	run.scriptGid = rGid()

	nominal, maxT, maxE := rScriptNominalMs(c)
	tailCap := maxT + maxE + 2300
	if nominal+tailCap > rMaxCaseMs {
		tailCap = rMaxCaseMs - nominal
	}
	if tailCap < 300 {
		tailCap = 300
	}
	run.TailCapMs = tailCap

	for i, s := range c.Script {
		switch s.K {
		case "sleep":
			ev := run.stamp("sleep", i)
			d := time.Duration(s.D) * time.Millisecond
			time.Sleep(d)
			end := time.Since(run.start)
			ev.EndUs = int64(end / time.Microsecond)
			run.record(ev)
			if over := int64((end - ev.at - d) / time.Microsecond); over > run.SleepOverUs {
				run.SleepOverUs = over
			}
		case "lock", "unlock":
			cmd := &protocol.LockCommand{}
			cmd.Magic, cmd.Version = protocol.MAGIC, protocol.VERSION
			cmd.CommandType = protocol.COMMAND_LOCK
			if s.K == "unlock" {
				cmd.CommandType = protocol.COMMAND_UNLOCK
			}
			cmd.RequestId = aReqId(i)
			cmd.Flag = uint8(s.F)
			cmd.LockId, cmd.LockKey = aLockId(s.Id), aKey(s.Key)
			cmd.TimeoutFlag, cmd.Timeout = uint16(s.TF), uint16(s.T)
			cmd.ExpriedFlag, cmd.Expried = uint16(s.EF), uint16(s.E)
			cmd.Count, cmd.Rcount = uint16(s.Cnt), uint8(s.Rc)
			p := clients[s.C%len(clients)]
			run.record(run.stamp("send", i))
			_ = p.ProcessLockCommand(cmd)
			run.record(run.stamp("ret", i))
		default:
			run.Err = "unknown step kind " + s.K
			return
		}
		if time.Duration(run.SleepOverUs)*time.Microsecond > rLoadLimit {
			run.Discarded = "script not on schedule: a sleep overshot by more than 200 ms"
			break
		}
	}

	// tail: observe until nothing is outstanding (plus a grace period) or until the cap
	if run.Discarded == "" {
		tailStart := time.Now()
		idleSince := time.Duration(-1)
		for {
			el := time.Since(tailStart)
			if el >= time.Duration(tailCap)*time.Millisecond {
				break
			}
			if !rOutstanding(c, run.snapshot(), time.Since(run.start)) {
				if idleSince < 0 {
					idleSince = el
				} else if el-idleSince >= rGraceMs*time.Millisecond {
					run.StoppedEarly = true
					break
				}
			} else {
				idleSince = -1
			}
			time.Sleep(10 * time.Millisecond)
		}
	}
	endT := time.Now()
	atomic.StoreInt32(&run.done, 1)
	atomic.StoreInt32(&calStop, 1)
	<-calDone
	run.EndUs = int64(endT.Sub(run.start) / time.Microsecond)
	run.WallDriftUs = ((endT.UnixNano() - wall0) - int64(endT.Sub(run.start))) / 1000
	run.MaxOvershootUs = atomic.LoadInt64(&calMax)
	run.Events = run.snapshot()
	sort.SliceStable(run.Events, func(i, j int) bool { return run.Events[i].Seq < run.Events[j].Seq })
	return
}

// rOutstanding: is any lock request still unanswered, or any hold with a finite expiry still live (by the replies)?
func rOutstanding(c *rCase, evs []*rEv, now time.Duration) bool {
	m := rBuildModel(c, evs)
	for _, q := range m.reqs {
		if q != nil && q.op.K == "lock" && q.send != nil && len(q.terminal) == 0 {
			d := rDurMs(q.op.T, q.op.TF)
			if d <= rLongMs || now < q.send.at+time.Duration(rWatchMs(d, q.op.TF)+100)*time.Millisecond {
				return true
			}
		}
	}
	for _, h := range m.holds {
		if !h.live() {
			continue
		}
		l := h.last()
		if !l.unlimited() {
			d := rDurMs(l.req.op.E, l.req.op.EF)
			if d <= rLongMs || now < l.ub.at+time.Duration(rWatchMs(d, l.req.op.EF)+100)*time.Millisecond {
				return true
			}
			continue
		}
		// unlimited + millisecond flag: keep watching until the (ignored) Expried value has passed ("now" only decides
		// when to stop observing)
		if l.ms() && now < l.ub.at+time.Duration(l.req.op.E)*time.Millisecond+150*time.Millisecond {
			return true
		}
	}
	return false
}
