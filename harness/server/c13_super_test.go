package server

// C13 process isolation. A panic in a goroutine that the server starts on its own (lock executor,
// timeout / expiry sweeps, AOF channels) cannot be recovered by the harness: the test process dies,
// exactly as the real server would. To turn such a death into a reported violation with a
// reproduction, the rapid loop runs in a child process of the test binary (w13Supervise) that leaves
// the case it is executing in $VERIF_FAILDIR/<test>.inflight.json; replays run one case per child
// (w13ReplayIsolated). VERIF_C13_NOFORK=1 runs everything in-process (debugging).

import (
	"bytes"
	"encoding/json"
	"fmt"
	"io"
	"os"
	"os/exec"
	"path/filepath"
	"regexp"
	"runtime/debug"
	"strconv"
	"strings"
	"sync"
	"syscall"
	"testing"
	"time"
)

// w13ChildArgs: the arguments of this process with -test.run narrowed to one test; skip > 0 continues a
// run whose child died after "skip" cases (remaining budget, fresh seed).
func w13ChildArgs(test string, skip int) []string {
	var out []string
	args := os.Args[1:]
	checks, seed := -1, uint64(0)
	for i := 0; i < len(args); i++ {
		a := args[i]
		name, val, hasVal := a, "", false
		if j := strings.Index(a, "="); j >= 0 {
			name, val, hasVal = a[:j], a[j+1:], true
		}
		name = strings.TrimPrefix(name, "-")
		name = "-" + strings.TrimPrefix(name, "-")
		switch name {
		case "-test.run", "-rapid.checks", "-rapid.seed":
			if !hasVal && i+1 < len(args) {
				i++
				val = args[i]
			}
			if name == "-rapid.checks" {
				checks, _ = strconv.Atoi(val)
			} else if name == "-rapid.seed" {
				seed, _ = strconv.ParseUint(val, 10, 64)
			}
			continue
		}
		out = append(out, a)
	}
	if checks >= 0 {
		if checks -= skip; checks < 1 {
			checks = 1
		}
		out = append(out, fmt.Sprintf("-rapid.checks=%d", checks))
	}
	if seed != 0 {
		out = append(out, fmt.Sprintf("-rapid.seed=%d", seed+uint64(skip)))
	}
	return append(out, "-test.run=^"+test+"$")
}

type w13Tee struct {
	buf bytes.Buffer
	w   io.Writer
}

func (t *w13Tee) Write(p []byte) (int, error) {
	t.buf.Write(p)
	return t.w.Write(p)
}

// w13CrashTail cuts the runtime's crash report out of a process output.
func w13CrashTail(out string) (head string, stack string, ok bool) {
	out = "\n" + out
	idx := -1
	for _, marker := range []string{"\npanic: ", "\nfatal error: ", "\nunexpected fault address", "\nSIGSEGV"} {
		if i := strings.LastIndex(out, marker); i > idx {
			idx = i
		}
	}
	if idx < 0 {
		return "", "", false
	}
	rest := out[idx:]
	rest = strings.TrimLeft(rest, "\n")
	head = rest
	if i := strings.Index(rest, "\n"); i >= 0 {
		head = rest[:i]
	}
	if strings.Contains(head, "test timed out") {
		return "", "", false
	}
	g := strings.Index(rest, "\ngoroutine ")
	if g < 0 {
		return head, "", true
	}
	stack = rest[g+1:]
	// only the first (crashing) goroutine
	if i := strings.Index(stack, "\n\ngoroutine "); i >= 0 {
		stack = stack[:i]
	}
	return head, stack, true
}

var w13FuncLineRe = regexp.MustCompile(`^github\.com/snower/slock/([A-Za-z0-9_/]+)\.(.+?)\(`)

// w13OutermostRepoFunc names the entry function of the crashing goroutine (e.g. (*LockDBExecutor).Run).
func w13OutermostRepoFunc(stack string) string {
	last := "goroutine"
	lines := strings.Split(stack, "\n")
	for i, l := range lines {
		m := w13FuncLineRe.FindStringSubmatch(l)
		if m == nil || (i+1 < len(lines) && strings.Contains(lines[i+1], "zz_verif_")) {
			continue
		}
		fn := strings.TrimSuffix(m[2], "(...)")
		fn = regexp.MustCompile(`\.func\d+(\.\d+)*$`).ReplaceAllString(fn, "")
		fn = strings.NewReplacer("(*", "", ")", "").Replace(fn)
		last = fn
	}
	return last
}

// w13BackgroundKey keys a death of the whole process: "C13:<binary|text|background>:<entry function of
// the dying goroutine>:<innermost repository function>". The first field says whether the goroutine
// was a connection handler (a fatal error such as a stack overflow cannot be recovered even there).
func w13BackgroundKey(stack string) string {
	kind := "background"
	if strings.Contains(stack, "server.(*Server).handle(") {
		kind = "text"
		if strings.Contains(stack, "(*BinaryServerProtocol)") && !strings.Contains(stack, "(*TextServerProtocol)") {
			kind = "binary"
		}
	}
	return "C13:" + kind + ":" + w13OutermostRepoFunc(stack) + ":" + w13FirstRepoFunc(stack)
}

func w13MergeChildStats(path string) {
	b, err := os.ReadFile(path)
	if err != nil {
		return
	}
	var m map[string]*vStat
	if json.Unmarshal(b, &m) != nil {
		return
	}
	for name, cs := range m {
		s := vstat(name)
		vStatsMu.Lock()
		s.Evaluations += cs.Evaluations
		s.Nontrivial += cs.Nontrivial
		for k, v := range cs.Classes {
			s.Classes[k] += v
		}
		for k, v := range cs.Excluded {
			s.Excluded[k] += v
		}
		for k, v := range cs.Known {
			s.Known[k] += v
		}
		for _, smp := range cs.Samples {
			if len(s.Samples) < 4 {
				s.Samples = append(s.Samples, smp)
			}
		}
		for _, f := range cs.Fingerprints {
			if v, perr := strconv.ParseUint(f, 36, 64); perr == nil && len(s.fp) < vMaxFingerprints {
				s.fp[v] = struct{}{}
			}
		}
		vStatsMu.Unlock()
	}
	_ = os.Remove(path)
}

func w13Env(extra map[string]string) []string {
	var env []string
	for _, kv := range os.Environ() {
		k := kv
		if i := strings.Index(kv, "="); i >= 0 {
			k = kv[:i]
		}
		if _, ok := extra[k]; ok {
			continue
		}
		env = append(env, kv)
	}
	for k, v := range extra {
		env = append(env, k+"="+v)
	}
	return env
}

// w13Supervise returns false if the caller should run the property in this process.
func w13Supervise(t *testing.T, test string) bool {
	if os.Getenv("VERIF_C13_CHILD") != "" || os.Getenv("VERIF_C13_NOFORK") != "" {
		return false
	}
	skip, unattributed := 0, 0
	for {
		again, started := w13SuperviseOnce(t, test, skip, &unattributed)
		if !again {
			break
		}
		skip += started
	}
	if unattributed > w13MaxAnomalies {
		// this many deaths that nothing reproduces are systematic: never a verdict
		fmt.Printf("VERIF-INCONCLUSIVE C13 %d deaths of a server goroutine that no recent case reproduces (reports in $VERIF_FAILDIR/C13.anomaly-*.json, printed above)\n", unattributed)
		vFlush()
		os.Exit(3)
	}
	return true
}

// A death of a goroutine that the server started itself which none of the last 8 cases reproduces in
// isolation (each tried up to 3 times) is an "unreproduced anomaly": counted, reported (VERIF-ANOMALY
// line, $VERIF_FAILDIR/C13.anomaly-<pid>-<n>.json with key, stack and the 8 cases), not judged; a new
// child runs the rest of the budget and the shard ends normally. A death that a saved case reproduces
// is a violation with that case as replay.
const w13MaxAnomalies = 5

// w13SuperviseOnce runs one child. again = the child died of something that could not be attributed and
// the rest of the budget should be run by a new child; started = cases the dead child had started.
func w13SuperviseOnce(t *testing.T, test string, skip int, unattributed *int) (again bool, started int) {
	statsPath := os.Getenv("VERIF_STATS")
	// MALLOC_ARENA_MAX: the binary links libc (cgo), every OS thread would reserve a 64 MiB malloc arena and
	// 40 threads (blocking file I/O of the AOF) alone take 2.5 GiB of the address-space limit
	extra := map[string]string{"VERIF_C13_CHILD": "1", "MALLOC_ARENA_MAX": "2"}
	if statsPath != "" {
		extra["VERIF_STATS"] = statsPath + ".child"
	}
	faildir := os.Getenv("VERIF_FAILDIR")
	if faildir == "" {
		d, err := os.MkdirTemp("", "c13-fail")
		if err == nil {
			faildir = d
			extra["VERIF_FAILDIR"] = d
			defer os.RemoveAll(d)
		}
	}
	cmd := exec.Command(os.Args[0], w13ChildArgs(test, skip)...)
	cmd.Env = w13Env(extra)
	tee := &w13Tee{w: os.Stdout}
	cmd.Stdout, cmd.Stderr = tee, tee
	err := cmd.Run()
	out := tee.buf.String()
	if statsPath != "" {
		w13MergeChildStats(statsPath + ".child")
	}
	inflight := filepath.Join(faildir, test+".inflight.json")
	defer os.Remove(inflight)
	if err == nil {
		return false, 0
	}
	if m := regexp.MustCompile(`VERIF-FAIL key=(\S+) ([^\n]*)`).FindAllStringSubmatch(out, -1); len(m) > 0 {
		// an ordinary failure: the child has written <test>.case.json already
		last := m[len(m)-1]
		t.Fatalf("VERIF-FAIL key=%s %s", last[1], last[2])
		return false, 0
	}
	if strings.Contains(out, "panic: test timed out") {
		fmt.Println("VERIF-INCONCLUSIVE C13 child timed out")
		vFlush()
		os.Exit(2)
	}
	head, stack, crashed := w13CrashTail(out)
	if !crashed {
		if strings.Contains(out, "VERIF-INCONCLUSIVE") {
			vFlush()
			os.Exit(3)
		}
		fmt.Printf("VERIF-INCONCLUSIVE C13 child ended with %v without a test failure or a crash report\n", err)
		vFlush()
		os.Exit(3)
	}
	if big, oom := w13OOM(head, stack); oom && !big {
		// memory exhaustion without an oversized request: accumulated harness state, not a verdict
		fmt.Printf("VERIF-INCONCLUSIVE C13 child ran out of memory (%s)\n", head)
		vFlush()
		os.Exit(3)
	}
	// the process died: a goroutine of the server panicked outside any connection handler (or hit a
	// fatal error inside one)
	key := w13BackgroundKey(stack)
	var fl w13InflightFile
	b, rerr := os.ReadFile(inflight)
	if rerr != nil || json.Unmarshal(b, &fl) != nil || len(fl.Recent) == 0 {
		vFail(t, test, key, nil, "server goroutine crashed the process (%s), the case in flight is unknown\n%s", head, w13Head(stack, 30))
		return false, 0
	}
	if w13KnownKeys().covers(key) {
		// cannot continue behind it in this process model: report it as a known hit and stop
		vstat(test).KnownHit(key)
		fmt.Printf("VERIF-NOTE C13 known finding %s killed the child, the remaining budget of this shard is lost\n", key)
		return false, 0
	}
	last := fl.Recent[len(fl.Recent)-1]
	if strings.Contains(stack, "server.(*Server).handle(") {
		// only the connection of the case in flight has a live handler goroutine
		vFail(t, test, key, last, "a goroutine of the server crashed the process: %s; the dying goroutine is the connection handler of the case in flight\n%s", head, w13Head(stack, 30))
		return false, 0
	}
	// a goroutine the server started on its own (sweep, executor, AOF channel): it may act on what an
	// earlier case left behind, so the last cases are tried one by one in isolated processes, newest first
	artefact := w13GlobalSwapArtefact(head, stack)
	for try := 1; try <= 3 && !artefact; try++ {
		// the isolated children of one round run side by side (each lingers 3.5 s)
		reps, rkeys := make([]bool, len(fl.Recent)), make([]string, len(fl.Recent))
		var wg sync.WaitGroup
		for i := range fl.Recent {
			wg.Add(1)
			go func(i int) {
				defer wg.Done()
				reps[i], rkeys[i], _ = w13ReplayIsolatedLinger(fl.Recent[i], 3500)
			}(i)
		}
		wg.Wait()
		for i := len(fl.Recent) - 1; i >= 0; i-- {
			rep, rkey := reps[i], rkeys[i]
			if rep {
				note := fmt.Sprintf("case %d before the end of the child reproduces the crash in an isolated process (try %d)", len(fl.Recent)-1-i, try)
				if rkey != key {
					note += " (as " + rkey + ")"
				}
				vFail(t, test, key, fl.Recent[i], "a goroutine of the server crashed the process: %s; %s\n%s", head, note, w13Head(stack, 30))
				return false, 0
			}
		}
	}
	*unattributed++
	rep := map[string]interface{}{"test": test, "key": key, "message": head + "\n" + w13Head(stack, 60), "recent": fl.Recent}
	if rb, merr := json.MarshalIndent(rep, "", " "); merr == nil {
		_ = os.WriteFile(filepath.Join(faildir, fmt.Sprintf("C13.anomaly-%d-%d.json", os.Getpid(), *unattributed)), rb, 0644)
	}
	if artefact {
		fmt.Printf("VERIF-ANOMALY C13 harness artefact (%s): %s in ProxyServerProtocol.ProcessLockResultCommandLocked: a sweep of the previous instance read the package global defaultServerProtocol while the next instance replaced it; not judged, the shard continues\n", key, head)
		vstat(test).Class("anomaly: harness artefact, global defaultServerProtocol replaced under a sweep of the previous instance (not judged)", 1)
	} else {
		fmt.Printf("VERIF-ANOMALY C13 unreproduced death of a server goroutine (%s): %s; none of the last %d cases reproduces it in isolation (3 tries each); not judged, the shard continues\n%s\n", key, head, len(fl.Recent), w13Head(stack, 30))
		vstat(test).Class("unreproduced anomaly: death of a server goroutine that no recent case reproduces (not judged)", 1)
	}
	return *unattributed <= w13MaxAnomalies, fl.Started
}

// w13GlobalSwapArtefact: the one process death that is known to be caused by the harness itself (several
// SLock instances per process, see w13NextInstance).
func w13GlobalSwapArtefact(head, stack string) bool {
	return strings.Contains(head, "unlock of unlocked mutex") && strings.Contains(stack, "(*ProxyServerProtocol).ProcessLockResultCommandLocked")
}

var w13MallocRe = regexp.MustCompile(`runtime\.(?:mallocgc|makeslice|growslice)\((0x[0-9a-f]+)`)

// w13OOM: did the process die of memory exhaustion, and if so, was the failing request itself
// oversized (>= 256 MiB, i.e. driven by a length field of the input)?
func w13OOM(head, stack string) (big bool, oom bool) {
	if !strings.Contains(head, "out of memory") && !strings.Contains(head, "cannot allocate memory") {
		return false, false
	}
	if m := w13MallocRe.FindStringSubmatch(stack); m != nil {
		if n, err := strconv.ParseUint(m[1], 0, 64); err == nil && n >= 1<<28 {
			return true, true
		}
	}
	return false, true
}

// w13LimitAddressSpace lowers RLIMIT_AS of this process (never raises it) so that an allocation whose
// size comes from a length field of the input fails the same way everywhere.
func w13LimitAddressSpace(mb int) {
	var cur syscall.Rlimit
	if mb <= 0 || syscall.Getrlimit(syscall.RLIMIT_AS, &cur) != nil {
		return
	}
	want := uint64(mb) << 20
	if cur.Cur != ^uint64(0) && cur.Cur <= want {
		debug.SetMemoryLimit(int64(cur.Cur) / 4)
		return
	}
	// keep the garbage collector well below the limit: address space once reserved for the heap is never
	// given back, and a long shard otherwise drifts to 5 GiB of reservations with 0.6 GiB of live data
	debug.SetMemoryLimit(int64(want) / 4)
	lim := syscall.Rlimit{Cur: want, Max: cur.Max}
	if cur.Max != ^uint64(0) && cur.Max < want {
		lim.Cur = cur.Max
	}
	_ = syscall.Setrlimit(syscall.RLIMIT_AS, &lim)
}

func w13Head(s string, n int) string {
	lines := strings.Split(s, "\n")
	if len(lines) > n {
		lines = lines[:n]
	}
	return strings.Join(lines, "\n")
}

type w13ChildResult struct {
	Failed       bool   `json:"failed"`
	Key          string `json:"key,omitempty"`
	Msg          string `json:"msg,omitempty"`
	Inconclusive string `json:"inconclusive,omitempty"`
}

// w13ReplayIsolated executes one case in a child process and reports whether it violates the property.
func w13ReplayIsolated(c *w13Case) (reproduced bool, key string, msg string) {
	return w13ReplayIsolatedLinger(c, 0)
}

// w13ReplayIsolatedLinger: lingerMs > 0 keeps the child alive that long after the case (timers up to 3 s).
func w13ReplayIsolatedLinger(c *w13Case, lingerMs int) (reproduced bool, key string, msg string) {
	if os.Getenv("VERIF_C13_NOFORK") != "" {
		info, fail := w13RunCase(c)
		if info.Inconclusive != "" {
			return false, "", "inconclusive: " + info.Inconclusive
		}
		if fail != nil {
			return true, fail.Key, fail.Msg
		}
		return false, "", "no violation"
	}
	f, err := os.CreateTemp("", "c13-case-*.json")
	if err != nil {
		return false, "", "cannot create temp file: " + err.Error()
	}
	defer os.Remove(f.Name())
	b, _ := json.Marshal(c)
	_, _ = f.Write(b)
	_ = f.Close()
	cmd := exec.Command(os.Args[0], "-test.run=^TestC13_ChildExec$", "-test.v", "-test.timeout=120s")
	env := map[string]string{"VERIF_C13_CHILD": "1", "MALLOC_ARENA_MAX": "2", "VERIF_C13_CASEFILE": f.Name(), "VERIF_STATS": "", "VERIF_KNOWN_KEYS": "", "VERIF_FAILDIR": ""}
	if lingerMs > 0 {
		env["VERIF_C13_CHILD_LINGER_MS"] = strconv.Itoa(lingerMs)
	}
	cmd.Env = w13Env(env)
	var buf bytes.Buffer
	cmd.Stdout, cmd.Stderr = &buf, &buf
	rerr := cmd.Run()
	out := buf.String()
	if m := regexp.MustCompile(`(?m)^W13-RESULT (.*)$`).FindStringSubmatch(out); m != nil {
		var r w13ChildResult
		if json.Unmarshal([]byte(m[1]), &r) == nil {
			if r.Inconclusive != "" {
				return false, "", "inconclusive: " + r.Inconclusive
			}
			if rerr == nil || r.Failed {
				if r.Failed {
					return true, r.Key, r.Msg
				}
				return false, "", "no violation"
			}
		}
	}
	if head, stack, crashed := w13CrashTail(out); crashed {
		if big, oom := w13OOM(head, stack); oom && !big {
			return false, "", "inconclusive: child ran out of memory: " + head
		}
		return true, w13BackgroundKey(stack), fmt.Sprintf("a goroutine of the server crashed the process: %s\n%s", head, w13Head(stack, 30))
	}
	return false, "", fmt.Sprintf("child ended with %v and no result: %s", rerr, w13Head(out, 20))
}

// TestC13_ChildExec is the body of the isolated child; it does nothing unless a case file is passed.
func TestC13_ChildExec(t *testing.T) {
	path := os.Getenv("VERIF_C13_CASEFILE")
	if path == "" {
		return
	}
	b, err := os.ReadFile(path)
	var c w13Case
	if err == nil {
		err = json.Unmarshal(b, &c)
	}
	if err != nil {
		t.Fatalf("cannot read case: %v", err)
	}
	w13LimitAddressSpace(vEnvInt("VERIF_C13_CHILD_AS_MB", 3072))
	info, fail := w13RunCase(&c)
	// give timers and executors of the instance the chance to act on what the case left behind
	time.Sleep(time.Duration(vEnvInt("VERIF_C13_CHILD_LINGER_MS", 400)) * time.Millisecond)
	r := w13ChildResult{Inconclusive: info.Inconclusive}
	if fail != nil {
		r.Failed, r.Key, r.Msg = true, fail.Key, fail.Msg
	}
	rb, _ := json.Marshal(r)
	fmt.Printf("W13-RESULT %s\n", rb)
}
