package server

// C14 (server part): the server carries a second, hand-inlined copy of the lock-frame codec
// (BinaryServerProtocol.ProcessParse for COMMAND_LOCK / COMMAND_UNLOCK and ProcessLockResultCommand). This file
// compares it with protocol.LockCommand.Decode / protocol.LockResultCommand.Encode:
//   srv-decode  the same 64 bytes give the same command fields and the same reply bytes. The decoded command is
//               observed on the unknown-database path (LOCK with DbId 0xff; UNLOCK with any DbId on an instance that
//               has no database yet): the command is answered RESULT_UNKNOWN_DB and handed to FreeLockCommand, where
//               the harness reads it back. No lock is ever taken, every other field is arbitrary.
//   srv-encode  ProcessLockResultCommand(command, result, lcount, lrcount, data) writes exactly the bytes of a
//               LockResultCommand built from the same values (+ the data frame), through the direct path with a
//               connection that accepts short writes and through the buffered path used while a read batch is processed.
//   srv-live    a short LOCK/UNLOCK program run once as binary frames and once as text commands (on two keys of one
//               live database) produces the same result fields step by step, with the text COUNT/RCOUNT = wire + 1.

import (
	"bytes"
	"encoding/hex"
	"fmt"
	"io"
	"net"
	"os"
	"sync"
	"sync/atomic"
	"testing"
	"time"

	"github.com/jessevdk/go-flags"
	"github.com/snower/slock/protocol"
	"pgregory.net/rapid"
)

type c14dOp struct {
	Unlock bool `json:"unlock,omitempty"`
	Id     int  `json:"id"`              // index into the case's lock-id pool
	Count  int  `json:"count,omitempty"` // text COUNT (wire = n-1, 0 stays 0)
	Rcount int  `json:"rcount,omitempty"`
	Expire int  `json:"expire,omitempty"` // seconds, > 0
	Flag   int  `json:"flag,omitempty"`
}

type c14dCase struct {
	Kind  string `json:"kind"` // srv-decode | srv-encode | srv-live
	Frame string `json:"frame,omitempty"`
	Data  string `json:"data,omitempty"` // data frame incl. its 4-byte length prefix ("" = none)

	Result   int   `json:"result,omitempty"`
	Lcount   int   `json:"lcount,omitempty"`
	Lrcount  int   `json:"lrcount,omitempty"`
	Buffered bool  `json:"buffered,omitempty"`
	Writes   []int `json:"writes,omitempty"` // how many bytes the connection accepts per Write call (cycled)
	Reads    []int `json:"reads,omitempty"`  // how many bytes the connection returns per Read call (cycled)

	Key string   `json:"key,omitempty"` // text key (<= 15 bytes); the binary run uses key+"B", the text run key+"T"
	Ids []string `json:"ids,omitempty"` // lock ids as text (<= 16 bytes)
	Ops []c14dOp `json:"ops,omitempty"`
}

type c14dInfo struct {
	nontrivial bool
	classes    []string
}

type c14dErr struct{ Key, Msg string }

func (e *c14dErr) Error() string { return e.Msg }

func c14dFail(key, format string, a ...interface{}) error {
	return &c14dErr{key, fmt.Sprintf(format, a...)}
}

// fake connection: scripted input, recorded output, rapid-chosen short reads / writes
type c14dConn struct {
	in     []byte
	out    []byte
	writes []int
	reads  []int
	wi, ri int
}

func (c *c14dConn) Read(b []byte) (int, error) {
	if len(c.in) == 0 {
		return 0, io.EOF
	}
	n := len(b)
	if len(c.reads) > 0 {
		if k := c.reads[c.ri%len(c.reads)]; k >= 1 && k < n {
			n = k
		}
		c.ri++
	}
	n = copy(b[:n], c.in)
	c.in = c.in[n:]
	return n, nil
}

func (c *c14dConn) Write(b []byte) (int, error) {
	n := len(b)
	if len(c.writes) > 0 {
		if k := c.writes[c.wi%len(c.writes)]; k >= 1 && k < n {
			n = k
		}
		c.wi++
	}
	c.out = append(c.out, b[:n]...)
	return n, nil
}

func (c *c14dConn) Close() error        { return nil }
func (c *c14dConn) LocalAddr() net.Addr { return &net.TCPAddr{IP: net.IPv4(127, 0, 0, 1), Port: 5658} }
func (c *c14dConn) RemoteAddr() net.Addr {
	return &net.TCPAddr{IP: net.IPv4(127, 0, 0, 1), Port: 40000}
}
func (c *c14dConn) SetDeadline(t time.Time) error      { return nil }
func (c *c14dConn) SetReadDeadline(t time.Time) error  { return nil }
func (c *c14dConn) SetWriteDeadline(t time.Time) error { return nil }

var (
	c14dOnce     sync.Once
	c14dInstance *SLock
	c14dLiveOnce sync.Once
)

// one instance per test process: leader state, no database until the live property creates db 0
func c14dSLock() *SLock {
	c14dOnce.Do(func() {
		cfg := &ServerConfig{}
		if _, err := flags.NewParser(cfg, flags.Default).ParseArgs([]string{}); err != nil {
			panic(err)
		}
		cfg.DBFastKeyCount, cfg.DBConcurrent, cfg.Log, cfg.LogLevel = 4096, 2, os.DevNull, "ERROR"
		logger, _ := InitLogger(cfg)
		c14dInstance = NewSLock(cfg, logger)
		c14dInstance.state = STATE_LEADER
	})
	return c14dInstance
}

func c14dGuard(key string, f func() (c14dInfo, error)) (info c14dInfo, err error) {
	defer func() {
		if r := recover(); r != nil {
			err = c14dFail(key, "panic: %v", r)
		}
	}()
	return f()
}

func c14dRun(c *c14dCase) (c14dInfo, error) {
	switch c.Kind {
	case "srv-decode":
		return c14dGuard("C14:server-inline-decode:panic", func() (c14dInfo, error) { return c14dRunDecode(c) })
	case "srv-encode":
		return c14dGuard("C14:server-inline-encode:panic", func() (c14dInfo, error) { return c14dRunEncode(c) })
	case "srv-live":
		return c14dGuard("C14:text-vs-binary:panic", func() (c14dInfo, error) { return c14dRunLive(c) })
	}
	return c14dInfo{}, fmt.Errorf("unknown kind %q", c.Kind)
}

func c14dNonZeroFields(frame []byte, regions [][2]int) bool {
	for _, r := range regions {
		if bytes.Equal(frame[r[0]:r[0]+r[1]], make([]byte, r[1])) {
			return false
		}
	}
	return true
}

// README request layout (see harness/protocol/c14_codec_test.go for the derivation)
var c14dReqRegions = [][2]int{{3, 16}, {19, 1}, {20, 1}, {21, 16}, {37, 16}, {53, 2}, {55, 2}, {57, 2}, {59, 2}, {61, 2}, {63, 1}}

func c14dRunDecode(c *c14dCase) (c14dInfo, error) {
	var info c14dInfo
	const key = "C14:server-inline-decode:differs-from-LockCommand.Decode"
	frame, _ := hex.DecodeString(c.Frame)
	data, _ := hex.DecodeString(c.Data)
	if len(frame) != 64 {
		return info, fmt.Errorf("bad frame")
	}
	var want protocol.LockCommand
	if err := want.Decode(frame); err != nil {
		return info, err
	}
	hasData := want.Flag&protocol.LOCK_FLAG_CONTAINS_DATA != 0
	info.nontrivial = c14dNonZeroFields(frame, c14dReqRegions)
	if want.CommandType == protocol.COMMAND_LOCK {
		info.classes = append(info.classes, "LOCK")
	} else {
		info.classes = append(info.classes, "UNLOCK")
	}
	if hasData {
		info.classes = append(info.classes, "with data frame")
	}
	conn := &c14dConn{in: append([]byte{}, data...), writes: c.Writes, reads: c.Reads}
	stream := NewStream(conn)
	sp := NewBinaryServerProtocol(c14dSLock(), stream)
	defer sp.Close()
	before := sp.freeCommandIndex
	if err := sp.ProcessParse(append([]byte{}, frame...)); err != nil {
		return info, c14dFail(key, "ProcessParse refused the frame: %v", err)
	}
	// the command came from the connection's free list (or was allocated when that was empty) and must be back on it
	if sp.freeCommandIndex < 1 || (sp.freeCommandIndex != before && before != 0) {
		return info, c14dFail(key, "command object not returned to the free list (index %d -> %d)", before, sp.freeCommandIndex)
	}
	got := *sp.freeCommands[sp.freeCommandIndex-1]
	got.Data = nil
	want.Data = nil
	if got != want {
		return info, c14dFail(key, "inlined decoder: %+v\nLockCommand.Decode: %+v\nframe %x", got, want, frame)
	}
	// reply: what LockResultCommand.Encode gives for the same command
	res := protocol.NewLockResultCommand(&want, protocol.RESULT_UNKNOWN_DB, 0, 0, want.Count, 0, want.Rcount, nil)
	exp := make([]byte, 64)
	if err := res.Encode(exp); err != nil {
		return info, err
	}
	if !bytes.Equal(conn.out, exp) {
		return info, c14dFail("C14:server-inline-encode:differs-from-LockResultCommand.Encode", "reply written %x\nLockResultCommand.Encode %x", conn.out, exp)
	}
	if len(conn.in) != 0 {
		return info, c14dFail(key, "%d bytes of the data frame left unread", len(conn.in))
	}
	return info, nil
}

func c14dRunEncode(c *c14dCase) (c14dInfo, error) {
	var info c14dInfo
	const key = "C14:server-inline-encode:differs-from-LockResultCommand.Encode"
	frame, _ := hex.DecodeString(c.Frame)
	var data []byte
	if c.Data != "" {
		data, _ = hex.DecodeString(c.Data)
	}
	var cmd protocol.LockCommand
	if err := cmd.Decode(frame); err != nil { // field carrier; the values are arbitrary
		return info, err
	}
	info.nontrivial = c14dNonZeroFields(frame, c14dReqRegions) && c.Result != 0 && c.Lcount != 0 && c.Lrcount != 0
	if data != nil {
		info.classes = append(info.classes, "with data")
	}
	if c.Buffered {
		info.classes = append(info.classes, "buffered write path")
	} else if len(c.Writes) > 0 {
		info.classes = append(info.classes, "direct path with short writes")
	}
	conn := &c14dConn{writes: c.Writes}
	stream := NewStream(conn)
	sp := NewBinaryServerProtocol(c14dSLock(), stream)
	defer sp.Close()
	if c.Buffered {
		// the state BinaryServerProtocol.Process is in while it works through a batch of buffered frames
		stream.EnsureWriterBuffer()
		atomic.StoreUint32(&sp.buffered, 1)
	}
	if err := sp.ProcessLockResultCommand(&cmd, uint8(c.Result), uint16(c.Lcount), uint8(c.Lrcount), data); err != nil {
		return info, c14dFail(key, "ProcessLockResultCommand: %v", err)
	}
	if c.Buffered {
		if err := sp.ProcessFlush(); err != nil {
			return info, c14dFail(key, "ProcessFlush: %v", err)
		}
	}
	res := protocol.NewLockResultCommand(&cmd, uint8(c.Result), 0, uint16(c.Lcount), cmd.Count, uint8(c.Lrcount), cmd.Rcount, data)
	exp := make([]byte, 64)
	if err := res.Encode(exp); err != nil {
		return info, err
	}
	exp = append(exp, data...)
	if !bytes.Equal(conn.out, exp) {
		return info, c14dFail(key, "written            %x\nLockResultCommand  %x", conn.out, exp)
	}
	var back protocol.LockResultCommand
	_ = back.Decode(conn.out[:64])
	if back.Result != uint8(c.Result) || back.Lcount != uint16(c.Lcount) || back.Lrcount != uint8(c.Lrcount) || back.Count != cmd.Count || back.Rcount != cmd.Rcount ||
		back.LockId != cmd.LockId || back.LockKey != cmd.LockKey || back.RequestId != cmd.RequestId || back.DbId != cmd.DbId || back.CommandType != cmd.CommandType ||
		(back.Flag&protocol.LOCK_FLAG_CONTAINS_DATA != 0) != (data != nil) {
		return info, c14dFail(key, "reply does not decode to the values it was built from: %+v", back)
	}
	return info, nil
}

func c14dGenFrame(t *rapid.T) []byte {
	frame := rapid.SliceOfN(rapid.Byte(), 64, 64).Draw(t, "frame")
	switch rapid.IntRange(0, 5).Draw(t, "fill") {
	case 0:
		for i := range frame {
			if frame[i] == 0 {
				frame[i] = 1
			}
		}
	case 1:
		for i := 19; i < 64; i++ {
			frame[i] = 0xff
		}
	case 2:
		for i := 3; i < 64; i++ {
			frame[i] = 0
		}
	}
	frame[0], frame[1] = protocol.MAGIC, protocol.VERSION
	return frame
}

func c14dGenDataFrame(t *rapid.T) []byte {
	// a well-formed data frame: 4-byte little-endian length, then (stage|type), flag, value. Length >= 2 is the
	// precondition of NewLockCommandDataFromOriginBytes (shorter frames belong to C13).
	body := rapid.SliceOfN(rapid.Byte(), 2, 200).Draw(t, "dataBody")
	n := len(body)
	return append([]byte{byte(n), byte(n >> 8), 0, 0}, body...)
}

func c14dGenIO(t *rapid.T, label string) []int {
	switch rapid.IntRange(0, 3).Draw(t, label+"Kind") {
	case 0:
		return nil
	case 1:
		return []int{1}
	}
	return rapid.SliceOfN(rapid.IntRange(1, 70), 1, 5).Draw(t, label)
}

func TestC14_ServerInlineDecode(t *testing.T) {
	st := vstat("TestC14_ServerInlineDecode")
	rapid.Check(t, func(t *rapid.T) {
		c := &c14dCase{Kind: "srv-decode"}
		frame := c14dGenFrame(t)
		frame[2] = byte(rapid.SampledFrom([]int{protocol.COMMAND_LOCK, protocol.COMMAND_UNLOCK}).Draw(t, "commandType"))
		if frame[2] == protocol.COMMAND_LOCK {
			frame[20] = 0xff // the only LOCK that is answered without touching a database
		}
		// FLAG bit 0x20 announces a data frame; it is generated together with one
		if rapid.IntRange(0, 2).Draw(t, "withData") == 0 {
			frame[19] |= protocol.LOCK_FLAG_CONTAINS_DATA
			c.Data = hex.EncodeToString(c14dGenDataFrame(t))
			c.Reads = c14dGenIO(t, "reads")
		} else {
			frame[19] &^= protocol.LOCK_FLAG_CONTAINS_DATA
		}
		c.Frame = hex.EncodeToString(frame)
		c.Writes = c14dGenIO(t, "writes")
		info, err := c14dRun(c)
		st.Case(info.nontrivial, vHash(c.Kind, c.Frame, c.Data, fmt.Sprint(c.Writes, c.Reads)), info.classes, func() interface{} { return c })
		if err != nil {
			vFail(t, "TestC14_ServerInlineDecode", err.(*c14dErr).Key, c, "%v", err)
		}
	})
}

func TestC14_ServerInlineEncode(t *testing.T) {
	st := vstat("TestC14_ServerInlineEncode")
	rapid.Check(t, func(t *rapid.T) {
		c := &c14dCase{Kind: "srv-encode", Frame: hex.EncodeToString(c14dGenFrame(t))}
		c.Result = rapid.IntRange(0, 255).Draw(t, "result")
		c.Lcount = rapid.IntRange(0, 0xffff).Draw(t, "lcount")
		c.Lrcount = rapid.IntRange(0, 0xff).Draw(t, "lrcount")
		if rapid.IntRange(0, 2).Draw(t, "withData") == 0 {
			d := c14dGenDataFrame(t)
			if rapid.IntRange(0, 9).Draw(t, "bigData") == 0 {
				// larger than the 4096-byte writer buffer: the buffered path must fall back to the direct one
				n := rapid.IntRange(3900, 6000).Draw(t, "bigLen")
				d = append([]byte{byte(n), byte(n >> 8), 0, 0}, bytes.Repeat([]byte{0x5a}, n)...)
			}
			c.Data = hex.EncodeToString(d)
		}
		c.Buffered = rapid.Bool().Draw(t, "buffered")
		c.Writes = c14dGenIO(t, "writes")
		info, err := c14dRun(c)
		st.Case(info.nontrivial, vHash(c.Kind, c.Frame, c.Data, c.Result, c.Lcount, c.Lrcount, c.Buffered, fmt.Sprint(c.Writes)), info.classes, func() interface{} { return c })
		if err != nil {
			vFail(t, "TestC14_ServerInlineEncode", err.(*c14dErr).Key, c, "%v", err)
		}
	})
}

// ---------------------------------------------------------------------------------------------
// text form vs binary form on a live database

type c14dResult struct {
	Result, Lcount, Count, Lrcount, Rcount int
	LockId                                 string
}

func c14dPad16(s string) (out [16]byte) {
	copy(out[16-len(s):], s) // README: "less than 16 front plus 0x00 to make up"
	return
}

func c14dBinFrame(op c14dOp, key, id string, reqNo int) []byte {
	cmd := protocol.LockCommand{}
	cmd.Magic, cmd.Version, cmd.CommandType = protocol.MAGIC, protocol.VERSION, protocol.COMMAND_LOCK
	if op.Unlock {
		cmd.CommandType = protocol.COMMAND_UNLOCK
	}
	cmd.RequestId[0], cmd.RequestId[1], cmd.RequestId[15] = byte(reqNo), byte(reqNo>>8), 1
	cmd.Flag, cmd.DbId, cmd.LockKey, cmd.LockId = uint8(op.Flag), 0, c14dPad16(key), c14dPad16(id)
	if !op.Unlock {
		cmd.Timeout, cmd.Expried = 0, uint16(op.Expire)
		if op.Count > 0 {
			cmd.Count = uint16(op.Count - 1)
		}
	}
	if op.Rcount > 0 {
		cmd.Rcount = uint8(op.Rcount - 1)
	}
	buf := make([]byte, 64)
	_ = cmd.Encode(buf)
	return buf
}

func c14dResp(args ...string) []byte {
	out := []byte(fmt.Sprintf("*%d\r\n", len(args)))
	for _, a := range args {
		out = append(out, fmt.Sprintf("$%d\r\n%s\r\n", len(a), a)...)
	}
	return out
}

func c14dTextRequest(op c14dOp, key, id string) []byte {
	if op.Unlock {
		args := []string{"UNLOCK", key, "LOCK_ID", id}
		if op.Rcount > 0 {
			args = append(args, "RCOUNT", fmt.Sprint(op.Rcount))
		}
		if op.Flag != 0 {
			args = append(args, "FLAG", fmt.Sprint(op.Flag))
		}
		return c14dResp(args...)
	}
	args := []string{"LOCK", key, "LOCK_ID", id, "TIMEOUT", "0", "EXPRIED", fmt.Sprint(op.Expire)}
	if op.Count > 0 {
		args = append(args, "COUNT", fmt.Sprint(op.Count))
	}
	if op.Rcount > 0 {
		args = append(args, "RCOUNT", fmt.Sprint(op.Rcount))
	}
	if op.Flag != 0 {
		args = append(args, "FLAG", fmt.Sprint(op.Flag))
	}
	return c14dResp(args...)
}

// c14dReadArray reads one flat RESP array of bulk strings (independent of protocol.TextParser).
func c14dReadArray(b []byte) (elems []string, rest []byte, err error) {
	line := func() (string, error) {
		i := bytes.Index(b, []byte("\r\n"))
		if i < 0 {
			return "", fmt.Errorf("no CRLF in %q", b)
		}
		s := string(b[:i])
		b = b[i+2:]
		return s, nil
	}
	head, err := line()
	if err != nil || len(head) < 2 || head[0] != '*' {
		return nil, b, fmt.Errorf("not an array: %q", head)
	}
	var n int
	fmt.Sscan(head[1:], &n)
	for i := 0; i < n; i++ {
		l, lerr := line()
		if lerr != nil || len(l) < 2 || l[0] != '$' {
			return nil, b, fmt.Errorf("element %d is not a bulk string: %q", i, l)
		}
		var k int
		fmt.Sscan(l[1:], &k)
		if len(b) < k+2 {
			return nil, b, fmt.Errorf("short bulk")
		}
		elems = append(elems, string(b[:k]))
		b = b[k+2:]
	}
	return elems, b, nil
}

func c14dWatch(what string, f func()) {
	done := make(chan struct{})
	go func() { f(); close(done) }()
	select {
	case <-done:
	case <-time.After(60 * time.Second):
		fmt.Printf("VERIF-INCONCLUSIVE %s did not return within 60 s\n", what)
		os.Exit(3)
	}
}

func c14dRunBinary(slock *SLock, frames [][]byte) ([]c14dResult, error) {
	conn := &c14dConn{}
	for _, f := range frames {
		conn.in = append(conn.in, f...)
	}
	sp := NewBinaryServerProtocol(slock, NewStream(conn))
	var perr error
	var pval interface{}
	c14dWatch("BinaryServerProtocol.Process", func() {
		defer func() { pval = recover() }()
		perr = sp.Process()
	})
	_ = sp.Close()
	if pval != nil {
		panic(pval)
	}
	if perr != io.EOF {
		return nil, fmt.Errorf("binary Process ended with %v", perr)
	}
	if len(conn.out) != 64*len(frames) {
		return nil, fmt.Errorf("binary run: %d reply bytes for %d frames", len(conn.out), len(frames))
	}
	var out []c14dResult
	for i := range frames {
		var r protocol.LockResultCommand
		_ = r.Decode(conn.out[64*i : 64*i+64])
		if r.RequestId[0] != frames[i][3] || r.RequestId[1] != frames[i][4] {
			return nil, fmt.Errorf("binary run: reply %d answers another request", i)
		}
		out = append(out, c14dResult{int(r.Result), int(r.Lcount), int(r.Count), int(r.Lrcount), int(r.Rcount), hex.EncodeToString(r.LockId[:])})
	}
	return out, nil
}

func c14dRunText(slock *SLock, reqs [][]byte) ([]c14dResult, error) {
	conn := &c14dConn{}
	for _, r := range reqs {
		conn.in = append(conn.in, r...)
	}
	tp := NewTextServerProtocol(slock, NewStream(conn))
	var perr error
	var pval interface{}
	c14dWatch("TextServerProtocol.Process", func() {
		defer func() { pval = recover() }()
		perr = tp.Process()
	})
	_ = tp.Close()
	if pval != nil {
		panic(pval)
	}
	if perr != io.EOF {
		return nil, fmt.Errorf("text Process ended with %v", perr)
	}
	var out []c14dResult
	rest := conn.out
	for i := range reqs {
		var e []string
		var err error
		e, rest, err = c14dReadArray(rest)
		if err != nil {
			return nil, fmt.Errorf("text run: reply %d: %v (%q)", i, err, conn.out)
		}
		if len(e) != 12 || e[2] != "LOCK_ID" || e[4] != "LCOUNT" || e[6] != "COUNT" || e[8] != "LRCOUNT" || e[10] != "RCOUNT" {
			return nil, fmt.Errorf("text run: reply %d has unexpected shape %q", i, e)
		}
		var r c14dResult
		fmt.Sscan(e[0], &r.Result)
		fmt.Sscan(e[5], &r.Lcount)
		fmt.Sscan(e[7], &r.Count)
		fmt.Sscan(e[9], &r.Lrcount)
		fmt.Sscan(e[11], &r.Rcount)
		r.LockId = e[3]
		if r.Result < len(protocol.ERROR_MSG) && e[1] != protocol.ERROR_MSG[r.Result] {
			return nil, fmt.Errorf("text run: reply %d message %q for code %d", i, e[1], r.Result)
		}
		out = append(out, r)
	}
	if len(rest) != 0 {
		return nil, fmt.Errorf("text run: %d extra reply bytes", len(rest))
	}
	return out, nil
}

func c14dRunLive(c *c14dCase) (c14dInfo, error) {
	var info c14dInfo
	const key = "C14:text-vs-binary:result-fields-differ"
	slock := c14dSLock()
	c14dLiveOnce.Do(func() { slock.GetOrNewDB(0) })
	keyB, keyT := c.Key+"B", c.Key+"T"
	var frames, reqs [][]byte
	for i, op := range c.Ops {
		frames = append(frames, c14dBinFrame(op, keyB, c.Ids[op.Id%len(c.Ids)], i+1))
		reqs = append(reqs, c14dTextRequest(op, keyT, c.Ids[op.Id%len(c.Ids)]))
	}
	// leave nothing behind: release whatever either run still holds (binary frames on both keys)
	cleanup := func() {
		var fs [][]byte
		n := 0
		for _, k := range []string{keyB, keyT} {
			for _, id := range c.Ids {
				for j := 0; j < 6; j++ {
					n++
					fs = append(fs, c14dBinFrame(c14dOp{Unlock: true}, k, id, 1000+n))
				}
			}
		}
		_, _ = c14dRunBinary(slock, fs)
	}
	defer cleanup()
	bin, err := c14dRunBinary(slock, frames)
	if err != nil {
		return info, c14dFail(key, "%v", err)
	}
	txt, err := c14dRunText(slock, reqs)
	if err != nil {
		return info, c14dFail(key, "%v", err)
	}
	granted, refused, reentered := 0, 0, 0
	for i := range c.Ops {
		b, x := bin[i], txt[i]
		// text COUNT / RCOUNT are the wire values + 1
		if b.Result != x.Result || b.Lcount != x.Lcount || b.Lrcount != x.Lrcount || b.Count+1 != x.Count || b.Rcount+1 != x.Rcount || b.LockId != x.LockId {
			return info, c14dFail(key, "step %d %+v: binary reply %+v, text reply %+v (text COUNT/RCOUNT are wire+1)", i, c.Ops[i], b, x)
		}
		if b.Result == 0 && !c.Ops[i].Unlock {
			granted++
			if b.Lrcount > 1 {
				reentered++
			}
		} else if b.Result != 0 {
			refused++
		}
	}
	info.nontrivial = granted >= 2 && refused >= 1
	if reentered > 0 {
		info.classes = append(info.classes, "re-entered lock")
	}
	if refused > 0 {
		info.classes = append(info.classes, "refused request")
	}
	return info, nil
}

func TestC14_TextVsBinaryLive(t *testing.T) {
	st := vstat("TestC14_TextVsBinaryLive")
	rapid.Check(t, func(t *rapid.T) {
		c := &c14dCase{Kind: "srv-live"}
		c.Key = rapid.StringOfN(rapid.RuneFrom([]rune("abcdefgh0123:_")), 1, 15, 15).Draw(t, "key")
		nids := rapid.IntRange(1, 3).Draw(t, "ids")
		for i := 0; i < nids; i++ {
			c.Ids = append(c.Ids, fmt.Sprintf("id%d-%s", i, rapid.StringOfN(rapid.RuneFrom([]rune("xyz789")), 0, 10, 10).Draw(t, "idTail")))
		}
		count := rapid.IntRange(0, 4).Draw(t, "keyCount")
		rcount := rapid.IntRange(0, 3).Draw(t, "keyRcount")
		n := rapid.IntRange(1, 10).Draw(t, "ops")
		for i := 0; i < n; i++ {
			op := c14dOp{Unlock: rapid.IntRange(0, 2).Draw(t, "unlock") == 0, Id: rapid.IntRange(0, nids-1).Draw(t, "id")}
			// requests that are answered at once and never touch the clock: no wait (TIMEOUT 0), expiry far away, no flags
			op.Count, op.Rcount = count, rcount
			if rapid.IntRange(0, 4).Draw(t, "varyCounts") == 0 {
				op.Count, op.Rcount = rapid.IntRange(0, 4).Draw(t, "count"), rapid.IntRange(0, 3).Draw(t, "rcount")
			}
			if !op.Unlock {
				op.Expire = rapid.IntRange(30, 3000).Draw(t, "expire")
			}
			c.Ops = append(c.Ops, op)
		}
		info, err := c14dRun(c)
		st.Case(info.nontrivial, vHash(c.Kind, c.Key, fmt.Sprint(c.Ids), fmt.Sprint(c.Ops)), info.classes, func() interface{} { return c })
		if err != nil {
			vFail(t, "TestC14_TextVsBinaryLive", err.(*c14dErr).Key, c, "%v", err)
		}
	})
}

func TestC14_Replay(t *testing.T) {
	for _, f := range vReplayFiles("C14") {
		var head struct {
			Kind string `json:"kind"`
		}
		if _, err := vLoadReplay(f, &head); err != nil {
			t.Fatalf("cannot load replay %s: %v", f, err)
		}
		if head.Kind != "srv-decode" && head.Kind != "srv-encode" && head.Kind != "srv-live" {
			continue // a case of the protocol package
		}
		var c c14dCase
		key, err := vLoadReplay(f, &c)
		if err != nil {
			t.Fatalf("cannot load replay %s: %v", f, err)
		}
		_, rerr := c14dRun(&c)
		fmt.Printf("VERIF-KF key=%s reproduced=%v file=%s %v\n", key, rerr != nil, f, rerr)
	}
}
