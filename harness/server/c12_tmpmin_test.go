package server

import (
	"encoding/json"
	"fmt"
	"math/rand"
	"os"
	"strconv"
	"strings"
	"testing"
)

// temporary: random search for small voter-layer reproductions of one key
func TestC12Tmp_Minimize(t *testing.T) {
	key := os.Getenv("V12_MIN_KEY")
	if key == "" {
		return
	}
	seed, _ := strconv.Atoi(os.Getenv("V12_MIN_SEED"))
	trials, _ := strconv.Atoi(os.Getenv("V12_MIN_TRIALS"))
	nc, _ := strconv.Atoi(os.Getenv("V12_MIN_CANDS"))
	restart := os.Getenv("V12_MIN_RESTART") != ""
	rng := rand.New(rand.NewSource(int64(seed)))
	best := 1 << 30
	pos := v12Pos{Index: 1, Offset: 5, Time: 1700000000}
	for i := 0; i < trials; i++ {
		c := &v12Case{Layer: "voter", Origin: 1, MaxRounds: 1 + rng.Intn(2)}
		for m := 0; m < 3; m++ {
			c.Members = append(c.Members, v12Member{Weight: 1, Pos: pos, Polled: true})
		}
		for k := 0; k < nc; k++ {
			c.Cands = append(c.Cands, k)
		}
		c.SkipForgetfulRestart = key != v12KeyRestart
		c.SkipForeignCommit = key != v12KeyForeign
		c.TolerateOwnOverwrite = key != v12KeyOwnOverwrite
		c.TolerateForeignClear = key != v12KeyForeignClear
		L := 4 + rng.Intn(22)
		if L >= best {
			L = best - 1
		}
		for j := 0; j < L; j++ {
			ch := v12Choice{Pick: rng.Intn(5)}
			switch r := rng.Intn(12); {
			case r == 0:
				ch.Fate = 1
			case r == 1:
				ch.Fate = 2
			case r == 2 && restart:
				ch.Fate = 3
			}
			c.Sched = append(c.Sched, ch)
		}
		_, err := v12RunCase(c)
		if err != nil && err.key == key {
			if key == v12KeyRestart && len(err.msg) > 3 && err.msg[:3] != "two" {
				continue
			}
			if sub := os.Getenv("V12_MIN_MSG"); sub != "" && !strings.Contains(err.msg, sub) {
				continue
			}
			n := len(c.Sched)
			for n > 0 && c.Sched[n-1] == (v12Choice{}) {
				n--
			}
			if n < best {
				best = n
				c.Sched = c.Sched[:n]
				b, _ := json.Marshal(vFailure{"TestC12_Voter", key, err.msg, c})
				_ = os.WriteFile(os.Getenv("V12_MIN_OUT"), b, 0644)
				fmt.Printf("best %d at trial %d\n", best, i)
			}
		}
	}
}
