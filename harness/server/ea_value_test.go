package server

// Value model (C15): abstract register attached to a key + interpreter of the value operations,
// written from the protocol description (README "lock data" + property statement), not from
// ProcessLockData. Used by engine A (ledger) and by the pure differential C15(a).

import (
	"bytes"
	"encoding/binary"
	"fmt"

	"github.com/snower/slock/protocol"
)

// aVal is a generated value operation.
type aVal struct {
	Op   string  `json:"op"`             // set unset incr append shift push pop pipeline
	B    []byte  `json:"b,omitempty"`    // payload
	A    bool    `json:"a,omitempty"`    // set: the payload is stored with the array value-type flag
	L    int     `json:"l,omitempty"`    // set/append/push: payload of L bytes derived from (L, B) instead of B itself (large values)
	N    int64   `json:"n,omitempty"`    // incr operand / shift length / pop count
	P    []byte  `json:"p,omitempty"`    // optional property value (code 1)
	FL   bool    `json:"fl,omitempty"`   // process-first-or-last flag
	Subs []*aVal `json:"subs,omitempty"` // pipeline
}

// bytes: the payload the operation carries
func (v *aVal) bytes() []byte {
	if v.L <= 0 {
		return append([]byte{}, v.B...)
	}
	b := make([]byte, v.L)
	h := vHash("aval", v.L, fmt.Sprintf("%x", v.B))
	for i := range b {
		h = h*6364136223846793005 + 1442695040888963407
		b[i] = byte(h >> 56)
	}
	return b
}

func (v *aVal) String() string {
	s := fmt.Sprintf("%s(", v.Op)
	switch v.Op {
	case "set", "append", "push":
		s += fmt.Sprintf("%x", v.B)
		if v.L > 0 {
			s += fmt.Sprintf(" expanded to %d bytes", v.L)
		}
		if v.A {
			s += " as array"
		}
	case "incr", "shift", "pop":
		s += fmt.Sprint(v.N)
	case "pipeline":
		for _, x := range v.Subs {
			s += x.String() + ","
		}
	}
	if v.P != nil {
		s += fmt.Sprintf(" prop=%x", v.P)
	}
	if v.FL {
		s += " first-or-last"
	}
	return s + ")"
}

func (v *aVal) props() []*protocol.LockCommandDataProperty {
	if v.P == nil {
		return nil
	}
	return []*protocol.LockCommandDataProperty{{Code: protocol.LOCK_DATA_PROPERTY_CODE_KEY, Value: append([]byte{}, v.P...)}}
}

func (v *aVal) commandData() *protocol.LockCommandData {
	var d *protocol.LockCommandData
	switch v.Op {
	case "set":
		flag := uint8(0)
		if v.A {
			flag = protocol.LOCK_DATA_FLAG_VALUE_TYPE_ARRAY
		}
		d = protocol.NewLockCommandDataFromBytes(v.bytes(), protocol.LOCK_DATA_STAGE_CURRENT, protocol.LOCK_DATA_COMMAND_TYPE_SET, flag, v.props())
	case "unset":
		d = protocol.NewLockCommandDataUnsetData()
	case "incr":
		if v.P == nil {
			d = protocol.NewLockCommandDataIncrData(v.N)
		} else {
			d = protocol.NewLockCommandDataIncrDataWithProperty(v.N, v.props())
		}
	case "append":
		d = protocol.NewLockCommandDataFromBytes(v.bytes(), protocol.LOCK_DATA_STAGE_CURRENT, protocol.LOCK_DATA_COMMAND_TYPE_APPEND, 0, v.props())
	case "shift":
		d = protocol.NewLockCommandDataShiftData(uint32(v.N))
	case "push":
		d = protocol.NewLockCommandDataFromBytes(v.bytes(), protocol.LOCK_DATA_STAGE_CURRENT, protocol.LOCK_DATA_COMMAND_TYPE_PUSH, 0, v.props())
	case "pop":
		d = protocol.NewLockCommandDataPopData(uint32(v.N))
	case "pipeline":
		subs := []*protocol.LockCommandData{}
		for _, s := range v.Subs {
			subs = append(subs, s.commandData())
		}
		d = protocol.NewLockCommandDataPipelineData(subs)
	}
	if d != nil && v.FL {
		d.DataFlag |= protocol.LOCK_DATA_FLAG_PROCESS_FIRST_OR_LAST
		d.Data[5] |= protocol.LOCK_DATA_FLAG_PROCESS_FIRST_OR_LAST
	}
	return d
}

// aValue is the abstract register content. nil = no value.
type aValue struct {
	Payload []byte
	Arr     bool
}

func (v *aValue) String() string {
	if v == nil {
		return "<none>"
	}
	if len(v.Payload) > 48 {
		return fmt.Sprintf("%x..%x(%d bytes, fnv %016x, arr=%v)", v.Payload[:8], v.Payload[len(v.Payload)-8:], len(v.Payload), vHash(v.Payload), v.Arr)
	}
	return fmt.Sprintf("%x(arr=%v)", v.Payload, v.Arr)
}

// aDecodeFrame turns a stored / replied value frame into the abstract content.
func aDecodeFrame(frame []byte) (*aValue, error) {
	if frame == nil {
		return nil, nil
	}
	if len(frame) < 6 {
		return nil, fmt.Errorf("value frame shorter than its header: %x", frame)
	}
	if n := int(binary.LittleEndian.Uint32(frame)); n != len(frame)-4 {
		return nil, fmt.Errorf("value frame length field %d, frame carries %d bytes", n, len(frame)-4)
	}
	if frame[4]&0x3f == protocol.LOCK_DATA_COMMAND_TYPE_UNSET {
		return nil, nil
	}
	off := 6
	if frame[5]&protocol.LOCK_DATA_FLAG_CONTAINS_PROPERTY != 0 {
		if len(frame) < 8 {
			return nil, fmt.Errorf("value frame with property flag shorter than 8: %x", frame)
		}
		off = 8 + int(binary.LittleEndian.Uint16(frame[6:]))
		if off > len(frame) {
			return nil, fmt.Errorf("property header longer than the frame: %x", frame)
		}
	}
	return &aValue{Payload: append([]byte{}, frame[off:]...), Arr: frame[5]&protocol.LOCK_DATA_FLAG_VALUE_TYPE_ARRAY != 0}, nil
}

func aValueEqual(a, b *aValue) bool {
	if a == nil || b == nil {
		return a == nil && b == nil
	}
	return bytes.Equal(a.Payload, b.Payload) && a.Arr == b.Arr
}

func aArrayElems(p []byte) [][]byte {
	var out [][]byte
	for i := 0; i+4 <= len(p); {
		n := int(binary.LittleEndian.Uint32(p[i:]))
		if i+4+n > len(p) {
			break
		}
		out = append(out, p[i+4:i+4+n])
		i += 4 + n
	}
	return out
}

func aArrayBytes(elems [][]byte) []byte {
	var out []byte
	for _, e := range elems {
		var l [4]byte
		binary.LittleEndian.PutUint32(l[:], uint32(len(e)))
		out = append(out, l[:]...)
		out = append(out, e...)
	}
	return out
}

// aInterp is the sequential interpreter of one value operation.
func aInterp(cur *aValue, op *aVal) *aValue {
	switch op.Op {
	case "set":
		return &aValue{Payload: op.bytes(), Arr: op.A}
	case "unset":
		return nil
	case "incr":
		var n int64
		if cur != nil {
			var b [8]byte
			copy(b[:], cur.Payload)
			n = int64(binary.LittleEndian.Uint64(b[:]))
		}
		var b [8]byte
		binary.LittleEndian.PutUint64(b[:], uint64(n+op.N))
		return &aValue{Payload: b[:]}
	case "append":
		if cur == nil {
			return &aValue{Payload: op.bytes()}
		}
		return &aValue{Payload: append(append([]byte{}, cur.Payload...), op.bytes()...), Arr: cur.Arr}
	case "shift":
		if cur == nil || op.N <= 0 {
			return cur
		}
		n := int(op.N)
		if n > len(cur.Payload) {
			n = len(cur.Payload)
		}
		return &aValue{Payload: append([]byte{}, cur.Payload[n:]...), Arr: cur.Arr}
	case "push":
		if cur == nil || !cur.Arr {
			return &aValue{Payload: aArrayBytes([][]byte{op.bytes()}), Arr: true}
		}
		return &aValue{Payload: append(append([]byte{}, cur.Payload...), aArrayBytes([][]byte{op.bytes()})...), Arr: true}
	case "pop":
		if cur == nil || !cur.Arr || op.N <= 0 {
			return cur
		}
		el := aArrayElems(cur.Payload)
		n := int(op.N)
		if n > len(el) {
			n = len(el)
		}
		return &aValue{Payload: aArrayBytes(el[n:]), Arr: true}
	case "pipeline":
		for _, s := range op.Subs {
			cur = aInterp(cur, s)
		}
		return cur
	}
	return cur
}

// ---------------------------------------------------------------------------------------------
// ledger side: candidate set of values per key (a value may linger or vanish once a key is not held)

type mVal struct {
	cands []*aValue
}

func (m *aMonitor) kval(k *mKey) *mVal {
	if k.val == nil {
		k.val = &mVal{cands: []*aValue{nil}}
	}
	return k.val
}

func (mv *mVal) add(v *aValue) {
	for _, c := range mv.cands {
		if aValueEqual(c, v) {
			return
		}
	}
	mv.cands = append(mv.cands, v)
}

func (mv *mVal) String() string {
	s := ""
	for _, c := range mv.cands {
		s += c.String() + " | "
	}
	return s
}

// observe narrows the candidates to those matching the frame; false if none matches.
func (mv *mVal) observe(frame []byte, narrow bool) (bool, string) {
	got, err := aDecodeFrame(frame)
	if err != nil {
		return false, err.Error()
	}
	var keep []*aValue
	for _, c := range mv.cands {
		if aValueEqual(c, got) {
			keep = append(keep, c)
		}
	}
	if len(keep) == 0 {
		return false, fmt.Sprintf("carries value %s, sequential interpreter has %s", got.String(), mv.String())
	}
	if narrow {
		mv.cands = keep
	}
	return true, ""
}

// valueReply: every terminal reply carries the value from immediately before the operation; if the
// request was accepted its value operation (if any) is then applied.
func (m *aMonitor) valueReply(k *mKey, r *aReq, rp *aReply, accepted bool) {
	mv := m.kval(k)
	if len(k.holders) == 0 {
		mv.add(nil) // nothing holds the key: its value may have vanished with the key manager
	}
	// while nothing holds the key the reply paths differ in whether they still see a lingering value:
	// such an observation must match a candidate but does not narrow the set
	if ok, why := mv.observe(rp.Data, len(k.holders) > 0); !ok {
		m.viol("C15", "%s reply to #%d %s", aResultName(rp.Result), r.Idx, why)
		mv.cands = []*aValue{nil}
		if got, err := aDecodeFrame(rp.Data); err == nil {
			mv.cands = []*aValue{got}
		}
	}
	if r.Op.V == nil {
		return
	}
	if !accepted {
		m.info.valueRefused++
		return
	}
	m.info.valueOps++
	m.info.valueKinds[r.Op.V.Op] = true
	var next []*aValue
	for _, c := range mv.cands {
		nv := aInterp(c, r.Op.V)
		dup := false
		for _, x := range next {
			if aValueEqual(x, nv) {
				dup = true
			}
		}
		if !dup {
			next = append(next, nv)
		}
		if r.Op.V.FL {
			// first-or-last operations may legitimately be skipped (documented convention; tolerated, not asserted)
			dup = false
			for _, x := range next {
				if aValueEqual(x, c) {
					dup = true
				}
			}
			if !dup {
				next = append(next, c)
			}
		}
	}
	mv.cands = next
}

// valueKeyMaybeGone: once nothing holds the key its value may vanish with the key manager at any time.
func (m *aMonitor) valueKeyMaybeGone(k *mKey) {
	if len(k.holders) == 0 {
		m.kval(k).add(nil)
	}
}

func (m *aMonitor) valueSnapshot(k *mKey, s *aSnapKey) {
	mv := m.kval(k)
	if len(k.holders) == 0 {
		mv.add(nil)
	}
	if ok, why := mv.observe(s.Data, len(k.holders) > 0); !ok {
		m.viol("C15", "key %d/%x: stored value %s", k.db, k.key[:2], why)
		mv.cands = []*aValue{nil}
		if got, err := aDecodeFrame(s.Data); err == nil {
			mv.cands = []*aValue{got}
		}
	}
}
