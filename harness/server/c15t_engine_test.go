package server

// C15 / engine T: the Redis-style text commands of one in-process leader against a plain key-value model.
//
// This file holds the rapid-free executor: case data (plain JSON), the instance on a virtual clock, the
// interactive fake connection served by the real Server.handle, RESP encoding / decoding and the clock.
// The reference model and the oracle live in c15t_model_test.go, generator and tests in c15t_gen_test.go.
// Everything is prefixed t15 so that it cannot clash with other harness files of package server.

import (
	"bytes"
	"encoding/hex"
	"errors"
	"fmt"
	"io"
	"net"
	"runtime/debug"
	"strconv"
	"strings"
	"sync"
	"time"

	"github.com/snower/slock/protocol"
)

// ---------------------------------------------------------------------------------------------
// case data (plain JSON). The field names "type" and "ops" are avoided on purpose: TestC15_Replay
// (c15_pure_test.go) recognises its own two case formats by them and skips everything else.

type t15Step struct {
	Op  string   `json:"op"`            // command name in upper case, or "tick"
	C   int      `json:"c,omitempty"`   // connection index
	K   int      `json:"k,omitempty"`   // key index
	N   string   `json:"n,omitempty"`   // numeric argument exactly as sent (delta, seconds, milliseconds); tick: seconds
	V   *string  `json:"v,omitempty"`   // value argument, hex
	Opt []string `json:"opt,omitempty"` // trailing options of SET: EX n | PX n | NX | XX
}

type t15Case struct {
	Keys     []string  `json:"keys"`     // key names
	Timeouts []int     `json:"timeouts"` // one per connection: -1 = keep the default of a text connection (15 s), n = "TIMEOUT SET n" first
	Steps    []t15Step `json:"steps"`
}

func (c *t15Case) fingerprint() uint64 {
	parts := []interface{}{strings.Join(c.Keys, ","), fmt.Sprint(c.Timeouts)}
	for _, s := range c.Steps {
		v := "-"
		if s.V != nil {
			v = *s.V
		}
		parts = append(parts, s.Op, s.C, s.K, s.N, v, strings.Join(s.Opt, " "))
	}
	return vHash(parts...)
}

func (s *t15Step) val() []byte {
	if s.V == nil {
		return nil
	}
	b, _ := hex.DecodeString(*s.V)
	return b
}

// args renders the command the way a Redis client would send it.
func (s *t15Step) args(c *t15Case) [][]byte {
	key := []byte(c.Keys[s.K%len(c.Keys)])
	a := [][]byte{[]byte(s.Op), key}
	switch s.Op {
	case "SET":
		a = append(a, s.val())
		for _, o := range s.Opt {
			a = append(a, []byte(o))
		}
	case "SETNX", "GETSET", "APPEND":
		a = append(a, s.val())
	case "SETEX", "PSETEX":
		a = append(a, []byte(s.N), s.val())
	case "INCRBY", "DECRBY", "EXPIRE", "PEXPIRE":
		a = append(a, []byte(s.N))
	case "PERSIST":
		if s.N != "" {
			a = append(a, []byte(s.N))
		}
	}
	return a
}

func (s *t15Step) String() string {
	if s.Op == "tick" {
		return "tick " + s.N
	}
	var sb strings.Builder
	fmt.Fprintf(&sb, "c%d %s k%d", s.C, s.Op, s.K)
	if s.N != "" {
		fmt.Fprintf(&sb, " %q", s.N)
	}
	if s.V != nil {
		fmt.Fprintf(&sb, " %q", string(s.val()))
	}
	for _, o := range s.Opt {
		sb.WriteString(" " + o)
	}
	return sb.String()
}

func t15Resp(args [][]byte) []byte {
	var b bytes.Buffer
	fmt.Fprintf(&b, "*%d\r\n", len(args))
	for _, a := range args {
		fmt.Fprintf(&b, "$%d\r\n", len(a))
		b.Write(a)
		b.WriteString("\r\n")
	}
	return b.Bytes()
}

// t15ReplyLen returns the length of the first complete RESP reply in b, 0 if it is incomplete, -1 if it
// cannot be a reply.
func t15ReplyLen(b []byte) int {
	if len(b) == 0 {
		return 0
	}
	i := bytes.Index(b, []byte("\r\n"))
	switch b[0] {
	case '+', '-', ':':
		if i < 0 {
			return 0
		}
		return i + 2
	case '$':
		if i < 0 {
			return 0
		}
		n, err := strconv.Atoi(string(b[1:i]))
		if err != nil {
			return -1
		}
		if n < 0 {
			return i + 2
		}
		if len(b) < i+2+n+2 {
			return 0
		}
		return i + 2 + n + 2
	case '*':
		if i < 0 {
			return 0
		}
		n, err := strconv.Atoi(string(b[1:i]))
		if err != nil {
			return -1
		}
		pos := i + 2
		for k := 0; k < n; k++ {
			l := t15ReplyLen(b[pos:])
			if l <= 0 {
				return l
			}
			pos += l
		}
		return pos
	}
	return -1
}

// ---------------------------------------------------------------------------------------------
// interactive fake connection (the harness sends a request and waits for the reply)

type t15Addr struct{ port int }

func (a t15Addr) Network() string { return "tcp" }
func (a t15Addr) String() string  { return fmt.Sprintf("127.0.0.1:%d", a.port) }

type t15Conn struct {
	mu     sync.Mutex
	cond   *sync.Cond
	in     []byte
	out    []byte
	closed bool
	eof    bool
	port   int
}

func t15NewConn(port int) *t15Conn {
	c := &t15Conn{port: port}
	c.cond = sync.NewCond(&c.mu)
	return c
}

func (c *t15Conn) Read(p []byte) (int, error) {
	c.mu.Lock()
	defer c.mu.Unlock()
	for len(c.in) == 0 && !c.closed && !c.eof {
		c.cond.Wait()
	}
	if c.closed {
		return 0, net.ErrClosed
	}
	if len(c.in) == 0 {
		return 0, io.EOF
	}
	n := copy(p, c.in)
	c.in = c.in[n:]
	return n, nil
}

func (c *t15Conn) Write(p []byte) (int, error) {
	c.mu.Lock()
	defer c.mu.Unlock()
	if c.closed {
		return 0, net.ErrClosed
	}
	c.out = append(c.out, p...)
	c.cond.Broadcast()
	return len(p), nil
}

func (c *t15Conn) Close() error {
	c.mu.Lock()
	c.closed = true
	c.cond.Broadcast()
	c.mu.Unlock()
	return nil
}
func (c *t15Conn) LocalAddr() net.Addr                { return t15Addr{5658} }
func (c *t15Conn) RemoteAddr() net.Addr               { return t15Addr{c.port} }
func (c *t15Conn) SetDeadline(t time.Time) error      { return nil }
func (c *t15Conn) SetReadDeadline(t time.Time) error  { return nil }
func (c *t15Conn) SetWriteDeadline(t time.Time) error { return nil }

func (c *t15Conn) send(b []byte) {
	c.mu.Lock()
	c.in = append(c.in, b...)
	c.cond.Broadcast()
	c.mu.Unlock()
}

func (c *t15Conn) finish() {
	c.mu.Lock()
	c.eof = true
	c.cond.Broadcast()
	c.mu.Unlock()
}

// take returns one complete reply if the server has written one (ok), or reports that the connection is dead.
func (c *t15Conn) take() (reply []byte, ok bool, err error) {
	c.mu.Lock()
	defer c.mu.Unlock()
	n := t15ReplyLen(c.out)
	if n < 0 {
		return nil, false, fmt.Errorf("the server wrote something that is not a RESP reply: %q", c.out)
	}
	if n > 0 {
		r := append([]byte(nil), c.out[:n]...)
		c.out = c.out[n:]
		return r, true, nil
	}
	if c.closed {
		return nil, false, errors.New("connection closed by the server")
	}
	return nil, false, nil
}

// ---------------------------------------------------------------------------------------------
// environment: one leader on a virtual clock, 1..2 text connections

const t15Epoch = int64(1700000000)

type t15Peer struct {
	conn   *t15Conn
	stream *Stream
	done   chan struct{}
	pan    interface{}
	stack  string
}

type t15Env struct {
	c     *t15Case
	inst  *vInst
	db    *LockDB
	now   int64
	toQ   [][]*LockQueue
	exQ   [][]*LockQueue
	peers []*t15Peer
	log   []string
	waits int // seconds the clock was advanced because a command was parked in the server
}

var t15Watchdog = 20 * time.Second

func t15NewEnv(c *t15Case) (*t15Env, error) {
	inst, err := vNewInst(vInstOpts{NoCheckLoop: true, DBConcurrent: 2, DBFastKeyCount: 64})
	if err != nil {
		return nil, err
	}
	e := &t15Env{c: c, inst: inst, now: t15Epoch}
	d := inst.slock.GetOrNewDB(0)
	d.currentTime, d.checkTimeoutTime, d.checkExpriedTime = e.now, e.now, e.now
	e.db = d
	e.toQ = make([][]*LockQueue, d.managerMaxGlocks)
	e.exQ = make([][]*LockQueue, d.managerMaxGlocks)
	for i := range e.toQ {
		e.toQ[i] = make([]*LockQueue, 5)
		e.exQ[i] = make([]*LockQueue, 5)
		for j := 0; j < 5; j++ {
			e.toQ[i][j] = NewLockQueue(4, 16, 64)
			e.exQ[i][j] = NewLockQueue(4, 16, 64)
		}
	}
	for i := range c.Timeouts {
		p := &t15Peer{conn: t15NewConn(42000 + i), done: make(chan struct{})}
		p.stream = NewStream(p.conn)
		_ = inst.server.addStream(p.stream)
		go func() {
			defer close(p.done)
			defer func() {
				if r := recover(); r != nil {
					p.pan = r
					p.stack = string(debug.Stack())
				}
			}()
			inst.server.handle(p.stream)
		}()
		e.peers = append(e.peers, p)
	}
	return e, nil
}

func (e *t15Env) close() {
	for _, p := range e.peers {
		p.conn.finish()
	}
	for _, p := range e.peers {
		select {
		case <-p.done:
		case <-time.After(2 * time.Second):
			_ = p.conn.Close()
		}
	}
	e.inst.vClose(false, true)
}

func (e *t15Env) logf(format string, a ...interface{}) {
	e.log = append(e.log, fmt.Sprintf("[t+%d] ", e.now-t15Epoch)+fmt.Sprintf(format, a...))
}

func (e *t15Env) history() string {
	h := e.log
	if len(h) > 200 {
		h = h[len(h)-200:]
	}
	return strings.Join(h, "\n")
}

// second advances the virtual clock by one second and runs the bodies of LockDB.checkWaitRemoveLockManager /
// checkTimeOut / checkExpried (the loops that the NoCheckLoop hook switched off) for it.
func (e *t15Env) second() {
	d := e.db
	// key records whose last lock went away are dropped 1..1.5 s later by a wall-clock wheel
	// (LockDB.checkWaitRemoveLockManager): those queued during the previous second go now
	for ti := 0; ti < int(WAIT_REMOVE_LOCK_MANAGER_QUEUE_LENGTH); ti++ {
		for i := uint16(0); i < d.managerMaxGlocks; i++ {
			d.checkTimeWaitRemoveLockManager(ti, i)
		}
	}
	e.now++
	d.currentTime = e.now
	c := d.checkTimeoutTime
	d.checkTimeoutTime = e.now + 1
	for ; c <= e.now; c++ {
		for i := uint16(0); i < d.managerMaxGlocks; i++ {
			d.checkTimeTimeOut(c, e.now, i, e.toQ[i])
		}
	}
	c = d.checkExpriedTime
	d.checkExpriedTime = e.now + 1
	for ; c <= e.now; c++ {
		for i := uint16(0); i < d.managerMaxGlocks; i++ {
			d.checkTimeExpried(c, e.now, i, e.exQ[i])
		}
	}
}

func t15LockKey(name string) [16]byte {
	var k [16]byte
	protocol.NewTextCommandConverter().ConvertArgId2LockId(name, &k)
	return k
}

// parked tells whether a request for the key sits in the server's wait queue (the handler goroutine of
// its connection then blocks until a time-out or a release answers it).
func (e *t15Env) parked(key string) bool {
	m := e.db.GetLockManager(&protocol.LockCommand{LockKey: t15LockKey(key)})
	if m == nil {
		return false
	}
	m.glock.LowPriorityLock()
	defer m.glock.LowPriorityUnlock()
	return m.lockKey == t15LockKey(key) && m.waited && m.waitLocks != nil && m.waitLocks.Head() != nil
}

var errT15Inconclusive = errors.New("inconclusive")

// roundTrip sends one command on one connection and returns its reply. While the command is parked in
// the server's wait queue, virtual seconds pass (at most 70 of them).
func (e *t15Env) roundTrip(ci int, key string, args [][]byte) ([]byte, int, error) {
	p := e.peers[ci%len(e.peers)]
	p.conn.send(t15Resp(args))
	deadline := time.Now().Add(t15Watchdog) // watchdog only: expiry is reported as inconclusive, never as a violation
	waited := 0
	for spin := 0; ; spin++ {
		r, ok, err := p.conn.take()
		if err != nil {
			select {
			case <-p.done:
			case <-time.After(time.Second):
			}
			if p.pan != nil {
				return nil, waited, fmt.Errorf("panic in the connection handler: %v\n%s", p.pan, t15RepoFrames(p.stack))
			}
			return nil, waited, err
		}
		if ok {
			return r, waited, nil
		}
		select {
		case <-p.done:
			if r, ok, _ := p.conn.take(); ok {
				return r, waited, nil
			}
			if p.pan != nil {
				return nil, waited, fmt.Errorf("panic in the connection handler: %v\n%s", p.pan, t15RepoFrames(p.stack))
			}
			return nil, waited, errors.New("the connection handler returned without a reply")
		default:
		}
		if key != "" && e.parked(key) {
			if waited >= 70 {
				return nil, waited, fmt.Errorf("no reply although %d s passed while the command was waiting", waited)
			}
			e.second()
			waited++
			e.waits++
			continue
		}
		if !time.Now().Before(deadline) {
			return nil, waited, errT15Inconclusive
		}
		if spin < 200 {
			time.Sleep(5 * time.Microsecond)
		} else {
			time.Sleep(100 * time.Microsecond)
		}
	}
}

// t15RepoFrames keeps the frames of a panic stack that lie in the repository's own non-test files.
func t15RepoFrames(stack string) string {
	lines := strings.Split(stack, "\n")
	var out []string
	for i := 0; i+1 < len(lines) && len(out) < 8; i++ {
		fn, loc := lines[i], strings.TrimSpace(lines[i+1])
		if !strings.HasPrefix(lines[i+1], "\t") {
			continue
		}
		if !strings.Contains(loc, "/server/") && !strings.Contains(loc, "/protocol/") {
			continue
		}
		if strings.Contains(loc, "zz_verif_") || strings.Contains(loc, "_test.go") {
			continue
		}
		if j := strings.Index(loc, " +0x"); j > 0 {
			loc = loc[:j]
		}
		if j := strings.LastIndex(loc, "/"); j >= 0 {
			loc = loc[j+1:]
		}
		if j := strings.LastIndex(fn, "("); j > 0 {
			fn = fn[:j]
		}
		out = append(out, fmt.Sprintf("  at %s (%s)", fn, loc))
	}
	return strings.Join(out, "\n")
}

func t15TopFunc(msg string) string {
	i := strings.Index(msg, "  at ")
	if i < 0 {
		return "unknown"
	}
	fn := msg[i+5:]
	if j := strings.IndexAny(fn, " \n"); j > 0 {
		fn = fn[:j]
	}
	if j := strings.LastIndex(fn, "/"); j >= 0 {
		fn = fn[j+1:]
	}
	return fn
}
