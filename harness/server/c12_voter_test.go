package server

// C12 layer 3 (engine V): the real ArbiterVoter.DoVote / DoProposal / DoCommit of 2..3 candidates run
// concurrently; every non-self ArbiterMember of a candidate has a real ArbiterClient whose
// client.BinaryClientProtocol runs over one end of a net.Pipe(). The harness network owns the other end: it
// decodes every CALL frame and - as the case's schedule says - hands it to the destination manager's real
// handler and writes the reply back, drops it (closing the pipe: ArbiterClient.Request fails as on a TCP
// reset) or drops the reply after delivery. The executor only acts when every candidate is blocked (all
// requests of its phase are in the network and its local self-call is finished), so the schedule is owned
// by the case data and replays deterministically. Wall-clock time is used for a watchdog only.

import (
	"fmt"
	"io"
	"net"
	"os"
	"runtime"
	"sort"
	"strings"
	"sync"
	"testing"
	"time"

	"github.com/snower/slock/client"
	"github.com/snower/slock/protocol"
	"github.com/snower/slock/protocol/protobuf"
	"google.golang.org/protobuf/proto"
	"pgregory.net/rapid"
)

const (
	v12KeyForeign      = "C12:voter:commit-sent-with-foreign-proposal-number"
	v12KeyNoMajor      = "C12:voter:success-without-recorded-majority"
	v12KeyOwnOverwrite = "C12:voter:own-accepted-number-overwritten"
	v12KeyForeignClear = "C12:voter:failed-commit-erases-foreign-pending-commit"
	v12EvFrame         = 1
	v12EvSelfOk        = 2
	v12EvSelfFail      = 3
	v12EvPhaseDone     = 4
)

type v12Event struct {
	kind  int
	cand  int
	frame *v12Frame
	err   error
}

type v12Frame struct {
	link *v12Link
	conn net.Conn
	cmd  *protocol.CallCommand
}

type v12Net struct {
	events chan v12Event
	mu     sync.Mutex
	closed bool
	wg     sync.WaitGroup
}

// v12Link is the connection of candidate `cand` to member `dest`.
type v12Link struct {
	net        *v12Net
	cand, dest int
	cli        *ArbiterClient
	mu         sync.Mutex
	srv        net.Conn
	proto      *client.BinaryClientProtocol
}

func (l *v12Link) connect() {
	a, b := net.Pipe()
	stream := client.NewStream(a)
	p := client.NewBinaryClientProtocol(stream)
	// installing the new pipe and shutting the network down exclude each other: a pipe is either seen (and
	// closed) by shutdown or never opened
	l.net.mu.Lock()
	if l.net.closed {
		_ = a.Close()
		_ = b.Close()
	}
	l.mu.Lock()
	l.srv, l.proto = b, p
	l.mu.Unlock()
	l.cli.stream, l.cli.protocol = stream, p
	l.net.wg.Add(1)
	l.net.mu.Unlock()
	go l.serverSide(b)
}

// serverSide is the harness end of the pipe: it turns the byte stream into CALL frames.
func (l *v12Link) serverSide(conn net.Conn) {
	defer l.net.wg.Done()
	for {
		hdr := make([]byte, 64)
		if _, err := io.ReadFull(conn, hdr); err != nil {
			return
		}
		cmd := &protocol.CallCommand{}
		if hdr[0] != protocol.MAGIC || hdr[2] != protocol.COMMAND_CALL || cmd.Decode(hdr) != nil {
			_ = conn.Close()
			return
		}
		cmd.Data = make([]byte, cmd.ContentLen)
		if cmd.ContentLen > 0 {
			if _, err := io.ReadFull(conn, cmd.Data); err != nil {
				return
			}
		}
		l.net.events <- v12Event{kind: v12EvFrame, cand: l.cand, frame: &v12Frame{l, conn, cmd}}
	}
}

// clientSide is the read loop of ArbiterClient.Run without its reconnect / offline handling: the property's
// quantifier injects no offline event, a lost message only fails the pending Request and the connection is
// there again for the next one.
func (l *v12Link) clientSide() {
	defer l.net.wg.Done()
	for {
		l.mu.Lock()
		p := l.proto
		l.mu.Unlock()
		cmd, err := p.Read()
		if err != nil {
			_ = p.Close()
			l.net.mu.Lock()
			closed := l.net.closed
			l.net.mu.Unlock()
			if closed {
				select {
				case l.cli.rchannel <- nil:
				default:
				}
				return
			}
			l.connect()
			l.cli.rchannel <- nil
			continue
		}
		l.cli.rchannel <- cmd
	}
}

func (l *v12Link) drop() {
	l.mu.Lock()
	c := l.srv
	l.mu.Unlock()
	_ = c.Close()
}

type v12Cand struct {
	idx       int
	node      *v12Node
	ctl       chan string
	links     map[int]*v12Link
	round     int
	next      string // next phase to start: vote | proposal | commit | "" (finished)
	inPhase   string
	expect    int // frames of this phase not yet seen in the network
	open      int // frames seen and not yet answered / dropped
	needSelf  bool
	selfOk    bool
	done      bool // phaseDone received
	err       error
	pre       v12AccState
	pid       uint64
	voteResp  map[int]bool // members whose vote reply reached the candidate
	propAcks  map[int]bool // members that really accepted this round's proposal
	won       bool
	epilogue  bool     // a successful DoProposal returned since the last sweep
	foreign   bool     // this round's commit carries a number the candidate never proposed
	foreignAt []string // acceptors that recorded such a commit under somebody else's promise
}

type v12Sim struct {
	c     *v12Case
	cl    *v12Cluster
	mon   *v12Monitor
	info  *v12Info
	net   *v12Net
	cands []*v12Cand
	pend  []*v12Frame
	wins  []string
	last  []v12AccState
}

var v12Watchdog = 90 * time.Second

func v12Inconclusive(why string) {
	fmt.Printf("VERIF-INCONCLUSIVE C12 voter simulation: %s\n", why)
	if os.Getenv("VERIF_C12_DEBUG") != "" {
		buf := make([]byte, 1<<20)
		fmt.Printf("%s\n", buf[:runtime.Stack(buf, true)])
	}
	vFlush()
	os.Exit(3)
}

func (s *v12Sim) candOf(idx int) *v12Cand {
	for _, c := range s.cands {
		if c.idx == idx {
			return c
		}
	}
	return nil
}

func (s *v12Sim) setupCandidate(idx int) {
	node := s.cl.nodes[idx]
	cd := &v12Cand{idx: idx, node: node, ctl: make(chan string, 1), links: map[int]*v12Link{}, next: "vote", round: 1}
	own := v12Host(idx)
	bootHook := node.lg.hook
	node.lg.hook = func(format string, args []interface{}) {
		if bootHook != nil {
			bootHook(format, args)
		}
		switch {
		case strings.HasPrefix(format, "Arbiter member self %s do proposal succed"), strings.HasPrefix(format, "Arbiter member self %s do commit succed"):
			s.net.events <- v12Event{kind: v12EvSelfOk, cand: idx}
		case strings.HasPrefix(format, "Arbier voter member %s request %s error"):
			if len(args) >= 2 && args[0] == own && args[1] != "do vote" {
				s.net.events <- v12Event{kind: v12EvSelfFail, cand: idx}
			}
		}
	}
	for j, am := range node.mgr.members {
		if j == idx || am.status != ARBITER_MEMBER_STATUS_ONLINE {
			continue
		}
		am.client = NewArbiterClient(am)
		l := &v12Link{net: s.net, cand: idx, dest: j, cli: am.client}
		l.connect()
		cd.links[j] = l
		s.net.wg.Add(1)
		go l.clientSide()
	}
	s.net.wg.Add(1)
	go func() {
		defer s.net.wg.Done()
		v := node.mgr.voter
		for tok := range cd.ctl {
			var err error
			switch tok {
			case "vote":
				err = v.DoVote()
			case "proposal":
				err = v.DoProposal()
			case "commit":
				err = v.DoCommit()
			}
			s.net.events <- v12Event{kind: v12EvPhaseDone, cand: idx, err: err}
		}
	}()
	s.cands = append(s.cands, cd)
}

func (s *v12Sim) shutdown() {
	s.net.mu.Lock()
	s.net.closed = true
	s.net.mu.Unlock()
	for _, cd := range s.cands {
		close(cd.ctl)
		for _, l := range cd.links {
			l.drop()
		}
	}
	fin := make(chan struct{})
	go func() { s.net.wg.Wait(); close(fin) }()
	select {
	case <-fin:
	case <-time.After(v12Watchdog):
		v12Inconclusive("goroutines of a finished case did not stop")
	}
}

// settle consumes events until every candidate is blocked: all frames of its phase are in the network, its
// self-call is over and - when nothing is outstanding any more - the phase function has returned.
func (s *v12Sim) settle() *v12Err {
	for {
		busy := false
		for _, cd := range s.cands {
			if cd.inPhase != "" && (cd.expect > 0 || cd.needSelf || (cd.open == 0 && !cd.done)) {
				busy = true
			}
		}
		if !busy {
			break
		}
		var ev v12Event
		select {
		case ev = <-s.net.events:
		case <-time.After(v12Watchdog):
			v12Inconclusive("candidates did not become quiescent (watchdog)")
		}
		cd := s.candOf(ev.cand)
		switch ev.kind {
		case v12EvFrame:
			cd.expect--
			cd.open++
			s.pend = append(s.pend, ev.frame)
		case v12EvSelfOk, v12EvSelfFail:
			if !cd.needSelf {
				return v12Fail(v12KeyHarness, "unexpected self-call signal of candidate %d in phase %q", cd.idx, cd.inPhase)
			}
			cd.needSelf = false
			cd.selfOk = ev.kind == v12EvSelfOk
			if e := s.afterSelf(cd); e != nil {
				return e
			}
		case v12EvPhaseDone:
			cd.done, cd.err = true, ev.err
		}
	}
	sort.SliceStable(s.pend, func(i, j int) bool {
		a, b := s.pend[i].link, s.pend[j].link
		if a.cand != b.cand {
			return a.cand < b.cand
		}
		return a.dest < b.dest
	})
	for _, cd := range s.cands {
		if cd.inPhase != "" && cd.done {
			if e := s.phaseFinished(cd); e != nil {
				return e
			}
		}
	}
	return s.sweep()
}

// sweep: no member's accepted / committed number ever goes backwards (the candidates' own voter state is
// changed by DoProposal / DoCommit as well, not only by delivered messages).
func (s *v12Sim) sweep() *v12Err {
	for i, n := range s.cl.nodes {
		if n == nil {
			continue
		}
		st, last := n.state(), s.last[i]
		if st.proposalId < last.proposalId || st.commitId < last.commitId {
			cd := s.candOf(i)
			if cd != nil && st.commitId >= last.commitId && cd.epilogue && st.proposalId == n.mgr.voter.proposalIndex {
				// the candidate's acceptor promised last.proposalId to somebody else while its own proposal phase ran;
				// DoProposal's epilogue (self.proposalId = self.proposalIndex) put the smaller own number back
				s.mon.cause(v12KeyOwnOverwrite, i, fmt.Sprintf("m%d's DoProposal epilogue lowered its accepted number %d -> %d", i, last.proposalId, st.proposalId))
				if s.c.TolerateOwnOverwrite {
					s.info.tolerate(v12KeyOwnOverwrite)
					s.last[i] = st
					for num := range s.mon.acked[i] {
						if num > st.proposalId {
							delete(s.mon.acked[i], num) // the promise is forgotten together with the number
						}
					}
					continue
				}
				return v12Fail(v12KeyOwnOverwrite, "member %d: accepted number went backwards %s -> %s when its own DoProposal(n=%d) returned (proposalId = proposalIndex = %d): the promise of n=%d given to another candidate in between is forgotten [%s]",
					i, last, st, cd.pid, st.proposalId, last.proposalId, s.mon.history())
			}
			return v12Fail(v12KeyRegress, "member %d: numbers went backwards: %s -> %s [%s]", i, last, st, s.mon.history())
		}
		if last.host != "" && st.host == "" && last.from != v12Host(i) && st.commitId == last.commitId {
			s.info.class("failed DoCommit erased a pending commit recorded for another candidate")
			s.mon.cause(v12KeyForeignClear, i, fmt.Sprintf("m%d's failed DoCommit erased the pending commit %s recorded for another candidate", i, last))
		}
		s.last[i] = st
	}
	for _, cd := range s.cands {
		cd.epilogue = false
	}
	return nil
}

func (s *v12Sim) label(cd *v12Cand, pid uint64) string { return fmt.Sprintf("m%d/n%d", cd.idx, pid) }

func (s *v12Sim) startPhase(cd *v12Cand) {
	cd.inPhase, cd.done, cd.err = cd.next, false, nil
	cd.expect, cd.open = len(cd.links), 0
	cd.needSelf = cd.inPhase != "vote"
	cd.pre = cd.node.state()
	v := cd.node.mgr.voter
	switch cd.inPhase {
	case "vote":
		cd.voteResp = map[int]bool{cd.idx: true}
		cd.propAcks = map[int]bool{}
		cd.foreign, cd.foreignAt = false, nil
	case "proposal":
		// the number DoProposal is about to use
		v.glock.Lock()
		n := v.proposalIndex
		if n <= v.commitId {
			n = v.commitId
		}
		if n <= v.proposalId {
			n = v.proposalId
		}
		v.glock.Unlock()
		cd.pid = n + 1
	}
	s.mon.logf("m%d starts %s (round %d)", cd.idx, cd.inPhase, cd.round)
	cd.ctl <- cd.inPhase
}

func (s *v12Sim) afterSelf(cd *v12Cand) *v12Err {
	post := cd.node.state()
	why := ""
	if !cd.selfOk {
		why = "self-call refused"
	}
	v := cd.node.mgr.voter
	switch cd.inPhase {
	case "proposal":
		if v.proposalIndex != cd.pid {
			return v12Fail(v12KeyHarness, "candidate %d proposes n=%d, predicted %d", cd.idx, v.proposalIndex, cd.pid)
		}
		pos := v12PosOf(v.voteAofId)
		if cd.selfOk {
			cd.propAcks[cd.idx] = true
		}
		return s.mon.afterProposal(s.label(cd, cd.pid), cd.idx, cd.idx, cd.pid, pos, cd.pre, post, cd.selfOk, why)
	case "commit":
		if n := s.commitPid(cd); n != cd.pid && !cd.foreign {
			cd.foreign = true
			s.mon.softFails = append(s.mon.softFails, v12Fail(v12KeyForeign, "candidate %d proposed n=%d (accepted by members %v) but commits n=%d: an ERR_PROPOSALID reply overwrote proposalIndex during the proposal phase [%s]",
				cd.idx, cd.pid, v12Keys(cd.propAcks), n, s.mon.history()))
		}
		return s.mon.afterCommit(s.label(cd, s.commitPid(cd)), cd.idx, cd.idx, s.commitPid(cd), v.voteHost, cd.pre, post, cd.selfOk, why)
	}
	return nil
}

// commitPid: the number the voter puts into its commit requests.
func (s *v12Sim) commitPid(cd *v12Cand) uint64 { return cd.node.mgr.voter.proposalIndex }

func v12PosOf(id [16]byte) v12Pos {
	l := AofLock{}
	l.SetAofId(id)
	return v12Pos{Index: l.AofIndex, Offset: l.AofOffset, Time: l.CommandTime}
}

func (s *v12Sim) phaseFinished(cd *v12Cand) *v12Err {
	phase, err := cd.inPhase, cd.err
	cd.inPhase = ""
	v := cd.node.mgr.voter
	s.mon.logf("m%d %s finished: %v", cd.idx, phase, err)
	fail := func() {
		s.mon.conclude(s.label(cd, cd.pid))
		cd.round++
		cd.next = "vote"
		if cd.round > s.c.MaxRounds {
			cd.next = ""
		}
	}
	switch phase {
	case "vote":
		var resp []int
		for i := range cd.voteResp {
			resp = append(resp, i)
		}
		sort.Ints(resp)
		want := v12BestHost(s.c, resp)
		if len(resp) < s.cl.majority() {
			want = -1
		}
		got := -1
		if err == nil {
			for i := range s.c.Members {
				if v12Host(i) == v.voteHost {
					got = i
				}
			}
			if got < 0 {
				return v12Fail(v12KeyVote, "candidate %d: DoVote chose unknown host %q", cd.idx, v.voteHost)
			}
		}
		if got != want || (got >= 0 && v.voteAofId != s.c.Members[got].Pos.id()) {
			key := v12KeyVote
			for _, a := range resp {
				for _, b := range resp {
					ma, mb := s.c.Members[a], s.c.Members[b]
					if cmp := v12PosCmp(s.c.Origin, ma.Pos, mb.Pos); cmp != 0 && cd.node.mgr.CompareAofId(ma.Pos.id(), mb.Pos.id()) != cmp && v12OffsetMajor(cd.node.mgr) {
						key = v12KeyCmpOrder
					}
				}
			}
			return v12Fail(key, "candidate %d heard votes of members %v and chose member %d (%v), expected member %d: data-bearing, weight>0, newest log (ties: weight, host); members %+v [%s]",
				cd.idx, resp, got, err, want, s.c.Members, s.mon.history())
		}
		if err != nil {
			s.info.class("vote failed")
			fail()
			return nil
		}
		m := s.c.Members[got]
		for _, i := range resp {
			o := s.c.Members[i]
			if i != got && o.Arbiter == 0 && o.Weight > 0 && o.Pos == m.Pos {
				s.info.class("vote tie broken by weight/host")
			}
			if o.Arbiter != 0 || o.Weight == 0 {
				s.info.class("vote: ineligible responder skipped")
			}
		}
		cd.next = "proposal"
	case "proposal":
		if err != nil {
			s.info.class("proposal phase failed")
			fail()
			return nil
		}
		cd.epilogue = true
		if !cd.propAcks[cd.idx] {
			// same defect as the lowering: the epilogue (self.proposalId = self.proposalIndex) overrides the verdict of
			// the candidate's own acceptor, which refused this number (pending commit / higher promise)
			s.mon.cause(v12KeyOwnOverwrite, cd.idx, fmt.Sprintf("m%d's DoProposal epilogue set its accepted number to %d although its own acceptor had refused that proposal (state now %s)",
				cd.idx, v.proposalIndex, cd.node.state()))
		}
		if len(cd.propAcks) < s.cl.majority() {
			return v12Fail(v12KeyNoMajor, "candidate %d: DoProposal(n=%d) succeeded but only members %v accepted [%s]", cd.idx, cd.pid, v12Keys(cd.propAcks), s.mon.history())
		}
		if v.proposalIndex != cd.pid {
			// an ERR_PROPOSALID reply moved proposalIndex: DoCommit would send a number nobody accepted from us
			s.info.class("proposal number changed under a successful proposal phase")
			s.mon.cause(v12KeyForeign, cd.idx, fmt.Sprintf("m%d proposed n=%d, an ERR_PROPOSALID reply moved proposalIndex and DoProposal's epilogue set its accepted number to the foreign n=%d (state %s)",
				cd.idx, cd.pid, v.proposalIndex, cd.node.state()))
			if s.c.SkipForeignCommit {
				s.info.skippedForeign++
				fail()
				return nil
			}
		}
		cd.next = "commit"
	case "commit":
		n := s.commitPid(cd)
		if err != nil {
			s.info.class("commit phase failed")
			if len(s.mon.recorded[s.label(cd, n)]) >= s.cl.majority() {
				s.info.class("commit majority recorded but candidate gave up (replies lost)")
			}
			fail()
			return nil
		}
		rec := s.mon.recorded[s.label(cd, n)]
		if len(rec) < s.cl.majority() {
			return v12Fail(v12KeyNoMajor, "candidate %d: DoCommit(n=%d) succeeded but only members %v recorded it [%s]", cd.idx, n, v12Keys(rec), s.mon.history())
		}
		cd.won, cd.next = true, ""
		s.mon.conclude(s.label(cd, n))
		if cd.foreign {
			return v12Fail(v12KeyForeign, "candidate %d won the election with n=%d although it proposed n=%d (an ERR_PROPOSALID reply overwrote proposalIndex during its proposal phase): its commit for leader %s was recorded at members %v, among them %v - members that never saw, and so could not refuse, this candidate's proposal [%s]",
				cd.idx, n, cd.pid, v.voteHost, v12Keys(rec), cd.foreignAt, s.mon.history())
		}
		s.wins = append(s.wins, fmt.Sprintf("%s -> leader %s, recorded at members %v", s.label(cd, n), v.voteHost, v12Keys(rec)))
		s.info.class("a candidate won")
		if len(s.wins) > 1 {
			key, withheld := s.mon.blameAny(v12KeyTwoWin)
			if withheld {
				s.info.tolerate(key)
				s.wins = s.wins[:1]
				return nil
			}
			return v12Fail(key, "two candidates' DoCommit succeeded with recorded commit majorities in one election: %s; earlier defects in this execution: [%s] [%s]",
				strings.Join(s.wins, " AND "), s.mon.causeList(), s.mon.history())
		}
	}
	return nil
}

func v12Keys(m map[int]bool) []int {
	out := []int{}
	for i := range m {
		out = append(out, i)
	}
	sort.Ints(out)
	return out
}

func (s *v12Sim) reply(f *v12Frame, res *protocol.CallResultCommand) {
	buf := make([]byte, 64)
	_ = res.Encode(buf)
	_ = f.conn.SetWriteDeadline(time.Now().Add(v12Watchdog))
	if _, err := f.conn.Write(append(buf, res.Data...)); err != nil {
		v12Inconclusive(fmt.Sprintf("reply could not be written: %v", err))
	}
}

// handle delivers / drops one frame. fate: 0 deliver, 1 lose request, 2 deliver and lose reply.
func (s *v12Sim) handle(f *v12Frame, fate int) *v12Err {
	cd := s.candOf(f.link.cand)
	to := f.link.dest
	cd.open--
	if fate == 1 {
		s.mon.logf("m%d %s -> m%d lost", cd.idx, f.cmd.MethodName, to)
		s.info.class("message lost")
		f.link.drop()
		return nil
	}
	node := s.cl.nodes[to]
	tok := node.tokens[cd.idx]
	pre := node.state()
	var res *protocol.CallResultCommand
	var err error
	switch f.cmd.MethodName {
	case "REPL_VOTE":
		res, err = node.mgr.commandHandleVoteCommand(tok, f.cmd)
		if err == nil && res != nil {
			s.mon.logf("m%d vote -> m%d: %q", cd.idx, to, res.ErrType)
			if node.state() != pre {
				return v12Fail(v12KeyAcceptor, "member %d changed state on a vote request: %s -> %s", to, pre, node.state())
			}
			if res.ErrType == "" && fate == 0 {
				cd.voteResp[to] = true
			}
		}
	case "REPL_PROPOSAL":
		req := protobuf.ArbiterProposalRequest{}
		if e := proto.Unmarshal(f.cmd.Data, &req); e != nil {
			return v12Fail(v12KeyHarness, "undecodable proposal request: %v", e)
		}
		res, err = node.mgr.commandHandleProposalCommand(tok, f.cmd)
		if err == nil && res != nil {
			ok := res.Result == 0 && res.ErrType == ""
			id, perr := ParseAofId(req.AofId)
			if perr != nil {
				return v12Fail(v12KeyFormat, "candidate %d sent log position %q", cd.idx, req.AofId)
			}
			if ok {
				cd.propAcks[to] = true
			}
			if e := s.mon.afterProposal(s.label(cd, req.ProposalId), cd.idx, to, req.ProposalId, v12PosOf(id), pre, node.state(), ok, res.ErrType); e != nil {
				return e
			}
		}
	case "REPL_COMMIT":
		req := protobuf.ArbiterCommitRequest{}
		if e := proto.Unmarshal(f.cmd.Data, &req); e != nil {
			return v12Fail(v12KeyHarness, "undecodable commit request: %v", e)
		}
		label := s.label(cd, req.ProposalId)
		holder := s.mon.acked[to][req.ProposalId]
		if req.ProposalId != cd.pid && !cd.foreign {
			cd.foreign = true
			s.mon.softFails = append(s.mon.softFails, v12Fail(v12KeyForeign, "candidate %d proposed n=%d (accepted by members %v) but sends its commit with n=%d: an ERR_PROPOSALID reply overwrote proposalIndex during the proposal phase [%s]",
				cd.idx, cd.pid, v12Keys(cd.propAcks), req.ProposalId, s.mon.history()))
		}
		res, err = node.mgr.commandHandleCommitCommand(tok, f.cmd)
		if err == nil && res != nil {
			ok := res.Result == 0 && res.ErrType == ""
			if ok && cd.foreign && holder != label {
				cd.foreignAt = append(cd.foreignAt, fmt.Sprintf("m%d (had promised n=%d to %s)", to, req.ProposalId, holder))
			}
			if e := s.mon.afterCommit(label, cd.idx, to, req.ProposalId, req.Host, pre, node.state(), ok, res.ErrType); e != nil {
				return e
			}
		}
	default:
		return v12Fail(v12KeyHarness, "unexpected call %q from candidate %d", f.cmd.MethodName, cd.idx)
	}
	if err != nil || res == nil {
		return v12Fail(v12KeyAcceptor, "%s handler of member %d returned (%v, %v)", f.cmd.MethodName, to, res, err)
	}
	if fate == 2 {
		s.mon.logf("reply of m%d to m%d lost", to, cd.idx)
		s.info.class("reply lost")
		f.link.drop()
		return nil
	}
	s.reply(f, res)
	return nil
}

func v12RunVoter(c *v12Case) (v12Info, *v12Err) {
	var info v12Info
	if len(c.Members) < 2 || len(c.Cands) == 0 || c.MaxRounds < 1 {
		return info, v12Fail(v12KeyHarness, "malformed voter case")
	}
	isCand := map[int]bool{}
	for _, i := range c.Cands {
		if i < 0 || i >= len(c.Members) || c.Members[i].Down || isCand[i] {
			return info, v12Fail(v12KeyHarness, "malformed candidate list %v", c.Cands)
		}
		isCand[i] = true
	}
	cl, e := v12NewCluster(c)
	if cl != nil {
		defer cl.close()
	}
	if e != nil {
		return info, e
	}
	s := &v12Sim{c: c, cl: cl, info: &info, net: &v12Net{events: make(chan v12Event, 4096)}}
	s.mon = v12NewMonitor(cl, &info)
	s.mon.voterMode = true
	s.last = make([]v12AccState, len(c.Members))
	for i, n := range cl.nodes {
		if n != nil {
			s.last[i] = n.state()
		}
	}
	for _, i := range c.Cands {
		s.setupCandidate(i)
	}
	defer s.shutdown()
	var restartable []int
	for i, m := range c.Members {
		if !m.Down && !isCand[i] {
			restartable = append(restartable, i)
		}
	}
	restarts := 0
	for step := 0; ; step++ {
		if e = s.settle(); e != nil {
			return info, e
		}
		var ch v12Choice
		if step < len(c.Sched) {
			ch = c.Sched[step]
		}
		if ch.Pick < 0 {
			ch.Pick = -ch.Pick
		}
		if ch.Fate == 3 && len(restartable) > 0 && restarts < 3 {
			m := restartable[ch.Pick%len(restartable)]
			skipped, e := s.mon.restart(m)
			if e != nil {
				return info, e
			}
			if !skipped {
				restarts++
				s.last[m] = cl.nodes[m].state()
				// the restarted member's connections are gone: requests in flight to it fail
				var keep []*v12Frame
				for _, f := range s.pend {
					if f.link.dest == m {
						s.candOf(f.link.cand).open--
						f.link.drop()
						s.mon.logf("m%d %s -> m%d lost with the restart", f.link.cand, f.cmd.MethodName, m)
					} else {
						keep = append(keep, f)
					}
				}
				s.pend = keep
			}
			continue
		}
		var starts []*v12Cand
		for _, cd := range s.cands {
			if cd.inPhase == "" && cd.next != "" {
				starts = append(starts, cd)
			}
		}
		n := len(starts) + len(s.pend)
		if n == 0 {
			break
		}
		k := ch.Pick % n
		if k < len(starts) {
			s.startPhase(starts[k])
			continue
		}
		f := s.pend[k-len(starts)]
		s.pend = append(s.pend[:k-len(starts):k-len(starts)], s.pend[k-len(starts)+1:]...)
		fate := ch.Fate
		if fate > 2 {
			fate = 0
		}
		if e = s.handle(f, fate); e != nil {
			return info, e
		}
	}
	if c.Origin > 0xf0000000 {
		info.class("positions around the file-index wrap")
	}
	return info, s.mon.finish()
}

func v12GenVoterCase(t *rapid.T) *v12Case {
	c := &v12Case{Layer: "voter", SkipForgetfulRestart: vIsKnown(v12KeyRestart), SkipForeignCommit: vIsKnown(v12KeyForeign),
		TolerateOwnOverwrite: vIsKnown(v12KeyOwnOverwrite), TolerateForeignClear: vIsKnown(v12KeyForeignClear)}
	v12GenCluster(t, c)
	c.MaxRounds = rapid.IntRange(1, 3).Draw(t, "maxRounds")
	n := rapid.IntRange(0, 90).Draw(t, "schedLen")
	for i := 0; i < n; i++ {
		ch := v12Choice{Pick: rapid.IntRange(0, 23).Draw(t, "pick")}
		switch f := rapid.IntRange(0, 19).Draw(t, "fate"); {
		case f == 0:
			ch.Fate = 1
		case f == 1:
			ch.Fate = 2
		case f == 2:
			ch.Fate = 3
		}
		c.Sched = append(c.Sched, ch)
	}
	return c
}

func TestC12_Voter(t *testing.T) {
	rapid.Check(t, v12Prop("TestC12_Voter", v12GenVoterCase, v12RunVoter))
}
