package server

// Monitor for engine A: a reference ledger driven by the observed reply stream, plus the
// per-property assertions (each tagged with the properties it decides). Written from the property
// statements + README conventions (DESIGN Appendix A), not from db.go.

import (
	"fmt"
	"sort"
	"strings"

	"github.com/snower/slock/protocol"
)

const (
	rSUCCED      = protocol.RESULT_SUCCED
	rLOCKED      = protocol.RESULT_LOCKED_ERROR
	rUNLOCK      = protocol.RESULT_UNLOCK_ERROR
	rUNOWN       = protocol.RESULT_UNOWN_ERROR
	rTIMEOUT     = protocol.RESULT_TIMEOUT
	rEXPRIED     = protocol.RESULT_EXPRIED
	rACKWAIT     = protocol.RESULT_LOCK_ACK_WAITING
	fSHOW        = protocol.LOCK_FLAG_SHOW_WHEN_LOCKED
	fUPDATE      = protocol.LOCK_FLAG_UPDATE_WHEN_LOCKED
	fCONCHECK    = protocol.LOCK_FLAG_CONCURRENT_CHECK
	fDATA        = protocol.LOCK_FLAG_CONTAINS_DATA
	ufFIRST      = protocol.UNLOCK_FLAG_UNLOCK_FIRST_LOCK_WHEN_UNLOCKED
	ufCANCEL     = protocol.UNLOCK_FLAG_CANCEL_WAIT_LOCK_WHEN_UNLOCKED
	tfPRIO       = protocol.TIMEOUT_FLAG_RCOUNT_IS_PRIORITY
	tfMINUTE     = protocol.TIMEOUT_FLAG_MINUTE_TIME
	tfWWU        = protocol.TIMEOUT_FLAG_LOCK_WAIT_WHEN_UNLOCK
	efMINUTE     = protocol.EXPRIED_FLAG_MINUTE_TIME
	efUNLIMITED  = protocol.EXPRIED_FLAG_UNLIMITED_EXPRIED_TIME
)

type mHold struct {
	id       [16]byte
	depth    int
	count    int
	rcount   int
	prio     bool
	client   int
	setter   int   // request whose terms are in force (its RequestId must come with EXPRIED)
	termsAt  int64 // server time at which the terms were set
	eSec     int64 // expiry period in seconds, -1 = unlimited
	unit     int64
	shortBy  bool  // an accepted update shortened the deadline (C06 allows +10 s then)
	pending  []*aReq // updates answered LOCKED_ERROR whose application is resolved from the next snapshot
	grantAt  int64   // server time of the grant (engine P: age vs. persistence delay)
	ef       int     // expiry flags of the request whose terms are in force
	grantEf  int     // expiry flags of the granting request (aof timing is fixed at the grant)
	first    bool    // was the first holder of the key when granted
	grantReq int     // request that created the hold
}

func (h *mHold) deadline() int64 {
	if h.eSec < 0 {
		return 1 << 62
	}
	return h.termsAt + h.eSec
}

type mWait struct {
	req      *aReq
	id       [16]byte
	count    int
	prio     int
	queuedAt int64
	tSec     int64
	wwu      bool
	seq      int
}

type mKey struct {
	db      int
	key     [16]byte
	holders []*mHold
	waiters []*mWait // arrival order
	val     *mVal
	cancels map[[16]byte]int // cancellers answered LOCKED_ERROR whose victim has not been answered yet
	// termsChanged: a re-lock or update replaced a holder's Count since the last wake-up cause. C04 speaks of
	// holds ending; a queue head that became admissible only because an update raised a Count is exempt.
	termsChanged bool
	// staleWake: a queued request left the queue by TIMEOUT or cancel-wait since the last wake-up pass. On the
	// pinned tree no pass follows (known finding C04:no-wakeup-after-waiter-leaves), so the new head may be
	// admissible; tolerated only while that finding is listed as known.
	staleWake bool
	lastEnd   string // how the most recent hold on this key ended (unlock / expiry)
	floodPeak bool   // the queue held > 256 equal requests at once and has not been empty since
	floodServed int  // grants from the queue since then
	released  [][16]byte // LockIds whose hold ended recently (generator bias: duplicate unlocks, re-use)
	ended     map[[16]byte]bool // every LockId that ever held this key and no longer does
}

func (k *mKey) locked() int {
	n := 0
	for _, h := range k.holders {
		n += h.depth
	}
	return n
}

func (k *mKey) holder(id [16]byte) *mHold {
	for _, h := range k.holders {
		if h.id == id {
			return h
		}
	}
	return nil
}

// service order of the queue: priority descending, arrival order within a priority
func (k *mKey) order() []*mWait {
	out := append([]*mWait{}, k.waiters...)
	sort.SliceStable(out, func(i, j int) bool { return out[i].prio > out[j].prio })
	return out
}

func (k *mKey) removeWaiter(w *mWait) {
	for i, x := range k.waiters {
		if x == w {
			k.waiters = append(k.waiters[:i:i], k.waiters[i+1:]...)
			return
		}
	}
}

func (k *mKey) removeHolder(h *mHold) {
	k.termsChanged = false
	k.staleWake = false
	k.released = append(k.released, h.id)
	if k.ended == nil {
		k.ended = map[[16]byte]bool{}
	}
	k.ended[h.id] = true
	if len(k.released) > 6 {
		k.released = k.released[1:]
	}
	for i, x := range k.holders {
		if x == h {
			k.holders = append(k.holders[:i:i], k.holders[i+1:]...)
			return
		}
	}
}

type aViolation struct {
	Props string
	Msg   string
}

type aInfo struct {
	grantsWhileHeld  int
	capacityRefusals int
	reentrantOK      int
	refusedUnlocks   int
	asyncReplies     int
	queueGrants      int
	floodLate        int // requests that queued after >= 256 grants out of a queue that had exceeded 256 entries and was not empty
	timeouts         int
	timeoutsLongTbl  int
	expiries         int
	expiriesLongTbl  int // EXPRIED of a hold that sat in the long expiry table while another hold of that table entry had left before
	longTblLeft      map[int64]bool // deadlines (second) of long-table holds that left before their deadline
	expiryGrants     int
	updates          int
	updatesApplied   int
	cancels          int
	holdEndKinds     map[string]bool
	maxHolders       int
	maxWaiters       int
	waitersHoldEnded int
	prioMixed        bool
	valueOps         int
	valueKinds       map[string]bool
	valueRefused     int
	anomalies        map[string]int
	slowKeys         int
	wwu              int
	staleWakeSkips   int
}

const aKeyNoWake = "C04:no-wakeup-after-waiter-leaves"

var aKnownNoWake = vIsKnown(aKeyNoWake)

type aMonitor struct {
	e     *aEnv
	prop  string
	keys  map[string]*mKey
	viols []aViolation
	stop  bool
	info  aInfo
	wseq  int
	opsSinceScan int
	// passive: engine B's concurrent phase. Replies no longer arrive in decision order, so the ledger is
	// not driven; only the per-reply C03 checks run and the replies are recorded on their requests.
	passive bool
}

func aNewMonitor(e *aEnv) *aMonitor {
	return &aMonitor{e: e, prop: e.c.Prop, keys: map[string]*mKey{}, info: aInfo{holdEndKinds: map[string]bool{}, anomalies: map[string]int{}, valueKinds: map[string]bool{}}}
}

func (m *aMonitor) key(db int, key [16]byte) *mKey {
	id := fmt.Sprintf("%d/%x", db, key)
	k := m.keys[id]
	if k == nil {
		k = &mKey{db: db, key: key, cancels: map[[16]byte]int{}}
		m.keys[id] = k
	}
	return k
}

// viol records a violation of the listed properties (comma separated). Only violations of the
// property under check decide the verdict; the others are kept as diagnostics.
func (m *aMonitor) viol(props string, format string, a ...interface{}) {
	v := aViolation{props, fmt.Sprintf(format, a...)}
	m.viols = append(m.viols, v)
	m.e.logf("  !! [%s] %s", props, v.Msg)
	if m.relevant(props) {
		m.stop = true
	}
}

func (m *aMonitor) relevant(props string) bool {
	if m.prop == "" || m.prop == "*" {
		return true
	}
	for _, p := range strings.Split(props, ",") {
		if p == m.prop {
			return true
		}
	}
	return false
}

func (m *aMonitor) verdict() *aViolation {
	for i := range m.viols {
		if m.relevant(m.viols[i].Props) {
			return &m.viols[i]
		}
	}
	return nil
}

func (m *aMonitor) anomaly(what string) {
	m.info.anomalies[what]++
	m.e.logf("  ~~ anomaly: %s", what)
}

func opSeconds(v int, flag int, minute int) int64 {
	if flag&minute != 0 {
		return int64(v) * 60
	}
	return int64(v)
}

func opUnit(flag int, minute int) int64 {
	if flag&minute != 0 {
		return 60
	}
	return 1
}

func opPrio(o aOp) (bool, int) {
	if o.TF&tfPRIO != 0 {
		return true, o.Rc
	}
	return false, 0
}

func expirySeconds(o aOp) int64 {
	if o.EF&efUNLIMITED != 0 {
		return -1
	}
	return opSeconds(o.E, o.EF, efMINUTE)
}

func (m *aMonitor) onRequest(r *aReq) {}

// onReturned: the call that submitted r has returned. A lock request without a terminal reply is queued.
func (m *aMonitor) onReturned(r *aReq) {
	if r.Terminal >= 0 || m.passive {
		return
	}
	k := m.key(r.Op.Db, r.Key)
	if r.Op.K == "unlock" {
		m.viol("C03", "unlock request #%d got no reply at all", r.Idx)
		return
	}
	if r.Op.T == 0 {
		m.viol("C05,C03", "lock request #%d with timeout 0 was neither granted nor answered TIMEOUT at once", r.Idx)
		return
	}
	r.Queued = true
	_, prio := opPrio(r.Op)
	m.wseq++
	w := &mWait{req: r, id: r.LockId, count: r.Op.Cnt, prio: prio, queuedAt: m.e.now, tSec: opSeconds(r.Op.T, r.Op.TF, tfMINUTE), wwu: r.Op.TF&tfWWU != 0, seq: m.wseq}
	// a request that queues must not have been grantable (C04: no admissible request stays queued)
	if k.floodPeak && k.floodServed >= 256 && len(k.waiters) > 0 {
		m.info.floodLate++
	}
	k.waiters = append(k.waiters, w)
	if len(k.waiters) > 256 {
		k.floodPeak = true
	}
	if len(k.waiters) > m.info.maxWaiters {
		m.info.maxWaiters = len(k.waiters)
	}
	if len(k.holders) > 0 {
		m.info.capacityRefusals++
	}
	if w.wwu {
		m.info.wwu++
	}
	for _, x := range k.waiters {
		if x.prio != w.prio {
			m.info.prioMixed = true
		}
	}
}

func (m *aMonitor) admissible(k *mKey, count int) bool {
	l := k.locked()
	if l == 0 {
		return true
	}
	if count == 0 {
		return false
	}
	return l <= k.holders[0].count && l <= count
}

func (m *aMonitor) onReply(r *aReq, rp *aReply) {
	k := m.key(r.Op.Db, r.Key)
	if rp.Client != r.Op.C {
		m.viol("C03,C18", "reply for request #%d of client %d was delivered to client %d", r.Idx, r.Op.C, rp.Client)
	}
	if !r.InFlight {
		m.info.asyncReplies++
	}
	if rp.Result == rEXPRIED {
		if m.passive {
			r.Expried++
			if r.Expried > 1 {
				m.viol("C03", "request #%d drew a second EXPRIED notice", r.Idx)
			}
			return
		}
		m.onExpried(k, r, rp)
		return
	}
	if m.passive {
		if r.Terminal >= 0 {
			m.viol("C03", "request #%d got a second terminal reply %s (first was %s)", r.Idx, aResultName(rp.Result), aResultName(r.Replies[r.Terminal].Result))
			return
		}
		r.Terminal = len(r.Replies) - 1
		return
	}
	if r.Terminal >= 0 {
		m.viol("C03", "request #%d got a second terminal reply %s (first was %s)", r.Idx, aResultName(rp.Result), aResultName(r.Replies[r.Terminal].Result))
		return
	}
	r.Terminal = len(r.Replies) - 1
	if r.Op.K == "lock" {
		m.onLockReply(k, r, rp)
	} else {
		m.onUnlockReply(k, r, rp)
	}
}

func (m *aMonitor) checkCounts(k *mKey, r *aReq, rp *aReply, wantLR int, what string) {
	if int(rp.LCount) != k.locked()&0xffff {
		m.viol("C17", "%s reply to #%d reports LCount %d, the key has %d outstanding holds", what, r.Idx, rp.LCount, k.locked())
	}
	if wantLR >= 0 && int(rp.LRCount) != wantLR {
		m.viol("C17,C02", "%s reply to #%d reports LRCount %d, the depth of that LockId is %d", what, r.Idx, rp.LRCount, wantLR)
	}
}

func (m *aMonitor) findWaiter(k *mKey, r *aReq) *mWait {
	for _, w := range k.waiters {
		if w.req == r {
			return w
		}
	}
	return nil
}

func (m *aMonitor) onExpried(k *mKey, r *aReq, rp *aReply) {
	r.Expried++
	m.info.expiries++
	m.resolvePendingFromReply(k)
	var h *mHold
	for _, x := range k.holders {
		if x.setter == r.Idx {
			h = x
		}
	}
	if h == nil {
		if x := k.holder(rp.LockId); x != nil {
			m.viol("C03", "EXPRIED for LockId %x came under RequestId of #%d, but its terms were last set by #%d", rp.LockId[:3], r.Idx, x.setter)
			h = x
		} else {
			m.viol("C03,C06", "EXPRIED notice for request #%d which holds nothing on that key", r.Idx)
			return
		}
	}
	if r.Expried > 1 {
		m.viol("C03", "request #%d drew a second EXPRIED notice", r.Idx)
	}
	if h.eSec < 0 {
		m.viol("C06", "hold of #%d has the unlimited-expiry flag but was ended by time", h.setter)
	} else if m.e.now-h.termsAt < h.eSec {
		m.viol("C06", "hold (terms of #%d, E=%ds set at t+%d) expired early at t+%d", h.setter, h.eSec, h.termsAt-aEpoch, m.e.now-aEpoch)
	}
	if m.longTbl(h) && m.info.longTblLeft[h.termsAt+h.eSec] {
		m.info.expiriesLongTbl++
	}
	k.removeHolder(h)
	k.lastEnd = "expiry"
	m.info.holdEndKinds["expiry"] = true
	if len(k.waiters) > 0 {
		m.info.waitersHoldEnded++
	}
	m.checkCounts(k, r, rp, 0, "EXPRIED")
	m.valueKeyMaybeGone(k)
}

// longTbl: the hold is (or will be after ~45 s of re-checks) filed in the long expiry table of its shard
func (m *aMonitor) longTbl(h *mHold) bool {
	return h.eSec > 5 && (h.ef&0x0100 != 0 || h.eSec > 45)
}

// noteLongTblLeave records that a long-table hold left its entry before the deadline (unlock or re-termed)
func (m *aMonitor) noteLongTblLeave(h *mHold) {
	if h != nil && m.longTbl(h) && h.termsAt+h.eSec > m.e.now {
		if m.info.longTblLeft == nil {
			m.info.longTblLeft = map[int64]bool{}
		}
		m.info.longTblLeft[h.termsAt+h.eSec] = true
	}
}

func (m *aMonitor) onLockReply(k *mKey, r *aReq, rp *aReply) {
	o := r.Op
	w := m.findWaiter(k, r)
	isPrio, prio := opPrio(o)
	lockedBefore := k.locked()
	switch rp.Result {
	case rSUCCED:
		h := k.holder(rp.LockId)
		if rp.LockId != r.LockId && !(o.F&fSHOW != 0) {
			m.viol("C03", "SUCCED reply to #%d carries LockId %x, request had %x", r.Idx, rp.LockId[:3], r.LockId[:3])
		}
		if h != nil && w == nil {
			// re-entrant success
			allowed := !isPrio && h.depth <= o.Rc && h.depth < 0xff
			if !allowed {
				m.viol("C02", "re-lock #%d of a LockId holding depth %d succeeded with Rcount %d (priority flag %v)", r.Idx, h.depth, o.Rc, isPrio)
			}
			if o.E == 0 {
				m.checkCounts(k, r, rp, h.depth, "zero-expiry re-lock")
				m.valueReply(k, r, rp, false)
				return
			}
			m.valueReply(k, r, rp, true)
			h.depth++
			oldDeadline := h.deadline()
			m.noteLongTblLeave(h)
			h.setter, h.termsAt, h.eSec, h.unit = r.Idx, m.e.now, expirySeconds(o), opUnit(o.EF, efMINUTE)
			h.ef = o.EF
			// a re-lock replaces the terms like an update does; when it shortens the deadline the statement's
			// "within 10 seconds of the new deadline" bound applies
			if h.count != o.Cnt {
				k.termsChanged = true
			}
			h.count, h.rcount, h.prio, h.client, h.shortBy = o.Cnt, o.Rc, isPrio, o.C, h.shortBy || h.deadline() < oldDeadline
			h.pending = nil
			m.info.reentrantOK++
			m.checkCounts(k, r, rp, h.depth, "re-lock")
			return
		}
		if h != nil && w != nil {
			// the same LockId was queued and, meanwhile, granted to another request: the properties do not say
			// whether the queued one then counts as a re-lock; the server makes it a second hold of that id
			m.anomaly("queued request granted as a second hold of a LockId that already holds the key")
		}
		// new holder (or success without a hold when Expried == 0)
		if lockedBefore > 0 {
			if !(lockedBefore <= o.Cnt && lockedBefore <= k.holders[0].count) {
				m.viol("C01", "request #%d (Count %d) granted as a new holder while %d holds were outstanding (oldest holder's Count %d)", r.Idx, o.Cnt, lockedBefore, k.holders[0].count)
			}
			m.info.grantsWhileHeld++
		}
		if w != nil {
			// grant from the queue: must be the first live waiter in service order
			ord := k.order()
			if ord[0] != w {
				m.viol("C04", "queued request #%d was granted before #%d which is ahead of it in the queue (priority %d vs %d)", r.Idx, ord[0].req.Idx, w.prio, ord[0].prio)
			}
			k.removeWaiter(w)
			m.info.queueGrants++
			if k.floodPeak {
				k.floodServed++
				if len(k.waiters) == 0 {
					k.floodPeak, k.floodServed = false, 0
				}
			}
		} else if len(k.waiters) > 0 && lockedBefore > 0 {
			// newcomer bypassing a non-empty queue on a held key: only with strictly higher priority
			head := k.order()[0]
			if !(isPrio && prio > head.prio) {
				m.viol("C04", "newcomer #%d (priority flag %v, %d) was granted ahead of queued request #%d (priority %d)", r.Idx, isPrio, prio, head.req.Idx, head.prio)
			}
		}
		m.valueReply(k, r, rp, true)
		if o.E == 0 {
			m.checkCounts(k, r, rp, 0, "zero-expiry lock")
			m.valueKeyMaybeGone(k)
			return
		}
		k.staleWake = false
		nh := &mHold{id: rp.LockId, depth: 1, count: o.Cnt, rcount: o.Rc, prio: isPrio, client: o.C, setter: r.Idx, termsAt: m.e.now, eSec: expirySeconds(o), unit: opUnit(o.EF, efMINUTE),
			grantAt: m.e.now, ef: o.EF, grantEf: o.EF, first: len(k.holders) == 0, grantReq: r.Idx}
		k.holders = append(k.holders, nh)
		if len(k.holders) > m.info.maxHolders {
			m.info.maxHolders = len(k.holders)
		}
		m.checkCounts(k, r, rp, 1, "lock")
	case rLOCKED:
		h := k.holder(rp.LockId)
		if h == nil {
			m.anomaly("LOCKED_ERROR to a lock request whose LockId holds nothing")
			if w != nil {
				k.removeWaiter(w)
			}
			return
		}
		if w != nil {
			m.anomaly("LOCKED_ERROR to a queued lock request")
			k.removeWaiter(w)
			return
		}
		if o.F&fUPDATE != 0 {
			// update of a holder: applied or ignored, the reply does not tell; resolved from the snapshot
			m.info.updates++
			m.valueReply(k, r, rp, true)
			h.pending = append(h.pending, r)
			m.checkCounts(k, r, rp, h.depth, "update")
			return
		}
		// refused re-entrant lock
		allowed := !isPrio && h.depth <= o.Rc && h.depth < 0xff
		if allowed {
			m.viol("C02", "re-lock #%d refused although depth %d <= Rcount %d", r.Idx, h.depth, o.Rc)
		}
		m.valueReply(k, r, rp, false)
		m.checkCounts(k, r, rp, h.depth, "refused re-lock")
	case rTIMEOUT:
		m.info.timeouts++
		if w != nil {
			waited := m.e.now - w.queuedAt
			if waited < w.tSec {
				m.viol("C05", "queued request #%d (T=%ds, queued at t+%d) was answered TIMEOUT early at t+%d", r.Idx, w.tSec, w.queuedAt-aEpoch, m.e.now-aEpoch)
			}
			if w.tSec > 9 {
				m.info.timeoutsLongTbl++
			}
			k.removeWaiter(w)
			k.staleWake = true
		} else {
			// immediate TIMEOUT
			if o.T != 0 {
				m.viol("C05", "request #%d with timeout %d was answered TIMEOUT at once instead of being queued", r.Idx, o.T)
			} else {
				conCheck := o.F&fCONCHECK != 0
				wwuFree := o.TF&tfWWU != 0 && lockedBefore == 0
				held := k.holder(r.LockId) != nil
				if !conCheck && !wwuFree && !held && len(k.waiters) == 0 && m.admissible(k, o.Cnt) && !(o.F&fSHOW != 0 && lockedBefore > 0) {
					m.viol("C05,C04", "request #%d (Count %d, timeout 0) was answered TIMEOUT although it could be granted (%d holds outstanding, no queue)", r.Idx, o.Cnt, lockedBefore)
				}
			}
			if lockedBefore > 0 {
				m.info.capacityRefusals++
			}
		}
		m.valueReply(k, r, rp, false)
		m.checkCounts(k, r, rp, -1, "TIMEOUT")
	case rUNOWN:
		// show flag on a held key: a query; wait-when-unlocked on a free key with Count 0 and a queue
		if o.F&fSHOW != 0 && lockedBefore > 0 {
			if rp.LockId != k.holders[0].id {
				m.anomaly("show query did not report the oldest holder")
			}
			m.valueReply(k, r, rp, false)
			m.checkCounts(k, r, rp, k.holders[0].depth, "show query")
		} else if o.TF&tfWWU != 0 && lockedBefore == 0 {
			m.valueReply(k, r, rp, false)
		} else {
			m.anomaly("UNOWN_ERROR to a lock request outside the documented cases")
		}
		if w != nil {
			k.removeWaiter(w)
		}
	case rUNLOCK:
		// a queued request removed by a cancel-wait unlock
		if w == nil {
			m.anomaly("UNLOCK_ERROR to a lock request that was not queued")
			return
		}
		if k.cancels[w.id] <= 0 {
			m.viol("C02,C03", "queued request #%d was answered UNLOCK_ERROR without a cancel-wait unlock for its LockId", r.Idx)
		} else {
			k.cancels[w.id]--
		}
		k.removeWaiter(w)
		k.staleWake = true
		m.info.cancels++
	default:
		m.anomaly("lock request answered " + aResultName(rp.Result))
		if w != nil {
			k.removeWaiter(w)
		}
	}
}

func (m *aMonitor) onUnlockReply(k *mKey, r *aReq, rp *aReply) {
	o := r.Op
	lockedBefore := k.locked()
	own := k.holder(r.LockId)
	switch rp.Result {
	case rSUCCED:
		h := own
		effRc, effPrio := o.Rc, o.TF&tfPRIO != 0
		if h == nil {
			if o.F&ufFIRST != 0 && len(k.holders) > 0 {
				h = k.holders[0]
				if rp.LockId != h.id {
					m.viol("C02", "unlock-first #%d reports LockId %x, the oldest holder is %x", r.Idx, rp.LockId[:3], h.id[:3])
				}
				effRc, effPrio = h.rcount, h.prio
			} else {
				m.viol("C02", "unlock #%d succeeded although LockId %x holds nothing on that key", r.Idx, r.LockId[:3])
				return
			}
		}
		m.valueReply(k, r, rp, true)
		if h.depth > 1 && effRc > 0 && !effPrio {
			h.depth--
			m.info.holdEndKinds["unlock-one-level"] = true
		} else {
			h.depth = 0
			m.noteLongTblLeave(h)
			k.removeHolder(h)
			k.lastEnd = "unlock"
			m.info.holdEndKinds["unlock"] = true
			if len(k.waiters) > 0 {
				m.info.waitersHoldEnded++
			}
		}
		m.checkCounts(k, r, rp, h.depth, "unlock")
		m.valueKeyMaybeGone(k)
	case rUNLOCK, rUNOWN:
		// refusal. The statement pins "UNLOCK_ERROR or UNOWN_ERROR, nothing changes" (the snapshot comparison
		// checks the latter); which of the two codes is used is a convention and only counted.
		m.info.refusedUnlocks++
		if own != nil {
			m.viol("C02", "unlock #%d answered %s although its LockId holds the key (depth %d)", r.Idx, aResultName(rp.Result), own.depth)
		} else if o.F&ufFIRST != 0 && len(k.holders) > 0 {
			m.viol("C02", "unlock-first #%d answered %s although the key has %d holders", r.Idx, aResultName(rp.Result), len(k.holders))
		}
		if o.F&ufCANCEL != 0 {
			for _, w := range k.waiters {
				if w.id == r.LockId {
					m.viol("C02", "cancel-wait unlock #%d answered %s although request #%d with that LockId is queued", r.Idx, aResultName(rp.Result), w.req.Idx)
					break
				}
			}
		} else if (rp.Result == rUNLOCK) != (lockedBefore == 0) {
			m.anomaly("refusal code convention: UNLOCK_ERROR on a held key or UNOWN_ERROR on a free key")
		}
		m.valueReply(k, r, rp, false)
		m.checkCounts(k, r, rp, -1, "refused unlock")
	case rLOCKED:
		// cancel-wait: a queued request with that LockId is removed and will be answered UNLOCK_ERROR
		if o.F&ufCANCEL == 0 {
			m.anomaly("LOCKED_ERROR to an unlock without the cancel-wait flag")
			return
		}
		found := false
		for _, w := range k.waiters {
			if w.id == r.LockId {
				found = true
			}
		}
		if !found {
			m.viol("C02", "cancel-wait unlock #%d answered LOCKED_ERROR but no queued request bears that LockId", r.Idx)
			return
		}
		if own != nil {
			m.viol("C02", "cancel-wait unlock #%d cancelled a queued request although its LockId holds the key", r.Idx)
		}
		k.cancels[r.LockId]++
		m.checkCounts(k, r, rp, -1, "cancel-wait")
	default:
		m.anomaly("unlock request answered " + aResultName(rp.Result))
	}
}

// resolvePendingFromReply is a no-op placeholder: pending updates are resolved from the snapshot in afterOp.
func (m *aMonitor) resolvePendingFromReply(k *mKey) {}

func (m *aMonitor) afterClock() {
	m.afterOp(aOp{K: "clock"})
}

func (m *aMonitor) afterOp(op aOp) {
	if m.stop || m.passive {
		return
	}
	e := m.e
	// cancelled requests must have been answered within the same operation
	for _, k := range m.keys {
		for id, n := range k.cancels {
			if n > 0 {
				m.viol("C02,C03", "cancel-wait unlock of LockId %x was answered LOCKED_ERROR but the cancelled request got no reply", id[:3])
				k.cancels[id] = 0
			}
		}
	}
	snaps := map[string]*aSnapKey{}
	census := make([]struct{ locked, waits, keys int }, len(e.dbs))
	for di, d := range e.dbs {
		if d == nil {
			continue
		}
		for _, s := range aSnapshot(di, d) {
			snaps[fmt.Sprintf("%d/%x", di, s.Key)] = s
			if s.Foreign != "" {
				m.viol("C01,C17", "key %x records a request of another key: %s", s.Key, s.Foreign)
			}
			census[di].keys++
			census[di].waits += len(s.Waiters)
			for _, h := range s.Holders {
				census[di].locked += int(h.Depth)
			}
			if s.Slow {
				m.info.slowKeys++
			}
		}
	}
	ids := make([]string, 0, len(m.keys))
	for id := range m.keys {
		ids = append(ids, id)
	}
	sort.Strings(ids)
	for _, id := range ids {
		k := m.keys[id]
		s := snaps[id]
		if s == nil {
			s = &aSnapKey{}
		}
		// resolve updates whose application the reply did not reveal
		for _, h := range k.holders {
			if len(h.pending) == 0 {
				continue
			}
			var sh *aSnapHold
			for i := range s.Holders {
				if s.Holders[i].Id == h.id {
					sh = &s.Holders[i]
				}
			}
			for _, u := range h.pending {
				newE, newUnit := expirySeconds(u.Op), opUnit(u.Op.EF, efMINUTE)
				applied := sh != nil && sh.Req == u.Idx
				if applied {
					oldDeadline := h.deadline()
					isPrio, _ := opPrio(u.Op)
					m.noteLongTblLeave(h)
					h.setter, h.termsAt, h.eSec, h.unit = u.Idx, u.Time, newE, newUnit
					h.ef = u.Op.EF
					if h.count != u.Op.Cnt {
						k.termsChanged = true
					}
					h.count, h.rcount, h.prio, h.client = u.Op.Cnt, u.Op.Rc, isPrio, u.Op.C
					h.shortBy = h.shortBy || h.deadline() < oldDeadline // sticky: the wheel keeps its old re-check schedule
					m.info.updatesApplied++
				} else {
					// ignored: allowed only if it would move the deadline by at most one unit
					unit := h.unit
					if newUnit > unit {
						unit = newUnit
					}
					var diff int64
					if newE < 0 && h.eSec < 0 {
						diff = 0
					} else if newE < 0 || h.eSec < 0 {
						diff = 1 << 40
					} else {
						diff = (u.Time + newE) - h.deadline()
						if diff < 0 {
							diff = -diff
						}
					}
					if diff > unit {
						m.viol("C06", "update #%d (E=%ds at t+%d) of a hold with deadline t+%d was ignored although it moves the deadline by %ds (> one unit of %ds)", u.Idx, newE, u.Time-aEpoch, h.deadline()-aEpoch, diff, unit)
					}
				}
			}
			h.pending = nil
		}
		// ledger vs. in-package truth
		if int(s.Locked) != k.locked() {
			m.viol("C17,C02,C01", "key %s: server counts %d outstanding holds, reply history says %d", id, s.Locked, k.locked())
		}
		sum := 0
		for _, h := range s.Holders {
			sum += int(h.Depth)
		}
		if sum != int(s.Locked) {
			m.viol("C17", "key %s: locked counter %d differs from the sum of holder depths %d", id, s.Locked, sum)
		}
		if len(s.Holders) != len(k.holders) {
			m.viol("C17,C02,C01", "key %s: server has %d holders, reply history says %d", id, len(s.Holders), len(k.holders))
		} else {
			for i, h := range k.holders {
				sh := s.Holders[i]
				if sh.Id != h.id || int(sh.Depth) != h.depth {
					// (the order matters to C01 too: admission is bounded by the Count of the OLDEST outstanding holder)
					m.viol("C17,C02,C01", "key %s holder %d: server has LockId %x depth %d, reply history says %x depth %d", id, i, sh.Id[:3], sh.Depth, h.id[:3], h.depth)
				}
			}
		}
		ord := k.order()
		if len(s.Waiters) != len(ord) {
			m.viol("C17,C03,C05", "key %s: server has %d live queued requests, reply history says %d", id, len(s.Waiters), len(ord))
		} else {
			for i, w := range ord {
				if s.Waiters[i].Req != w.req.Idx {
					m.viol("C04", "key %s: queue position %d holds request #%d, arrival/priority order says #%d", id, i, s.Waiters[i].Req, w.req.Idx)
					break
				}
			}
		}
		// C04: no admissible request stays at the head of a queue at a quiescent moment
		if len(ord) > 0 {
			head := ord[0]
			free := k.locked() == 0
			if k.staleWake && aKnownNoWake {
				m.info.staleWakeSkips++
			} else if (free && !head.wwu) || (!free && !k.termsChanged && m.admissible(k, head.count)) {
				tags := "C04"
				if k.lastEnd == "expiry" && !k.staleWake { // a head that became admissible because another waiter left is C04's matter only
					tags = "C04,C06" // C06: when a hold expires queued requests are served exactly as after an unlock
				}
				m.viol(tags, "key %s: queued request #%d (Count %d) is at the head of the queue and admissible (%d holds outstanding) but was not granted", id, head.req.Idx, head.count, k.locked())
			}
		}
		// C05 / C06 upper bounds
		for _, w := range k.waiters {
			if e.now-w.queuedAt >= w.tSec+2 {
				m.viol("C05", "queued request #%d (T=%ds, queued at t+%d) still unanswered at t+%d", w.req.Idx, w.tSec, w.queuedAt-aEpoch, e.now-aEpoch)
			}
		}
		for _, h := range k.holders {
			if h.eSec < 0 {
				continue
			}
			slack := int64(2)
			if h.shortBy {
				slack = 10
			}
			if e.now-h.deadline() >= slack {
				m.viol("C06", "hold (terms of #%d, E=%ds set at t+%d) still outstanding at t+%d", h.setter, h.eSec, h.termsAt-aEpoch, e.now-aEpoch)
			}
		}
		m.valueSnapshot(k, s)
	}
	// a key the server knows but the history does not
	for id, s := range snaps {
		if m.keys[id] == nil && (len(s.Holders) > 0 || len(s.Waiters) > 0) {
			m.viol("C17", "server holds state for key %s that no request created", id)
		}
	}
	// STATE counters vs. census
	for di, d := range e.dbs {
		if d == nil {
			continue
		}
		st := d.GetState()
		if int(st.LockedCount) != census[di].locked {
			m.viol("C17", "db %d: STATE LockedCount %d, census of outstanding holds %d", di, st.LockedCount, census[di].locked)
		}
		if int(st.WaitCount) != census[di].waits {
			m.viol("C17", "db %d: STATE WaitCount %d, census of live queued requests %d", di, st.WaitCount, census[di].waits)
		}
		if int(st.KeyCount) != census[di].keys {
			m.viol("C17", "db %d: STATE KeyCount %d, census of live keys %d", di, st.KeyCount, census[di].keys)
		}
	}
	m.opsSinceScan++
	if m.opsSinceScan >= 5 {
		m.opsSinceScan = 0
		m.scanFreed()
	}
}

func (m *aMonitor) scanFreed() {
	for di, d := range m.e.dbs {
		if d == nil {
			continue
		}
		if s := aScanFreed(d); s != "" {
			m.viol("C17", "db %d: %s", di, s)
		}
	}
}

// drainOps returns the operations that end everything the ledger knows: cancel every queued request,
// release every hold completely.
func (m *aMonitor) drainOps() []aOp {
	var ops []aOp
	ids := make([]string, 0, len(m.keys))
	for id := range m.keys {
		ids = append(ids, id)
	}
	sort.Strings(ids)
	for _, id := range ids {
		k := m.keys[id]
		ki := int(k.key[0]) | int(k.key[1])<<8
		for _, w := range k.waiters {
			ops = append(ops, aOp{K: "unlock", Db: k.db, Key: ki - 1, Id: (int(w.id[0]) | int(w.id[1])<<8 | int(w.id[2])<<16) - 1, F: ufCANCEL})
		}
		for _, h := range k.holders {
			ops = append(ops, aOp{K: "unlock", Db: k.db, Key: ki - 1, Id: (int(h.id[0]) | int(h.id[1])<<8 | int(h.id[2])<<16) - 1, Rc: 0})
		}
	}
	return ops
}

// afterDrain: every hold released, every waiter answered, clock advanced past the re-check horizons.
func (m *aMonitor) afterDrain() {
	if m.stop {
		return
	}
	e := m.e
	for id, k := range m.keys {
		if len(k.holders) > 0 || len(k.waiters) > 0 {
			m.viol("C17,C03", "after the drain key %s still has %d holders and %d queued requests in the reply history", id, len(k.holders), len(k.waiters))
		}
	}
	for di, d := range e.dbs {
		if d == nil {
			continue
		}
		st := d.GetState()
		if st.LockedCount != 0 || st.WaitCount != 0 || st.KeyCount != 0 {
			m.viol("C17", "after the drain db %d reports LockedCount=%d WaitCount=%d KeyCount=%d", di, st.LockedCount, st.WaitCount, st.KeyCount)
		}
		for _, s := range aSnapshot(di, d) {
			m.viol("C17", "after the drain key %x is still live in db %d (refCount %d, %d holders, %d waiters, value %x)", s.Key, di, s.RefCount, len(s.Holders), len(s.Waiters), s.Data)
		}
	}
	m.scanFreed()
	for di, d := range e.dbs {
		if d == nil {
			continue
		}
		if n := aScanRecycledValues(d); n > 0 {
			m.viol("C17,C15", "after the drain %d recycled key managers of db %d still carry a value", n, di)
		}
	}
	// every request has exactly one terminal reply
	for _, r := range e.reqs {
		if r.Terminal < 0 {
			m.viol("C03", "request #%d (%s) never got a terminal reply", r.Idx, r.Op.String())
		}
	}
}
