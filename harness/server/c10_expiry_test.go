package server

// C10 (iii): a follower does not end a replicated hold on its own clock while the leader may still
// release or extend it; the code's stated bound is EXPRIED_WAIT_LEADER_MAX_TIME = 300 s past the
// deadline.
//
// Virtual mode: the whole cluster runs without wall-clock sweep goroutines (hook H1); after the hold
// has been replicated the stream is stalled and the harness advances the FOLLOWER's clock second by
// second through the product's own sweep (LockDB.checkTimeExpried), far beyond deadline + 300 s.
// Real mode (few cases): normal sweep goroutines, expiry 1..2 s, stall, sleep 3.5 s: the leader has
// expired the hold, the follower must still have it; after the stall is lifted the follower drops it
// because the leader's record says so.

import (
	"fmt"
	"strings"
	"testing"
	"time"

	"pgregory.net/rapid"
)

type n10ExpCase struct {
	Kind    string `json:"kind"` // "expiry"
	Real    bool   `json:"real,omitempty"`
	E       int    `json:"e"`
	EF      int    `json:"ef,omitempty"` // expiry flags of the replicated holds besides 0x0100: keep-alive 0x8000, minute 0x0040, log-error 0x0800, no-reset 0x2000
	Keys    int    `json:"keys"`
	Rc      int    `json:"rc"`      // re-entrant depth - 1
	Advance int    `json:"advance"` // virtual seconds to run the follower's clock
	Release bool   `json:"release"` // afterwards the leader releases: the follower must follow
}

const n10KeyNeverDrops = "C10:follower-keeps-replicated-hold-beyond-300s"

type n10ExpInfo struct {
	heldPastDeadline bool
	heldPast300      bool
	droppedAfter300  bool
	leaderExpired    bool
	released         bool
}

func n10FollowerHas(sl *SLock, key int) bool {
	_, ok := n09Canon(sl, false)[fmt.Sprintf("db0/key%d", key+1)]
	return ok
}

func n10RunExpiry(c *n10ExpCase) (info n10ExpInfo, key string, err error, inconclusive string) {
	// cluster with the handshake finished and an anchor hold that never expires (a position to converge to)
	e, why := n10Cluster(nil, !c.Real)
	if e == nil {
		if strings.HasPrefix(why, "VIOLATION ") {
			rest := why[10:]
			k := rest
			if i := strings.IndexByte(rest, '\n'); i > 0 {
				k = rest[:i]
			}
			return info, k, fmt.Errorf("while preparing the cluster: %s", rest), ""
		}
		return info, "", nil, why
	}
	defer e.close()
	for k := 0; k < c.Keys; k++ {
		for d := 0; d <= c.Rc; d++ {
			e.send(n09Op{K: "lock", Key: k, Id: 1, E: c.E, EF: 0x0100 | c.EF, Rc: c.Rc})
		}
	}
	if k, viol, inc := e.syncAndCheck(false); inc != "" {
		return info, "", nil, inc
	} else if viol != "" {
		return info, k, fmt.Errorf("%s", viol), ""
	}
	fsl := e.slots[0].node.inst.slock
	for k := 0; k < c.Keys; k++ {
		if !n10FollowerHas(fsl, k) {
			return info, "", nil, "the hold did not reach the follower"
		}
	}
	e.slots[0].stall = true
	e.slots[0].proxy.setStall(true)
	fail := func(k, format string, a ...interface{}) (n10ExpInfo, string, error, string) {
		return info, k, fmt.Errorf("%s\n  case: %+v\n  follower:\n%s  leader:\n%s", fmt.Sprintf(format, a...), *c, n09DescribeState(n09Canon(fsl, false)), n09DescribeState(n09Canon(e.leader.inst.slock, false))), ""
	}
	if c.Real {
		if c.EF&0x0400 != 0 {
			time.Sleep(time.Duration(c.E)*time.Millisecond + 2500*time.Millisecond) // millisecond unit: the ms wheel runs on wall time
		} else {
			time.Sleep(time.Duration(c.E)*time.Second + 2500*time.Millisecond)
		}
		info.leaderExpired = !n10FollowerHas(e.leader.inst.slock, 0)
		for k := 0; k < c.Keys; k++ {
			if !n10FollowerHas(fsl, k) {
				return fail("C10:follower-ended-replicated-hold-on-its-own-clock", "%.1f s after the deadline the follower has dropped the replicated hold of key %d by itself (stream stalled, leader expired it: %v)", 2.5, k, info.leaderExpired)
			}
		}
		info.heldPastDeadline = true
	} else {
		db := fsl.dbs[0]
		if db == nil {
			return info, "", nil, "follower has no db 0"
		}
		queues := make([][]*LockQueue, db.managerMaxGlocks)
		for i := range queues {
			queues[i] = make([]*LockQueue, 5)
			for j := range queues[i] {
				queues[i][j] = NewLockQueue(4, 16, 64)
			}
		}
		now0 := db.currentTime
		deadline := int64(0)
		for _, ks := range n09Canon(fsl, false) {
			for _, h := range ks.Holds {
				if h.Id == n09LockId(1) && h.Expried > deadline {
					deadline = h.Expried
				}
			}
		}
		for t := int64(1); t <= int64(c.Advance); t++ {
			now := now0 + t
			db.currentTime = now
			ct := db.checkExpriedTime
			db.checkExpriedTime = now + 1
			for ; ct <= now; ct++ {
				for i := uint16(0); i < db.managerMaxGlocks; i++ {
					db.checkTimeExpried(ct, now, i, queues[i])
				}
			}
			has := true
			for k := 0; k < c.Keys; k++ {
				has = has && n10FollowerHas(fsl, k)
			}
			past := now - deadline
			switch {
			case !has && past < EXPRIED_WAIT_LEADER_MAX_TIME:
				return fail("C10:follower-ended-replicated-hold-on-its-own-clock", "follower clock %d s past the deadline (limit %d): the replicated hold is gone although not a byte of the leader's stream arrived", past, EXPRIED_WAIT_LEADER_MAX_TIME)
			case has && past >= 1:
				info.heldPastDeadline = true
			}
			if has && past >= EXPRIED_WAIT_LEADER_MAX_TIME+35 {
				info.heldPast300 = true
			}
			if !has {
				info.droppedAfter300 = true
				break
			}
		}
	}
	if c.Release || c.Real {
		// the leader may still release it - and when its record arrives the follower must follow
		if !c.Real {
			for k := 0; k < c.Keys; k++ {
				e.send(n09Op{K: "unlock", Key: k, Id: 1})
			}
		}
		e.slots[0].stall = false
		e.slots[0].proxy.setStall(false)
		e.send(n09Op{K: "lock", Key: 201, Id: 201, E: 3600, EF: 0x0100})
		if k, viol, inc := e.syncAndCheck(false); inc != "" {
			return info, "", nil, inc
		} else if viol != "" && !vIsKnown(k) {
			return info, k, fmt.Errorf("after the stall was lifted: %s", viol), ""
		}
		if !info.droppedAfter300 {
			for k := 0; k < c.Keys; k++ {
				if n10FollowerHas(fsl, k) != n10FollowerHas(e.leader.inst.slock, k) {
					return fail("C10:follower-does-not-follow-leader-release", "after the leader's release/expiry record arrived key %d is held on one node only", k)
				}
			}
		}
		info.released = true
	}
	if info.heldPast300 && !n09Known(n10KeyNeverDrops) {
		return fail(n10KeyNeverDrops, "follower clock ran %d s: the replicated hold is still there %d s and more past its deadline; LockDB.doExpried re-arms it with expriedTime = now + 30 every time, so currentTime - expriedTime never reaches EXPRIED_WAIT_LEADER_MAX_TIME (300 s)", c.Advance, EXPRIED_WAIT_LEADER_MAX_TIME+35)
	}
	return info, "", nil, ""
}

func TestC10_FollowerKeepsExpiredHold(t *testing.T) {
	st := vstat("TestC10_FollowerKeepsExpiredHold")
	rapid.Check(t, func(t *rapid.T) {
		c := &n10ExpCase{Kind: "expiry"}
		c.E = rapid.IntRange(1, 3).Draw(t, "e")
		// every expiry flag a log record preserves and a leader accepts for a hold that does expire: keep-alive (the
		// follower has no client stream to keep it alive for), minute unit, log-error, no-reset-of-checked-count
		for _, f := range []int{0x8000, 0x8000, 0x0040, 0x0800, 0x2000} {
			if rapid.IntRange(0, 3).Draw(t, "flag") == 0 {
				c.EF |= f
			}
		}
		if c.EF&0x0040 != 0 {
			c.E = 1 // one minute: deadline + 300 s stays inside the largest clock advance
		}
		c.Keys = rapid.IntRange(1, 3).Draw(t, "keys")
		c.Rc = rapid.SampledFrom([]int{0, 0, 1, 2}).Draw(t, "rc")
		c.Advance = rapid.SampledFrom([]int{5, 40, 290, 345, 420, 700}).Draw(t, "advance")
		c.Release = rapid.Bool().Draw(t, "release")
		if vIsKnown(n10KeyNeverDrops) && c.Advance >= 300 {
			st.Exclude("follower clock runs beyond deadline + 300 s only to observe (known finding " + n10KeyNeverDrops + ")")
		}
		info, key, err, inc := n10RunExpiry(c)
		for i := 0; i < 2 && inc != ""; i++ {
			st.Class("inconclusive execution repeated", 1)
			first := inc
			if info, key, err, inc = n10RunExpiry(c); inc != "" {
				inc = first
			}
		}
		if inc != "" {
			n09Inconclusive("C10 expiry: " + inc)
		}
		var cls []string
		add := func(b bool, s string) {
			if b {
				cls = append(cls, s)
			}
		}
		add(info.heldPastDeadline, "hold kept past its deadline with the stream stalled")
		add(info.heldPast300, "hold still kept at deadline + 335 s")
		add(info.droppedAfter300, "hold dropped by the follower after deadline + 300 s")
		add(info.released, "leader's release applied after the stall")
		add(c.EF&0x8000 != 0, "replicated hold carries the keep-alive flag")
		add(c.EF&0x0040 != 0, "replicated hold with minute expiry")
		add(c.EF&0x2800 != 0, "replicated hold with log-error / no-reset flag")
		st.Case(info.heldPastDeadline, vHash(fmt.Sprintf("%+v", *c)), cls, func() interface{} { return c })
		if err != nil && strings.HasPrefix(key, "C09:") {
			fmt.Printf("VERIF-NOTE C10 expiry case ran into a C09 matter key=%s (judged by the C09 check)\n", key)
			st.Class("case ran into a C09 finding (not judged by C10): "+key, 1)
			err = nil
		}
		if err != nil {
			vFail(t, "TestC10_FollowerKeepsExpiredHold", key, c, "%v", err)
		}
	})
}

// TestC10_FollowerKeepsExpiredHoldReal: the same with the real sweep goroutines (wall time).
func TestC10_FollowerKeepsExpiredHoldReal(t *testing.T) {
	st := vstat("TestC10_FollowerKeepsExpiredHoldReal")
	n := vEnvInt("VERIF_C10_REAL_CASES", 3)
	for i := 0; i < n; i++ {
		c := &n10ExpCase{Kind: "expiry", Real: true, E: 1 + i%2, Keys: 1 + i%3, Rc: i % 2, EF: []int{0x8000, 0x0400, 0, 0x8000 | 0x0800, 0x0400 | 0x8000, 0x2000}[i%6]}
		if c.EF&0x0400 != 0 {
			// expiry in milliseconds (flag 0x0400, < 3000): held in the millisecond wheel, which only wall time drives;
			// the shard seed varies the value
			c.E = 900 + (vEnvInt("VERIF_SHARD_SEED", 7)%13)*100 + i*150
			if c.E > 2900 {
				c.E = 2900
			}
		}
		info, key, err, inc := n10RunExpiry(c)
		if inc != "" {
			n09Inconclusive("C10 expiry (real time): " + inc)
		}
		var cls []string
		if info.leaderExpired {
			cls = append(cls, "leader expired the hold while the follower kept it")
		}
		if info.released {
			cls = append(cls, "follower dropped it once the leader's record arrived")
		}
		st.Case(info.heldPastDeadline && info.leaderExpired, vHash(fmt.Sprintf("%+v", *c)), cls, func() interface{} { return c })
		if err != nil && strings.HasPrefix(key, "C09:") {
			fmt.Printf("VERIF-NOTE C10 expiry case ran into a C09 matter key=%s (judged by the C09 check)\n", key)
			err = nil
		}
		if err != nil {
			vFail(t, "TestC10_FollowerKeepsExpiredHoldReal", key, c, "%v", err)
		}
	}
}
