package server

// C15(a): pure differential of LockManager.ProcessLockData against the sequential value interpreter
// (ea_value_test.go). Sequences of value operations on one bare key manager, typed per case
// (bytes / number / array) so that only operations the protocol description defines for that type meet.

import (
	"fmt"
	"testing"

	"github.com/snower/slock/protocol"
	"pgregory.net/rapid"
)

type pvCase struct {
	Type string  `json:"type"` // bytes number array
	Ops  []*aVal `json:"ops"`
	Un   []bool  `json:"unlock"` // carried on an unlock (true) or a lock (false) command
	Upd  []int   `json:"upd,omitempty"` // indices of SET operations carried on a LOCK with the update flag (1) / a zero-expiry LOCK (2)
}

func (c *pvCase) upd(i int) int {
	for j := 0; j+1 < len(c.Upd); j += 2 {
		if c.Upd[j] == i {
			return c.Upd[j+1]
		}
	}
	return 0
}

func (c *pvCase) fingerprint() uint64 {
	s := c.Type
	for i, o := range c.Ops {
		s += o.String() + fmt.Sprint(c.Un[i], c.upd(i))
	}
	return vHash(s)
}

const (
	pvKeyShiftBeyond   = "C15:SHIFT:length-beyond-payload"
	pvKeyIncrOddSize   = "C15:INCR:operand-not-8-bytes-on-empty-key"
	pvKeyPipelineReset = "C15:PIPELINE:sub-operations-do-not-compose"
	pvKeyPopEmptyElem  = "C15:POP:empty-element"
)

type pvInfo struct {
	kinds    map[string]bool
	beyond   bool
	props    bool
	pipeline bool
	applied  int
}

func pvRun(c *pvCase) (info pvInfo, err error) {
	info.kinds = map[string]bool{}
	m := qBareManager()
	m.locked = 2 // neither first locker nor last unlocker
	var model *aValue
	for i, op := range c.Ops {
		cmd := &protocol.LockCommand{}
		cmd.CommandType = protocol.COMMAND_LOCK
		if c.Un[i] {
			cmd.CommandType = protocol.COMMAND_UNLOCK
		}
		cmd.Expried = 10
		cmd.Flag = protocol.LOCK_FLAG_CONTAINS_DATA
		switch c.upd(i) {
		case 1:
			cmd.Flag |= protocol.LOCK_FLAG_UPDATE_WHEN_LOCKED
		case 2:
			cmd.Expried = 0
		}
		cmd.Data = op.commandData()
		lock := &Lock{manager: m, command: cmd}
		before := m.GetLockData()
		bv, derr := aDecodeFrame(before)
		if derr != nil {
			return info, fmt.Errorf("op %d %s: stored value is malformed: %v", i, op, derr)
		}
		if !aValueEqual(bv, model) {
			return info, fmt.Errorf("op %d %s: value before the operation is %s, sequential interpreter has %s", i, op, bv, model)
		}
		m.ProcessLockData(cmd, lock, false)
		model = aInterp(model, op)
		info.kinds[op.Op] = true
		info.applied++
		if op.P != nil {
			info.props = true
		}
		if op.Op == "pipeline" {
			info.pipeline = true
		}
		after := m.GetLockData()
		av, derr := aDecodeFrame(after)
		if derr != nil {
			return info, fmt.Errorf("op %d %s: stored value is malformed: %v (%x)", i, op, derr, after)
		}
		if !aValueEqual(av, model) {
			return info, fmt.Errorf("op %d %s: value after the operation is %s, sequential interpreter computes %s", i, op, av, model)
		}
	}
	return info, nil
}

func pvGenOp(t *rapid.T, typ string, depth int, cur *aValue, info *pvInfo) *aVal {
	v := &aVal{}
	payload := func(label string, min int) []byte {
		if rapid.IntRange(0, 19).Draw(t, label+"Big") == 0 {
			return rapid.SliceOfN(rapid.Byte(), 200, 700).Draw(t, label+"BigBytes")
		}
		return rapid.SliceOfN(rapid.Byte(), min, 12).Draw(t, label)
	}
	ops := map[string][]string{
		"bytes":  {"set", "set", "append", "append", "shift", "shift", "unset", "pipeline"},
		"number": {"incr", "incr", "incr", "set", "unset", "pipeline"},
		"array":  {"push", "push", "push", "pop", "pop", "unset", "pipeline"},
	}[typ]
	v.Op = rapid.SampledFrom(ops).Draw(t, "op")
	if v.Op == "pipeline" && depth > 0 {
		v.Op = ops[0]
	}
	switch v.Op {
	case "set":
		if typ == "number" {
			// a number register may be set from a payload of 0..8 bytes (read little-endian, zero-extended)
			v.B = rapid.SliceOfN(rapid.Byte(), 0, 8).Draw(t, "numBytes")
		} else {
			v.B = payload("setPayload", 0)
		}
	case "append":
		v.B = payload("appendPayload", 0)
	case "incr":
		v.N = rapid.OneOf(rapid.SampledFrom([]int64{0, 1, -1, 2, 255, 256, -256, 1 << 31, 1 << 62, -(1 << 62), 9223372036854775807, -9223372036854775808}), rapid.Int64()).Draw(t, "incrBy")
	case "shift":
		n := 0
		if cur != nil {
			n = len(cur.Payload)
		}
		x := rapid.IntRange(0, 9).Draw(t, "shiftClass")
		switch {
		case x < 6:
			v.N = int64(rapid.IntRange(0, n).Draw(t, "shiftWithin"))
		case vIsKnown(pvKeyShiftBeyond):
			v.N = int64(n)
		default:
			v.N = int64(n + rapid.SampledFrom([]int{1, 2, 5, 6, 7, 10, 1000, 1 << 20}).Draw(t, "shiftBeyond"))
			info.beyond = true
		}
	case "push":
		// elements are non-empty: the array encoding has no representation for an empty element that
		// survives a POP (protocol.GetArrayValue and POP both skip zero-length entries) - domain restriction
		v.B = payload("elem", 1)
	case "pop":
		n := 0
		if cur != nil {
			n = len(aArrayElems(cur.Payload))
		}
		if rapid.IntRange(0, 9).Draw(t, "popClass") < 6 {
			v.N = int64(rapid.IntRange(0, n).Draw(t, "popWithin"))
		} else {
			v.N = int64(n + rapid.SampledFrom([]int{1, 2, 100, 1 << 30}).Draw(t, "popBeyond"))
			info.beyond = true
		}
	case "pipeline":
		n := rapid.IntRange(1, 4).Draw(t, "pipeLen")
		if vIsKnown(pvKeyPipelineReset) {
			n = 1 // known finding: several value operations in one pipeline do not compose; keep single-operation pipelines
		}
		c := cur
		for i := 0; i < n; i++ {
			s := pvGenOp(t, typ, depth+1, c, info)
			v.Subs = append(v.Subs, s)
			c = aInterp(c, s)
		}
	}
	if (v.Op == "set" || v.Op == "append" || v.Op == "push" || v.Op == "incr") && rapid.IntRange(0, 9).Draw(t, "withProp") < 2 {
		v.P = rapid.SliceOfN(rapid.Byte(), 0, 6).Draw(t, "prop")
	}
	return v
}

func TestC15_PureDifferential(t *testing.T) {
	st := vstat("TestC15_PureDifferential")
	rapid.Check(t, func(t *rapid.T) {
		c := &pvCase{Type: rapid.SampledFrom([]string{"bytes", "bytes", "number", "array"}).Draw(t, "type")}
		n := rapid.IntRange(1, 14).Draw(t, "nOps")
		var cur *aValue
		var ginfo pvInfo
		for i := 0; i < n; i++ {
			op := pvGenOp(t, c.Type, 0, cur, &ginfo)
			c.Ops = append(c.Ops, op)
			c.Un = append(c.Un, rapid.IntRange(0, 3).Draw(t, "onUnlock") == 0)
			if op.Op == "set" && !c.Un[len(c.Un)-1] && rapid.IntRange(0, 2).Draw(t, "setCarrier") == 0 {
				c.Upd = append(c.Upd, len(c.Ops)-1, rapid.IntRange(1, 2).Draw(t, "setCarrierKind"))
			}
			cur = aInterp(cur, op)
		}
		retyped := false
		if c.Type != "number" && rapid.IntRange(0, 99).Draw(t, "retype") < 15 {
			// the same payload bytes stored twice with different value types: a SET is only a no-op when the whole
			// frame (type flag included) equals the stored one
			elems := rapid.SliceOfN(rapid.SliceOfN(rapid.Byte(), 1, 5), 1, 3).Draw(t, "retypeElems")
			p := aArrayBytes(elems)
			first := rapid.Bool().Draw(t, "retypeArrayFirst")
			for _, a := range []bool{first, !first} {
				op := &aVal{Op: "set", B: p, A: a}
				c.Ops = append(c.Ops, op)
				c.Un = append(c.Un, false)
				c.Upd = append(c.Upd, len(c.Ops)-1, rapid.IntRange(0, 2).Draw(t, "retypeCarrier"))
				cur = aInterp(cur, op)
			}
			retyped = true
		}
		var info pvInfo
		var err error
		func() {
			defer func() {
				if r := recover(); r != nil {
					err = fmt.Errorf("panic: %v\n%s", r, vRepoFrames())
				}
			}()
			info, err = pvRun(c)
		}()
		cls := []string{}
		if ginfo.beyond {
			cls = append(cls, "shift/pop beyond length")
		}
		if info.props {
			cls = append(cls, "property header")
		}
		if info.pipeline {
			cls = append(cls, "pipeline")
		}
		if retyped {
			cls = append(cls, "same payload stored with another value type")
		}
		st.Case(info.applied >= 3 && len(info.kinds) >= 2, c.fingerprint(), cls, func() interface{} { return c })
		if err != nil {
			vFail(t, "TestC15_PureDifferential", "C15:pure:"+aViolKey(err.Error()), c, "%v", err)
		}
	})
}

func pvReplay(c *pvCase) (err error) {
	defer func() {
		if r := recover(); r != nil {
			err = fmt.Errorf("panic: %v\n%s", r, vRepoFrames())
		}
	}()
	_, err = pvRun(c)
	return
}

func TestC15_Replay(t *testing.T) {
	for _, f := range vReplayFiles("C15") {
		var raw struct {
			Type string `json:"type"`
		}
		key, err := vLoadReplay(f, &raw)
		if err != nil {
			t.Fatalf("cannot load replay %s: %v", f, err)
		}
		if raw.Type != "" {
			var c pvCase
			_, _ = vLoadReplay(f, &c)
			rerr := pvReplay(&c)
			fmt.Printf("VERIF-KF key=%s reproduced=%v file=%s %v\n", key, rerr != nil, f, rerr)
			continue
		}
		var c aCase
		if _, err := vLoadReplay(f, &c); err == nil && c.Ops != nil {
			c.Prop = "C15"
			out := aReplay(&c)
			msg := out.panic
			if msg == "" && out.viol != nil {
				msg = out.viol.Msg
			}
			fmt.Printf("VERIF-KF key=%s reproduced=%v file=%s %s\n", key, msg != "", f, msg)
		}
	}
}
