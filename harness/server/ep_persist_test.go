package server

// Engine P: persistence (C07 restart recovery; C08 crash at any byte; C16 compaction).
// Instance 1 runs a generated history (engine A grammar restricted to Timeout 0 and expiries far from
// the restart instant) on a virtual clock that lags the wall clock by EpochOff seconds - which is
// indistinguishable from an outage of that length - then quiesces; directory images are recovered by
// fresh instances on the wall clock and their in-package snapshots are compared.

import (
	"encoding/json"
	"fmt"
	"os"
	"path/filepath"
	"sort"
	"strings"
	"sync/atomic"
	"testing"
	"time"

	"github.com/snower/slock/protocol"
	"pgregory.net/rapid"
)

type pHold struct {
	Db       int
	Key      [16]byte
	Id       [16]byte
	Depth    int
	Count    int
	Rcount   int
	Deadline int64 // absolute seconds; 1<<62 = unlimited
	Unit     int64
	IsAof    bool
}

type pState struct {
	Holds  map[string]*pHold // db/key/id
	Values map[string][]byte // db/key
}

func (h *pHold) name() string { return fmt.Sprintf("%d/%x/%x", h.Db, h.Key[:2], h.Id[:3]) }

func pSnapshot(slock *SLock) *pState {
	st := &pState{Holds: map[string]*pHold{}, Values: map[string][]byte{}}
	for di, d := range slock.dbs {
		if d == nil || di > 1 {
			continue
		}
		for _, k := range aSnapshot(di, d) {
			for _, h := range k.Holders {
				ph := &pHold{Db: di, Key: k.Key, Id: h.Id, Depth: int(h.Depth), Count: int(h.Count), Rcount: int(h.Rcount), Deadline: h.ExpriedTime, Unit: 1, IsAof: h.IsAof}
				if h.EF&efUNLIMITED != 0 || h.ExpriedTime > 1<<61 {
					ph.Deadline = 1 << 62
				}
				if h.EF&efMINUTE != 0 {
					ph.Unit = 60
				}
				st.Holds[ph.name()] = ph
			}
			if k.Data != nil {
				st.Values[fmt.Sprintf("%d/%x", di, k.Key[:2])] = k.Data
			}
		}
	}
	return st
}

func (st *pState) String() string {
	var names []string
	for n := range st.Holds {
		names = append(names, n)
	}
	sort.Strings(names)
	var sb strings.Builder
	for _, n := range names {
		h := st.Holds[n]
		dl := "unlimited"
		if h.Deadline < 1<<61 {
			dl = fmt.Sprintf("wall%+d", h.Deadline-time.Now().Unix())
		}
		fmt.Fprintf(&sb, "  %s depth=%d count=%d rcount=%d deadline=%s aof=%v\n", n, h.Depth, h.Count, h.Rcount, dl, h.IsAof)
	}
	for k, v := range st.Values {
		if len(v) > 64 {
			fmt.Fprintf(&sb, "  value %s = %x..%x (%d bytes, fnv %016x)\n", k, v[:12], v[len(v)-8:], len(v), vHash(v))
		} else {
			fmt.Fprintf(&sb, "  value %s = %x\n", k, v)
		}
	}
	return sb.String()
}

// pRecover starts a fresh leader on (a copy of) the directory and returns its snapshot.
func pRecover(c *aCase, dir string) (*pState, *vInst, error) {
	hasAppend := false
	if ents, err := os.ReadDir(dir); err == nil {
		for _, e := range ents {
			if strings.HasPrefix(e.Name(), "append.aof.") && !strings.HasSuffix(e.Name(), ".dat") {
				hasAppend = true
			}
		}
	}
	endedBefore := atomic.LoadInt64(&vRewriteEnded)
	// Known finding C07:startup-compaction-races-with-load: LoadAndInit starts the compaction right after
	// Aof.WaitFlushAofChannel(), which can return while loaded records are still being replayed; the compaction then
	// drops the records of holds it does not see yet. While that finding is listed the start-up compaction is held
	// at its entry hook until the replay queue is really idle.
	var gate chan struct{}
	if pKnownStartupRace {
		gate = make(chan struct{})
		vSetYieldExtra(func(point int) {
			if point == verifPointAofRewrite {
				<-gate
			}
		})
		defer vSetYieldExtra(func(int) {})
	}
	inst, err := vNewInst(vInstOpts{DBConcurrent: uint(c.Conc), DBFastKeyCount: uint(c.FastKeys), DBLockAofTime: uint(c.AofTime), NoCheckLoop: true,
		AofFileBufferSize: uint(c.AofBuf), AofFileRewriteSize: uint(c.RewriteSize), DataDir: dir})
	if err != nil {
		if gate != nil {
			close(gate)
		}
		return nil, nil, err
	}
	vAofIdle(inst.slock.aof)
	if gate != nil {
		close(gate)
	}
	// LoadAndInit starts a compaction (goroutine) when append files exist: wait for exactly that one
	ok := true
	if hasAppend {
		ok = vWaitRewriteAfter(endedBefore)
	} else {
		ok = vWaitRewriteAfter(-1)
	}
	if !ok {
		fmt.Println("VERIF-INCONCLUSIVE start-up compaction did not finish within the watchdog")
		os.Exit(3)
	}
	vAofIdle(inst.slock.aof)
	return pSnapshot(inst.slock), inst, nil
}

const pKeyStartupRace = "C07:startup-compaction-races-with-load"

var pKnownStartupRace = vIsKnownSuffix("startup-compaction-races-with-load")

const pMargin = 6 // seconds around the restart instant inside which a hold may or may not survive

// pCompareRecovered: got must contain exactly the holds of want that are persisted and still alive at wall time `at`.
func pCompareRecovered(want, got *pState, at int64, what string) error {
	for n, h := range want.Holds {
		if !h.IsAof {
			if g := got.Holds[n]; g != nil {
				return fmt.Errorf("%s: hold %s was never persisted but was restored", what, n)
			}
			continue
		}
		g := got.Holds[n]
		alive := h.Deadline-at > pMargin+h.Unit
		dead := h.Deadline-at < -pMargin
		if g == nil {
			if alive {
				return fmt.Errorf("%s: persisted hold %s (deadline in %d s) was not restored", what, n, h.Deadline-at)
			}
			continue
		}
		if dead {
			return fmt.Errorf("%s: hold %s expired %d s before the restart but was restored", what, n, at-h.Deadline)
		}
		if g.Depth != h.Depth || g.Count != h.Count || g.Rcount != h.Rcount {
			return fmt.Errorf("%s: hold %s restored with depth=%d count=%d rcount=%d, had depth=%d count=%d rcount=%d", what, n, g.Depth, g.Count, g.Rcount, h.Depth, h.Count, h.Rcount)
		}
		if (h.Deadline > 1<<61) != (g.Deadline > 1<<61) {
			return fmt.Errorf("%s: hold %s unlimited-expiry changed across the restart", what, n)
		}
		if h.Deadline < 1<<61 {
			d := g.Deadline - h.Deadline
			if d > h.Unit+1 || d < -(h.Unit+1) {
				return fmt.Errorf("%s: hold %s deadline moved by %d s across the restart (allowed: one unit of %d s plus a second)", what, n, d, h.Unit)
			}
		}
	}
	for n := range got.Holds {
		if want.Holds[n] == nil {
			return fmt.Errorf("%s: hold %s was restored but is not outstanding on the original instance", what, n)
		}
	}
	// values of keys whose holders were all persisted and survive
	perKey := map[string][2]int{}
	for _, h := range want.Holds {
		k := fmt.Sprintf("%d/%x", h.Db, h.Key[:2])
		c := perKey[k]
		c[0]++
		if h.IsAof && h.Deadline-at > pMargin+h.Unit {
			c[1]++
		}
		perKey[k] = c
	}
	for k, c := range perKey {
		if c[0] == c[1] {
			wv, _ := aDecodeFrame(want.Values[k])
			gv, _ := aDecodeFrame(got.Values[k])
			if !aValueEqual(wv, gv) {
				return fmt.Errorf("%s: key %s value restored as %s, was %s", what, k, gv, wv)
			}
		}
	}
	return nil
}

// pEqualStates: two recoveries of equivalent directory images (done within a second or two of each other).
func pEqualStates(a, b *pState, what string) error {
	// the two recoveries happen seconds apart (more under load): a hold whose deadline lies within the margin of
	// the current time may have expired between them and is not compared
	now := time.Now().Unix()
	near := func(h *pHold) bool { return h.Deadline < 1<<61 && h.Deadline-now < pMargin+h.Unit }
	for n, h := range a.Holds {
		g := b.Holds[n]
		if g == nil && near(h) {
			continue
		}
		if g == nil {
			return fmt.Errorf("%s: hold %s recovered from the first image only\nfirst:\n%ssecond:\n%s", what, n, a, b)
		}
		if g.Depth != h.Depth || g.Count != h.Count || g.Rcount != h.Rcount || (h.Deadline > 1<<61) != (g.Deadline > 1<<61) {
			return fmt.Errorf("%s: hold %s differs between the two recoveries\nfirst:\n%ssecond:\n%s", what, n, a, b)
		}
		if h.Deadline < 1<<61 {
			d := g.Deadline - h.Deadline
			if d > h.Unit+2 || d < -(h.Unit+2) {
				return fmt.Errorf("%s: hold %s deadline differs by %d s between the two recoveries", what, n, d)
			}
		}
	}
	for n, h := range b.Holds {
		if a.Holds[n] == nil && !near(h) {
			return fmt.Errorf("%s: hold %s recovered from the second image only\nfirst:\n%ssecond:\n%s", what, n, a, b)
		}
	}
	// values are compared for keys that are held in both states (the value of a key nobody holds may linger
	// in memory until its manager is recycled and is never persisted on its own)
	held := map[string]bool{}
	for _, h := range a.Holds {
		held[fmt.Sprintf("%d/%x", h.Db, h.Key[:2])] = true
	}
	for k := range held {
		av, _ := aDecodeFrame(a.Values[k])
		bv, _ := aDecodeFrame(b.Values[k])
		if !aValueEqual(av, bv) {
			return fmt.Errorf("%s: value of key %s differs between the two recoveries (%s vs %s)", what, k, av, bv)
		}
	}
	return nil
}

// ---------------------------------------------------------------------------------------------
// generation

var pProfile = aProfile{prop: "C07", values: 30, timers: 6, bursts: false, prioBias: 3, updBias: 14, persist: true}

func pGenCase(t *rapid.T, prop string) *aCase {
	c := &aCase{Prop: prop}
	c.Conc = rapid.SampledFrom([]int{1, 2, 2, 4}).Draw(t, "conc")
	c.FastKeys = rapid.SampledFrom([]int{1, 4, 64}).Draw(t, "fastKeys")
	c.AofTime = rapid.SampledFrom([]int{0, 0, 1}).Draw(t, "aofTime")
	c.Clients = rapid.IntRange(1, 3).Draw(t, "clients")
	c.AofBuf = rapid.SampledFrom([]int{64, 128, 256, 4096}).Draw(t, "aofBuf")
	// "file-rotation thresholds small enough to spread the history over several append files plus a rewrite file":
	// the size-triggered rotation happens inside the write of the record that reaches the threshold, the compaction
	// that follows runs in a goroutine of its own (the quiescent point waits for it)
	c.RewriteSize = rapid.SampledFrom([]int{0, 0, 12 + 64*4, 12 + 64*8, 12 + 64*20}).Draw(t, "rewriteSize")
	c.EpochOff = rapid.SampledFrom([]int{15, 45, 130}).Draw(t, "epochOff")
	return c
}

type pInfo struct {
	deep       int
	files      int
	dataFile   bool
	released   bool
	persisted  int
	restored   int
	expiredOut int
	rotations  int
	takenAfter int
}

func pDirInfo(dir string, info *pInfo) {
	ents, _ := os.ReadDir(dir)
	for _, e := range ents {
		n := e.Name()
		if strings.HasSuffix(n, ".dat") {
			if fi, err := e.Info(); err == nil && fi.Size() > 0 {
				info.dataFile = true
			}
		} else if strings.HasPrefix(n, "append.aof.") || n == "rewrite.aof" {
			info.files++
		}
	}
}

// pMustPersist: C07's "every hold taken with the persist-immediately flag and every hold older than the
// configured persistence delay counts as persisted; holds taken with the never-persist flag are not restored".
func pCheckPersistedSet(e *aEnv, s1 *pState) error {
	for _, k := range e.mon.keys {
		for _, h := range k.holders {
			name := (&pHold{Db: k.db, Key: k.key, Id: h.id}).name()
			sh := s1.Holds[name]
			if sh == nil {
				continue
			}
			untouched := h.setter == h.grantReq
			never := h.grantEf&0x0200 != 0 && h.first && untouched
			if never && sh.IsAof && h.grantEf&0x0100 == 0 {
				return fmt.Errorf("hold %s was taken with the never-persist flag but is persisted", name)
			}
			// "older than the configured persistence delay": strictly older, and only for a hold whose terms were
			// never replaced (a re-lock / update restarts its age)
			must := (h.grantEf&0x1300 == 0x0100 && h.first) || (h.grantEf&0x1300 == 0 && h.first && untouched && e.now-h.grantAt > int64(e.c.AofTime))
			if must && !sh.IsAof {
				return fmt.Errorf("hold %s (first holder of its key, expiry flags %#x, age %d s, persistence delay %d s) is not persisted at a quiescent point", name, h.grantEf, e.now-h.grantAt, e.c.AofTime)
			}
		}
	}
	return nil
}

func pRunHistory(c *aCase, next func(e *aEnv) []aOp) (*aEnv, string) {
	c.DataDir = vScratchDir("p1")
	e, err := aNewEnv(c)
	if err != nil {
		return nil, "cannot create instance: " + err.Error()
	}
	for {
		ops := next(e)
		if ops == nil {
			break
		}
		for _, op := range ops {
			if msg := aSafe(e, func() { e.apply(op) }); msg != "" {
				return e, msg
			}
		}
	}
	if msg := aSafe(e, func() { e.quiesce() }); msg != "" {
		return e, msg
	}
	return e, ""
}

func pC07(c *aCase, next func(e *aEnv) []aOp) (info pInfo, err error) {
	e, msg := pRunHistory(c, next)
	if e == nil {
		return info, fmt.Errorf("%s", msg)
	}
	if msg != "" {
		return info, fmt.Errorf("%s\n%s", msg, e.history())
	}
	s1 := pSnapshot(e.inst.slock)
	if err := pCheckPersistedSet(e, s1); err != nil {
		hist := e.history()
		e.close()
		return info, fmt.Errorf("%v\n--- history ---\n%s", err, hist)
	}
	for _, k := range e.mon.keys {
		_ = k
	}
	info.released = e.mon.info.holdEndKinds["unlock"] || e.mon.info.holdEndKinds["unlock-one-level"]
	d2 := vScratchDir("p2")
	cerr := vCopyDir(c.DataDir, d2)
	pDirInfo(d2, &info)
	hist := e.history()
	e.close()
	if cerr != nil {
		return info, cerr
	}
	for _, h := range s1.Holds {
		if h.IsAof {
			info.persisted++
			if h.Depth >= 2 {
				info.deep++
			}
		}
	}
	if os.Getenv("VERIF_P_DUMP") != "" {
		fmt.Println(hist)
		fmt.Println(pDumpDir(d2))
	}
	at := time.Now().Unix()
	s2, inst2, rerr := pRecover(c, d2)
	if rerr != nil {
		return info, fmt.Errorf("restart failed: %v\n--- history ---\n%s", rerr, hist)
	}
	info.restored = len(s2.Holds)
	for _, h := range s1.Holds {
		if h.IsAof && h.Deadline < at {
			info.expiredOut++
		}
	}
	if err := pCompareRecovered(s1, s2, at, "first restart"); err != nil {
		inst2.vClose(false, true)
		return info, fmt.Errorf("%v\noriginal (quiescent):\n%srecovered:\n%s--- history ---\n%s", err, s1, s2, hist)
	}
	// a second restart on what the first one left behind (it compacts at start-up) must recover the same again - and the
	// holds taken on the restarted instance with the persist-immediately flag in between
	vAofIdle(inst2.slock.aof)
	taken := map[string]*pHold{}
	if len(c.After) > 0 {
		ap := NewMemWaiterServerProtocol(inst2.slock)
		_ = ap.SetResultCallback(func(_ *MemWaiterServerProtocol, _ *protocol.LockCommand, _ uint8, _ uint16, _ uint8, _ []byte) error { return nil })
		msg := pSendAfter(ap, c.After)
		if msg != "" {
			inst2.vClose(false, true)
			return info, fmt.Errorf("on the restarted instance: %s\n--- history ---\n%s", msg, hist)
		}
		vAofIdle(inst2.slock.aof)
		if c.RewriteSize > 0 {
			vWaitRewriteRotations() // a size-triggered rotation starts a compaction goroutine: the directory is copied when it is done
		} else {
			vWaitRewrite(inst2.slock.aof)
		}
		vAofIdle(inst2.slock.aof)
		s2b := pSnapshot(inst2.slock)
		_ = ap.Close()
		for n, h := range s2b.Holds {
			if s2.Holds[n] != nil {
				continue
			}
			if !h.IsAof {
				inst2.vClose(false, true)
				return info, fmt.Errorf("hold %s, taken on the restarted instance with the persist-immediately flag as first holder of its key, is not persisted at a quiescent point\n--- history ---\n%s", n, hist)
			}
			taken[n] = h
		}
		info.takenAfter = len(taken)
	}
	inst2.slock.aof.FlushWithLocked()
	d3 := vScratchDir("p3")
	cerr = vCopyDir(d2, d3)
	inst2.vClose(false, true)
	if cerr != nil {
		return info, cerr
	}
	s3, inst3, rerr := pRecover(c, d3)
	if rerr != nil {
		return info, fmt.Errorf("second restart failed: %v\n--- history ---\n%s", rerr, hist)
	}
	inst3.vClose(false, true)
	// deadlines are compared with the original: the outage never renews a hold (allow one more second per restart)
	for n, h := range s2.Holds {
		g := s3.Holds[n]
		if g == nil {
			if h.Deadline-time.Now().Unix() > pMargin+h.Unit {
				return info, fmt.Errorf("second restart: hold %s lost\nafter first restart:\n%safter second:\n%s--- history ---\n%s", n, s2, s3, hist)
			}
			continue
		}
		o := s1.Holds[n]
		if o != nil && o.Deadline < 1<<61 {
			d := g.Deadline - o.Deadline
			if d > o.Unit+2 || d < -(o.Unit+2) {
				return info, fmt.Errorf("second restart: hold %s deadline drifted by %d s from the original", n, d)
			}
		}
		if g.Depth != h.Depth || g.Count != h.Count || g.Rcount != h.Rcount {
			return info, fmt.Errorf("second restart: hold %s changed (depth/count/rcount)\nafter first restart:\n%safter second:\n%s", n, s2, s3)
		}
	}
	for n, h := range taken {
		g := s3.Holds[n]
		if g == nil {
			return info, fmt.Errorf("second restart: hold %s, taken and persisted on the restarted instance, was not restored\nafter second:\n%s--- history ---\n%s", n, s3, hist)
		}
		if g.Depth != h.Depth || g.Count != h.Count || g.Rcount != h.Rcount {
			return info, fmt.Errorf("second restart: hold %s taken on the restarted instance changed (depth/count/rcount)\nbefore: %+v\nafter second:\n%s", n, *h, s3)
		}
	}
	for n := range s3.Holds {
		if s2.Holds[n] == nil && taken[n] == nil {
			return info, fmt.Errorf("second restart: hold %s appeared\nafter first restart:\n%safter second:\n%s--- history ---\n%s", n, s2, s3, hist)
		}
	}
	return info, nil
}

func TestC07_Restart(t *testing.T) {
	st := vstat("TestC07_Restart")
	rapid.Check(t, func(t *rapid.T) {
		c := pGenCase(t, "C07")
		n := rapid.IntRange(3, 45).Draw(t, "nOps")
		fresh := 0
		if rapid.IntRange(0, 99).Draw(t, "afterPhase") < 60 {
			for i := rapid.IntRange(1, 8).Draw(t, "nAfter"); i > 0; i-- {
				op := aOp{K: "lock", Db: rapid.IntRange(0, 1).Draw(t, "afterDb"), Key: 30000 + 7*i, Id: 30400 + i, E: 900 + i, EF: 0x0100, Cnt: 0xffff}
				if rapid.IntRange(0, 3).Draw(t, "afterVal") == 0 {
					op.V = &aVal{Op: "set", B: rapid.SliceOfN(rapid.Byte(), 1, 9).Draw(t, "afterPayload")}
				}
				c.After = append(c.After, op)
			}
		}
		info, err := pC07(c, func(e *aEnv) []aOp {
			if len(c.Ops) >= n {
				return nil
			}
			var ops []aOp
			if rapid.IntRange(0, 99).Draw(t, "rotate") < 6 {
				ops = []aOp{{K: "rotate"}}
			} else {
				ops = aGenOps(t, e, pProfile, &fresh)
			}
			c.Ops = append(c.Ops, ops...)
			return ops
		})
		cls := []string{}
		if info.files >= 2 {
			cls = append(cls, ">=2 log files (append + rewrite)")
		}
		if info.dataFile {
			cls = append(cls, "value blob in a .dat file")
		}
		if info.released {
			cls = append(cls, "a hold was released before the restart")
		}
		if info.expiredOut > 0 {
			cls = append(cls, "persisted hold expired during the outage")
		}
		if info.restored > 0 {
			cls = append(cls, "holds restored")
		}
		if info.deep > 0 {
			cls = append(cls, "persisted re-entrant hold (depth >= 2) at the restart")
		}
		if info.takenAfter > 0 {
			cls = append(cls, "holds taken on the restarted instance and carried over the second restart")
		}
		st.Case((info.files >= 2 || info.dataFile) && info.released && info.restored > 0, c.fingerprint(), cls, func() interface{} { return c })
		for ; pUpdCreateExcluded > 0; pUpdCreateExcluded-- {
			st.Exclude("update flag removed from a request that creates a hold (known finding " + pKeyUpdCreate + ")")
		}
		for ; pShortUpdExcluded > 0; pShortUpdExcluded-- {
			st.Exclude("re-lock/update of a live hold whose old or new terms end near the outage replaced by a request with a fresh LockId (known finding " + pKeyShortUpd + ")")
		}
		for ; pUpdCountExcluded > 0; pUpdCountExcluded-- {
			st.Exclude("update of a live hold keeps the hold's Count and Rcount (known finding " + pKeyUpdCount + ")")
		}
		for ; pLateOrderExcluded > 0; pLateOrderExcluded-- {
			st.Exclude("re-lock/update of a live hold on a key with a holder that was not logged at its grant replaced by a request with a fresh LockId (known findings " + pKeyLateOrder + ", " + pKeyLateDepth + ")")
		}
		for ; pOldestExcluded > 0; pOldestExcluded-- {
			st.Exclude("request for a held key uses the Count of the oldest holder (known finding " + pKeyOldest + ")")
		}
		for ; pLingerExcluded > 0; pLingerExcluded-- {
			st.Exclude("request for a key that became free after carrying a value redirected to a key never used before (known finding " + pKeyLinger + ")")
		}
		for ; pLateDepthExcluded > 0; pLateDepthExcluded-- {
			st.Exclude("aof timing flags removed from a re-lock/update of a hold not persisted at its grant (known finding " + pKeyLateDepth + ")")
		}
		err = pConfirm(st, "TestC07_Restart", "C07", c, err, func() error { return pReplayC07(c) })
		if err != nil {
			vFail(t, "TestC07_Restart", "C07:"+aViolKey(strings.SplitN(err.Error(), "\n", 2)[0]), c, "%v", err)
		}
	})
}

// pConfirm: engine P runs real goroutines (log writers, loader, start-up compaction) whose schedule the harness does not own.
// A failure is reported only if the same case, executed again from its recorded operations on fresh directories, fails again
// with the same key (at most two further executions); otherwise it is counted as an unreproduced anomaly, its case is saved
// and a VERIF-ANOMALY line is printed. Deterministic defects fail every time, so nothing real is lost.
var pAnomalies int

func pConfirm(st *vStat, test, prop string, c interface{}, err error, again func() error) error {
	if err == nil {
		return nil
	}
	key := prop + ":" + aViolKey(strings.SplitN(err.Error(), "\n", 2)[0])
	for i := 0; i < 2; i++ {
		if e2 := again(); e2 != nil && prop+":"+aViolKey(strings.SplitN(e2.Error(), "\n", 2)[0]) == key {
			return e2
		}
	}
	pAnomalies++
	st.Class("unreproduced anomaly (not judged)", 1)
	if dir := os.Getenv("VERIF_FAILDIR"); dir != "" {
		f := filepath.Join(dir, fmt.Sprintf("%s.anomaly-%d-%d.json", prop, os.Getpid(), pAnomalies))
		if b, jerr := json.MarshalIndent(vFailure{Test: test, Key: key, Message: err.Error(), Case: c}, "", " "); jerr == nil {
			_ = os.WriteFile(f, b, 0644)
		}
		fmt.Printf("VERIF-ANOMALY key=%s file=%s %s\n", key, f, strings.SplitN(err.Error(), "\n", 2)[0])
	}
	return nil
}

func pReplayC07(c *aCase) error {
	i := 0
	_, err := pC07(c, func(e *aEnv) []aOp {
		if i >= len(c.Ops) {
			return nil
		}
		i++
		return c.Ops[i-1 : i]
	})
	return err
}

func TestC07_Replay(t *testing.T) {
	for _, f := range vReplayFiles("C07") {
		var c aCase
		key, err := vLoadReplay(f, &c)
		if err != nil {
			t.Fatalf("cannot load replay %s: %v", f, err)
		}
		c.Prop = "C07"
		rerr := pReplayC07(&c)
		msg := ""
		if rerr != nil {
			msg = strings.SplitN(rerr.Error(), "\n", 2)[0]
		}
		fmt.Printf("VERIF-KF key=%s reproduced=%v file=%s %s\n", key, rerr != nil, f, msg)
	}
}

var _ = filepath.Join

// pDumpDir prints the records of every log file of a directory (debug aid and failure context).
func pDumpDir(dir string) string {
	var sb strings.Builder
	ents, _ := os.ReadDir(dir)
	for _, e := range ents {
		n := e.Name()
		if strings.HasSuffix(n, ".dat") {
			fi, _ := e.Info()
			fmt.Fprintf(&sb, "%s: %d bytes\n", n, fi.Size())
			continue
		}
		b, err := os.ReadFile(filepath.Join(dir, n))
		if err != nil {
			continue
		}
		fmt.Fprintf(&sb, "%s: %d bytes\n", n, len(b))
		for off := 12; off+64 <= len(b); off += 64 {
			l := NewAofLock()
			copy(l.buf, b[off:off+64])
			_ = l.Decode()
			fmt.Fprintf(&sb, "   #%d/%d type=%d flag=%#x db=%d key=%x id=%x aofflag=%#x cmdtime=wall%+d start=%d exp=%d/%#x count=%d rcount=%d\n", l.AofIndex, l.AofOffset, l.CommandType, l.Flag, l.DbId,
				l.LockKey[:2], l.LockId[:3], l.AofFlag, int64(l.CommandTime)-time.Now().Unix(), l.StartTime, l.ExpriedTime, l.ExpriedFlag, l.Count, l.Rcount)
		}
		if (len(b)-12)%64 != 0 && len(b) > 12 {
			fmt.Fprintf(&sb, "   + %d trailing bytes\n", (len(b)-12)%64)
		}
	}
	return sb.String()
}


// ---------------------------------------------------------------------------------------------
// C08: crash at any byte of the newest append file (and of its value file)

type c08Case struct {
	H        aCase `json:"history"`
	Offsets  []int `json:"offsets"`   // truncation offsets of the newest append file (-1 = every offset)
	DatCuts  []int `json:"datcuts"`   // truncation offsets of its .dat file
	After    []aOp `json:"after"`     // workload run after the recovery, before the second restart
	// ImageStride > 0: while the history runs, a copy of the directory is taken at every ImageStride-th log flush that
	// finds the files changed ("records are buffered, nothing of this flush has been written yet" - a crash at a write
	// boundary instead of at a byte offset of the final files); at most 5 per case
	ImageStride int `json:"imagestride,omitempty"`
}

const c08KeyTornValue = "C08:records-after-a-torn-value-are-lost-at-the-next-restart"

var c08KnownTornValue = vIsKnown(c08KeyTornValue)

type c08Info struct {
	images int
	tornValueAfterSkipped int
	records   int
	torn      int
	header    int
	datCuts   int
	offsets   int
	exhaustive bool
}

func c08Newest(dir string) (string, int) {
	best, idx := "", -1
	ents, _ := os.ReadDir(dir)
	for _, e := range ents {
		n := e.Name()
		if strings.HasPrefix(n, "append.aof.") && !strings.HasSuffix(n, ".dat") {
			var i int
			if _, err := fmt.Sscanf(n, "append.aof.%d", &i); err == nil && i > idx {
				best, idx = n, i
			}
		}
	}
	return best, idx
}

func c08Truncated(src string, file string, size int) (string, error) {
	dst := vScratchDir("c08")
	if err := vCopyDir(src, dst); err != nil {
		return "", err
	}
	if err := os.Truncate(filepath.Join(dst, file), int64(size)); err != nil {
		return "", err
	}
	if !strings.HasSuffix(file, ".dat") {
		// Flush writes the records of a batch before their values, so the value file never holds blobs of records
		// that are not in the record file: cut it back to the blobs of the complete records that remain.
		keep := c08BlobBytes(filepath.Join(src, file), size)
		if fi, err := os.Stat(filepath.Join(dst, file+".dat")); err == nil && int(fi.Size()) > keep {
			if err := os.Truncate(filepath.Join(dst, file+".dat"), int64(keep)); err != nil {
				return "", err
			}
		}
	}
	return dst, nil
}

// c08BlobBytes: number of value-file bytes that belong to the complete records within the first size bytes.
func c08BlobBytes(recordFile string, size int) int {
	b, err := os.ReadFile(recordFile)
	if err != nil {
		return 0
	}
	dat, _ := os.ReadFile(recordFile + ".dat")
	pos := 0
	for off := 12; off+64 <= len(b) && off+64 <= size; off += 64 {
		aofFlag := int(b[off+55]) | int(b[off+56])<<8
		if aofFlag&AOF_FLAG_CONTAINS_DATA != 0 {
			if pos+4 > len(dat) {
				return len(dat)
			}
			n := int(dat[pos]) | int(dat[pos+1])<<8 | int(dat[pos+2])<<16 | int(dat[pos+3])<<24
			pos += 4 + n
		}
	}
	if pos > len(dat) {
		pos = len(dat)
	}
	return pos
}

func c08RecoverDir(c *aCase, dir string) (st *pState, inst *vInst, err error) {
	defer func() {
		if r := recover(); r != nil {
			err = fmt.Errorf("panic during start: %v\n%s", r, vRepoFrames())
		}
	}()
	return pRecover(c, dir)
}

// c08Run: history -> quiesce -> close; then per cut: recover(cut) == recover(cut floored to a record boundary),
// and what is persisted after that restart is recovered by the following one.
func c08Run(c *c08Case, next func(e *aEnv) []aOp) (info c08Info, err error) {
	hc := &c.H
	type c08Image struct {
		dir   string
		flush int
	}
	var images []c08Image
	defer func() {
		for _, im := range images {
			os.RemoveAll(im.dir)
		}
	}()
	if c.ImageStride > 0 {
		inCompaction, flushes, changed, lastSig := false, 0, 0, ""
		vSetYieldExtra(func(point int) {
			if point == verifPointAofRewrite {
				inCompaction = true
			}
			if point == verifPointAofRewrite+9 {
				inCompaction = false
			}
			if point != verifPointAofFlushStart || inCompaction || hc.DataDir == "" {
				return
			}
			flushes++
			if len(images) >= 5 {
				return
			}
			sig := ""
			if ents, err := os.ReadDir(hc.DataDir); err == nil {
				for _, en := range ents {
					if fi, err := en.Info(); err == nil {
						sig += fmt.Sprintf("%s:%d;", en.Name(), fi.Size())
					}
				}
			}
			if sig == lastSig {
				return
			}
			lastSig = sig
			changed++
			if changed%c.ImageStride != 0 {
				return
			}
			d := vScratchDir("c08img")
			if vCopyDir(hc.DataDir, d) == nil {
				images = append(images, c08Image{d, flushes})
			} else {
				os.RemoveAll(d)
			}
		})
	}
	e, msg := pRunHistory(hc, next)
	vSetYieldExtra(func(int) {})
	if e == nil {
		return info, fmt.Errorf("%s", msg)
	}
	if msg != "" {
		return info, fmt.Errorf("%s\n%s", msg, e.history())
	}
	hist := e.history()
	live := pSnapshot(e.inst.slock)
	base := vScratchDir("c08base")
	cerr := vCopyDir(hc.DataDir, base)
	e.close()
	if cerr != nil {
		return info, cerr
	}
	defer os.RemoveAll(base)
	// anchor of the metamorphic comparisons below: the uncut log recovers the persisted live state (C07's oracle)
	{
		d0 := vScratchDir("c08full")
		if cerr := vCopyDir(base, d0); cerr != nil {
			return info, cerr
		}
		at := time.Now().Unix()
		full, finst, rerr := c08RecoverDir(hc, d0)
		if rerr == nil {
			finst.vClose(false, false)
		}
		os.RemoveAll(d0)
		if rerr != nil {
			return info, fmt.Errorf("start on the uncut log failed: %v\n--- history ---\n%s", rerr, hist)
		}
		if err := pCompareRecovered(live, full, at, "uncut log"); err != nil {
			return info, fmt.Errorf("%v\nlive:\n%srecovered:\n%s%s--- history ---\n%s", err, live, full, pDumpDir(base), hist)
		}
	}
	// crash images taken at write boundaries while the history ran: the start must succeed, and what is persisted after
	// that restart must be recovered by the following one
	for i, im := range images {
		got, inst, err := c08RecoverDir(hc, im.dir)
		if err != nil {
			return info, fmt.Errorf("start on the crash image taken when log flush no. %d began failed: %v\n%s--- history ---\n%s", im.flush, err, pDumpDir(im.dir), hist)
		}
		info.images++
		if len(c.After) > 0 {
			if err := c08After(c, hc, inst, im.dir, got, -100000-i); err != nil {
				return info, fmt.Errorf("(crash image taken when log flush no. %d began: records buffered, nothing of that flush written) %v\n--- history ---\n%s", im.flush, err, hist)
			}
		} else {
			inst.vClose(false, false)
		}
	}
	file, _ := c08Newest(base)
	if file == "" {
		return info, nil
	}
	fi, _ := os.Stat(filepath.Join(base, file))
	size := int(fi.Size())
	info.records = (size - 12) / 64
	dfi, derr := os.Stat(filepath.Join(base, file+".dat"))
	datSize := 0
	if derr == nil {
		datSize = int(dfi.Size())
	}
	floorCache := map[int]*pState{}
	recoverAt := func(f string, sz int) (*pState, error) {
		d, err := c08Truncated(base, f, sz)
		if err != nil {
			return nil, err
		}
		defer os.RemoveAll(d)
		st, inst, err := c08RecoverDir(hc, d)
		if err != nil {
			return nil, err
		}
		inst.vClose(false, false)
		return st, nil
	}
	offsets := c.Offsets
	if len(offsets) == 1 && offsets[0] == -1 {
		offsets = nil
		for o := 0; o < size; o++ {
			offsets = append(offsets, o)
		}
		info.exhaustive = true
	}
	for _, o := range offsets {
		if o < 0 || o >= size {
			continue
		}
		info.offsets++
		floor := 0
		if o >= 12 {
			floor = 12 + (o-12)/64*64
		}
		if o < 12 {
			info.header++
		} else if o != floor {
			info.torn++
		}
		want := floorCache[floor]
		if want == nil {
			w, err := recoverAt(file, floor)
			if err != nil {
				return info, fmt.Errorf("start on the log cut at record boundary %d failed: %v\n--- history ---\n%s", floor, err, hist)
			}
			want = w
			floorCache[floor] = w
		}
		d, err := c08Truncated(base, file, o)
		if err != nil {
			return info, err
		}
		got, inst, err := c08RecoverDir(hc, d)
		if err != nil {
			os.RemoveAll(d)
			return info, fmt.Errorf("start on the log cut at byte %d (record boundary %d, %d bytes of a torn record) failed: %v\n%s--- history ---\n%s", o, floor, o-floor, err, pDumpDir(base), hist)
		}
		if err := pEqualStates(want, got, fmt.Sprintf("log cut at byte %d vs. at record boundary %d", o, floor)); err != nil {
			inst.vClose(false, false)
			os.RemoveAll(d)
			return info, fmt.Errorf("%v\n%s--- history ---\n%s", err, pDumpDir(base), hist)
		}
		// second phase: persist more after this restart, restart again
		if len(c.After) > 0 {
			if err := c08After(c, hc, inst, d, got, o); err != nil {
				os.RemoveAll(d)
				return info, fmt.Errorf("%v\n--- history ---\n%s", err, hist)
			}
		} else {
			inst.vClose(false, false)
		}
		os.RemoveAll(d)
	}
	for _, dc := range c.DatCuts {
		if datSize == 0 || dc < 0 || dc >= datSize {
			continue
		}
		info.datCuts++
		d, err := c08Truncated(base, file+".dat", dc)
		if err != nil {
			return info, err
		}
		got, inst, err := c08RecoverDir(hc, d)
		if err != nil {
			os.RemoveAll(d)
			return info, fmt.Errorf("start with the value file cut at byte %d of %d failed: %v\n%s--- history ---\n%s", dc, datSize, err, pDumpDir(base), hist)
		}
		// second phase: persist more (records with values) after this restart, restart again
		if len(c.After) > 0 && c08KnownTornValue {
			// known finding C08:records-after-a-torn-value-are-lost-at-the-next-restart: excluded while listed
			info.tornValueAfterSkipped++
			inst.vClose(false, false)
		} else if len(c.After) > 0 {
			if err := c08After(c, hc, inst, d, got, -dc-1); err != nil {
				os.RemoveAll(d)
				return info, fmt.Errorf("(value file cut at byte %d of %d) %v\n--- history ---\n%s", dc, datSize, err, hist)
			}
		} else {
			inst.vClose(false, false)
		}
		os.RemoveAll(d)
		// the recovered state must be the state of SOME complete-record prefix of the newest file
		ok := false
		for k := info.records; k >= 0 && !ok; k-- {
			want := floorCache[12+64*k]
			if want == nil {
				w, err := recoverAt(file, 12+64*k)
				if err != nil {
					return info, fmt.Errorf("start on the log cut at record %d failed: %v", k, err)
				}
				want = w
				floorCache[12+64*k] = w
			}
			if perr := pEqualStates(want, got, ""); perr == nil {
				ok = true
			} else if os.Getenv("VERIF_C08_DEBUG") != "" {
				fmt.Printf("prefix of %d records: %v\n", k, perr)
			}
		}
		if !ok {
			return info, fmt.Errorf("value file cut at byte %d of %d: the recovered state is not the state of any complete-record prefix\nrecovered:\n%s%s--- history ---\n%s", dc, datSize, got, pDumpDir(base), hist)
		}
	}
	return info, nil
}

// pSendAfter sends plain LOCK requests (Timeout 0) to a recovered instance; "" or the panic text.
func pSendAfter(p *MemWaiterServerProtocol, ops []aOp) string {
	for i, op := range ops {
		cmd := p.GetLockCommand()
		cmd.Magic, cmd.Version, cmd.CommandType = protocol.MAGIC, protocol.VERSION, protocol.COMMAND_LOCK
		cmd.RequestId = aReqId(90000 + i)
		cmd.Flag, cmd.DbId, cmd.LockId, cmd.LockKey = 0, uint8(op.Db), aLockId(op.Id), aKey(op.Key)
		cmd.TimeoutFlag, cmd.Timeout, cmd.ExpriedFlag, cmd.Expried = 0, 0, uint16(op.EF), uint16(op.E)
		cmd.Count, cmd.Rcount, cmd.Data = uint16(op.Cnt), 0, nil
		if op.V != nil {
			cmd.Flag |= protocol.LOCK_FLAG_CONTAINS_DATA
			cmd.Data = op.V.commandData()
		}
		if msg := aSafe(nil, func() { _ = p.ProcessLockCommand(cmd) }); msg != "" {
			return msg
		}
	}
	return ""
}

// c08After runs the post-recovery workload on the recovered instance, quiesces, and restarts once more.
func c08After(c *c08Case, hc *aCase, inst *vInst, dir string, recovered *pState, cut int) error {
	p := NewMemWaiterServerProtocol(inst.slock)
	type rep struct{ result uint8 }
	var replies []rep
	_ = p.SetResultCallback(func(_ *MemWaiterServerProtocol, _ *protocol.LockCommand, result uint8, _ uint16, _ uint8, _ []byte) error {
		replies = append(replies, rep{result})
		return nil
	})
	if msg := pSendAfter(p, c.After); msg != "" {
		inst.vClose(false, false)
		return fmt.Errorf("after the restart on the log cut at byte %d: %s", cut, msg)
	}
	vAofIdle(inst.slock.aof)
	if hc.RewriteSize > 0 {
		vWaitRewriteRotations() // a size-triggered rotation starts a compaction goroutine: the directory is copied when it is done
	} else {
		vWaitRewrite(inst.slock.aof)
	}
	vAofIdle(inst.slock.aof)
	inst.slock.aof.FlushWithLocked()
	live := pSnapshot(inst.slock)
	d2 := vScratchDir("c08b")
	cerr := vCopyDir(dir, d2)
	_ = p.Close()
	inst.vClose(false, false)
	defer os.RemoveAll(d2)
	if cerr != nil {
		return cerr
	}
	again, inst3, err := c08RecoverDir(hc, d2)
	if err != nil {
		return fmt.Errorf("second start (after persisting more on the log cut at byte %d) failed: %v", cut, err)
	}
	inst3.vClose(false, false)
	// a hold whose deadline falls within a few seconds of the second restart may or may not come back: not compared
	now := time.Now().Unix()
	near := func(h *pHold) bool { return h.Deadline < 1<<61 && h.Deadline-now < pMargin+h.Unit }
	want := &pState{Holds: map[string]*pHold{}, Values: live.Values}
	for n, h := range live.Holds {
		if h.IsAof && !near(h) {
			want.Holds[n] = h
		}
	}
	for n, h := range again.Holds {
		if near(h) {
			delete(again.Holds, n)
		}
	}
	if err := pEqualStates(want, again, fmt.Sprintf("state persisted after the restart on the log cut at byte %d vs. the following restart", cut)); err != nil {
		return fmt.Errorf("%v\n%s", err, pDumpDir(d2))
	}
	return nil
}

func c08Gen(t *rapid.T, thorough bool) (*c08Case, func(e *aEnv) []aOp) {
	c := &c08Case{}
	h := pGenCase(t, "C08")
	h.EpochOff = rapid.SampledFrom([]int{15, 15, 45, 130}).Draw(t, "c08EpochOff")
	if rapid.IntRange(0, 99).Draw(t, "images") < 55 {
		// crash images at write boundaries: no size-triggered background compaction (C16's crash windows), small buffers often
		c.ImageStride = rapid.IntRange(1, 3).Draw(t, "imageStride")
		h.RewriteSize = 0
		if rapid.IntRange(0, 1).Draw(t, "imageSmallBuf") == 0 {
			h.AofBuf = 64
		}
	}
	c.H = *h
	n := rapid.IntRange(2, 16).Draw(t, "nOps")
	fresh := 0
	tail := rapid.IntRange(2, 5).Draw(t, "tailLocks")
	gen := func(e *aEnv) []aOp {
		hc := &c.H
		if len(hc.Ops) >= n+tail {
			return nil
		}
		var ops []aOp
		if len(hc.Ops) >= n {
			// make sure the newest file ends with a few complete records, some with value blobs
			i := len(hc.Ops) - n
			// (a key no history uses: a key that carried a value and became free would bring the listed finding
			// C07:released-value-lingers-when-log-is-replayed into the comparison)
			op := aOp{K: "lock", Db: 0, Key: 40000, Id: 300 + i, E: 600 + i, EF: 0x0100, Cnt: 0xffff}
			if rapid.IntRange(0, 1).Draw(t, "tailVal") == 1 && i == 0 {
				op.V = &aVal{Op: "set", B: rapid.SliceOfN(rapid.Byte(), 1, 9).Draw(t, "tailPayload")}
				if rapid.IntRange(0, 2).Draw(t, "tailBig") == 0 {
					op.V.L = rapid.SampledFrom([]int{4090, 4097, 5000, 9000, 17000}).Draw(t, "tailBigLen")
				}
			}
			ops = []aOp{op}
		} else if rapid.IntRange(0, 99).Draw(t, "rotate") < 5 {
			ops = []aOp{{K: "rotate"}}
		} else {
			ops = aGenOps(t, e, pProfile, &fresh)
		}
		hc.Ops = append(hc.Ops, ops...)
		return ops
	}
	if thorough && rapid.IntRange(0, 3).Draw(t, "everyOffset") == 0 {
		c.Offsets = []int{-1}
	} else {
		k := rapid.IntRange(6, 14).Draw(t, "nOffsets")
		for i := 0; i < k; i++ {
			switch rapid.IntRange(0, 9).Draw(t, "offClass") {
			case 0:
				c.Offsets = append(c.Offsets, rapid.IntRange(0, 12).Draw(t, "hdrOff"))
			default:
				rec := rapid.IntRange(0, 40).Draw(t, "rec")
				res := rapid.IntRange(0, 63).Draw(t, "residue")
				c.Offsets = append(c.Offsets, 12+64*rec+res)
			}
		}
	}
	for i := rapid.IntRange(0, 4).Draw(t, "nDatCuts"); i > 0; i-- {
		c.DatCuts = append(c.DatCuts, rapid.IntRange(0, 200).Draw(t, "datCut"))
	}
	for i := rapid.IntRange(0, 3).Draw(t, "nAfter"); i > 0; i-- {
		op := aOp{K: "lock", Db: 0, Key: 2, Id: 400 + i, E: 900 + i, EF: 0x0100, Cnt: 0xffff}
		if rapid.IntRange(0, 1).Draw(t, "afterVal") == 1 {
			op.Key = 5 + i // a key of its own: the value read back after the second restart is this record's
			op.V = &aVal{Op: "set", B: rapid.SliceOfN(rapid.Byte(), 1, 9).Draw(t, "afterPayload")}
		}
		c.After = append(c.After, op)
	}
	return c, gen
}

func TestC08_CrashCut(t *testing.T) {
	st := vstat("TestC08_CrashCut")
	rapid.Check(t, func(t *rapid.T) {
		c, gen := c08Gen(t, vThorough())
		info, err := c08Run(c, gen)
		// records beyond the file are skipped at run time: remap offsets into the file for the statistics only
		cls := []string{"fault_cases"}
		if info.torn > 0 {
			cls = append(cls, "torn record (residue != 0)")
		}
		if info.header > 0 {
			cls = append(cls, "cut inside the 12-byte header")
		}
		if info.datCuts > 0 {
			cls = append(cls, "value file cut")
		}
		if info.exhaustive {
			cls = append(cls, "every byte offset of the newest file")
		}
		if len(c.After) > 0 {
			cls = append(cls, "second workload + second restart")
		}
		if info.images > 0 {
			cls = append(cls, "crash image at a write boundary (log flush about to start)")
		}
		for i := 0; i < info.tornValueAfterSkipped; i++ {
			st.Exclude("second workload + second restart after a value-file cut (known finding " + c08KeyTornValue + ")")
		}
		st.Class("crash points", int64(info.offsets+info.datCuts+info.images))
		st.Case(info.records >= 3 && (info.torn > 0 || info.datCuts > 0), vHash(c.H.fingerprint(), fmt.Sprint(c.Offsets, c.DatCuts, len(c.After))), cls, func() interface{} { return c })
		err = pConfirm(st, "TestC08_CrashCut", "C08", c, err, func() error {
			i := 0
			_, e2 := c08Run(c, func(e *aEnv) []aOp {
				if i >= len(c.H.Ops) {
					return nil
				}
				i++
				return c.H.Ops[i-1 : i]
			})
			return e2
		})
		if err != nil {
			vFail(t, "TestC08_CrashCut", "C08:"+aViolKey(strings.SplitN(err.Error(), "\n", 2)[0]), c, "%v", err)
		}
	})
}

func TestC08_Replay(t *testing.T) {
	for _, f := range vReplayFiles("C08") {
		var c c08Case
		key, err := vLoadReplay(f, &c)
		if err != nil {
			t.Fatalf("cannot load replay %s: %v", f, err)
		}
		c.H.Prop = "C08"
		i := 0
		savedTV := c08KnownTornValue
		if key == c08KeyTornValue {
			c08KnownTornValue = false // the probe of this finding runs the phase that is excluded while it is listed
		}
		defer func() { c08KnownTornValue = savedTV }()
		_, rerr := c08Run(&c, func(e *aEnv) []aOp {
			if i >= len(c.H.Ops) {
				return nil
			}
			i++
			return c.H.Ops[i-1 : i]
		})
		msg := ""
		if rerr != nil {
			msg = strings.SplitN(rerr.Error(), "\n", 2)[0]
		}
		fmt.Printf("VERIF-KF key=%s reproduced=%v file=%s %s\n", key, rerr != nil, f, msg)
	}
}

// ---------------------------------------------------------------------------------------------
// C16: log compaction preserves the recoverable state, even if interrupted.
// The history spreads over 1..4 append files (+ a rewrite file from earlier compactions); then one compaction
// runs synchronously in the harness goroutine and the hook points of the rewrite path copy the directory after
// every file-system mutation. Every image (and the final directory) must recover to the state recovered from the
// pre-compaction image - twice in a row, because the first recovery compacts again at start-up.

var c16PointNames = map[int]string{104: "rewrite.aof.tmp partly written (records of a flush written, their values not yet)", 120: "rewrite.aof.tmp partly written (before a flush)", 6: "rewrite.aof.tmp written and closed", 7: "an input file removed", 8: "its value file removed",
	9: "rewrite.aof.tmp renamed to rewrite.aof", 10: "rewrite.aof.tmp.dat renamed", 11: "old append file closed", 12: "new append file opened"}

const c16KeyRemoveBeforeRename = "C16:crash-after-inputs-removed-before-rename"
const c16KeyBetweenRenames = "C16:crash-between-the-two-renames"

var c16Probe = "" // key of the finding a replay is probing: its own tolerance is switched off

type c16Info struct {
	inputs   int
	images   int
	skipped  int
	released bool
	rewrite  bool
}

func c16Run(c *aCase, next func(e *aEnv) []aOp) (info c16Info, err error) {
	e, msg := pRunHistory(c, next)
	if e == nil {
		return info, fmt.Errorf("%s", msg)
	}
	if msg != "" {
		return info, fmt.Errorf("%s\n%s", msg, e.history())
	}
	hist := e.history()
	aof := e.inst.slock.aof
	info.released = e.mon.info.holdEndKinds["unlock"] || e.mon.info.holdEndKinds["unlock-one-level"]
	pre := vScratchDir("c16pre")
	if cerr := vCopyDir(c.DataDir, pre); cerr != nil {
		e.close()
		return info, cerr
	}
	defer os.RemoveAll(pre)
	if ents, rerr := os.ReadDir(pre); rerr == nil {
		for _, en := range ents {
			n := en.Name()
			if strings.HasPrefix(n, "append.aof.") && !strings.HasSuffix(n, ".dat") {
				info.inputs++
			}
			if n == "rewrite.aof" {
				info.rewrite = true
			}
		}
	}
	// the compaction, with a directory image after every file-system mutation
	type image struct {
		point int
		dir   string
	}
	var images []image
	known := vIsKnown(c16KeyRemoveBeforeRename) && c16Probe != c16KeyRemoveBeforeRename
	removed := false
	inCompaction, flushes := false, 0
	vSetYieldExtra(func(point int) {
		if point == verifPointAofRewrite {
			inCompaction = true
		}
		if point == verifPointAofRewrite+9 {
			inCompaction = false
		}
		if inCompaction && !removed && (point == verifPointAofFlushMid || point == verifPointAofFlushStart) {
			// rewrite.aof.tmp is being written (the inputs are still complete): crash images in the middle of it, at the
			// 1st, 2nd, 4th, 8th flush - before its records are written (120) and between records and values (104)
			if point == verifPointAofFlushStart {
				flushes++
			}
			if flushes == 1 || flushes == 2 || flushes == 4 || flushes == 8 {
				d := vScratchDir("c16img")
				if vCopyDir(c.DataDir, d) == nil {
					images = append(images, image{100 + point, d})
				}
			}
			return
		}
		name, ok := c16PointNames[point-verifPointAofRewrite+5]
		_ = name
		if !ok {
			return
		}
		p := point - verifPointAofRewrite + 5
		if p == 7 || p == 8 {
			removed = true
		}
		if p == 9 {
			removed = false
		}
		if known && removed {
			info.skipped++
			return
		}
		if p == 9 && vIsKnown(c16KeyBetweenRenames) && c16Probe != c16KeyBetweenRenames {
			info.skipped++
			return
		}
		d := vScratchDir("c16img")
		if vCopyDir(c.DataDir, d) == nil {
			images = append(images, image{p, d})
		}
	})
	cmsg := aSafe(nil, func() {
		vAofIdle(aof)
		aof.aofGlock.Lock()
		rerr := aof.RewriteAofFile(false)
		aof.aofGlock.Unlock()
		if rerr == nil {
			aof.rewriteAofFiles()
		}
	})
	vSetYieldExtra(func(int) {})
	defer func() {
		for _, im := range images {
			os.RemoveAll(im.dir)
		}
	}()
	if cmsg != "" {
		e.close()
		return info, fmt.Errorf("compaction: %s\n--- history ---\n%s", cmsg, hist)
	}
	e.quiesce()
	live := pSnapshot(e.inst.slock)
	post := vScratchDir("c16post")
	cerr := vCopyDir(c.DataDir, post)
	e.close()
	if cerr != nil {
		return info, cerr
	}
	images = append(images, image{0, post})
	info.images = len(images)

	want, winst, rerr := c08RecoverDir(c, pre)
	if rerr != nil {
		return info, fmt.Errorf("start on the pre-compaction image failed: %v\n--- history ---\n%s", rerr, hist)
	}
	winst.vClose(false, false)
	for _, im := range images {
		what := "final directory after the compaction"
		if im.point != 0 {
			what = fmt.Sprintf("crash image after '%s'", c16PointNames[im.point])
		}
		dump := pDumpDir(im.dir)
		got, inst, rerr := c08RecoverDir(c, im.dir)
		if rerr != nil {
			return info, fmt.Errorf("%s: start failed: %v\n%s--- history ---\n%s", what, rerr, dump, hist)
		}
		if err := pEqualStates(want, got, what+" vs. pre-compaction image"); err != nil {
			inst.vClose(false, false)
			return info, fmt.Errorf("%v\nimage:\n%s--- history ---\n%s", err, dump, hist)
		}
		// recover once more from what that start left behind (it compacted again at start-up)
		vAofIdle(inst.slock.aof)
		inst.slock.aof.FlushWithLocked()
		d2 := vScratchDir("c16again")
		cerr := vCopyDir(im.dir, d2)
		inst.vClose(false, false)
		if cerr != nil {
			return info, cerr
		}
		dump2 := pDumpDir(d2)
		again, inst2, rerr := c08RecoverDir(c, d2)
		os.RemoveAll(d2)
		if rerr != nil {
			return info, fmt.Errorf("%s: second start failed: %v\n%s--- history ---\n%s", what, rerr, dump2, hist)
		}
		inst2.vClose(false, false)
		if err := pEqualStates(want, again, what+", recovered a second time, vs. pre-compaction image"); err != nil {
			return info, fmt.Errorf("%v\nimage:\n%safter the first recovery:\n%s--- history ---\n%s", err, dump, dump2, hist)
		}
	}
	// the final directory also recovers the live persisted state (as C07)
	at := time.Now().Unix()
	final, finst, rerr := c08RecoverDir(c, post)
	if rerr == nil {
		finst.vClose(false, false)
		if err := pCompareRecovered(live, final, at, "restart after the compaction"); err != nil {
			return info, fmt.Errorf("%v\nlive:\n%srecovered:\n%s--- history ---\n%s", err, live, final, hist)
		}
	}
	return info, nil
}

func c16Gen(t *rapid.T) (*aCase, func(e *aEnv) []aOp) {
	c := pGenCase(t, "C16")
	c.RewriteSize = 0 // the one compaction of a C16 case is driven by the harness; no size-triggered ones beside it
	c.EpochOff = 15
	n := rapid.IntRange(3, 26).Draw(t, "nOps")
	fresh := 0
	// 35% of the cases end with a clock step that puts the compaction exactly 60 / 120 s (or thereabouts) after the last
	// update of a hold with minute-unit terms: the compaction re-derives such deadlines with a one-minute granularity
	c.TailTick = rapid.IntRange(0, 99).Draw(t, "tailTick") < 35
	if c.TailTick {
		c.EpochOff = 15 + 190 // the virtual clock must still lag the wall clock after the step (<= 185 s)
	}
	tailDone, updAt := false, int64(-1)
	return c, func(e *aEnv) []aOp {
		if len(c.Ops) >= n {
			if c.TailTick && !tailDone {
				tailDone = true
				step := rapid.IntRange(55, 65).Draw(t, "tailStep")
				if updAt >= 0 && rapid.IntRange(0, 9).Draw(t, "tailAligned") < 8 {
					step = 60 - int((e.now-updAt)%60)
				}
				step += 60 * rapid.SampledFrom([]int{0, 0, 1}).Draw(t, "tailMinutes")
				ops := []aOp{{K: "tick", N: step}}
				c.Ops = append(c.Ops, ops...)
				return ops
			}
			return nil
		}
		var ops []aOp
		switch x := rapid.IntRange(0, 99).Draw(t, "rot"); {
		case x < 5:
			ops = []aOp{{K: "rotate"}}
		case x < 16:
			ops = []aOp{{K: "rotate-only"}}
		case x < 26:
			// a value-only record: a zero-expiry request with a value operation, admitted next to the holders of a key
			// (it holds nothing itself; the log gets a record that only changes the key's value)
			var cands []*mKey
			for _, k := range aSortedKeys(e.mon) {
				if len(k.holders) > 0 && len(k.waiters) == 0 {
					sum := 0
					for _, h := range k.holders {
						sum += h.depth
					}
					if sum <= k.holders[0].count && k.holders[0].count > 0 {
						cands = append(cands, k)
					}
				}
			}
			if len(cands) == 0 {
				ops = aGenOps(t, e, pProfile, &fresh)
				break
			}
			k := cands[rapid.IntRange(0, len(cands)-1).Draw(t, "voKey")]
			fresh++
			op := aOp{K: "lock", C: rapid.IntRange(0, c.Clients-1).Draw(t, "voClient"), Db: k.db, Key: keyIndex(k.key), Id: 100 + fresh, Cnt: k.holders[0].count, E: 0}
			switch keyIndex(k.key) % 3 {
			case 1:
				op.V = &aVal{Op: rapid.SampledFrom([]string{"incr", "unset", "set"}).Draw(t, "voNumOp"), N: 3, B: []byte{7}}
			case 2:
				op.V = &aVal{Op: rapid.SampledFrom([]string{"push", "unset"}).Draw(t, "voArrOp"), B: rapid.SliceOfN(rapid.Byte(), 1, 4).Draw(t, "voElem")}
			default:
				op.V = &aVal{Op: rapid.SampledFrom([]string{"set", "unset", "unset", "append"}).Draw(t, "voBytesOp"), B: rapid.SliceOfN(rapid.Byte(), 0, 6).Draw(t, "voPayload")}
			}
			if op.V.Op == "unset" || op.V.Op == "incr" {
				op.V.B = nil
			}
			if op.V.Op != "incr" {
				op.V.N = 0
			}
			ops = []aOp{op}
		default:
			ops = aGenOps(t, e, pProfile, &fresh)
		}
		for _, op := range ops {
			if op.K == "lock" && op.F&fUPDATE != 0 && op.EF&efMINUTE != 0 {
				updAt = e.now
			}
		}
		c.Ops = append(c.Ops, ops...)
		return ops
	}
}

func TestC16_Compaction(t *testing.T) {
	st := vstat("TestC16_Compaction")
	rapid.Check(t, func(t *rapid.T) {
		c, gen := c16Gen(t)
		info, err := c16Run(c, gen)
		cls := []string{"fault_cases"}
		if info.inputs >= 2 {
			cls = append(cls, ">=2 append files compacted")
		}
		if info.rewrite {
			cls = append(cls, "existing rewrite file")
		}
		if info.released {
			cls = append(cls, "released hold in the inputs")
		}
		valueOnly, tail := false, false
		for _, op := range c.Ops {
			if op.K == "lock" && op.E == 0 && op.EF&(efMINUTE|efUNLIMITED) == 0 && op.V != nil {
				valueOnly = true
			}
			if op.K == "tick" && op.N >= 55 {
				tail = true
			}
		}
		if valueOnly {
			cls = append(cls, "value-only request (zero expiry, value operation) next to a holder")
		}
		if tail {
			cls = append(cls, "compaction about a whole number of minutes after the last request")
		}
		st.Class("crash images", int64(info.images))
		for i := 0; i < info.skipped; i++ {
			st.Exclude("crash image between the removal of the inputs and the rename of rewrite.aof.tmp (known finding " + c16KeyRemoveBeforeRename + ")")
		}
		st.Case(info.inputs >= 2 && info.rewrite && info.released, c.fingerprint(), cls, func() interface{} { return c })
		err = pConfirm(st, "TestC16_Compaction", "C16", c, err, func() error {
			i := 0
			_, e2 := c16Run(c, func(e *aEnv) []aOp {
				if i >= len(c.Ops) {
					return nil
				}
				i++
				return c.Ops[i-1 : i]
			})
			return e2
		})
		if err != nil {
			vFail(t, "TestC16_Compaction", "C16:"+aViolKey(strings.SplitN(err.Error(), "\n", 2)[0]), c, "%v", err)
		}
	})
}

func TestC16_Replay(t *testing.T) {
	for _, f := range vReplayFiles("C16") {
		var c aCase
		key, err := vLoadReplay(f, &c)
		if err != nil {
			t.Fatalf("cannot load replay %s: %v", f, err)
		}
		c.Prop = "C16"
		i := 0
		c16Probe = key
		_, rerr := c16Run(&c, func(e *aEnv) []aOp {
			if i >= len(c.Ops) {
				return nil
			}
			i++
			return c.Ops[i-1 : i]
		})
		c16Probe = ""
		msg := ""
		if rerr != nil {
			msg = strings.SplitN(rerr.Error(), "\n", 2)[0]
		}
		fmt.Printf("VERIF-KF key=%s reproduced=%v file=%s %s\n", key, rerr != nil, f, msg)
	}
}
