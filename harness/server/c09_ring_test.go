package server

// C09 (a): the leader's in-memory tail of the log (ReplicationBufferQueue) refines "an append-only
// sequence read by independent cursors": every cursor observes the pushed records contiguously
// (seq n, n+1, ...) or is told "out of buf" - never a silent gap, duplicate or reorder; Search
// positions a cursor exactly at the requested id or reports not-found; payloads come back
// byte-identical. Pure model-based PBT, manager == nil as in the repo's own replication_test.go.
//
// The cursor protocol generated here is the one ReplicationServer uses: a cursor is positioned by
// Head (full transfer: files are sent up to, excluding, the head record, then the head record is
// streamed), by Search (resume: the found record is already on the follower, writed = true) or not
// at all (fresh cursor: starts at the oldest retained record), is optionally registered with AddPoll,
// acknowledges every streamed record by pollIndex++ before the next Pop (SendProcess) and leaves
// through RemovePoll.

import (
	"bytes"
	"fmt"
	"io"
	"strings"
	"sync/atomic"
	"testing"

	"pgregory.net/rapid"
)

type n09ROp struct {
	Op string `json:"op"`          // push | new | head | search | addpoll | rmpoll | pop | ack
	C  int    `json:"c,omitempty"` // cursor
	A  int    `json:"a,omitempty"` // push: payload length (0 none) | search: index of the wanted push (may not exist) | pop: repeat
}

type n09RCase struct {
	Kind    string   `json:"kind"` // "ring"
	BufSize int      `json:"bufsize"`
	MaxSize int      `json:"maxsize"`
	Ops     []n09ROp `json:"ops"`
}

func (c *n09RCase) fingerprint() uint64 { return vHash(c.BufSize, c.MaxSize, fmt.Sprint(c.Ops)) }

type n09RInfo struct {
	pushes, pops, eofs    int
	outOfBuf, spuriousOOB int
	doubled, recycled     int
	searchHit, searchMiss int
	heads, dataPops       int
	cursorsWithPops       int
}

// n09Record builds the k-th record: unique aof id (bytes 3..18 as AofLock.Encode lays them out),
// remaining bytes a function of k so that any mix-up shows.
func n09Record(k int, dataLen int) (buf []byte, data []byte) {
	buf = make([]byte, 64)
	buf[0], buf[1], buf[2] = 62, 0, byte(1+k%2)
	off, idx, tm := uint32(k+1), uint32(1+k/7), uint64(1700000000+k/3)
	buf[3], buf[4], buf[5], buf[6] = byte(off), byte(off>>8), byte(off>>16), byte(off>>24)
	buf[7], buf[8], buf[9], buf[10] = byte(idx), byte(idx>>8), byte(idx>>16), byte(idx>>24)
	for i := 0; i < 8; i++ {
		buf[11+i] = byte(tm >> (8 * uint(i)))
	}
	h := vHash("n09rec", k)
	for i := 19; i < 64; i++ {
		buf[i] = byte(h >> (8 * uint(i%8)))
		h = h*6364136223846793005 + 1442695040888963407
	}
	if dataLen > 0 {
		data = make([]byte, dataLen)
		for i := range data {
			data[i] = byte(k*31 + i*7 + 3)
		}
	}
	return
}

func n09AofIdOf(buf []byte) (id [16]byte) {
	copy(id[:], buf[3:19])
	return
}

type n09RCursor struct {
	cur        *ReplicationBufferQueueCursor
	pos        int64 // seq of the record the cursor stands on (-1: fresh)
	registered bool
	pendingAck bool
	dead       bool
	popped     int
}

func n09RunRing(c *n09RCase) (info n09RInfo, err error) {
	q := NewReplicationBufferQueue(nil, uint64(c.BufSize), uint64(c.MaxSize))
	type rec struct{ buf, data []byte }
	var pushed []rec
	cursors := map[int]*n09RCursor{}
	retained := func() (lo, hi int64, set map[uint64]bool) {
		set = map[uint64]bool{}
		lo, hi = -1, -1
		n := 0
		for it := q.tailItem; it != nil; it = it.nextItem {
			if lo < 0 {
				lo = int64(it.seq)
			}
			hi = int64(it.seq)
			set[it.seq] = true
			n++
			if n > 1<<20 {
				break
			}
		}
		return
	}
	get := func(i int) *n09RCursor {
		cu := cursors[i]
		if cu == nil {
			cu = &n09RCursor{cur: NewReplicationBufferQueueCursor(make([]byte, 64)), pos: -1}
			cursors[i] = cu
		}
		return cu
	}
	checkContent := func(step int, what string, cu *n09RCursor, seq int64) error {
		if seq < 0 || seq >= int64(len(pushed)) {
			return fmt.Errorf("step %d %s: cursor reports seq %d, only %d records were pushed", step, what, seq, len(pushed))
		}
		want := pushed[seq]
		if !bytes.Equal(cu.cur.buf, want.buf) {
			return fmt.Errorf("step %d %s: record bytes of seq %d differ from what was pushed\n got  %x\n want %x", step, what, seq, cu.cur.buf, want.buf)
		}
		if !bytes.Equal(cu.cur.data, want.data) || (cu.cur.data == nil) != (want.data == nil) {
			return fmt.Errorf("step %d %s: payload of seq %d differs: got %d bytes want %d bytes", step, what, seq, len(cu.cur.data), len(want.data))
		}
		if cu.cur.currentAofId != n09AofIdOf(want.buf) {
			return fmt.Errorf("step %d %s: cursor.currentAofId %x != id of seq %d %x", step, what, cu.cur.currentAofId, seq, n09AofIdOf(want.buf))
		}
		return nil
	}
	ack := func(cu *n09RCursor) {
		if cu.pendingAck && cu.cur.currentItem != nil {
			// ReplicationServer.SendProcess after the record was written to the socket
			cu.cur.writed = true
			atomic.AddUint32(&cu.cur.currentItem.pollIndex, 1)
		}
		cu.pendingAck = false
	}
	popOnce := func(step int, cu *n09RCursor) (stop bool, err error) {
		ack(cu)
		lo, _, set := retained()
		perr := q.Pop(cu.cur)
		switch {
		case perr == nil:
			got := int64(cu.cur.seq)
			if cu.pos >= 0 {
				if got != cu.pos+1 {
					kind := "gap"
					if got <= cu.pos {
						kind = "duplicate/reorder"
					}
					return true, fmt.Errorf("step %d pop(cursor %d): %s - cursor stood on seq %d and was handed seq %d without an error", step, cu.id(cursors), kind, cu.pos, got)
				}
			} else if got != lo {
				return true, fmt.Errorf("step %d pop(fresh cursor %d): handed seq %d, oldest retained record is seq %d", step, cu.id(cursors), got, lo)
			}
			if e := checkContent(step, "pop", cu, got); e != nil {
				return true, e
			}
			cu.pos = got
			cu.popped++
			cu.pendingAck = cu.registered
			info.pops++
			if cu.cur.data != nil {
				info.dataPops++
			}
			return false, nil
		case perr == io.EOF:
			info.eofs++
			if cu.pos+1 != int64(len(pushed)) && !(cu.pos < 0 && len(pushed) == 0) {
				return true, fmt.Errorf("step %d pop(cursor %d): EOF although records %d..%d are pending (cursor stands on %d)", step, cu.id(cursors), cu.pos+1, len(pushed)-1, cu.pos)
			}
			return true, nil
		default:
			if perr.Error() != "out of buf" {
				return true, fmt.Errorf("step %d pop(cursor %d): undocumented error %q", step, cu.id(cursors), perr.Error())
			}
			info.outOfBuf++
			if cu.pos >= 0 && set[uint64(cu.pos+1)] {
				info.spuriousOOB++
			}
			cu.dead = true
			if cu.registered {
				q.RemovePoll(cu.cur)
				cu.registered = false
			}
			return true, nil
		}
	}
	for step, op := range c.Ops {
		switch op.Op {
		case "push":
			buf, data := n09Record(len(pushed), op.A)
			tailBefore, dupBefore := int64(-1), q.dupCount
			if q.tailItem != nil {
				tailBefore = int64(q.tailItem.seq)
			}
			in := append([]byte{}, buf...)
			if e := q.Push(in, data); e != nil {
				return info, fmt.Errorf("step %d push: %v", step, e)
			}
			for i := range in {
				in[i] = 0xEE // Push must have copied the record (the AOF reuses its buffers)
			}
			pushed = append(pushed, rec{buf, data})
			info.pushes++
			if q.dupCount != dupBefore {
				info.doubled++
			}
			if q.tailItem != nil && tailBefore >= 0 && int64(q.tailItem.seq) != tailBefore {
				info.recycled++
			}
			if q.seq != uint64(len(pushed)) {
				return info, fmt.Errorf("step %d push: queue.seq = %d after %d pushes", step, q.seq, len(pushed))
			}
			if q.bufferSize > uint64(c.MaxSize) && q.bufferSize > uint64(c.BufSize) {
				return info, fmt.Errorf("step %d push: ring grew to %d bytes, configured maximum %d", step, q.bufferSize, c.MaxSize)
			}
		case "new":
			if cu := cursors[op.C]; cu != nil && cu.registered {
				q.RemovePoll(cu.cur)
			}
			delete(cursors, op.C)
			get(op.C)
		case "head":
			cu := get(op.C)
			if cu.dead || cu.registered || cu.popped > 0 {
				break
			}
			herr := q.Head(cu.cur)
			if herr == io.EOF {
				if len(pushed) != 0 {
					return info, fmt.Errorf("step %d head: EOF on a ring that holds records", step)
				}
				break
			}
			if herr != nil {
				return info, fmt.Errorf("step %d head: %v", step, herr)
			}
			if int64(cu.cur.seq) != int64(len(pushed))-1 {
				return info, fmt.Errorf("step %d head: positioned at seq %d, newest record is %d", step, cu.cur.seq, len(pushed)-1)
			}
			if e := checkContent(step, "head", cu, int64(cu.cur.seq)); e != nil {
				return info, e
			}
			cu.pos = int64(cu.cur.seq)
			cu.pendingAck = false // acknowledged once registered, see addpoll
			info.heads++
		case "search":
			cu := get(op.C)
			if cu.dead || cu.registered || cu.popped > 0 {
				break
			}
			var id [16]byte
			target := int64(op.A)
			if target < int64(len(pushed)) {
				id = n09AofIdOf(pushed[target].buf)
			} else {
				b, _ := n09Record(int(target), 0) // an id the leader never produced
				id = n09AofIdOf(b)
				target = -1
			}
			_, _, set := retained()
			serr := q.Search(id, cu.cur)
			if serr == nil {
				if target < 0 {
					return info, fmt.Errorf("step %d search: found an id that was never pushed (cursor at seq %d)", step, cu.cur.seq)
				}
				if int64(cu.cur.seq) != target {
					return info, fmt.Errorf("step %d search(id of seq %d): cursor positioned at seq %d", step, target, cu.cur.seq)
				}
				if e := checkContent(step, "search", cu, target); e != nil {
					return info, e
				}
				if !cu.cur.writed {
					return info, fmt.Errorf("step %d search: found record not marked as already delivered", step)
				}
				cu.pos = target
				info.searchHit++
			} else {
				if target >= 0 && set[uint64(target)] {
					return info, fmt.Errorf("step %d search(id of seq %d): %v although the record is still in the ring", step, target, serr)
				}
				info.searchMiss++
				// the server answers ERR_NOT_FOUND and the follower starts from scratch: the cursor is dropped
				delete(cursors, op.C)
			}
		case "addpoll":
			cu := get(op.C)
			if cu.dead || cu.registered || cu.popped > 0 {
				break // the server registers a cursor before it streams anything
			}
			q.AddPoll(cu.cur)
			cu.registered = true
			if cu.cur.currentItem != nil && !cu.cur.writed {
				cu.pendingAck = true // positioned by Head: that record is streamed first
			}
		case "rmpoll":
			cu := cursors[op.C]
			if cu == nil || !cu.registered {
				break
			}
			ack(cu)
			q.RemovePoll(cu.cur)
			delete(cursors, op.C)
		case "ack":
			if cu := cursors[op.C]; cu != nil && !cu.dead {
				ack(cu)
			}
		case "pop":
			cu := get(op.C)
			if cu.dead {
				break
			}
			n := op.A
			if n <= 0 {
				n = 1
			}
			for i := 0; i < n; i++ {
				stop, e := popOnce(step, cu)
				if e != nil {
					return info, e
				}
				if stop {
					break
				}
			}
		}
	}
	// drain: every live cursor reaches the end of the sequence or is told "out of buf"
	for i := 0; i < 64; i++ {
		cu := cursors[i]
		if cu == nil || cu.dead {
			continue
		}
		for {
			stop, e := popOnce(len(c.Ops), cu)
			if e != nil {
				return info, fmt.Errorf("final drain: %v", e)
			}
			if stop {
				break
			}
		}
		if !cu.dead && len(pushed) > 0 && cu.pos != int64(len(pushed))-1 {
			return info, fmt.Errorf("final drain: cursor %d stopped at seq %d of %d without an error", i, cu.pos, len(pushed)-1)
		}
	}
	for _, cu := range cursors {
		if cu.popped > 0 {
			info.cursorsWithPops++
		}
	}
	return info, nil
}

func (cu *n09RCursor) id(m map[int]*n09RCursor) int {
	for i, x := range m {
		if x == cu {
			return i
		}
	}
	return -1
}

func n09GuardRing(c *n09RCase) (info n09RInfo, err error) {
	defer func() {
		if r := recover(); r != nil {
			err = fmt.Errorf("panic: %v\n%s", r, vRepoFrames())
		}
	}()
	return n09RunRing(c)
}

const n09KeyRingSeq0 = "C09:ring:addpoll-after-recycle-of-seq0-stalls"

func n09GenRing(t *rapid.T, st *vStat) *n09RCase {
	c := &n09RCase{Kind: "ring"}
	known := vIsKnown(n09KeyRingSeq0)
	c.BufSize = 64 * rapid.IntRange(2, 16).Draw(t, "bufItems")
	c.MaxSize = c.BufSize * rapid.SampledFrom([]int{1, 1, 2, 4, 8}).Draw(t, "maxFactor")
	ncur := rapid.IntRange(1, 4).Draw(t, "cursors")
	segs := rapid.IntRange(1, 10).Draw(t, "segments")
	pushes := 0
	if known {
		// known finding: AddPoll through a stale cursor walks the free list and clears the "freed" mark
		// (pollCount 0xffffffff -> 0) of recycled items, whose seq was reset to 0; a cursor standing on
		// seq 0 then matches its recycled item and reads EOF forever. Excluded by construction: the
		// leader's very first record has left the ring before any cursor exists.
		for i := 0; i < c.BufSize/64+1; i++ {
			c.Ops = append(c.Ops, n09ROp{Op: "push"})
			pushes++
		}
		st.Exclude("no cursor ever stands on seq 0: ring pre-rolled past its first record (known finding " + n09KeyRingSeq0 + ")")
	}
	for s := 0; s < segs; s++ {
		pushBias := rapid.SampledFrom([]int{25, 50, 70, 90}).Draw(t, "pushBias")
		dataBias := rapid.SampledFrom([]int{0, 10, 40}).Draw(t, "dataBias")
		n := rapid.IntRange(1, 40).Draw(t, "segLen")
		for i := 0; i < n; i++ {
			r := rapid.IntRange(0, 99).Draw(t, "r")
			switch {
			case r < pushBias*8/10:
				op := n09ROp{Op: "push"}
				if rapid.IntRange(0, 99).Draw(t, "d") < dataBias {
					op.A = rapid.IntRange(1, 200).Draw(t, "dataLen")
				}
				pushes++
				c.Ops = append(c.Ops, op)
			case r < 80:
				c.Ops = append(c.Ops, n09ROp{Op: "pop", C: rapid.IntRange(0, ncur-1).Draw(t, "c"), A: rapid.IntRange(1, 12).Draw(t, "n")})
			default:
				k := rapid.SampledFrom([]string{"new", "head", "search", "search", "addpoll", "addpoll", "rmpoll", "ack"}).Draw(t, "k")
				op := n09ROp{Op: k, C: rapid.IntRange(0, ncur-1).Draw(t, "c")}
				if k == "search" {
					// mostly recent ids, sometimes old (evicted) or never produced ones
					back := rapid.IntRange(-2, 40).Draw(t, "back")
					op.A = pushes - 1 - back
					if op.A < 0 {
						op.A = 0
					}
					// a search is what a reconnecting follower does first: give it a cursor of its own
					c.Ops = append(c.Ops, n09ROp{Op: "new", C: op.C})
				}
				if k == "head" {
					c.Ops = append(c.Ops, n09ROp{Op: "new", C: op.C})
				}
				c.Ops = append(c.Ops, op)
			}
		}
	}
	return c
}

func n09RingClasses(info n09RInfo) []string {
	var cls []string
	add := func(b bool, s string) {
		if b {
			cls = append(cls, s)
		}
	}
	add(info.doubled > 0, "ring doubled")
	add(info.recycled > 0, "ring overflowed (oldest record recycled)")
	add(info.outOfBuf > 0, "cursor told out-of-buf")
	add(info.spuriousOOB > 0, "out-of-buf although next record still retained")
	add(info.searchHit > 0, "search hit")
	add(info.searchMiss > 0, "search miss")
	add(info.heads > 0, "head positioning")
	add(info.dataPops > 0, "payload records popped")
	add(info.cursorsWithPops >= 2, ">=2 cursors consumed records")
	return cls
}

func n09RingNontrivial(info n09RInfo) bool {
	return info.recycled > 0 && (info.doubled > 0 || info.outOfBuf > 0) && info.pops >= 5
}

func TestC09_RingModel(t *testing.T) {
	st := vstat("TestC09_RingModel")
	rapid.Check(t, func(t *rapid.T) {
		c := n09GenRing(t, st)
		info, err := n09GuardRing(c)
		st.Case(n09RingNontrivial(info), c.fingerprint(), n09RingClasses(info), func() interface{} { return c })
		if err != nil {
			key := "C09:ring:model-mismatch"
			if strings.Contains(err.Error(), "EOF although records") && strings.Contains(err.Error(), "(cursor stands on 0)") {
				key = n09KeyRingSeq0
			}
			vFail(t, "TestC09_RingModel", key, c, "%v", err)
		}
	})
}
