package server

// C15 / engine T: reference model (a plain key-value store with expiry) and oracle.
//
// The statement only says "answer like a plain key-value store". Where that leaves a choice (does INCR
// of the text "5" parse it or refuse it, does an addition beyond int64 wrap or fail, is a key whose n
// seconds are just over still there, ...) the oracle keeps a SET of model states ("hypotheses"): every
// command forks each state into the outcomes some plain store could produce, and the observed reply
// filters them. A violation is a reply that no hypothesis explains. The first outcome of every fork is
// the one this server was observed to take; the generator follows it to predict the state.

import (
	"bytes"
	"fmt"
	"sort"
	"strconv"
	"strings"
)

type t15Val struct {
	Exists bool
	Num    bool   // the value is an integer (written by INCR/DECR...)
	N      int64  //
	S      string // the value is a byte string
	// expiry: 0,0 = none. The key is certainly alive while now < AliveBefore and certainly gone once the
	// sweep of second GoneFrom has run; in between a one-second clock cannot tell.
	AliveBefore int64
	GoneFrom    int64
	// shadow facts: they never change an expectation, they only name the failure class
	NX      bool   // created by SETNX / SET ... NX
	ExpBy   string // command that set the expiry
	Overdue bool   // GoneFrom reached while a command was waiting: removed when that command has been answered
	Dead    string // the key is absent because its expiry (set by this command) came
	Gone    bool   // the key is absent but existed earlier in the case (deleted or expired)
	// the key came into being with an expiry of at most 4 s: the server then keeps its lock object in the
	// short timer wheel (re-examined after 1, 2, 3 ... 8 s) instead of the exact long queue
	BornShort bool
	BornAt    int64
	Shortened bool // ... and a later command moved the due time forward (or set one after it had been removed)
}

type t15State struct {
	Now  int64
	Keys []t15Val
}

func (s *t15State) clone() *t15State {
	n := &t15State{Now: s.Now, Keys: make([]t15Val, len(s.Keys))}
	copy(n.Keys, s.Keys)
	return n
}

func (s *t15State) sig() string { return fmt.Sprintf("%v", *s) }

func (v *t15Val) text() string {
	if v.Num {
		return strconv.FormatInt(v.N, 10)
	}
	return v.S
}

func (v *t15Val) hasExp() bool { return v.GoneFrom != 0 }

func (v *t15Val) clearExp() { v.AliveBefore, v.GoneFrom, v.ExpBy = 0, 0, "" }

func (v *t15Val) setStr(s string) { v.Exists, v.Num, v.N, v.S = true, false, 0, s }

// t15Out is one outcome a plain key-value store may produce for a command.
type t15Out struct {
	Replies []string            // acceptable replies (exact RESP bytes) ...
	Match   func(r []byte) bool // ... or a predicate
	St      *t15State
	Refused bool // the command was refused or answered "not done"
	Wrote   bool // the command changed value or expiry of the key
	Hit     bool // the reply carries a stored value (GET / GETSET of an existing key)
}

func (o *t15Out) accepts(r []byte) bool {
	if o.Match != nil {
		return o.Match(r)
	}
	for _, x := range o.Replies {
		if x == string(r) {
			return true
		}
	}
	return false
}

func t15Bulk(s string) string { return fmt.Sprintf("$%d\r\n%s\r\n", len(s), s) }
func t15Int(n int64) string   { return fmt.Sprintf(":%d\r\n", n) }

const t15Nil = "$-1\r\n"

func t15IsErr(r []byte) bool { return len(r) > 0 && r[0] == '-' }

// t15Canonical: the decimal text a store itself would print for the number.
func t15Canonical(s string) (int64, bool) {
	n, err := strconv.ParseInt(s, 10, 64)
	if err != nil || strconv.FormatInt(n, 10) != s {
		return 0, false
	}
	return n, true
}

// t15Lenient: texts that some stores take as a number and others refuse (+5, 007, -0).
func t15Lenient(s string) (int64, bool) {
	n, err := strconv.ParseInt(s, 10, 64)
	return n, err == nil
}

func t15ExpWindow(now int64, op string, n int64) (alive, gone int64) {
	switch op {
	case "PX":
		return now + n/1000, now + (n+999)/1000 + 1
	default:
		return now + n, now + n + 1
	}
}

type t15Ctx struct {
	W0, W1   int64 // wall clock (seconds) before the request and after the reply: the server's TTL subtracts the wall clock
	WM0, WM1 int64 // the same in milliseconds
}

func (v *t15Val) getReplies() []string {
	if !v.Exists {
		return []string{t15Nil}
	}
	if v.Num {
		return []string{t15Int(v.N), t15Bulk(v.text())}
	}
	return []string{t15Bulk(v.S)}
}

// apply returns the outcomes of one command for one hypothesis. The first one is what the server was
// observed to do wherever the statement leaves a choice.
func (s *t15State) apply(st *t15Step, ctx *t15Ctx) []t15Out {
	k := st.K % len(s.Keys)
	cur := s.Keys[k]
	same := func(replies ...string) t15Out { return t15Out{Replies: replies, St: s} }
	refusedErr := func() t15Out { return t15Out{Match: t15IsErr, St: s, Refused: true} }
	with := func(nv t15Val, replies ...string) t15Out {
		n := s.clone()
		n.Keys[k] = nv
		return t15Out{Replies: replies, St: n, Wrote: true}
	}
	// withExp: the command gives the key a new expiry. The server treats an update that moves the due time
	// of an existing expiry by at most one second as "nothing to do" (LockManager.CheckLockedEqual, a
	// deliberate tolerance of its one-second clock): the old due time may stay.
	withExp := func(nv t15Val, replies ...string) []t15Out {
		if cur.Exists {
			nv.BornShort, nv.BornAt = cur.BornShort, cur.BornAt
			nv.Shortened = cur.Shortened || (cur.BornShort && s.Now-cur.BornAt < t15WheelSeconds && nv.hasExp() && (!cur.hasExp() || nv.GoneFrom < cur.GoneFrom))
		} else {
			nv.BornShort, nv.BornAt, nv.Shortened = nv.hasExp() && nv.GoneFrom-s.Now <= 5, s.Now, false
		}
		outs := []t15Out{with(nv, replies...)}
		if d := nv.GoneFrom - cur.GoneFrom; cur.Exists && cur.hasExp() && nv.hasExp() && d != 0 && d >= -1 && d <= 1 {
			ov := nv
			ov.AliveBefore, ov.GoneFrom, ov.ExpBy = cur.AliveBefore, cur.GoneFrom, cur.ExpBy
			outs = append(outs, with(ov, replies...))
			if cur.Num == nv.Num && cur.N == nv.N && cur.S == nv.S {
				outs[0], outs[1] = outs[1], outs[0] // observed: taken as "nothing to do" when the value does not change either
			}
		}
		return outs
	}
	switch st.Op {
	case "GET":
		o := same(cur.getReplies()...)
		o.Hit = cur.Exists
		return []t15Out{o}
	case "EXISTS":
		if cur.Exists {
			return []t15Out{same(t15Int(1))}
		}
		return []t15Out{same(t15Int(0))}
	case "STRLEN":
		if cur.Exists {
			return []t15Out{same(t15Int(int64(len(cur.text()))))}
		}
		return []t15Out{same(t15Int(0))}
	case "TYPE":
		if cur.Exists {
			return []t15Out{same("+string\r\n")}
		}
		return []t15Out{same("+none\r\n")}
	case "TTL", "PTTL":
		if !cur.Exists {
			return []t15Out{same(t15Int(-2))}
		}
		if !cur.hasExp() {
			return []t15Out{same(t15Int(-1))}
		}
		lo, hi, ms := cur.AliveBefore, cur.GoneFrom, st.Op == "PTTL"
		return []t15Out{{St: s, Match: func(r []byte) bool {
			if len(r) < 4 || r[0] != ':' {
				return false
			}
			n, err := strconv.ParseInt(string(r[1:len(r)-2]), 10, 64)
			if err != nil {
				return false
			}
			// the absolute expiry instant the server has in mind lies in [n+W0, n+W1]
			if ms {
				for e := lo; e <= hi; e++ {
					if n+ctx.WM0 <= e*1000 && e*1000 <= n+ctx.WM1 {
						return true
					}
				}
				return false
			}
			return n+ctx.W1 >= lo && n+ctx.W0 <= hi
		}}}
	case "DEL":
		if !cur.Exists {
			o := same(t15Int(0))
			o.Refused = true
			return []t15Out{o}
		}
		return []t15Out{with(t15Val{Gone: true}, t15Int(1))}
	case "SET", "SETEX", "PSETEX":
		nv := t15Val{}
		nv.setStr(string(st.val()))
		nx, xx := false, false
		switch st.Op {
		case "SETEX", "PSETEX":
			n, ok := t15Canonical(st.N)
			if !ok || n <= 0 {
				return []t15Out{refusedErr()}
			}
			kind := "EX"
			if st.Op == "PSETEX" {
				kind = "PX"
			}
			nv.AliveBefore, nv.GoneFrom = t15ExpWindow(s.Now, kind, n)
			nv.ExpBy = st.Op
		default:
			for i := 0; i < len(st.Opt); i++ {
				switch strings.ToUpper(st.Opt[i]) {
				case "NX":
					nx = true
				case "XX":
					xx = true
				case "EX", "PX":
					if i+1 >= len(st.Opt) {
						return []t15Out{refusedErr()}
					}
					n, ok := t15Canonical(st.Opt[i+1])
					if !ok || n <= 0 {
						return []t15Out{refusedErr()}
					}
					nv.AliveBefore, nv.GoneFrom = t15ExpWindow(s.Now, strings.ToUpper(st.Opt[i]), n)
					nv.ExpBy = "SET " + strings.ToUpper(st.Opt[i])
					i++
				}
			}
		}
		if (nx && cur.Exists) || (xx && !cur.Exists) {
			o := same(t15Nil)
			o.Refused = true
			return []t15Out{o}
		}
		nv.NX = nx
		return withExp(nv, "+OK\r\n")
	case "SETNX":
		if cur.Exists {
			o := same(t15Int(0))
			o.Refused = true
			return []t15Out{o}
		}
		nv := t15Val{NX: true}
		nv.setStr(string(st.val()))
		return []t15Out{with(nv, t15Int(1))}
	case "GETSET":
		nv := t15Val{NX: cur.Exists && cur.NX}
		if cur.Exists {
			nv.BornShort, nv.BornAt, nv.Shortened = cur.BornShort, cur.BornAt, cur.Shortened
		}
		nv.setStr(string(st.val()))
		o := with(nv, cur.getReplies()...)
		o.Hit = cur.Exists
		return []t15Out{o}
	case "APPEND":
		add := string(st.val())
		if cur.Exists && cur.Num {
			// a store either appends to the decimal text or refuses; it does not answer a length and keep the number
			nv := cur
			nv.setStr(cur.text() + add)
			return []t15Out{with(nv, t15Int(int64(len(nv.S)))), refusedErr()}
		}
		nv := cur
		if cur.Exists {
			nv.setStr(cur.S + add)
		} else {
			nv = t15Val{}
			nv.setStr(add)
		}
		return []t15Out{with(nv, t15Int(int64(len(nv.S))))}
	case "INCR", "DECR", "INCRBY", "DECRBY":
		type cand struct {
			v  int64
			ok bool
		}
		var deltas []cand // ok=false: refused
		switch st.Op {
		case "INCR":
			deltas = []cand{{1, true}}
		case "DECR":
			deltas = []cand{{-1, true}}
		default:
			d, canon := t15Canonical(st.N)
			if !canon {
				var lenient bool
				d, lenient = t15Lenient(st.N)
				if !lenient {
					return []t15Out{refusedErr()}
				}
				deltas = append(deltas, cand{0, false})
			}
			if st.Op == "DECRBY" {
				if d == -1<<63 {
					deltas = append(deltas, cand{0, false}) // -d does not exist: wrap or refuse
				}
				d = -d
			}
			deltas = append([]cand{{d, true}}, deltas...)
		}
		var bases []cand
		switch {
		case !cur.Exists:
			bases = []cand{{0, true}}
		case cur.Num:
			bases = []cand{{cur.N, true}}
		default:
			if n, ok := t15Canonical(cur.S); ok {
				bases = []cand{{n, true}, {0, false}}
			} else {
				bases = []cand{{0, false}}
			}
		}
		var outs []t15Out
		refused := false
		for _, b := range bases {
			for _, d := range deltas {
				if !b.ok || !d.ok {
					refused = true
					continue
				}
				sum := b.v + d.v // wraps like the two's complement arithmetic of most stores
				if (d.v > 0 && sum < b.v) || (d.v < 0 && sum > b.v) {
					refused = true // ... or the store refuses the overflow
				}
				nv := cur
				if !cur.Exists {
					nv = t15Val{}
				}
				nv.Exists, nv.Num, nv.N, nv.S = true, true, sum, ""
				outs = append(outs, with(nv, t15Int(sum)))
			}
		}
		if refused {
			outs = append(outs, refusedErr())
		}
		return outs
	case "EXPIRE", "PEXPIRE":
		n, ok := t15Canonical(st.N)
		if !ok || n <= 0 {
			return []t15Out{refusedErr()}
		}
		if !cur.Exists {
			o := same(t15Int(0))
			o.Refused = true
			return []t15Out{o}
		}
		nv := cur
		kind := "EX"
		if st.Op == "PEXPIRE" {
			kind = "PX"
		}
		nv.AliveBefore, nv.GoneFrom = t15ExpWindow(s.Now, kind, n)
		nv.ExpBy = st.Op
		return withExp(nv, t15Int(1))
	case "PERSIST":
		var outs []t15Out
		switch {
		case !cur.Exists:
			o := same(t15Int(0))
			o.Refused = true
			outs = append(outs, o)
		case cur.hasExp():
			nv := cur
			nv.clearExp()
			outs = append(outs, with(nv, t15Int(1)))
		default:
			outs = append(outs, same(t15Int(1), t15Int(0)))
		}
		if st.N != "" {
			outs = append(outs, refusedErr()) // PERSIST takes no argument in Redis: a store may refuse the extra one
		}
		return outs
	}
	return []t15Out{refusedErr()}
}

// second: one second passes. lenient = a command is waiting inside the server and may be answered in the
// middle of this second's sweeps: a key that is due now may still be seen by it.
func (s *t15State) second(lenient bool) []*t15State {
	s = s.clone()
	s.Now++
	outs := []*t15State{s}
	for k := range s.Keys {
		v := s.Keys[k]
		if !v.Exists || !v.hasExp() {
			continue
		}
		switch {
		case s.Now >= v.GoneFrom && !lenient:
			for _, o := range outs {
				o.Keys[k] = t15Val{Dead: v.ExpBy, Gone: true, Shortened: v.Shortened}
			}
		case s.Now >= v.AliveBefore:
			// either: first the hypothesis in which it is still there (observed), then the one without it
			n := len(outs)
			for i := 0; i < n; i++ {
				g := outs[i].clone()
				g.Keys[k] = t15Val{Dead: v.ExpBy, Gone: true, Shortened: v.Shortened}
				if s.Now >= v.GoneFrom {
					outs[i].Keys[k].Overdue = true
				}
				outs = append(outs, g)
			}
		}
	}
	return outs
}

func (s *t15State) settle() {
	for k := range s.Keys {
		if s.Keys[k].Overdue {
			s.Keys[k] = t15Val{Dead: s.Keys[k].ExpBy, Gone: true, Shortened: s.Keys[k].Shortened}
		}
	}
}

// ---------------------------------------------------------------------------------------------

type t15Hyps struct {
	hs       []*t15State
	timeouts []int
}

func t15NewHyps(nKeys int, timeouts []int) *t15Hyps {
	return &t15Hyps{hs: []*t15State{{Now: t15Epoch, Keys: make([]t15Val, nKeys)}}, timeouts: timeouts}
}

func t15Dedupe(hs []*t15State) []*t15State {
	seen := map[string]bool{}
	out := hs[:0:0]
	for _, h := range hs {
		g := h.sig()
		if !seen[g] {
			seen[g] = true
			out = append(out, h)
		}
	}
	return out
}

func (m *t15Hyps) second(lenient bool) {
	var next []*t15State
	for _, h := range m.hs {
		next = append(next, h.second(lenient)...)
	}
	m.hs = t15Dedupe(next)
}

// predictWait: seconds the primary hypothesis expects a command to sit in the server's wait queue
// (SETNX / SET NX of a key that exists, on a connection with a time-out).
func (m *t15Hyps) predictWait(st *t15Step) (seconds int, endsByExpiry bool) {
	if st.Op != "SETNX" && !(st.Op == "SET" && t15HasOpt(st.Opt, "NX")) {
		return 0, false
	}
	h := m.hs[0]
	v := h.Keys[st.K%len(h.Keys)]
	to := m.timeouts[st.C%len(m.timeouts)]
	if to < 0 {
		to = 15
	}
	if !v.Exists || to == 0 {
		return 0, false
	}
	w := int64(to) + 1
	if v.hasExp() && v.GoneFrom-h.Now < w {
		return int(v.GoneFrom - h.Now), true // the key's time comes first: its removal wakes the command up
	}
	return int(w), false // the time-out sweep of a second runs before the expiry sweep
}

func t15HasOpt(opt []string, name string) bool {
	for _, o := range opt {
		if strings.ToUpper(o) == name {
			return true
		}
	}
	return false
}

type t15Violation struct {
	Key string
	Msg string
}

// command filters the hypotheses by the reply of one command that took `waited` virtual seconds.
func (m *t15Hyps) command(st *t15Step, reply []byte, waited int, ctx *t15Ctx) (*t15Out, *t15Violation) {
	for i := 0; i < waited; i++ {
		m.second(i == waited-1)
	}
	before := m.hs
	var next []*t15State
	var first *t15Out
	for _, h := range m.hs {
		for _, o := range h.apply(st, ctx) {
			if o.accepts(reply) {
				o := o
				if o.St == h {
					o.St = h.clone()
				}
				o.St.settle()
				if first == nil {
					first = &o
				}
				next = append(next, o.St)
			}
		}
	}
	if len(next) == 0 {
		return nil, t15Explain(before, st, reply, waited, ctx)
	}
	m.hs = t15Dedupe(next)
	return first, nil
}

// t15Explain names the failure class and lists what would have been acceptable.
func t15Explain(hs []*t15State, st *t15Step, reply []byte, waited int, ctx *t15Ctx) *t15Violation {
	h := hs[0]
	v := h.Keys[st.K%len(h.Keys)]
	var want []string
	seen := map[string]bool{}
	for _, h := range hs {
		for _, o := range h.apply(st, ctx) {
			d := ""
			if o.Match != nil {
				d = "<an error reply>"
				if st.Op == "TTL" || st.Op == "PTTL" {
					hv := h.Keys[st.K%len(h.Keys)]
					d = fmt.Sprintf("<time to live %d..%d s>", hv.AliveBefore-h.Now, hv.GoneFrom-h.Now)
				}
			} else {
				q := []string{}
				for _, r := range o.Replies {
					q = append(q, fmt.Sprintf("%q", t15Short(r)))
				}
				d = strings.Join(q, " or ")
			}
			if !seen[d] {
				seen[d] = true
				want = append(want, d)
			}
		}
	}
	sort.Strings(want)
	state := "absent"
	if v.Dead != "" {
		state = "absent: the expiry set by " + v.Dead + " has come"
		if v.Shortened {
			state += " (it had been moved forward on a key born with an expiry of at most 4 s)"
		}
	} else if v.Gone {
		state = "absent: deleted earlier in the case"
	}
	if v.Exists {
		state = fmt.Sprintf("value %q", t15Short(v.text()))
		if v.Num {
			state = fmt.Sprintf("integer %d", v.N)
		}
		if v.hasExp() {
			state += fmt.Sprintf(", expiry set by %s, due in %d..%d s", v.ExpBy, v.AliveBefore-h.Now, v.GoneFrom-h.Now)
		}
		if v.NX {
			state += ", created by SETNX / SET NX"
		}
	}
	msg := fmt.Sprintf("%s answered %q; a plain key-value store answers %s (key k%d: %s%s)", st.String(), t15Short(string(reply)),
		strings.Join(want, " | "), st.K, state, map[bool]string{true: fmt.Sprintf("; the command waited %d s inside the server", waited), false: ""}[waited > 0])
	return &t15Violation{Key: "C15:text:" + t15Class(&v, st, reply), Msg: msg}
}

func t15Short(s string) string {
	if len(s) > 80 {
		return s[:60] + fmt.Sprintf("...(%d bytes)", len(s))
	}
	return s
}

const (
	t15KeySetnxRefuses = "C15:text:setnx-key-refuses-later-writes"
	t15KeyIncrString   = "C15:text:incr-on-string-reads-raw-bytes"
	t15KeyAppendNumber = "C15:text:append-on-number-is-lost"
	t15KeyPersistArg   = "C15:text:persist-without-argument-refused"
	t15KeyExpireAbsent = "C15:text:expire-on-absent-key-creates-holder"
	t15KeyPxSeconds    = "C15:text:px-above-3000-counted-as-seconds"
	t15KeyResurface    = "C15:text:deleted-value-resurfaces"
	t15KeyLateExpiry   = "C15:text:shortened-expiry-noticed-late"
)

// t15WheelSeconds: a lock object leaves the short timer wheel for the exact queue after 1+2+...+8 s.
const t15WheelSeconds = 40

// t15Class: the failure class, from the command, the reply and shadow facts about the key.
func t15Class(v *t15Val, st *t15Step, reply []byte) string {
	write := map[string]bool{"SET": true, "SETEX": true, "PSETEX": true, "GETSET": true, "APPEND": true, "INCR": true, "DECR": true, "INCRBY": true,
		"DECRBY": true, "EXPIRE": true, "PEXPIRE": true, "PERSIST": true}[st.Op]
	nxOpt := st.Op == "SET" && t15HasOpt(st.Opt, "NX")
	switch {
	case st.Op == "PERSIST" && st.N == "" && t15IsErr(reply):
		return strings.TrimPrefix(t15KeyPersistArg, "C15:text:")
	case write && !nxOpt && v.Exists && v.NX:
		return strings.TrimPrefix(t15KeySetnxRefuses, "C15:text:")
	case (st.Op == "EXPIRE" || st.Op == "PEXPIRE" || st.Op == "PERSIST") && !v.Exists && bytes.Equal(reply, []byte(":1\r\n")):
		return strings.TrimPrefix(t15KeyExpireAbsent, "C15:text:")
	case (st.Op == "INCR" || st.Op == "DECR" || st.Op == "INCRBY" || st.Op == "DECRBY") && v.Exists && !v.Num && len(reply) > 0 && reply[0] == ':':
		return strings.TrimPrefix(t15KeyIncrString, "C15:text:")
	case (st.Op == "APPEND" || st.Op == "INCR" || st.Op == "DECR" || st.Op == "INCRBY" || st.Op == "DECRBY") && !v.Exists && v.Gone && len(reply) > 0 && reply[0] == ':':
		return strings.TrimPrefix(t15KeyResurface, "C15:text:")
	case st.Op == "APPEND" && v.Exists && v.Num:
		return strings.TrimPrefix(t15KeyAppendNumber, "C15:text:")
	case (st.Op == "TTL" || st.Op == "PTTL") && v.Exists && (v.ExpBy == "SET PX" || v.ExpBy == "PEXPIRE" || v.ExpBy == "PSETEX") && len(reply) > 0 && reply[0] == ':' && !bytes.HasPrefix(reply, []byte(":-1\r")) && !bytes.HasPrefix(reply, []byte(":-2\r")):
		return strings.TrimPrefix(t15KeyPxSeconds, "C15:text:")
	}
	px := func(by string) bool { return by == "SET PX" || by == "PEXPIRE" || by == "PSETEX" }
	read := map[string]bool{"GET": true, "EXISTS": true, "STRLEN": true, "TYPE": true, "TTL": true, "PTTL": true}[st.Op]
	if read && !v.Exists && px(v.Dead) {
		return strings.TrimPrefix(t15KeyPxSeconds, "C15:text:")
	}
	if (read || st.Op == "SETNX" || (st.Op == "SET" && (t15HasOpt(st.Opt, "NX") || t15HasOpt(st.Opt, "XX")))) && !v.Exists && v.Dead != "" && v.Shortened {
		return strings.TrimPrefix(t15KeyLateExpiry, "C15:text:")
	}
	return st.Op + ":reply"
}
