package server

// C19: client-library primitives keep their textbook guarantees over TCP (engine C of DESIGN.md).
//
// The harness lives in package server (not client) because /repo/server imports /repo/client, so an in-package
// client test importing server would be an import cycle. It only uses the *exported* client API plus in-package
// access to start one leader instance per test process on a loopback port.
//
// Oracle: client-side history with ONE global atomic logical clock per case. An acquire is stamped AFTER the client
// call returned, a release is stamped BEFORE the unlock is issued; [acquire returned, release called] is the interval in
// which the caller definitely holds the primitive. Whatever the server/network interleaving, these intervals must obey
// the primitive's admission rule. Real goroutines + sockets: the inputs (scripts) replay, the schedule does not.

import (
	"encoding/json"
	"fmt"
	"net"
	"os"
	"path/filepath"
	"runtime"
	"sort"
	"strings"
	"sync"
	"sync/atomic"
	"testing"
	"time"

	"github.com/jessevdk/go-flags"
	c19cl "github.com/snower/slock/client"
	"github.com/snower/slock/protocol"
	"pgregory.net/rapid"
)

// ---------------------------------------------------------------------------------------------
// case data (plain JSON)

const (
	c19Timeout = 20 // seconds a waiter may wait at the server (never reached in a healthy run)
	c19Expried = 60 // seconds before the server would end a hold by itself (never reached)
)

type c19Step struct {
	Mode  string `json:"mode,omitempty"`  // RWLock: "r" | "w"
	Pause int    `json:"pause,omitempty"` // delay units before the acquire / set / wait (see c19Delay)
	Hold  int    `json:"hold,omitempty"`  // delay units while holding (Event setter: time the event stays set)
	Reent int    `json:"reent,omitempty"` // RLock: extra re-entrant Lock() calls while holding
	// millisecond delays (added to the unit delays) for the timing classes "waited acquisition" and "colliding keys"
	PauseMs int `json:"pause_ms,omitempty"`
	HoldMs  int `json:"hold_ms,omitempty"`
}

// c19Collide: the case key B shares its slot of the server's fast key table with a second key A (the slot hash XORs the
// four 32-bit words of a key, so swapping W0 and W1 collides for every table size). The harness locks A first (A takes
// the slot, B's manager goes to the overflow map), lets the first Early scripts acquire B, unlocks A, waits PauseMs
// (>= 1.2 s: the expiry sweep removes A's manager and frees the slot), then starts the remaining scripts, which contend
// for B while the early holders keep it for another GateMs.
type c19Collide struct {
	W0      uint32 `json:"w0"`
	W1      uint32 `json:"w1"`
	Early   int    `json:"early"`
	PauseMs int    `json:"pause_ms"`
	GateMs  int    `json:"gate_ms"`
}

type c19Script struct {
	Conn  int       `json:"conn"`           // index of the client connection used by this goroutine
	Role  string    `json:"role,omitempty"` // RLock case: "rlock" | "lock"; Event: "setter" | "waiter"; Priority: "holder" | "waiter"
	Prio  int       `json:"prio,omitempty"` // PriorityLock priority (higher number is served first)
	Steps []c19Step `json:"steps"`
}

type c19Case struct {
	Prim       string      `json:"prim"` // lock rlock sem flow rwlock prio event
	N          int         `json:"n,omitempty"`
	Conns      int         `json:"conns"`
	DefaultSet bool        `json:"default_set,omitempty"` // Event mode
	Burst      bool        `json:"burst,omitempty"`       // Event: waiter step j>=1 is released by the harness right after the j-th Clear returned
	Reconnect  int         `json:"reconnect,omitempty"`   // >0: server drops every client connection once, after that many delay units
	Expiry     int         `json:"expiry,omitempty"`      // seconds promised to a holder (0 = 60: never reached); short expiries arm the lateness rule
	ExpFlag    int         `json:"exp_flag,omitempty"`    // expiry flag bits passed through the client API (0x0100 = zero aof time: the hold is filed in the long expiry queue at once when expiry > 5 s)
	Collide    *c19Collide `json:"collide,omitempty"`
	Scripts    []c19Script `json:"scripts"`
}

func (c *c19Case) expiry() int {
	if c.Expiry > 0 {
		return c.Expiry
	}
	return c19Expried
}

// expried is the value handed to the client constructors: seconds in the low half, flag bits in the high half.
func (c *c19Case) expried() uint32 { return uint32(c.expiry()) | uint32(c.ExpFlag)<<16 }

func (c *c19Case) fingerprint() uint64 {
	b, _ := json.Marshal(c)
	return vHash(b)
}

// ---------------------------------------------------------------------------------------------
// history

type c19Ev struct {
	T int64  // logical clock
	G int    // goroutine (script index)
	S int    // step index
	K string // call ret rel relret recall reret rerel rerelret setcall setret clearcall clearret waitcall waitret
	M string // mode (rwlock) / role
	R int    // 0 ok, >0 server result code, 0x80 transport error (LockError.Result), -1 other error
	E string // error text
	W int64  // wall time since the case started (ns); used ONLY for the lateness rule (bound with slack -> inconclusive)
}

func (e c19Ev) String() string {
	s := fmt.Sprintf("t=%-5d w=%8.1fms g=%-2d s=%d %-9s", e.T, float64(e.W)/1e6, e.G, e.S, e.K)
	if e.M != "" {
		s += " mode=" + e.M
	}
	switch e.K {
	case "ret", "relret", "reret", "rerelret", "setret", "clearret", "waitret":
		if e.R == 0 {
			s += " ok"
		} else {
			s += fmt.Sprintf(" FAILED r=%d %s", e.R, e.E)
		}
	}
	return s
}

func c19HistString(evs []c19Ev) string {
	var b strings.Builder
	for _, e := range evs {
		b.WriteString("  ")
		b.WriteString(e.String())
		b.WriteByte('\n')
	}
	return b.String()
}

type c19Rec struct {
	clock *int64
	g     int
	evs   []c19Ev
	t0    time.Time
}

func (r *c19Rec) rec(s int, k, m string, err error) {
	ev := c19Ev{G: r.g, S: s, K: k, M: m}
	if err != nil {
		ev.R, ev.E = -1, err.Error()
		if le, ok := err.(*c19cl.LockError); ok {
			ev.R = int(le.Result)
			if ev.R == 0 {
				ev.R = -1
			}
		}
	}
	// The stamp is taken here: callers invoke rec() AFTER an acquire returned and BEFORE a release is issued.
	ev.T = atomic.AddInt64(r.clock, 1)
	if !r.t0.IsZero() {
		ev.W = int64(time.Since(r.t0))
	}
	r.evs = append(r.evs, ev)
}

type c19Info struct {
	maxHeld        int
	bound          int
	forcedWaits    int // successful acquires that were called while the primitive was definitely full
	waitInReent    int // RLock: forced waits that began while the holder was inside a re-entrant (depth>=2 planned) hold
	acquires       int
	acqFail        int
	acqTimeout     int
	reentOK        int
	readersMax     int
	sawWriter      bool
	sawReader      bool
	prioSettled    bool
	prioDistinct   int
	prioAcquired   int
	evWaitsBlocked int // Event: successful waits called while the event was definitely clear
	evWaitsOK      int
	transportErrs  int
	acqAfterDrop   int // reconnect mode: successful acquires returned after the connections were dropped
	dropped        bool
	late           bool  // a hold was released later than (earliest possible grant + expiry - slack): no verdict
	maxWaitMs      int64 // longest lower bound of a forced wait that ended in a grant
	waitedExposed  bool  // see c19Check: a waited hold outlived request time + expiry + 1 s while somebody else was asking
	collideSettled bool
	nontrivial     bool
}

type c19Violation struct {
	Key string
	Msg string
}

func (v *c19Violation) Error() string { return v.Key + ": " + v.Msg }

// ---------------------------------------------------------------------------------------------
// the shared in-process leader

var c19Srv struct {
	once sync.Once
	port uint
	err  error
	srv  *Server
}

func c19Server() (uint, error) {
	c19Srv.once.Do(func() {
		cfg := &ServerConfig{}
		if _, err := flags.NewParser(cfg, flags.Default).ParseArgs([]string{}); err != nil {
			c19Srv.err = err
			return
		}
		base := os.Getenv("VERIF_DATADIR")
		if base == "" {
			base = os.TempDir()
		}
		dir, err := os.MkdirTemp(base, "c19-leader-")
		if err != nil {
			if err = os.MkdirAll(base, 0755); err == nil {
				dir, err = os.MkdirTemp(base, "c19-leader-")
			}
			if err != nil {
				c19Srv.err = err
				return
			}
		}
		ln, err := net.Listen("tcp", "127.0.0.1:0")
		if err != nil {
			c19Srv.err = err
			return
		}
		cfg.DataDir = filepath.Join(dir, "data")
		cfg.Bind = "127.0.0.1"
		cfg.Port = uint(ln.Addr().(*net.TCPAddr).Port)
		cfg.Log = "-"
		cfg.LogLevel = "ERROR"
		logger, err := InitLogger(cfg)
		if err != nil {
			c19Srv.err = err
			return
		}
		slock := NewSLock(cfg, logger)
		srv := NewServer(slock)
		if err = slock.Init(srv); err != nil {
			c19Srv.err = err
			return
		}
		srv.server = ln // what Server.Listen() would do, without the close/re-listen port race
		go srv.Serve()
		c19Srv.port, c19Srv.srv = cfg.Port, srv
	})
	return c19Srv.port, c19Srv.err
}

var c19KeySeq uint64

// c19CollidingKeys returns two fresh, different keys that fall into the same slot of the server's fast key table.
func c19CollidingKeys(w0, w1 uint32) (a, b [16]byte) {
	if w0 == w1 {
		w1 = ^w0
	}
	fresh := c19FreshKey()
	put := func(k *[16]byte, off int, v uint32) {
		k[off], k[off+1], k[off+2], k[off+3] = byte(v), byte(v>>8), byte(v>>16), byte(v>>24)
	}
	a, b = fresh, fresh // words 2 and 3 = per-process fresh counter
	put(&a, 0, w0)
	put(&a, 4, w1)
	put(&b, 0, w1)
	put(&b, 4, w0)
	return
}

func c19FreshKey() [16]byte {
	n := atomic.AddUint64(&c19KeySeq, 1)
	var k [16]byte
	copy(k[:], "c19:")
	pid := uint32(os.Getpid())
	k[4], k[5], k[6], k[7] = byte(pid), byte(pid>>8), byte(pid>>16), byte(pid>>24)
	for i := 0; i < 8; i++ {
		k[8+i] = byte(n >> (8 * uint(i)))
	}
	return k
}

func c19Delay(u int) {
	switch {
	case u <= 0:
	case u == 1:
		runtime.Gosched()
	case u == 2:
		time.Sleep(100 * time.Microsecond)
	case u == 3:
		time.Sleep(400 * time.Microsecond)
	case u == 4:
		time.Sleep(time.Millisecond)
	default:
		time.Sleep(3 * time.Millisecond)
	}
}

// ---------------------------------------------------------------------------------------------
// executor (rapid-free)

type c19Prim interface {
	acquire(mode string) error
	release(mode string) error
}

type c19LockA struct{ l *c19cl.Lock }

func (a c19LockA) acquire(string) error { _, err := a.l.Lock(); return err }
func (a c19LockA) release(string) error { _, err := a.l.Unlock(); return err }

type c19RLockA struct{ l *c19cl.RLock }

func (a c19RLockA) acquire(string) error { _, err := a.l.Lock(); return err }
func (a c19RLockA) release(string) error { _, err := a.l.Unlock(); return err }

type c19SemA struct{ s *c19cl.Semaphore }

func (a c19SemA) acquire(string) error { _, err := a.s.Acquire(); return err }
func (a c19SemA) release(string) error { _, err := a.s.Release(); return err }

type c19FlowA struct{ f *c19cl.MaxConcurrentFlow }

func (a c19FlowA) acquire(string) error { _, err := a.f.Acquire(); return err }
func (a c19FlowA) release(string) error { _, err := a.f.Release(); return err }

type c19RWA struct{ l *c19cl.RWLock }

func (a c19RWA) acquire(m string) error {
	if m == "r" {
		_, err := a.l.RLock()
		return err
	}
	_, err := a.l.Lock()
	return err
}
func (a c19RWA) release(m string) error {
	if m == "r" {
		_, err := a.l.RUnlock()
		return err
	}
	_, err := a.l.Unlock()
	return err
}

type c19PrioA struct{ l *c19cl.PriorityLock }

func (a c19PrioA) acquire(string) error { _, err := a.l.Lock(); return err }
func (a c19PrioA) release(string) error { _, err := a.l.Unlock(); return err }

func c19NewPrim(c *c19Case, sc *c19Script, db *c19cl.Database, key [16]byte) c19Prim {
	switch c.Prim {
	case "lock":
		return c19LockA{db.Lock(key, c19Timeout, c.expried())}
	case "rlock":
		if sc.Role == "lock" {
			return c19LockA{db.Lock(key, c19Timeout, c.expried())}
		}
		return c19RLockA{db.RLock(key, c19Timeout, c.expried())}
	case "sem":
		return c19SemA{db.Semaphore(key, c19Timeout, c.expried(), uint16(c.N))}
	case "flow":
		return c19FlowA{db.MaxConcurrentFlow(key, uint16(c.N), c19Timeout, c.expried())}
	case "rwlock":
		return c19RWA{db.RWLock(key, c19Timeout, c.expried())}
	case "prio":
		return c19PrioA{db.PriorityLock(key, uint8(sc.Prio), c19Timeout, c.expried())}
	}
	return nil
}

func c19Transport(err error) bool {
	if err == nil {
		return false
	}
	if le, ok := err.(*c19cl.LockError); ok {
		return le.Result == 0x80 // no server answer: not connected / connection replaced while waiting / client-side timeout
	}
	return true
}

// c19RunSteps is the body of one goroutine for the mutex-like primitives.
// reconnect mode (Lock only): the server drops every connection once mid-run. A request that got no server answer is
// ambiguous (it may still be queued or even granted at the server), so the goroutine first removes it with CancelWait
// (which cancels a queued request and unlocks a granted one) and then retries; releases are retried until answered.
func c19RunSteps(r *c19Rec, p c19Prim, sc *c19Script, reconnect bool, gate func(si int, ok bool)) {
	for si, st := range sc.Steps {
		c19Delay(st.Pause)
		if st.PauseMs > 0 {
			time.Sleep(time.Duration(st.PauseMs) * time.Millisecond)
		}
		var err error
		for attempt := 0; ; attempt++ {
			r.rec(si, "call", st.Mode, nil)
			err = p.acquire(st.Mode)
			r.rec(si, "ret", st.Mode, err) // stamped after the acquire returned
			if !reconnect || !c19Transport(err) || attempt >= 400 {
				break
			}
			la := p.(c19LockA)
			for try := 0; try < 400; try++ {
				_, cerr := la.l.CancelWait()
				if !c19Transport(cerr) {
					break
				}
				time.Sleep(20 * time.Millisecond)
			}
		}
		if gate != nil {
			gate(si, err == nil) // harness-level sequencing only (colliding-keys cases); no stamp is taken here
		}
		if err != nil {
			continue
		}
		extra := 0
		for j := 0; j < st.Reent; j++ {
			r.rec(si, "recall", st.Mode, nil)
			err = p.acquire(st.Mode)
			r.rec(si, "reret", st.Mode, err)
			if err == nil {
				extra++
			}
		}
		c19Delay(st.Hold)
		if st.HoldMs > 0 {
			time.Sleep(time.Duration(st.HoldMs) * time.Millisecond)
		}
		for j := 0; j < extra; j++ {
			r.rec(si, "rerel", st.Mode, nil)
			err = p.release(st.Mode)
			r.rec(si, "rerelret", st.Mode, err)
			c19Delay(st.Hold)
		}
		r.rec(si, "rel", st.Mode, nil) // stamped BEFORE the (first) unlock is issued
		err = p.release(st.Mode)
		mode := st.Mode
		for try := 0; reconnect && c19Transport(err) && try < 400; try++ {
			mode = "retried" // the lost request may have been executed: a later UNLOCK_ERROR answer is then legitimate
			time.Sleep(20 * time.Millisecond)
			err = p.release(st.Mode)
		}
		r.rec(si, "relret", mode, err)
	}
}

type c19Run struct {
	evs      []c19Ev
	settled  bool
	setupErr error
}

func c19OpenClients(port uint, n int) ([]*c19cl.Client, error) {
	var out []*c19cl.Client
	for i := 0; i < n; i++ {
		cl := c19cl.NewClient("127.0.0.1", port)
		if err := cl.Open(); err != nil {
			c19CloseClients(out)
			return nil, err
		}
		out = append(out, cl)
	}
	return out, nil
}

func c19CloseClients(cls []*c19cl.Client) {
	var wg sync.WaitGroup
	for _, cl := range cls {
		wg.Add(1)
		go func(cl *c19cl.Client) { defer wg.Done(); _ = cl.Close() }(cl)
	}
	wg.Wait()
}

// c19Execute runs the scripts of one case against the shared server and returns the merged history.
func c19Execute(c *c19Case) (run c19Run) {
	port, err := c19Server()
	if err != nil {
		run.setupErr = fmt.Errorf("server start: %v", err)
		return
	}
	if c.Conns < 1 || len(c.Scripts) == 0 {
		run.setupErr = fmt.Errorf("malformed case")
		return
	}
	nconn := c.Conns
	if c.Prim == "prio" {
		nconn++ // control connection used to observe the server's wait queue (LIST_WAIT)
	}
	clients, err := c19OpenClients(port, nconn)
	if err != nil {
		run.setupErr = fmt.Errorf("client open: %v", err)
		return
	}
	defer c19CloseClients(clients)
	key := c19FreshKey()
	var keyA [16]byte
	if c.Collide != nil {
		keyA, key = c19CollidingKeys(c.Collide.W0, c.Collide.W1)
	}
	var clock int64
	t0 := time.Now()
	recs := make([]*c19Rec, len(c.Scripts))
	for i := range recs {
		recs[i] = &c19Rec{clock: &clock, g: i, t0: t0}
	}
	dbOf := func(sc *c19Script) *c19cl.Database { return clients[sc.Conn%c.Conns].SelectDB(0) }

	var wg sync.WaitGroup
	ctl := &c19Rec{clock: &clock, g: -1, t0: t0}
	switch {
	case c.Collide != nil && c.Prim != "event" && c.Prim != "prio":
		col := c.Collide
		early := col.Early
		if early < 1 || early >= len(c.Scripts) {
			run.setupErr = fmt.Errorf("malformed colliding-keys case")
			return
		}
		la := clients[0].SelectDB(0).Lock(keyA, 5, c19Expried)
		if _, lerr := la.Lock(); lerr != nil { // A first: it takes the slot of the fast key table
			run.setupErr = fmt.Errorf("lock of the colliding key A failed: %v", lerr)
			return
		}
		var acquired sync.WaitGroup
		gateOpen, start := make(chan struct{}), make(chan struct{})
		for i := range c.Scripts {
			wg.Add(1)
			if i < early {
				acquired.Add(1)
			}
			go func(i int) {
				defer wg.Done()
				sc := &c.Scripts[i]
				p := c19NewPrim(c, sc, dbOf(sc), key)
				if i < early {
					signalled := false
					c19RunSteps(recs[i], p, sc, false, func(si int, ok bool) {
						if !signalled {
							signalled = true
							acquired.Done()
							if ok {
								<-gateOpen
							}
						}
					})
					if !signalled {
						acquired.Done()
					}
					return
				}
				<-start
				c19RunSteps(recs[i], p, sc, false, nil)
			}(i)
		}
		acquired.Wait() // B is held by the early holders; its manager lives in the overflow map of the slot
		ctl.rec(0, "unlockA", "", nil)
		_, _ = la.Unlock()
		time.Sleep(time.Duration(col.PauseMs) * time.Millisecond)
		// settled (white-box, not a verdict): the sweep has removed A's manager, i.e. the slot is free again
		for try := 0; try < 120; try++ {
			db := c19Srv.srv.slock.dbs[0]
			if db != nil && db.GetLockManager(&protocol.LockCommand{LockKey: keyA}) == nil {
				run.settled = true
				break
			}
			time.Sleep(25 * time.Millisecond)
		}
		ctl.rec(0, "contend", "", nil)
		close(start)
		time.Sleep(time.Duration(col.GateMs) * time.Millisecond)
		close(gateOpen)
		wg.Wait()
	case c.Prim == "event":
		run.settled = true
		setter := &c.Scripts[0]
		ev := dbOf(setter).Event(key, c19Timeout, c19Expried, c.DefaultSet)
		r0 := recs[0]
		if c.DefaultSet {
			// default-set events start out set: clear it first so that waiters have something to wait for
			r0.rec(0, "clearcall", "", nil)
			_, err := ev.Clear()
			r0.rec(0, "clearret", "", err)
		}
		start := make(chan struct{})
		cleared := make([]chan struct{}, len(setter.Steps)) // cleared[k] is closed after the k-th mid-run Clear returned
		for k := range cleared {
			cleared[k] = make(chan struct{})
		}
		for i := 1; i < len(c.Scripts); i++ {
			wg.Add(1)
			go func(i int) {
				defer wg.Done()
				sc := &c.Scripts[i]
				wev := dbOf(sc).Event(key, c19Timeout, c19Expried, c.DefaultSet)
				<-start
				for si, st := range sc.Steps {
					if c.Burst && si >= 1 && si-1 < len(setter.Steps)-1 {
						<-cleared[si-1] // harness-level synchronisation only; the Wait below is still stamped before it is issued
					}
					c19Delay(st.Pause)
					recs[i].rec(si, "waitcall", "", nil)
					_, err := wev.Wait(c19Timeout)
					recs[i].rec(si, "waitret", "", err)
				}
			}(i)
		}
		close(start)
		for si, st := range setter.Steps {
			c19Delay(st.Pause)
			r0.rec(si, "setcall", "", nil) // stamped BEFORE Set is issued
			_, err := ev.Set()
			r0.rec(si, "setret", "", err)
			if si == len(setter.Steps)-1 {
				break // the event stays set so that every waiter can finish
			}
			c19Delay(st.Hold)
			r0.rec(si, "clearcall", "", nil)
			_, err = ev.Clear()
			r0.rec(si, "clearret", "", err) // stamped AFTER Clear returned
			close(cleared[si])
		}
		wg.Wait()
		if !c.DefaultSet {
			_, _ = ev.Clear() // default-clear events hold a server lock while set: drop it
		}
	case c.Prim == "prio":
		holder := &c.Scripts[0]
		hp := c19NewPrim(c, holder, dbOf(holder), key)
		r0 := recs[0]
		r0.rec(0, "call", "", nil)
		err := hp.acquire("")
		r0.rec(0, "ret", "", err)
		if err != nil {
			break
		}
		for i := 1; i < len(c.Scripts); i++ {
			wg.Add(1)
			go func(i int) {
				defer wg.Done()
				sc := &c.Scripts[i]
				c19RunSteps(recs[i], c19NewPrim(c, sc, dbOf(sc), key), sc, false, nil)
			}(i)
		}
		// settle: wait until the server has queued every waiter (observed through the client API, LIST_WAIT)
		ctlDB := clients[nconn-1].SelectDB(0)
		want := len(c.Scripts) - 1
		for try := 0; try < 4000; try++ {
			resp, lerr := ctlDB.ListLockWaits(key, 5)
			if lerr == nil && len(resp.Locks) >= want {
				run.settled = true
				break
			}
			time.Sleep(250 * time.Microsecond)
		}
		if len(holder.Steps) > 0 {
			c19Delay(holder.Steps[0].Hold)
		}
		r0.rec(0, "rel", "", nil)
		err = hp.release("")
		r0.rec(0, "relret", "", err)
		wg.Wait()
	default:
		run.settled = true
		start := make(chan struct{})
		for i := range c.Scripts {
			wg.Add(1)
			go func(i int) {
				defer wg.Done()
				sc := &c.Scripts[i]
				p := c19NewPrim(c, sc, dbOf(sc), key)
				<-start
				c19RunSteps(recs[i], p, sc, c.Reconnect > 0 && c.Prim == "lock", nil)
			}(i)
		}
		close(start)
		if c.Reconnect > 0 && c.Prim == "lock" {
			for i := 0; i < c.Reconnect; i++ {
				time.Sleep(300 * time.Microsecond)
			}
			ctl.rec(0, "drop", "", nil)
			_ = c19Srv.srv.CloseStreams() // server side: close every client connection; the clients reconnect by themselves (3 s back-off)
		}
		wg.Wait()
	}
	run.evs = append(run.evs, ctl.evs...)
	for _, r := range recs {
		run.evs = append(run.evs, r.evs...)
	}
	sort.Slice(run.evs, func(i, j int) bool { return run.evs[i].T < run.evs[j].T })
	return
}

// ---------------------------------------------------------------------------------------------
// oracle (pure function of case + history)

const c19ResultTimeout = 3 // protocol.RESULT_TIMEOUT

const c19LateSlackNs = int64(300 * time.Millisecond)

const c19KeyEventWaitBeforeSet = "C19:event-wait-before-set"

// Known finding: while a key's manager lives in the overflow map of the server's key table (hold filed in the long expiry
// queue, or a second key in the same slot), an UNLOCK whose look-up coincides with another connection's LOCK look-up of
// that slot (GetOrNewLockManager holds the slot in its transient state 1 while it searches the map) is answered
// UNLOCK_ERROR: LockDB.GetLockManager waits for the slot, finds it empty and concludes from count <= 1 that the key has
// no manager. The hold then stays until it expires.
const c19KeyReleaseOverflow = "C19:release-failed:overflow-map"

func (c *c19Case) overflowMap() bool { return c.ExpFlag&0x0100 != 0 || c.Collide != nil }

func c19Check(c *c19Case, evs []c19Ev, settled bool) (info c19Info, viol *c19Violation) {
	fail := func(key, format string, a ...interface{}) {
		if viol == nil {
			viol = &c19Violation{Key: key, Msg: fmt.Sprintf(format, a...)}
		}
	}
	noteErr := func(e c19Ev) {
		if e.R == 0x80 || e.R == -1 {
			info.transportErrs++
		}
	}
	if c.Prim == "event" {
		// Definitely-clear intervals: (Clear returned, next Set called). A default-clear event is clear from the start.
		// A successful Wait whose whole call lies inside one such interval returned without the event being set.
		type iv struct{ from, to int64 }
		var clear []iv
		open := int64(-1)
		if !c.DefaultSet {
			open = 0
		}
		for _, e := range evs {
			switch e.K {
			case "clearret":
				if e.R == 0 {
					open = e.T
				} else {
					noteErr(e)
					fail("C19:event-op-failed", "Event.Clear by the only setter failed: %v", e)
				}
			case "setcall":
				if open >= 0 {
					clear = append(clear, iv{open, e.T})
					open = -1
				}
			case "setret":
				if e.R != 0 {
					noteErr(e)
					fail("C19:event-op-failed", "Event.Set by the only setter failed: %v", e)
				}
			}
		}
		if open >= 0 {
			clear = append(clear, iv{open, 1 << 62})
		}
		calls := map[[2]int]int64{}
		for _, e := range evs {
			switch e.K {
			case "waitcall":
				calls[[2]int{e.G, e.S}] = e.T
			case "waitret":
				if e.R != 0 {
					info.acqFail++
					noteErr(e)
					continue
				}
				info.evWaitsOK++
				wc := calls[[2]int{e.G, e.S}]
				blocked := false
				for _, d := range clear {
					if d.from < wc && e.T < d.to {
						fail(c19KeyEventWaitBeforeSet, "Event.Wait of g=%d s=%d (called t=%d, returned ok t=%d) lies inside the "+
							"definitely-clear interval (clear returned t=%d, next Set called t=%d)", e.G, e.S, wc, e.T, d.from, d.to)
					}
					if d.from < wc && wc < d.to {
						blocked = true
					}
				}
				if blocked {
					info.evWaitsBlocked++
				}
			}
		}
		info.nontrivial = info.evWaitsBlocked >= 1
		return
	}

	bound := 1
	if c.Prim == "sem" || c.Prim == "flow" {
		bound = c.N
	}
	info.bound = bound
	type gs = [2]int
	forced := map[gs]bool{}
	inReent := map[gs]bool{}
	holders := map[gs]string{} // definitely holding now -> mode
	readers, writers := 0, 0
	curReent := func() bool { // is the current (single) holder inside a step that re-enters?
		for h := range holders {
			if h[0] < len(c.Scripts) && h[1] < len(c.Scripts[h[0]].Steps) && c.Scripts[h[0]].Steps[h[1]].Reent > 0 {
				return true
			}
		}
		return false
	}
	describe := func() string {
		var hs []string
		for h, m := range holders {
			hs = append(hs, fmt.Sprintf("g=%d/s=%d%s", h[0], h[1], map[bool]string{true: "/" + m, false: ""}[m != ""]))
		}
		sort.Strings(hs)
		return strings.Join(hs, " ")
	}
	var order []c19Ev // successful acquires in clock order (priority check)
	// Lateness rule (the only use of wall time, a bound with slack): a hold is promised `expiry` seconds from its grant.
	// The grant cannot be earlier than the acquire call and, when the primitive was definitely full at the call, not
	// earlier than the first release stamped after it (stamps precede the unlock). A release stamped later than that
	// lower bound + expiry - slack may be racing the server's legitimate expiry: the whole case is then inconclusive.
	type c19Acq struct {
		callW, lbW, retW, relW int64
		forced, ok             bool
	}
	acqs := map[gs]*c19Acq{}
	var allAcqs []*c19Acq
	pending := map[gs]bool{} // forced attempts whose grant lower bound still waits for the next release stamp
	expiryNs := int64(c.expiry()) * int64(time.Second)
	for _, e := range evs {
		id := gs{e.G, e.S}
		switch e.K {
		case "drop":
			info.dropped = true
		case "call":
			delete(forced, id) // a retried acquire (reconnect mode) is judged by its last call
			delete(inReent, id)
			delete(pending, id)
			a := &c19Acq{callW: e.W, lbW: e.W}
			acqs[id] = a
			allAcqs = append(allAcqs, a)
			full := false
			if c.Prim == "rwlock" {
				full = (e.M == "w" && readers+writers > 0) || (e.M == "r" && writers > 0)
			} else {
				full = len(holders) >= bound
			}
			if full {
				forced[id] = true
				pending[id] = true
				a.forced = true
				if curReent() {
					inReent[id] = true
				}
			}
		case "ret":
			delete(pending, id)
			if a := acqs[id]; a != nil {
				a.retW, a.ok = e.W, e.R == 0
				if a.ok && a.forced && (a.lbW-a.callW)/1e6 > info.maxWaitMs {
					info.maxWaitMs = (a.lbW - a.callW) / 1e6
				}
			}
			if e.R != 0 {
				info.acqFail++
				if e.R == c19ResultTimeout {
					info.acqTimeout++
				}
				noteErr(e)
				continue
			}
			info.acquires++
			if info.dropped {
				info.acqAfterDrop++
			}
			if forced[id] {
				info.forcedWaits++
			}
			if inReent[id] {
				info.waitInReent++
			}
			holders[id] = e.M
			order = append(order, e)
			if c.Prim == "rwlock" {
				if e.M == "w" {
					writers++
					info.sawWriter = true
				} else {
					readers++
					info.sawReader = true
					if readers > info.readersMax {
						info.readersMax = readers
					}
				}
				if writers > 1 || (writers >= 1 && readers >= 1) {
					fail("C19:rwlock-writer-not-exclusive", "at t=%d g=%d s=%d acquired mode=%s while definitely held by: %s "+
						"(writers=%d readers=%d)", e.T, e.G, e.S, e.M, describe(), writers, readers)
				}
			} else if len(holders) > bound {
				fail("C19:"+c.Prim+"-bound-exceeded", "at t=%d g=%d s=%d acquired although %d > bound %d callers definitely hold it: %s",
					e.T, e.G, e.S, len(holders), bound, describe())
			}
			if len(holders) > info.maxHeld {
				info.maxHeld = len(holders)
			}
		case "reret":
			if e.R != 0 {
				noteErr(e)
				fail("C19:rlock-reentry-refused", "re-entrant Lock() by the current holder failed: %v", e)
			} else {
				info.reentOK++
			}
		case "rel":
			for pid := range pending {
				if pid != id {
					acqs[pid].lbW = e.W
					delete(pending, pid)
				}
			}
			if a := acqs[id]; a != nil {
				a.relW = e.W
				if _, held := holders[id]; held && e.W > a.lbW+expiryNs-c19LateSlackNs {
					info.late = true
				}
			}
			if m, ok := holders[id]; ok {
				delete(holders, id)
				if c.Prim == "rwlock" {
					if m == "w" {
						writers--
					} else {
						readers--
					}
				}
			}
		case "relret", "rerelret":
			if e.R != 0 {
				noteErr(e)
				if e.M != "retried" && c.overflowMap() {
					fail(c19KeyReleaseOverflow, "release of a definitely-held %s failed (expiry %ds not reached; its key manager lives in "+
						"the overflow map of the server's key table): %v", c.Prim, c.expiry(), e)
				} else if e.M != "retried" {
					fail("C19:release-failed", "release of a definitely-held %s failed (expiry %ds not reached): %v", c.Prim, c.expiry(), e)
				}
			}
		}
	}
	switch c.Prim {
	case "prio":
		info.prioSettled = settled
		seen := map[int]bool{}
		for i := 1; i < len(c.Scripts); i++ {
			seen[c.Scripts[i].Prio] = true
		}
		info.prioDistinct = len(seen)
		// order[0] is the initial holder; everybody else was queued at the server before the holder released (settled),
		// and the lock is exclusive, so acquire-return stamps are totally ordered like the server's hand-overs.
		if settled {
			last := 256
			for _, e := range order {
				if e.G == 0 {
					continue
				}
				info.prioAcquired++
				p := c.Scripts[e.G].Prio
				if p > last {
					fail("C19:prio-handover-order", "hand-over went to priority %d (g=%d, t=%d) after a waiter with lower priority %d "+
						"had been served, although all %d waiters were queued before the first release", p, e.G, e.T, last, len(c.Scripts)-1)
				}
				last = p
			}
		}
		info.nontrivial = settled && info.prioDistinct >= 2 && info.prioAcquired == len(c.Scripts)-1 && info.maxHeld == 1
	case "rlock":
		info.nontrivial = info.maxHeld == bound && info.forcedWaits >= 1 && info.waitInReent >= 1 && info.reentOK >= 1
	case "rwlock":
		info.nontrivial = info.forcedWaits >= 1 && info.sawWriter && info.sawReader
	default:
		info.nontrivial = info.maxHeld == bound && info.forcedWaits >= 1
		if c.Reconnect > 0 {
			info.nontrivial = info.nontrivial && info.dropped && info.transportErrs >= 1 && info.acqAfterDrop >= 1
		}
	}
	// waited-hold exposure: a hold granted after a forced wait of >= 1 s that was kept beyond (its REQUEST time + expiry + 1 s)
	// while another acquire was outstanding at that instant - a server that times the hold from the request would admit it.
	for _, h := range allAcqs {
		if !h.ok || !h.forced || h.relW == 0 || h.lbW-h.callW < int64(time.Second) {
			continue
		}
		at := h.callW + expiryNs + int64(time.Second)
		if h.relW <= at {
			continue
		}
		for _, o := range allAcqs {
			if o != h && o.callW < at && (o.retW == 0 || o.retW > at) {
				info.waitedExposed = true
			}
		}
	}
	if c.Collide != nil {
		info.collideSettled = settled
		info.nontrivial = info.nontrivial && settled
	}
	if c.Expiry > 0 && c.Expiry <= 5 {
		info.nontrivial = info.nontrivial && info.waitedExposed
	}
	if info.late {
		viol, info.nontrivial = nil, false // no verdict of any kind for a case that ran late
	}
	return
}

func c19Classes(c *c19Case, info *c19Info, settled bool) []string {
	cl := []string{"prim:" + c.Prim}
	add := func(cond bool, s string) {
		if cond {
			cl = append(cl, s)
		}
	}
	add(info.nontrivial, "nontrivial:"+c.Prim)
	add(c.Conns == 1 && len(c.Scripts) >= 8, "pipelined_one_conn_8plus_goroutines")
	add(c.Conns == 1, "conns:1")
	add(c.Conns >= 2 && c.Conns <= 4, "conns:2-4")
	add(c.Conns >= 5, "conns:5-8")
	add(len(c.Scripts) <= 4, "goroutines:2-4")
	add(len(c.Scripts) > 4 && len(c.Scripts) <= 12, "goroutines:5-12")
	add(len(c.Scripts) > 12, "goroutines:13-64")
	add(info.forcedWaits > 0, "had_forced_wait")
	add(c.Prim != "rwlock" && info.bound > 0 && info.maxHeld == info.bound, "bound_reached")
	add(info.acqAfterDrop > 0, "acquired_after_reconnect")
	add(info.acqFail > 0, "acquire_failed")
	add(info.acqTimeout > 0, "acquire_timeout_result")
	add(info.transportErrs > 0, "transport_error")
	add(c.Prim == "rwlock" && info.readersMax >= 2, "rw_2plus_concurrent_readers")
	add(c.Prim == "prio" && !settled, "prio_unsettled")
	add(c.Prim == "event" && c.DefaultSet, "event_default_set")
	add(c.Prim == "event" && !c.DefaultSet, "event_default_clear")
	add(c.Reconnect > 0, "reconnect")
	add(c.Burst, "event_burst_after_clear")
	add(info.late, "late_hold_inconclusive")
	add(c.ExpFlag&0x0100 != 0, "zero_aof_time_flag_long_expiry_queue")
	add(c.Expiry > 0, fmt.Sprintf("expiry:%ds", c.Expiry))
	add(c.Collide != nil, "colliding_keys")
	add(c.Collide != nil && !settled, "colliding_keys_unsettled")
	add(info.waitedExposed, "waited_hold_exposed")
	add(info.maxWaitMs >= 1000, "forced_wait_1s_plus")
	if (c.Prim == "sem" || c.Prim == "flow") && c.N > 0 {
		cl = append(cl, fmt.Sprintf("n:%d", c.N))
	}
	return cl
}

// ---------------------------------------------------------------------------------------------
// watchdog + entry point shared by properties and replay

var c19WatchdogSeconds = vEnvInt("VERIF_C19_WATCHDOG_S", 30)

type c19Outcome struct {
	info    c19Info
	settled bool
	viol    *c19Violation
	hist    string
}

func c19RunCase(c *c19Case) c19Outcome {
	done := make(chan c19Outcome, 1)
	go func() {
		var out c19Outcome
		defer func() {
			if r := recover(); r != nil {
				out.viol = &c19Violation{Key: "C19:harness-panic", Msg: fmt.Sprint(r)}
			}
			done <- out
		}()
		run := c19Execute(c)
		if run.setupErr != nil {
			b, _ := json.Marshal(c)
			fmt.Printf("VERIF-INCONCLUSIVE C19 set-up failed: %v case=%s\n", run.setupErr, b)
			vFlush()
			os.Exit(3)
		}
		out.settled = run.settled
		out.info, out.viol = c19Check(c, run.evs, run.settled)
		if out.viol != nil {
			out.hist = c19HistString(run.evs)
		}
		if os.Getenv("VERIF_C19_TRACE") != "" {
			b, _ := json.Marshal(c)
			fmt.Printf("C19-TRACE case=%s nontrivial=%v\n%s", b, out.info.nontrivial, c19HistString(run.evs))
		}
	}()
	select {
	case out := <-done:
		return out
	case <-time.After(time.Duration(c19WatchdogSeconds) * time.Second):
		b, _ := json.Marshal(c)
		fmt.Printf("VERIF-INCONCLUSIVE C19 watchdog: case still running after %ds (not a verdict) case=%s\n", c19WatchdogSeconds, b)
		vFlush()
		os.Exit(3)
	}
	return c19Outcome{}
}

// ---------------------------------------------------------------------------------------------
// generators

func c19GenShape(t *rapid.T) (goroutines, conns int) {
	if rapid.IntRange(0, 9).Draw(t, "bigcrowd") == 0 {
		goroutines = rapid.IntRange(13, 64).Draw(t, "goroutines")
	} else {
		goroutines = rapid.IntRange(2, 12).Draw(t, "goroutines")
	}
	conns = rapid.IntRange(1, 8).Draw(t, "conns")
	return
}

func c19GenDelay(t *rapid.T, label string, crowd int) int {
	max := 5
	if crowd > 12 {
		max = 3
	}
	return rapid.IntRange(0, max).Draw(t, label)
}

func c19GenCase(t *rapid.T, prim string, st *vStat) *c19Case {
	g, conns := c19GenShape(t)
	c := &c19Case{Prim: prim, Conns: conns}
	if prim != "event" && rapid.IntRange(0, 2).Draw(t, "zero_aof_time") == 0 {
		// the hold is filed in the server's long expiry queue at once (its key manager moves to the overflow map);
		// 6..8 s are far beyond the duration of a case and the lateness rule guards the rest
		c.ExpFlag = 0x0100
		c.Expiry = rapid.IntRange(6, 8).Draw(t, "expiry")
		if conns > 1 && vIsKnown(c19KeyReleaseOverflow) {
			// excluded by construction: one connection is served by one server goroutine, so no two look-ups coincide
			conns, c.Conns = 1, 1
			st.Exclude("overflow-map key used from more than one connection (known finding " + c19KeyReleaseOverflow + ")")
		}
	}
	if prim == "sem" || prim == "flow" {
		c.N = rapid.IntRange(1, 5).Draw(t, "n")
	}
	maxSteps := 3
	if g > 12 {
		maxSteps = 2
	}
	switch prim {
	case "event":
		c.DefaultSet = rapid.Bool().Draw(t, "default_set")
		rounds := rapid.IntRange(1, 3).Draw(t, "rounds")
		if rapid.IntRange(0, 3).Draw(t, "toggler") == 0 {
			rounds = rapid.IntRange(3, 6).Draw(t, "rounds")
			if g <= 12 {
				maxSteps = 4
			}
		}
		c.Burst = rounds > 1 && rapid.Bool().Draw(t, "burst")
		if !c.DefaultSet && rounds > 1 && vIsKnown(c19KeyEventWaitBeforeSet) {
			// known finding: a default-clear Wait that reaches the server right after a Clear() can be granted although the
			// event is clear. Excluded by construction: a default-clear event is set exactly once and never cleared again.
			rounds, c.Burst = 1, false
			st.Exclude("default-clear event cleared again after Set (known finding " + c19KeyEventWaitBeforeSet + ")")
		}
		setter := c19Script{Conn: rapid.IntRange(0, conns-1).Draw(t, "conn"), Role: "setter"}
		for i := 0; i < rounds; i++ {
			setter.Steps = append(setter.Steps, c19Step{Pause: rapid.IntRange(2, 5).Draw(t, "pause"), Hold: rapid.IntRange(0, 4).Draw(t, "hold")})
		}
		c.Scripts = append(c.Scripts, setter)
		for i := 1; i < g; i++ {
			sc := c19Script{Conn: rapid.IntRange(0, conns-1).Draw(t, "conn"), Role: "waiter"}
			n := rapid.IntRange(1, maxSteps).Draw(t, "waits")
			for j := 0; j < n; j++ {
				sc.Steps = append(sc.Steps, c19Step{Pause: c19GenDelay(t, "pause", g)})
			}
			c.Scripts = append(c.Scripts, sc)
		}
	case "prio":
		if g > 24 {
			g = 24
		}
		if g < 3 {
			g = 3
		}
		c.Scripts = append(c.Scripts, c19Script{Conn: rapid.IntRange(0, conns-1).Draw(t, "conn"), Role: "holder",
			Prio: rapid.IntRange(0, 255).Draw(t, "prio"), Steps: []c19Step{{Hold: c19GenDelay(t, "hold", g)}}})
		for i := 1; i < g; i++ {
			var p int
			if rapid.IntRange(0, 5).Draw(t, "wide") == 0 {
				p = rapid.IntRange(0, 255).Draw(t, "prio")
			} else {
				p = rapid.IntRange(0, 4).Draw(t, "prio")
			}
			c.Scripts = append(c.Scripts, c19Script{Conn: rapid.IntRange(0, conns-1).Draw(t, "conn"), Role: "waiter", Prio: p,
				Steps: []c19Step{{Pause: c19GenDelay(t, "pause", g), Hold: c19GenDelay(t, "hold", g)}}})
		}
	default:
		for i := 0; i < g; i++ {
			sc := c19Script{Conn: rapid.IntRange(0, conns-1).Draw(t, "conn")}
			if prim == "rlock" {
				sc.Role = "rlock"
				if rapid.IntRange(0, 3).Draw(t, "plain") == 0 {
					sc.Role = "lock"
				}
			}
			n := rapid.IntRange(1, maxSteps).Draw(t, "steps")
			for j := 0; j < n; j++ {
				st := c19Step{Pause: c19GenDelay(t, "pause", g), Hold: c19GenDelay(t, "hold", g)}
				if prim == "rwlock" {
					st.Mode = "r"
					if rapid.IntRange(0, 2).Draw(t, "writer") == 0 {
						st.Mode = "w"
					}
				}
				if prim == "rlock" && sc.Role == "rlock" {
					st.Reent = rapid.IntRange(0, 3).Draw(t, "reent")
				}
				sc.Steps = append(sc.Steps, st)
			}
			c.Scripts = append(c.Scripts, sc)
		}
	}
	return c
}

// c19GenCollideCase: two keys in one slot of the fast key table (see c19Collide). bound-many early holders take B, the
// other scripts contend for it >= 1.2 s after A was unlocked.
func c19GenCollideCase(t *rapid.T, st *vStat) *c19Case {
	prim := rapid.SampledFrom([]string{"lock", "rlock", "sem", "flow", "rwlock"}).Draw(t, "prim")
	c := &c19Case{Prim: prim, Conns: rapid.IntRange(1, 6).Draw(t, "conns")}
	if c.Conns > 1 && vIsKnown(c19KeyReleaseOverflow) {
		c.Conns = 1
		st.Exclude("overflow-map key used from more than one connection (known finding " + c19KeyReleaseOverflow + ")")
	}
	early := 1
	if prim == "sem" || prim == "flow" {
		c.N = rapid.IntRange(1, 4).Draw(t, "n")
		early = c.N
	}
	earlyMode := ""
	if prim == "rwlock" {
		earlyMode = "w"
		if rapid.Bool().Draw(t, "early_readers") {
			earlyMode, early = "r", rapid.IntRange(1, 3).Draw(t, "early")
		}
	}
	c.Collide = &c19Collide{W0: rapid.Uint32().Draw(t, "w0"), W1: rapid.Uint32().Draw(t, "w1"), Early: early,
		PauseMs: rapid.IntRange(1200, 1500).Draw(t, "pause_ms"), GateMs: rapid.IntRange(5, 40).Draw(t, "gate_ms")}
	contenders := rapid.IntRange(1, 6).Draw(t, "contenders")
	for i := 0; i < early+contenders; i++ {
		sc := c19Script{Conn: rapid.IntRange(0, c.Conns-1).Draw(t, "conn")}
		st := c19Step{Pause: rapid.IntRange(0, 4).Draw(t, "pause"), Hold: rapid.IntRange(0, 4).Draw(t, "hold")}
		switch prim {
		case "rlock":
			sc.Role = "rlock"
			if rapid.IntRange(0, 2).Draw(t, "plain") == 0 {
				sc.Role = "lock"
			} else {
				st.Reent = rapid.IntRange(0, 2).Draw(t, "reent")
			}
		case "rwlock":
			if i < early {
				st.Mode = earlyMode
			} else if earlyMode == "r" || rapid.Bool().Draw(t, "writer") {
				st.Mode = "w" // readers hold it: only a writer has to be refused
			} else {
				st.Mode = "r"
			}
		}
		sc.Steps = []c19Step{st}
		if i >= early && rapid.Bool().Draw(t, "again") {
			sc.Steps = append(sc.Steps, c19Step{Mode: st.Mode, Pause: rapid.IntRange(0, 3).Draw(t, "pause"), Hold: rapid.IntRange(0, 3).Draw(t, "hold")})
		}
		c.Scripts = append(c.Scripts, sc)
	}
	return c
}

// c19GenWaitedCase: "waited acquisition" timing class. bound-many first holders keep the primitive for wait = expiry-0.7 s,
// bound-many waiters ask 0.15..0.3 s after the start, are granted after ~expiry-1 s of waiting and then stay inside the
// critical section until 0.6..0.7 s before the expiry they were promised at the grant; contenders ask while the waiters hold.
// A server that counts the hold from the REQUEST ends it about 1..2 s after the grant and admits a contender.
func c19GenWaitedCase(t *rapid.T) *c19Case {
	prim := rapid.SampledFrom([]string{"lock", "lock", "rlock", "sem", "flow", "rwlock"}).Draw(t, "prim")
	c := &c19Case{Prim: prim, Conns: rapid.IntRange(1, 4).Draw(t, "conns")}
	c.Expiry = rapid.SampledFrom([]int{3, 3, 3, 4, 4, 5}).Draw(t, "expiry")
	bound := 1
	if prim == "sem" || prim == "flow" {
		c.N = rapid.IntRange(1, 3).Draw(t, "n")
		bound = c.N
	}
	firstHold := c.Expiry*1000 - 700
	role := func(i int) (string, int) {
		if prim != "rlock" {
			return "", 0
		}
		if rapid.IntRange(0, 2).Draw(t, "plain") == 0 {
			return "lock", 0
		}
		return "rlock", rapid.IntRange(0, 2).Draw(t, "reent")
	}
	for i := 0; i < bound; i++ { // first holders
		r, re := role(i)
		m := ""
		if prim == "rwlock" {
			m = "w"
		}
		c.Scripts = append(c.Scripts, c19Script{Conn: rapid.IntRange(0, c.Conns-1).Draw(t, "conn"), Role: r,
			Steps: []c19Step{{Mode: m, Reent: re, HoldMs: firstHold}}})
	}
	waiters := bound
	waiterMode := ""
	if prim == "rwlock" {
		waiterMode = "w"
		if rapid.Bool().Draw(t, "waiting_readers") {
			waiterMode, waiters = "r", rapid.IntRange(1, 3).Draw(t, "waiters")
		}
	}
	for i := 0; i < waiters; i++ {
		r, re := role(i)
		c.Scripts = append(c.Scripts, c19Script{Conn: rapid.IntRange(0, c.Conns-1).Draw(t, "conn"), Role: r,
			Steps: []c19Step{{Mode: waiterMode, Reent: re, PauseMs: rapid.IntRange(150, 300).Draw(t, "pause_ms"),
				HoldMs: c.Expiry*1000 - rapid.IntRange(600, 700).Draw(t, "before_expiry_ms")}}})
	}
	contenders := rapid.IntRange(1, 3).Draw(t, "contenders")
	for i := 0; i < contenders; i++ {
		r, _ := role(i)
		m := ""
		if prim == "rwlock" {
			m = "w"
			if waiterMode == "w" && rapid.Bool().Draw(t, "reader") {
				m = "r"
			}
		}
		c.Scripts = append(c.Scripts, c19Script{Conn: rapid.IntRange(0, c.Conns-1).Draw(t, "conn"), Role: r,
			Steps: []c19Step{{Mode: m, PauseMs: rapid.IntRange(400, firstHold+600).Draw(t, "pause_ms"), HoldMs: rapid.IntRange(0, 30).Draw(t, "hold_ms")}}})
	}
	return c
}

// c19GenReconnectCase: Lock only (the only primitive whose API can cancel a request orphaned by a lost connection).
func c19GenReconnectCase(t *rapid.T) *c19Case {
	g := rapid.IntRange(2, 10).Draw(t, "goroutines")
	c := &c19Case{Prim: "lock", Conns: rapid.IntRange(1, 4).Draw(t, "conns"), Reconnect: rapid.IntRange(1, 20).Draw(t, "reconnect")}
	for i := 0; i < g; i++ {
		sc := c19Script{Conn: rapid.IntRange(0, c.Conns-1).Draw(t, "conn")}
		n := rapid.IntRange(2, 4).Draw(t, "steps")
		for j := 0; j < n; j++ {
			sc.Steps = append(sc.Steps, c19Step{Pause: rapid.IntRange(0, 5).Draw(t, "pause"), Hold: rapid.IntRange(0, 5).Draw(t, "hold")})
		}
		c.Scripts = append(c.Scripts, sc)
	}
	return c
}

// ---------------------------------------------------------------------------------------------
// properties

func c19Property(t *testing.T, name, prim string) {
	st := vstat(name)
	rapid.Check(t, func(t *rapid.T) {
		var c *c19Case
		if prim == "lock-reconnect" {
			c = c19GenReconnectCase(t)
		} else if prim == "colliding-keys" {
			c = c19GenCollideCase(t, st)
		} else if prim == "waited-hold" {
			c = c19GenWaitedCase(t)
		} else {
			c = c19GenCase(t, prim, st)
		}
		out := c19RunCase(c)
		st.Case(out.info.nontrivial, c.fingerprint(), c19Classes(c, &out.info, out.settled), func() interface{} { return c })
		if out.viol != nil {
			vFail(t, name, out.viol.Key, c, "%s\nclient-side history (logical clock; ret is stamped after the acquire returned, "+
				"rel before the unlock was issued):\n%s", out.viol.Msg, out.hist)
		}
	})
}

func TestC19_Lock(t *testing.T)         { c19Property(t, "TestC19_Lock", "lock") }
func TestC19_RLock(t *testing.T)        { c19Property(t, "TestC19_RLock", "rlock") }
func TestC19_Semaphore(t *testing.T)    { c19Property(t, "TestC19_Semaphore", "sem") }
func TestC19_Flow(t *testing.T)         { c19Property(t, "TestC19_Flow", "flow") }
func TestC19_RWLock(t *testing.T)       { c19Property(t, "TestC19_RWLock", "rwlock") }
func TestC19_PriorityLock(t *testing.T) { c19Property(t, "TestC19_PriorityLock", "prio") }
func TestC19_Event(t *testing.T)        { c19Property(t, "TestC19_Event", "event") }

// Two keys in one slot of the server's key table; ~1.5 s per case (waits for the server's sweep).
func TestC19_CollidingKeys(t *testing.T) { c19Property(t, "TestC19_CollidingKeys", "colliding-keys") }

// Holds granted after a 2..4 s wait and kept until shortly before the promised expiry (3..5 s); 4.7..8.7 s per case.
func TestC19_WaitedHold(t *testing.T) { c19Property(t, "TestC19_WaitedHold", "waited-hold") }

// Thorough tier only (every case costs >= 3 s: the client library waits 3 s before it reconnects).
func TestC19_LockReconnect(t *testing.T) { c19Property(t, "TestC19_LockReconnect", "lock-reconnect") }

// TestC19_OracleSelfTest feeds hand-written histories to the oracle: it must accept the legal ones and reject the
// illegal ones (guards against an oracle that can never fire).
func TestC19_OracleSelfTest(t *testing.T) {
	mk := func(rows ...[4]interface{}) []c19Ev {
		var evs []c19Ev
		for i, r := range rows {
			evs = append(evs, c19Ev{T: int64(i + 1), G: r[0].(int), S: 0, K: r[1].(string), M: r[2].(string), R: r[3].(int)})
		}
		return evs
	}
	two := []c19Script{{Steps: []c19Step{{}}}, {Steps: []c19Step{{}}}, {Steps: []c19Step{{}}}}
	type tc struct {
		name string
		c    c19Case
		evs  []c19Ev
		want string
	}
	tcs := []tc{
		{"lock ok", c19Case{Prim: "lock", Conns: 1, Scripts: two},
			mk([4]interface{}{0, "call", "", 0}, [4]interface{}{0, "ret", "", 0}, [4]interface{}{1, "call", "", 0},
				[4]interface{}{0, "rel", "", 0}, [4]interface{}{1, "ret", "", 0}, [4]interface{}{0, "relret", "", 0},
				[4]interface{}{1, "rel", "", 0}, [4]interface{}{1, "relret", "", 0}), ""},
		{"lock overlap", c19Case{Prim: "lock", Conns: 1, Scripts: two},
			mk([4]interface{}{0, "call", "", 0}, [4]interface{}{0, "ret", "", 0}, [4]interface{}{1, "call", "", 0},
				[4]interface{}{1, "ret", "", 0}, [4]interface{}{0, "rel", "", 0}), "C19:lock-bound-exceeded"},
		{"sem2 ok with 2", c19Case{Prim: "sem", N: 2, Conns: 1, Scripts: two},
			mk([4]interface{}{0, "ret", "", 0}, [4]interface{}{1, "ret", "", 0}, [4]interface{}{0, "rel", "", 0}, [4]interface{}{2, "ret", "", 0}), ""},
		{"sem2 three", c19Case{Prim: "sem", N: 2, Conns: 1, Scripts: two},
			mk([4]interface{}{0, "ret", "", 0}, [4]interface{}{1, "ret", "", 0}, [4]interface{}{2, "ret", "", 0}), "C19:sem-bound-exceeded"},
		{"rw readers ok", c19Case{Prim: "rwlock", Conns: 1, Scripts: two},
			mk([4]interface{}{0, "ret", "r", 0}, [4]interface{}{1, "ret", "r", 0}, [4]interface{}{0, "rel", "r", 0}, [4]interface{}{1, "rel", "r", 0},
				[4]interface{}{2, "ret", "w", 0}), ""},
		{"rw writer with reader", c19Case{Prim: "rwlock", Conns: 1, Scripts: two},
			mk([4]interface{}{0, "ret", "r", 0}, [4]interface{}{2, "ret", "w", 0}), "C19:rwlock-writer-not-exclusive"},
		{"rw reader with writer", c19Case{Prim: "rwlock", Conns: 1, Scripts: two},
			mk([4]interface{}{2, "ret", "w", 0}, [4]interface{}{0, "ret", "r", 0}), "C19:rwlock-writer-not-exclusive"},
		{"rlock early free", c19Case{Prim: "rlock", Conns: 1, Scripts: two},
			mk([4]interface{}{0, "ret", "", 0}, [4]interface{}{0, "reret", "", 0}, [4]interface{}{0, "rerel", "", 0}, [4]interface{}{0, "rerelret", "", 0},
				[4]interface{}{1, "ret", "", 0}, [4]interface{}{0, "rel", "", 0}), "C19:rlock-bound-exceeded"},
		{"rlock reentry refused", c19Case{Prim: "rlock", Conns: 1, Scripts: two},
			mk([4]interface{}{0, "ret", "", 0}, [4]interface{}{0, "reret", "", 8}), "C19:rlock-reentry-refused"},
		{"release failed", c19Case{Prim: "flow", N: 1, Conns: 1, Scripts: two},
			mk([4]interface{}{0, "ret", "", 0}, [4]interface{}{0, "rel", "", 0}, [4]interface{}{0, "relret", "", 5}), "C19:release-failed"},
		{"release failed overflow", c19Case{Prim: "flow", N: 1, Conns: 1, ExpFlag: 0x0100, Expiry: 7, Scripts: two},
			mk([4]interface{}{0, "ret", "", 0}, [4]interface{}{0, "rel", "", 0}, [4]interface{}{0, "relret", "", 6}), c19KeyReleaseOverflow},
		{"prio ok", c19Case{Prim: "prio", Conns: 1, Scripts: []c19Script{{Prio: 0}, {Prio: 1}, {Prio: 3}}},
			mk([4]interface{}{0, "ret", "", 0}, [4]interface{}{0, "rel", "", 0}, [4]interface{}{2, "ret", "", 0}, [4]interface{}{2, "rel", "", 0},
				[4]interface{}{1, "ret", "", 0}), ""},
		{"prio inverted", c19Case{Prim: "prio", Conns: 1, Scripts: []c19Script{{Prio: 0}, {Prio: 1}, {Prio: 3}}},
			mk([4]interface{}{0, "ret", "", 0}, [4]interface{}{0, "rel", "", 0}, [4]interface{}{1, "ret", "", 0}, [4]interface{}{1, "rel", "", 0},
				[4]interface{}{2, "ret", "", 0}), "C19:prio-handover-order"},
		{"event clear-mode wait after set", c19Case{Prim: "event", Conns: 1, Scripts: two},
			mk([4]interface{}{1, "waitcall", "", 0}, [4]interface{}{0, "setcall", "", 0}, [4]interface{}{1, "waitret", "", 0}), ""},
		{"event clear-mode wait before set", c19Case{Prim: "event", Conns: 1, Scripts: two},
			mk([4]interface{}{1, "waitcall", "", 0}, [4]interface{}{1, "waitret", "", 0}, [4]interface{}{0, "setcall", "", 0}), "C19:event-wait-before-set"},
		{"event set-mode wait inside clear window", c19Case{Prim: "event", DefaultSet: true, Conns: 1, Scripts: two},
			mk([4]interface{}{0, "clearcall", "", 0}, [4]interface{}{0, "clearret", "", 0}, [4]interface{}{1, "waitcall", "", 0},
				[4]interface{}{1, "waitret", "", 0}, [4]interface{}{0, "setcall", "", 0}), "C19:event-wait-before-set"},
		{"event set-mode wait overlapping clear call", c19Case{Prim: "event", DefaultSet: true, Conns: 1, Scripts: two},
			mk([4]interface{}{0, "clearcall", "", 0}, [4]interface{}{1, "waitcall", "", 0}, [4]interface{}{0, "clearret", "", 0},
				[4]interface{}{1, "waitret", "", 0}, [4]interface{}{0, "setcall", "", 0}), ""},
	}
	// lateness rule: expiry 3 s, g1 is granted after g0's release stamped at 2.0 s, so its promise runs until >= 5.0 s.
	ms := func(rows ...[5]interface{}) []c19Ev {
		var evs []c19Ev
		for i, r := range rows {
			evs = append(evs, c19Ev{T: int64(i + 1), G: r[0].(int), K: r[1].(string), R: r[2].(int), W: int64(r[3].(int)) * int64(time.Millisecond)})
		}
		return evs
	}
	waited := c19Case{Prim: "lock", Conns: 1, Expiry: 3, Scripts: two}
	tcs = append(tcs,
		tc{"waited hold, contender admitted inside the promise", waited,
			ms([5]interface{}{0, "call", 0, 0}, [5]interface{}{0, "ret", 0, 1}, [5]interface{}{1, "call", 0, 200}, [5]interface{}{2, "call", 0, 400},
				[5]interface{}{0, "rel", 0, 2000}, [5]interface{}{1, "ret", 0, 2001}, [5]interface{}{2, "ret", 0, 4200}, [5]interface{}{1, "rel", 0, 4600}),
			"C19:lock-bound-exceeded"},
		tc{"same, but the holder released later than grant lower bound + expiry - slack: no verdict", waited,
			ms([5]interface{}{0, "call", 0, 0}, [5]interface{}{0, "ret", 0, 1}, [5]interface{}{1, "call", 0, 200}, [5]interface{}{2, "call", 0, 400},
				[5]interface{}{0, "rel", 0, 2000}, [5]interface{}{1, "ret", 0, 2001}, [5]interface{}{2, "ret", 0, 4200}, [5]interface{}{1, "rel", 0, 4800}),
			""},
		tc{"unforced hold is timed from its call", waited,
			ms([5]interface{}{0, "call", 0, 0}, [5]interface{}{0, "ret", 0, 900}, [5]interface{}{1, "call", 0, 950}, [5]interface{}{1, "ret", 0, 2750}, [5]interface{}{0, "rel", 0, 2800}),
			""})
	for _, x := range tcs {
		_, v := c19Check(&x.c, x.evs, true)
		got := ""
		if v != nil {
			got = v.Key
		}
		if got != x.want {
			t.Errorf("oracle self-test %q: got %q want %q (%v)", x.name, got, x.want, v)
		}
	}
}

// c19EventWakeProbe is the deterministic witness for the known finding C19:event-wait-before-set.
// LockDB.UnLock releases the key mutex, answers the caller and only then runs wakeUpWaitLocks(); the concurrent histories
// found by TestC19_Event need a default-clear Event.Wait to be queued inside that gap. The probe reaches the same server
// state without a race: it queues one default-clear Wait on a never-set event through the client API and then performs
// the trailing call of such an UnLock itself. A correct server leaves the waiter queued (the event is clear);
// the pinned tree grants it, so Wait reports success although Set was never called.
func c19EventWakeProbe() (reproduced bool, detail string, err error) {
	port, err := c19Server()
	if err != nil {
		return false, "", err
	}
	cls, err := c19OpenClients(port, 1)
	if err != nil {
		return false, "", err
	}
	defer c19CloseClients(cls)
	key := c19FreshKey()
	ev := cls[0].SelectDB(0).Event(key, 5, c19Expried, false) // default-clear: starts out clear
	done := make(chan error, 1)
	go func() { _, werr := ev.Wait(3); done <- werr }()
	var db *LockDB
	var lm *LockManager
	for try := 0; try < 4000 && lm == nil; try++ {
		time.Sleep(250 * time.Microsecond)
		if db = c19Srv.srv.slock.dbs[0]; db == nil {
			continue
		}
		if m := db.GetLockManager(&protocol.LockCommand{LockKey: key}); m != nil {
			m.glock.Lock()
			if m.lockKey == key && m.waited && m.locked == 0 {
				lm = m
			}
			m.glock.Unlock()
		}
	}
	if lm == nil {
		<-done
		return false, "", fmt.Errorf("the Wait request was never queued at the server")
	}
	db.wakeUpWaitLocks(lm, nil) // == tail of a concurrent LockDB.UnLock on this key
	select {
	case werr := <-done:
		if werr == nil {
			return true, "Event.Wait returned success on a default-clear event that was never Set", nil
		}
		return false, "Wait returned " + werr.Error(), nil
	case <-time.After(1500 * time.Millisecond):
		_, _ = ev.Set()
		<-done
		_, _ = ev.Clear()
	}
	return false, "Wait stayed blocked (correct) until the probe set the event", nil
}

func TestC19_EventWakeProbe(t *testing.T) {
	rep, detail, err := c19EventWakeProbe()
	if err != nil {
		t.Fatalf("probe could not run: %v", err)
	}
	fmt.Printf("C19-PROBE key=%s reproduced=%v %s\n", c19KeyEventWaitBeforeSet, rep, detail)
}

// TestC19_Replay re-executes the scripts of committed / found failure files. The schedule of real goroutines and sockets is
// not part of the case, so a replay may legitimately pass; every file is therefore attempted up to VERIF_C19_REPLAY_TRIES
// times (default 400) and reported as reproduced if any attempt violates the oracle.
func TestC19_Replay(t *testing.T) {
	tries := vEnvInt("VERIF_C19_REPLAY_TRIES", 400)
	var keys []string
	any := map[string]bool{}
	note := map[string]string{}
	for _, f := range vReplayFiles("C19") {
		var c c19Case
		key, err := vLoadReplay(f, &c)
		if err != nil {
			t.Fatalf("cannot load replay %s: %v", f, err)
		}
		if _, ok := any[key]; !ok {
			keys = append(keys, key)
			any[key] = false
		}
		if c.Prim == "event-wake-probe" { // deterministic in-package witness, see c19EventWakeProbe
			rep, detail, perr := c19EventWakeProbe()
			if perr != nil {
				t.Fatalf("probe %s could not run: %v", f, perr)
			}
			fmt.Printf("C19-REPLAY key=%s reproduced=%v file=%s deterministic probe: %s\n", key, rep, f, detail)
			if rep {
				any[key], note[key] = true, "file="+f+" "+detail
			}
			continue
		}
		var last *c19Violation
		hist := ""
		n := 0
		for n = 1; n <= tries; n++ {
			out := c19RunCase(&c)
			if out.viol != nil {
				last, hist = out.viol, out.hist
				break
			}
		}
		if last != nil {
			fmt.Printf("C19-REPLAY key=%s reproduced=true file=%s attempt=%d got=%s\n%s", key, f, n, last.Error(), hist)
			if !any[key] {
				any[key], note[key] = true, fmt.Sprintf("file=%s attempt=%d %s", f, n, last.Error())
			}
		} else {
			fmt.Printf("C19-REPLAY key=%s reproduced=false file=%s (%d attempts; schedules are not replayable, a pass is not a proof of repair)\n", key, f, tries)
		}
	}
	// one verdict line per key (the driver keeps the last VERIF-KF line of a key): reproduced if ANY of its files reproduced
	for _, key := range keys {
		if any[key] {
			fmt.Printf("VERIF-KF key=%s reproduced=true %s\n", key, strings.SplitN(note[key], "\n", 2)[0])
		} else {
			fmt.Printf("VERIF-KF key=%s reproduced=false none of the replay files of this key reproduced (concurrent replays: %d attempts each)\n", key, tries)
		}
	}
}
