package server

// C10: only the leader decides; other nodes refuse (STATE_ERROR) or forward and relay unchanged.
// Runs on engine N (c09_engine_test.go): leader + one follower behind the harness' fault proxy.
//
// One case = optional preload on the leader + a client script. The script is first played against
// the FOLLOWER of a fresh cluster ("run F"): requests go over a real TCP connection to the follower's
// port (binary 64-byte frames or RESP text) or, marked direct, straight into followerDB.Lock/UnLock;
// "state" steps force the follower into SYNC / FOLLOWER / VOTE / CONFIG between two requests of the
// same connection. Then the requests that were not refused are played against the LEADER of a second
// fresh cluster ("run L"). Oracle:
//   * every reply obtained through the follower equals the leader's reply to the same request, or is
//     STATE_ERROR; a direct call on a non-leader is always STATE_ERROR;
//   * with the replication stream stalled the follower's snapshot never changes, whatever the clients
//     send (and the leader does grant: its state is looked at, too); without stall the follower ends
//     equal to the leader (C09's oracle);
//   * a replicated hold whose deadline passed is kept by the follower (TestC10_FollowerKeepsExpiredHold).

import (
	"bufio"
	"bytes"
	"encoding/hex"
	"fmt"
	"io"
	"net"
	"os"
	"reflect"
	"strconv"
	"strings"
	"sync"
	"testing"
	"time"

	"github.com/snower/slock/protocol"
	"pgregory.net/rapid"
)

type n10Step struct {
	Op     *n09Op `json:"op,omitempty"`     // lock / unlock
	State  string `json:"state,omitempty"`  // follower | sync | vote | config: force the follower's role
	Direct bool   `json:"direct,omitempty"` // in-process followerDB.Lock/UnLock instead of TCP
	KV     []string `json:"kv,omitempty"`   // text protocol only: a key-value command as typed (SET k v / GET k / DEL k)
	Wait   bool   `json:"wait,omitempty"`   // Op is a LOCK (flag 0x08, Timeout > 0) on the key n10WaitKey, which its preloaded holder keeps over the request's Count: the leader queues it; the holder is released through the leader once no early answer came
}

type n10Case struct {
	Kind    string    `json:"kind"` // "forward"
	Text    bool      `json:"text,omitempty"`
	Stall   bool      `json:"stall,omitempty"`
	Preload []n09Op   `json:"preload,omitempty"`
	Steps   []n10Step `json:"steps"`
	Roles   []string  `json:"roles,omitempty"` // role case (c10_roles_test.go): leader | follower-empty | follower-addr
}

func (c *n10Case) fingerprint() uint64 {
	var sb strings.Builder
	for _, o := range c.Preload {
		sb.WriteString(o.String() + ";")
	}
	sb.WriteString("|")
	for _, s := range c.Steps {
		if s.Op != nil {
			sb.WriteString(s.Op.String())
		}
		sb.WriteString(strings.Join(s.KV, " "))
		fmt.Fprintf(&sb, "%s/%v;", s.State, s.Direct)
	}
	return vHash(c.Text, c.Stall, sb.String(), strings.Join(c.Roles, ","))
}

const n10WaitKey, n10WaitHolder = 9, 9
const n10KeyWaitAnswered = "C10:waiting-concurrent-check-answered-by-non-leader"

var n10States = map[string]uint8{"follower": STATE_FOLLOWER, "sync": STATE_SYNC, "vote": STATE_VOTE, "config": STATE_CONFIG}

type n10Reply struct {
	Early   bool // answered before the holder was released (doWait)
	None    bool
	Result  uint8
	LCount  uint16
	LRCount uint8
	Count   uint16
	Rcount  uint8
	LockId  [16]byte
	Data    []byte
	Raw     string // text protocol: the RESP reply as received
}

func (r n10Reply) String() string {
	if r.None {
		return "(no reply)"
	}
	if r.Raw != "" {
		return strconv.Quote(r.Raw)
	}
	e := ""
	if r.Early {
		e = " (answered at once, nothing released yet)"
	}
	return fmt.Sprintf("%s lcount=%d lrcount=%d count=%d rcount=%d lockid=%x data=%x%s", aResultName(r.Result), r.LCount, r.LRCount, r.Count, r.Rcount, r.LockId[:2], r.Data, e)
}

// stateError: the request was refused because of the node's role. Binary: result code STATE_ERROR.
// Text: the transparency layer has no result array for a refusal, it answers a RESP error line
// ("-ERR Leader Server Error", "-ERR State Error"), or an array whose code is 10.
func (r n10Reply) stateError() bool {
	if r.Raw != "" {
		return strings.HasPrefix(r.Raw, "-ERR") || strings.HasPrefix(r.Raw, "*") && strings.Contains(r.Raw, "STATE_ERROR")
	}
	return !r.None && r.Result == protocol.RESULT_STATE_ERROR
}

// ---------------------------------------------------------------------------------------------
// wire clients

type n10Conn struct {
	c    net.Conn
	rd   *bufio.Reader
	text bool
	seq  int
}

func n10Dial(addr string, text bool) (*n10Conn, error) {
	c, err := net.DialTimeout("tcp", addr, 2*time.Second)
	if err != nil {
		return nil, err
	}
	return &n10Conn{c: c, rd: bufio.NewReader(c), text: text}, nil
}

func (x *n10Conn) close() { _ = x.c.Close() }

func n10Command(op *n09Op, seq int) *protocol.LockCommand {
	cmd := &protocol.LockCommand{}
	cmd.Magic, cmd.Version = protocol.MAGIC, protocol.VERSION
	cmd.CommandType = protocol.COMMAND_LOCK
	if op.K == "unlock" {
		cmd.CommandType = protocol.COMMAND_UNLOCK
	}
	cmd.RequestId = aReqId(seq)
	cmd.Flag, cmd.DbId = uint8(op.Flag), uint8(op.Db)
	cmd.LockId, cmd.LockKey = n09LockId(op.Id), n09Key(op.Key)
	cmd.Timeout = uint16(op.T)
	cmd.ExpriedFlag, cmd.Expried = uint16(op.EF), uint16(op.E)
	cmd.Count, cmd.Rcount = uint16(op.Cnt), uint8(op.Rc)
	if op.V != nil {
		cmd.Data = op.V.data()
		cmd.Flag |= protocol.LOCK_FLAG_CONTAINS_DATA
	}
	return cmd
}

func (x *n10Conn) do(op *n09Op) n10Reply {
	x.seq++
	_ = x.c.SetDeadline(time.Now().Add(4 * time.Second))
	if x.text {
		return x.doText(op)
	}
	cmd, ok := x.write(op)
	if !ok {
		return n10Reply{None: true}
	}
	return x.read(cmd.RequestId)
}

func (x *n10Conn) write(op *n09Op) (*protocol.LockCommand, bool) {
	cmd := n10Command(op, x.seq)
	buf := make([]byte, 64)
	if err := cmd.Encode(buf); err != nil {
		return cmd, false
	}
	if cmd.Data != nil {
		buf = append(buf, cmd.Data.Data...)
	}
	_, err := x.c.Write(buf)
	return cmd, err == nil
}

func (x *n10Conn) read(reqId [16]byte) n10Reply {
	for {
		rb := make([]byte, 64)
		if _, err := io.ReadFull(x.rd, rb); err != nil {
			return n10Reply{None: true}
		}
		if rb[2] != protocol.COMMAND_LOCK && rb[2] != protocol.COMMAND_UNLOCK {
			continue // pushed INIT state frames and the like
		}
		var res protocol.LockResultCommand
		if err := res.Decode(rb); err != nil {
			return n10Reply{None: true}
		}
		rp := n10Reply{Result: res.Result, LCount: res.Lcount, LRCount: res.Lrcount, Count: res.Count, Rcount: res.Rcount, LockId: res.LockId}
		if res.Flag&protocol.LOCK_FLAG_CONTAINS_DATA != 0 {
			lb := make([]byte, 4)
			if _, err := io.ReadFull(x.rd, lb); err != nil {
				return n10Reply{None: true}
			}
			n := int(uint32(lb[0]) | uint32(lb[1])<<8 | uint32(lb[2])<<16 | uint32(lb[3])<<24)
			pb := make([]byte, n)
			if _, err := io.ReadFull(x.rd, pb); err != nil {
				return n10Reply{None: true}
			}
			rp.Data = append(lb, pb...)
		}
		if res.RequestId != reqId {
			continue
		}
		return rp
	}
}

// doWait sends a request that the leader is going to queue (the key is over the request's Count, Timeout > 0) and
// watches when the answer comes: within n10EarlyWindow, i.e. before anybody released anything (Early), or only after
// release() - an unlock of the holder through the leader - made the leader decide.
const n10EarlyWindow = 300 * time.Millisecond

func (x *n10Conn) doWait(op *n09Op, release func()) n10Reply {
	x.seq++
	_ = x.c.SetDeadline(time.Now().Add(time.Duration(op.T+4) * time.Second))
	cmd, ok := x.write(op)
	if !ok {
		return n10Reply{None: true}
	}
	_ = x.c.SetReadDeadline(time.Now().Add(n10EarlyWindow))
	_, perr := x.rd.Peek(64) // does not consume anything when the deadline passes
	_ = x.c.SetReadDeadline(time.Now().Add(time.Duration(op.T+4) * time.Second))
	if perr == nil {
		rp := x.read(cmd.RequestId)
		rp.Early = true
		return rp
	}
	release()
	return x.read(cmd.RequestId)
}

func n10Resp(args ...string) []byte {
	var b bytes.Buffer
	fmt.Fprintf(&b, "*%d\r\n", len(args))
	for _, a := range args {
		fmt.Fprintf(&b, "$%d\r\n%s\r\n", len(a), a)
	}
	return b.Bytes()
}

func (x *n10Conn) readResp(depth int) (string, error) {
	line, err := x.rd.ReadString('\n')
	if err != nil {
		return "", err
	}
	out := line
	if len(line) < 3 || depth > 4 {
		return out, nil
	}
	switch line[0] {
	case '*':
		n, _ := strconv.Atoi(strings.TrimSpace(line[1:]))
		for i := 0; i < n; i++ {
			s, e := x.readResp(depth + 1)
			out += s
			if e != nil {
				return out, e
			}
		}
	case '$':
		n, _ := strconv.Atoi(strings.TrimSpace(line[1:]))
		if n >= 0 {
			b := make([]byte, n+2)
			if _, e := io.ReadFull(x.rd, b); e != nil {
				return out, e
			}
			out += string(b)
		}
	}
	return out, nil
}

func (x *n10Conn) doText(op *n09Op) n10Reply {
	key := n09Key(op.Key)
	id := n09LockId(op.Id)
	var args []string
	if op.K == "lock" || op.K == "push" {
		args = []string{strings.ToUpper(op.K), hex.EncodeToString(key[:]), "TIMEOUT", "0", "EXPRIED", strconv.Itoa(op.E | op.EF<<16), "LOCK_ID", hex.EncodeToString(id[:]),
			"FLAG", strconv.Itoa(op.Flag), "COUNT", strconv.Itoa(op.Cnt + 1), "RCOUNT", strconv.Itoa(op.Rc + 1)} // text counts are 1-based: COUNT n = Count n-1
	} else {
		args = []string{"UNLOCK", hex.EncodeToString(key[:]), "LOCK_ID", hex.EncodeToString(id[:]), "FLAG", strconv.Itoa(op.Flag), "RCOUNT", strconv.Itoa(op.Rc + 1)}
	}
	if _, err := x.c.Write(n10Resp(args...)); err != nil {
		return n10Reply{None: true}
	}
	s, err := x.readResp(0)
	if err != nil && s == "" {
		return n10Reply{None: true}
	}
	return n10Reply{Raw: s}
}

func (x *n10Conn) doRaw(args []string) n10Reply {
	x.seq++
	_ = x.c.SetDeadline(time.Now().Add(4 * time.Second))
	if _, err := x.c.Write(n10Resp(args...)); err != nil {
		return n10Reply{None: true}
	}
	s, err := x.readResp(0)
	if err != nil && s == "" {
		return n10Reply{None: true}
	}
	return n10Reply{Raw: s}
}

// ---------------------------------------------------------------------------------------------
// executor

const n10KeyProbable = "C10:concurrent-check-answered-locally-by-non-leader"
const n10KeyUnlockUnknown = "C10:non-leader-unlock-of-unknown-key-answers-UNLOCK_ERROR"

type n10Info struct {
	deposed int
	pushes, kvs int
	waits, waitsDecidedByLeader int
	excludedUnknownUnlock int
	forwarded, refused, direct, noReply int
	stateSwitches                      int
	followerChecks                     int
	leaderGranted                      int
	inconclusive                       string
}

type n10Out struct {
	err  error
	key  string
	info n10Info
}

func n10Cluster(preload []n09Op, noLoop bool) (*n09Env, string) {
	e, err := n09NewEnv(&n09Case{Kind: "cluster", Ring: 65536, RingMax: 65536, Followers: 1, NoLoop: noLoop})
	if err != nil {
		return nil, "cannot start the cluster: " + err.Error()
	}
	if err = e.join(n09Op{K: "join", F: 0}); err != nil {
		e.close()
		return nil, "cannot start the follower: " + err.Error()
	}
	// C10 does not explore joins racing with the leader's first records (C09 does): the workload starts when
	// the follower's handshake is over
	for i := 0; i < 1500; i++ {
		p := e.slots[0].proxy
		p.mu.Lock()
		done := p.fullSyncs+p.resumes > 0
		p.mu.Unlock()
		mgr := e.leader.inst.slock.replicationManager
		mgr.glock.Lock()
		done = done && len(mgr.serverChannels) > 0
		mgr.glock.Unlock()
		if done {
			break
		}
		time.Sleep(2 * time.Millisecond)
	}
	for i, op := range preload {
		e.logf("preload #%d %v", i, op)
		e.send(op)
	}
	// a first record so that there is a position to converge to
	e.send(n09Op{K: "lock", Db: 0, Key: 200, Id: 200, E: 3600, EF: 0x0100})
	if key, viol, inc := e.syncAndCheck(false); inc != "" || (viol != "" && !vIsKnown(key)) {
		rep := e.report()
		e.close()
		if viol != "" {
			return nil, "VIOLATION " + key + "\n" + viol + "\n" + rep
		}
		return nil, "preload did not converge: " + inc
	}
	return e, ""
}

func n10RunCase(c *n10Case) (out n10Out) {
	if len(c.Roles) > 0 {
		return n10RunRoles(c)
	}
	// ---- run F: through the follower
	e, why := n10Cluster(c.Preload, false)
	if e == nil {
		out.info.inconclusive = why
		return
	}
	closed := false
	defer func() {
		if r := recover(); r != nil {
			out.err = fmt.Errorf("panic in the harness goroutine: %v\n%s", r, vRepoFrames())
			out.key = "C10:panic"
		}
		if !closed {
			e.close()
		}
	}()
	fol := e.slots[0].node
	fsl := fol.inst.slock
	if c.Stall {
		e.slots[0].stall = true
		e.slots[0].proxy.setStall(true)
	}
	s0 := n09Canon(fsl, false)
	leaderBefore := n09Canon(e.leader.inst.slock, false)
	conn, err := n10Dial(fol.addr, c.Text)
	if err != nil {
		out.info.inconclusive = "cannot connect to the follower: " + err.Error()
		return
	}
	defer conn.close()
	direct := NewMemWaiterServerProtocol(fsl)
	var directReply *n10Reply
	_ = direct.SetResultCallback(func(_ *MemWaiterServerProtocol, cmd *protocol.LockCommand, result uint8, lcount uint16, lrcount uint8, data []byte) error {
		directReply = &n10Reply{Result: result, LCount: lcount, LRCount: lrcount, Data: append([]byte{}, data...)}
		return nil
	})
	defer direct.Close()
	state := "follower"
	pushed := false // a forwarded PUSH is acknowledged before the leader has executed it
	var beforeDirect map[string]*n09KeyState
	var log []string
	replies := make([]*n10Reply, len(c.Steps))
	fail := func(key, format string, a ...interface{}) {
		out.key = key
		out.err = fmt.Errorf("%s\n  script through the follower (text=%v, replication stalled=%v):\n    %s\n  follower before:\n%s", fmt.Sprintf(format, a...), c.Text, c.Stall, strings.Join(log, "\n    "), n09DescribeState(s0))
	}
	for i, st := range c.Steps {
		switch {
		case st.State != "":
			fsl.updateState(n10States[st.State])
			state = st.State
			out.info.stateSwitches++
			log = append(log, fmt.Sprintf("#%d follower role := %s", i, st.State))
		case st.Op != nil && st.Direct:
			if !c.Stall {
				// let the stream go quiet so that before/after brackets nothing but the call itself
				target, _ := e.leaderTarget()
				if why := e.waitCaughtUp(0, target); why != "" {
					out.info.inconclusive = why
					return
				}
			}
			beforeDirect = n09Canon(fsl, false)
			if st.Op.K == "unlock" && n09Known(n10KeyUnlockUnknown) {
				if _, ok := beforeDirect[fmt.Sprintf("db%d/key%d", st.Op.Db, st.Op.Key+1)]; !ok {
					// known finding: UnLock looks the key up before it looks at the role; an unknown key is
					// answered UNLOCK_ERROR. Excluded: no direct unlock of a key the node does not have.
					out.info.excludedUnknownUnlock++
					log = append(log, fmt.Sprintf("#%d direct %v skipped (known finding %s)", i, *st.Op, n10KeyUnlockUnknown))
					continue
				}
			}
			directReply = nil
			cmd := n10Command(st.Op, 100000+i)
			db := fsl.GetOrNewDB(cmd.DbId)
			if cmd.CommandType == protocol.COMMAND_LOCK {
				_ = db.Lock(direct, cmd, 0)
			} else {
				_ = db.UnLock(direct, cmd, 0)
			}
			out.info.direct++
			if directReply == nil {
				log = append(log, fmt.Sprintf("#%d direct %v -> (no reply)", i, *st.Op))
				fail("C10:non-leader-decides", "step %d: direct %s on a node in role %s was not answered at once (queued?)", i, st.Op.K, state)
				return
			}
			log = append(log, fmt.Sprintf("#%d direct %v -> %v", i, *st.Op, *directReply))
			if directReply.Result == protocol.RESULT_TIMEOUT && st.Op.K == "lock" && st.Op.Flag&0x08 != 0 {
				fail(n10KeyProbable, "step %d: direct lock with the concurrent-check flag on a node in role %s answered TIMEOUT from the node's own (replicated) view instead of STATE_ERROR (LockDB.Lock runs the concurrent check before it looks at the role; Transparency*ServerProtocol does the same through CheckProbableLock)", i, state)
				return
			}
			if directReply.Result == protocol.RESULT_UNLOCK_ERROR && st.Op.K == "unlock" {
				fail(n10KeyUnlockUnknown, "step %d: direct unlock on a node in role %s answered UNLOCK_ERROR instead of STATE_ERROR (LockDB.UnLock answers from its own key table before it checks the role)", i, state)
				return
			}
			if directReply.Result != protocol.RESULT_STATE_ERROR {
				fail("C10:non-leader-decides", "step %d: direct %s on a node in role %s answered %s instead of STATE_ERROR", i, st.Op.K, state, aResultName(directReply.Result))
				return
			}
		case st.KV != nil && c.Text:
			if st.KV[0] == "GET" {
				// GET is answered by the node itself from its replicated state (a read, nothing is decided): comparable with the
				// leader's answer only when the follower has caught up - the generator does not put a GET behind a stalled stream
				if c.Stall {
					continue
				}
				if pushed {
					_ = conn.do(&n09Op{K: "unlock", Key: 250, Id: 250}) // replies are ordered: the PUSH before it has been executed now
					pushed = false
				}
				target, _ := e.leaderTarget()
				if why := e.waitCaughtUp(0, target); why != "" {
					out.info.inconclusive = why
					return
				}
			}
			rp := conn.doRaw(st.KV)
			replies[i] = &rp
			log = append(log, fmt.Sprintf("#%d tcp(%s) %s -> %v", i, state, strings.Join(st.KV, " "), rp))
			switch {
			case rp.None:
				out.info.noReply++
				conn.close()
				if conn, err = n10Dial(fol.addr, c.Text); err != nil {
					out.info.inconclusive = "cannot reconnect to the follower: " + err.Error()
					return
				}
			case rp.stateError():
				out.info.refused++
			default:
				out.info.forwarded++
				out.info.kvs++
			}
		case st.Op != nil:
			var rp n10Reply
			if !c.Stall && (st.Op.K == "lock" || st.Op.K == "push") && st.Op.Flag&0x08 != 0 && st.Op.T == 0 && n09Known(n10KeyProbable) {
				// known finding: a non-leader answers concurrent-check requests from its replicated view. With a live stream the
				// follower is first allowed to catch up, so that its view is the leader's
				if pushed {
					_ = conn.do(&n09Op{K: "unlock", Key: 250, Id: 250})
					pushed = false
				}
				target, _ := e.leaderTarget()
				if why := e.waitCaughtUp(0, target); why != "" {
					out.info.inconclusive = why
					return
				}
			}
			if st.Op.K == "push" {
				out.info.pushes++
				pushed = true
			}
			if st.Wait && !c.Text {
				rp = conn.doWait(st.Op, func() {
					log = append(log, fmt.Sprintf("#%d   (no answer within %v: holder released through the leader)", i, n10EarlyWindow))
					e.send(n09Op{K: "unlock", Key: n10WaitKey, Id: n10WaitHolder})
				})
				out.info.waits++
				if !rp.Early && !rp.None {
					out.info.waitsDecidedByLeader++
				}
			} else {
				rp = conn.do(st.Op)
			}
			replies[i] = &rp
			log = append(log, fmt.Sprintf("#%d tcp(%s) %v -> %v", i, state, *st.Op, rp))
			switch {
			case rp.None:
				out.info.noReply++
				// the connection is gone (a refused text command closes nothing, but be safe): reconnect
				conn.close()
				if conn, err = n10Dial(fol.addr, c.Text); err != nil {
					out.info.inconclusive = "cannot reconnect to the follower: " + err.Error()
					return
				}
			case rp.stateError():
				out.info.refused++
			default:
				out.info.forwarded++
			}
		}
		// nothing may change on the follower unless the leader's stream says so
		if c.Stall {
			now := n09Canon(fsl, false)
			out.info.followerChecks++
			if !reflect.DeepEqual(now, s0) {
				fail("C10:follower-state-changed-without-leader-stream", "step %d: the follower's lock state changed although no byte of the leader's stream reached it\n  follower now:\n%s", i, n09DescribeState(now))
				return
			}
		} else if st.Op != nil && st.Direct {
			now := n09Canon(fsl, false)
			out.info.followerChecks++
			if !reflect.DeepEqual(now, beforeDirect) {
				// a forwarded PUSH is acknowledged before the leader has executed it: its record may arrive between the two
				// snapshots. A change that came with the leader's stream leaves the follower equal to the leader.
				target, _ := e.leaderTarget()
				if why := e.waitCaughtUp(0, target); why == "" && n09CompareState(n09Canon(e.leader.inst.slock, true), n09Canon(fsl, false)) == "" {
					continue
				}
				fail("C10:non-leader-decides", "step %d: a direct %s on a node in role %s changed its lock state\n  before the call:\n%s  after the call:\n%s", i, st.Op.K, state, n09DescribeState(beforeDirect), n09DescribeState(now))
				return
			}
		}
	}
	if state != "follower" {
		fsl.updateState(STATE_FOLLOWER)
	}
	if c.Stall {
		if !reflect.DeepEqual(n09Canon(e.leader.inst.slock, false), leaderBefore) {
			out.info.leaderGranted++
		}
		e.slots[0].stall = false
		e.slots[0].proxy.setStall(false)
	}
	if pushed && state == "follower" {
		_ = conn.do(&n09Op{K: "unlock", Key: 250, Id: 250}) // barrier behind the last PUSH, not compared
	}
	leaderAfterF := n09DescribeState(n09Canon(e.leader.inst.slock, false))
	// convergence afterwards (C09's oracle; its listed findings stay suppressed the same way)
	if key, viol, inc := e.syncAndCheck(true); inc != "" {
		out.info.inconclusive = inc
		return
	} else if viol != "" && !vIsKnown(key) {
		fail(key, "after the script the follower does not converge to the leader: %s", viol)
		return
	}
	e.close()
	closed = true

	// ---- run L: the accepted requests straight to a leader
	e2, why := n10Cluster(c.Preload, false)
	if e2 == nil {
		out.info.inconclusive = why
		return
	}
	defer e2.close()
	lconn, err := n10Dial(e2.leader.addr, c.Text)
	if err != nil {
		out.info.inconclusive = "cannot connect to the leader: " + err.Error()
		return
	}
	defer lconn.close()
	var llog []string
	for i, st := range c.Steps {
		if (st.Op == nil && st.KV == nil) || st.Direct || replies[i] == nil || replies[i].None || replies[i].stateError() {
			continue
		}
		if st.KV != nil {
			if st.KV[0] == "GET" && c.Stall {
				continue
			}
			lr := lconn.doRaw(st.KV)
			llog = append(llog, fmt.Sprintf("#%d %s -> %v", i, strings.Join(st.KV, " "), lr))
			if fr := *replies[i]; lr.Raw != fr.Raw || lr.None != fr.None {
				fail("C10:reply-through-follower-differs", "step %d %s: reply relayed by the follower differs from the leader's own reply\n    via follower: %v\n    from leader : %v\n  same requests sent to a leader directly:\n    %s", i, strings.Join(st.KV, " "), fr, lr, strings.Join(llog, "\n    "))
				return
			}
			continue
		}
		if st.Op.K == "push" {
			// the leader's own text protocol has a listed finding for PUSH (C03: its result answers the next command), so the
			// leader path takes the PUSH through the in-memory client; what is compared is the follower's immediate "+OK" and,
			// above all, the replies of everything that follows on the same connection
			lop := *st.Op
			lop.K = "lock"
			e2.send(lop)
			llog = append(llog, fmt.Sprintf("#%d %v (in-memory client)", i, *st.Op))
			if fr := *replies[i]; fr.Raw != "+OK\r\n" {
				fail("C10:reply-through-follower-differs", "step %d %v: a forwarded PUSH is acknowledged with +OK at once, the follower answered %v", i, *st.Op, fr)
				return
			}
			continue
		}
		var lr n10Reply
		if st.Wait && !c.Text {
			lr = lconn.doWait(st.Op, func() { e2.send(n09Op{K: "unlock", Key: n10WaitKey, Id: n10WaitHolder}) })
		} else {
			lr = lconn.do(st.Op)
		}
		llog = append(llog, fmt.Sprintf("#%d %v -> %v", i, *st.Op, lr))
		fr := *replies[i]
		if st.Wait && fr.Early && !lr.Early {
			fail(n10KeyWaitAnswered, "step %d %v: the follower path answered at once, while nothing had been released; the leader queues this request and answers only when the holder is released\n    via follower: %v\n    from leader : %v\n  same requests sent to a leader directly:\n    %s", i, *st.Op, fr, lr, strings.Join(llog, "\n    "))
			return
		}
		if !reflect.DeepEqual(lr, fr) && !(len(lr.Data) == 0 && len(fr.Data) == 0 && lr.Result == fr.Result && lr.LCount == fr.LCount && lr.LRCount == fr.LRCount && lr.Count == fr.Count && lr.Rcount == fr.Rcount && lr.LockId == fr.LockId && lr.Raw == fr.Raw && lr.None == fr.None) {
			key := "C10:reply-through-follower-differs"
			if st.Op.K == "lock" && st.Op.Flag&0x08 != 0 && st.Op.T == 0 {
				key = n10KeyProbable
			}
			fail(key, "step %d %v: reply relayed by the follower differs from the leader's own reply\n    via follower: %v\n    from leader : %v\n  same requests sent to a leader directly:\n    %s", i, *st.Op, fr, lr, strings.Join(llog, "\n    ")+"\n  leader of the follower-path cluster after the script:\n"+leaderAfterF+"  leader of the leader-path cluster now:\n"+n09DescribeState(n09Canon(e2.leader.inst.slock, false)))
			return
		}
	}
	return
}

// ---------------------------------------------------------------------------------------------
// generator

func n10GenKV(t *rapid.T, stall bool) []string {
	k := rapid.SampledFrom([]string{"kv0", "kv1"}).Draw(t, "kvkey")
	cmds := []string{"SET", "SET", "GET", "GET", "DEL"}
	if stall {
		cmds = []string{"SET", "SET", "DEL"}
	}
	switch rapid.SampledFrom(cmds).Draw(t, "kvcmd") {
	case "SET":
		return []string{"SET", k, rapid.StringMatching(`[a-z0-9]{1,12}`).Draw(t, "kvval")}
	case "GET":
		return []string{"GET", k}
	}
	return []string{"DEL", k}
}

func n10GenOp(t *rapid.T, text bool, keys int) *n09Op {
	kinds := []string{"lock", "lock", "lock", "unlock", "unlock"}
	if text {
		kinds = []string{"lock", "lock", "lock", "unlock", "unlock", "push", "push"}
	}
	op := &n09Op{K: rapid.SampledFrom(kinds).Draw(t, "kind")}
	if !text {
		op.Db = rapid.SampledFrom([]int{0, 0, 0, 1}).Draw(t, "db")
	}
	op.Key = rapid.IntRange(0, keys-1).Draw(t, "key")
	op.Id = rapid.IntRange(0, 2).Draw(t, "id")
	if op.K == "lock" || op.K == "push" {
		op.Flag = rapid.SampledFrom([]int{0, 0, 0, 0x02, 0x01, 0x08}).Draw(t, "flag")
		op.E = rapid.SampledFrom([]int{60, 60, 120, 600}).Draw(t, "e")
		op.EF = 0x0100
		op.Cnt = rapid.SampledFrom([]int{0, 0, 1, 2}).Draw(t, "cnt")
		op.Rc = rapid.SampledFrom([]int{0, 0, 1, 2}).Draw(t, "rc")
		if !text && rapid.IntRange(0, 99).Draw(t, "hasval") < 25 {
			op.V = n09GenVal(t)
		}
	} else {
		op.Flag = rapid.SampledFrom([]int{0, 0, 0, 0x01}).Draw(t, "uflag")
		op.Rc = rapid.SampledFrom([]int{0, 0, 1}).Draw(t, "urc")
	}
	return op
}

func n10GenCase(t *rapid.T, st *vStat) *n10Case {
	c := &n10Case{Kind: "forward"}
	if rk := rapid.IntRange(0, 99).Draw(t, "roleCase"); rk >= 35 && rk < 65 {
		// role changes through ReplicationManager, as the arbiter performs them
		for i, n := 0, rapid.IntRange(2, 6).Draw(t, "nroles"); i < n; i++ {
			c.Roles = append(c.Roles, rapid.SampledFrom([]string{"follower-empty", "leader", "follower-addr", "leader", "follower-empty"}).Draw(t, "role"))
		}
		for i, n := 0, rapid.IntRange(0, 3).Draw(t, "rolePreload"); i < n; i++ {
			op := n09GenLock(t, 2)
			op.Flag = 0
			c.Preload = append(c.Preload, op)
		}
		return c
	}
	c.Text = rapid.IntRange(0, 2).Draw(t, "text") == 0
	c.Stall = rapid.IntRange(0, 1).Draw(t, "stall") == 0
	keys := rapid.IntRange(1, 3).Draw(t, "keys")
	np := rapid.IntRange(0, 6).Draw(t, "npreload")
	for i := 0; i < np; i++ {
		op := n09GenLock(t, keys)
		if c.Text {
			op.Db = 0
		}
		op.Flag = 0
		c.Preload = append(c.Preload, op)
	}
	n := rapid.IntRange(3, 16).Draw(t, "nsteps")
	role := "follower"
	for i := 0; i < n; i++ {
		r := rapid.IntRange(0, 99).Draw(t, "r")
		switch {
		case r < 18:
			role = rapid.SampledFrom([]string{"follower", "sync", "vote", "config"}).Draw(t, "role")
			c.Steps = append(c.Steps, n10Step{State: role})
		case r < 36:
			c.Steps = append(c.Steps, n10Step{Op: n10GenOp(t, false, keys), Direct: true})
		default:
			if c.Text && rapid.IntRange(0, 4).Draw(t, "kv") == 2 {
				c.Steps = append(c.Steps, n10Step{KV: n10GenKV(t, c.Stall)})
			} else {
				c.Steps = append(c.Steps, n10Step{Op: n10GenOp(t, c.Text, keys)})
			}
		}
	}
	if !c.Text && rapid.IntRange(0, 2).Draw(t, "withWait") == 0 {
		// one request that has to wait at the leader: concurrent-check flag, Timeout 1..3 s, on a key its preloaded
		// holder (Count 0) keeps over the request's Count
		w := &n09Op{K: "lock", Key: n10WaitKey, Id: rapid.IntRange(0, 2).Draw(t, "waitId"), Flag: 0x08, T: rapid.IntRange(1, 3).Draw(t, "waitT"),
			E: 60, EF: 0x0100, Cnt: rapid.SampledFrom([]int{0, 0, 1}).Draw(t, "waitCnt")}
		if w.Cnt == 1 {
			// two holders keep the key over Count 1 as well
			c.Preload = append(c.Preload, n09Op{K: "lock", Key: n10WaitKey, Id: n10WaitHolder + 1, E: 600, EF: 0x0100, Cnt: 1})
		}
		c.Preload = append(c.Preload, n09Op{K: "lock", Key: n10WaitKey, Id: n10WaitHolder, E: 600, EF: 0x0100, Cnt: w.Cnt})
		at := rapid.IntRange(0, len(c.Steps)).Draw(t, "waitAt")
		c.Steps = append(c.Steps[:at:at], append([]n10Step{{Op: w, Wait: true}}, c.Steps[at:]...)...)
	}
	if vIsKnown(n10KeyProbable) {
		// known finding: a non-leader answers concurrent-check requests (flag 0x08, timeout 0) itself from its
		// replicated view. Excluded: the flag is not generated for direct calls nor while the stream is stalled
		// (with a live stream the harness lets the follower catch up, so both views agree).
		for _, s := range c.Steps {
			if s.Op != nil && (s.Op.K == "lock" || s.Op.K == "push") && s.Op.Flag&0x08 != 0 && s.Op.T == 0 && (s.Direct || c.Stall) {
				s.Op.Flag &^= 0x08
				st.Exclude("concurrent-check flag dropped from a direct / stalled-stream request (known finding " + n10KeyProbable + ")")
			}
		}
	}
	return c
}

// n10Once runs the case and folds a failure of the cluster preparation (a C09 matter, reported under C09's
// key) into the ordinary failure fields.
func n10Once(c *n10Case) n10Out {
	out := n10RunCase(c)
	if strings.HasPrefix(out.info.inconclusive, "VIOLATION ") {
		rest := out.info.inconclusive[10:]
		out.key = rest
		if i := strings.IndexByte(rest, '\n'); i > 0 {
			out.key = rest[:i]
		}
		out.err = fmt.Errorf("while preparing the cluster: %s", rest)
		out.info.inconclusive = ""
	}
	return out
}

var n10Confirmed = struct {
	sync.Mutex
	m map[uint64]*n10Out
}{m: map[uint64]*n10Out{}}

// n10Judge: like n09Judge - a failing script is re-executed on fresh clusters up to n09Reruns times and is a
// failure only if the same key shows again; otherwise it is filed as an anomaly and not judged.
func n10Judge(c *n10Case, st *vStat) (out n10Out, judged bool) {
	fp := c.fingerprint()
	n10Confirmed.Lock()
	if prev := n10Confirmed.m[fp]; prev != nil {
		n10Confirmed.Unlock()
		return *prev, true
	}
	n10Confirmed.Unlock()
	out = n10Once(c)
	for i := 0; i < 2 && out.info.inconclusive != ""; i++ {
		st.Class("inconclusive execution repeated", 1)
		first := out.info.inconclusive
		out = n10Once(c)
		if out.info.inconclusive != "" {
			out.info.inconclusive = first
		}
	}
	if out.info.inconclusive != "" || out.err == nil {
		return out, true
	}
	if strings.HasPrefix(out.key, "C09:") {
		// replication did not converge while the cluster was prepared or after the script: that is C09's
		// property and C09's list of findings (its keys are not passed to a C10 run); noted, not judged here
		fmt.Printf("VERIF-NOTE C10 case ran into a C09 matter key=%s (judged by the C09 check)\n", out.key)
		if os.Getenv("VERIF_C10_VERBOSE") != "" {
			fmt.Printf("%.2500s\n", out.err.Error())
		}
		st.Class("case ran into a C09 finding (not judged by C10): "+out.key, 1)
		return out, false
	}
	for i := 1; i <= n09Reruns; i++ {
		again := n10Once(c)
		if again.err != nil && again.key == out.key {
			again.err = fmt.Errorf("%v\n(failed in 2 of %d executions of this case with key %s)", again.err, i+1, again.key)
			n10Confirmed.Lock()
			n10Confirmed.m[fp] = &again
			n10Confirmed.Unlock()
			return again, true
		}
	}
	n09WriteAnomaly("C10", &n09Anomaly{Test: "TestC10_Forward", Key: out.key, Message: out.err.Error(), Case: c, Reruns: n09Reruns})
	st.Class("unreproduced anomaly (not judged)", 1)
	return out, false
}

func TestC10_Forward(t *testing.T) {
	st := vstat("TestC10_Forward")
	rapid.Check(t, func(t *rapid.T) {
		c := n10GenCase(t, st)
		out, judged := n10Judge(c, st)
		if out.info.inconclusive != "" {
			n09Inconclusive("C10: " + out.info.inconclusive)
		}
		if !judged {
			out.err = nil
		}
		var cls []string
		add := func(b bool, s string) {
			if b {
				cls = append(cls, s)
			}
		}
		add(out.info.forwarded > 0, "request answered by forwarding")
		add(out.info.refused > 0, "request answered STATE_ERROR over TCP")
		add(out.info.direct > 0, "direct Lock/UnLock on a non-leader")
		add(out.info.stateSwitches > 0, "role forced between two requests of one connection")
		add(c.Stall, "replication stream stalled during the script")
		add(out.info.leaderGranted > 0, "leader state changed by forwarded requests while the follower stayed put")
		add(c.Text, "text protocol")
		add(!c.Text, "binary protocol")
		add(out.info.noReply > 0, "request without reply")
		add(len(c.Roles) > 0, "role calls through ReplicationManager (SwitchToFollower / SwitchToLeader)")
		add(out.info.deposed > 0, "node deposed after it had been leader")
		add(out.info.pushes > 0, "text PUSH through the follower")
		add(out.info.kvs > 0, "text key-value command (SET/GET/DEL) through the follower")
		add(out.info.waits > 0, "waiting concurrent-check request (Timeout > 0) through the follower")
		add(out.info.waitsDecidedByLeader > 0, "waiting request answered only after the leader released the holder")
		for i := 0; i < out.info.excludedUnknownUnlock; i++ {
			st.Exclude("direct unlock of a key unknown to the node skipped (known finding " + n10KeyUnlockUnknown + ")")
		}
		st.Case(out.info.forwarded > 0 && (out.info.refused > 0 || out.info.direct > 0), c.fingerprint(), cls, func() interface{} { return c })
		if out.err != nil {
			vFail(t, "TestC10_Forward", out.key, c, "%v", out.err)
		}
	})
}
