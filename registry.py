# Registry of checks: property id -> units (test binaries / regexes / budgets per tier).
# Read by ./check. Budgets are case counts (never per-case time limits).

def rapid_unit(name, run, pkg="server", quick=None, thorough=None, **kw):
    u = {"name": name, "pkg": pkg, "run": run, "kind": "rapid"}
    if quick:
        u["quick"] = quick
    if thorough:
        u["thorough"] = thorough
    u.update(kw)
    return u


def plain_unit(name, run, pkg="server", quick=None, thorough=None, **kw):
    u = {"name": name, "pkg": pkg, "run": run, "kind": "plain"}
    u["quick"] = quick or {"shards": 1, "timeout_s": 300}
    u["thorough"] = thorough or u["quick"]
    u.update(kw)
    return u


PROPS = {}

PROPS["C20"] = {
    "level": "exploration",
    "rule": ("rapid-generated operation programs (segments with drawn push/pop bias; push, pushleft, pop, popright, "
             "head/tail/len after every step, iteration, in-place hole + restructuring, resize, freeQueue, and on a drained "
             "queue reset/rellac) over constructor parameters base 1..4, nodes base..base+6, size 1..8 for the three node "
             "deques; holder queue through AddLock/RemoveLock/GetLockedLock; wait queue through AddWaitLock/GetWaitLock with "
             "mixed priorities and lazily discarded answered entries; ring and priority ring; long-wait queue with Remove + "
             "restructuringLong*Queue. Oracle: slice / stable-priority-queue model compared on every return value. "
             "Non-trivial: node deques and long-wait queue - crossed >=2 node boundaries and ran >=1 maintenance operation "
             "on a partially filled queue; holder queue - >7 holders with a released holder still inside the container; "
             "wait queue - >8 waiters and a ring representation reached; rings - grew beyond initial capacity. "
             "Distinct = distinct FNV-64 fingerprints of (kind, parameters, op list)."),
    "assumptions": [
        "Reset and Rellac are only generated on a drained queue (every caller in the tree drains first)",
        "PushLeft may refuse with 'full' exactly when no slot was popped from the front since the last repositioning",
        "Shrink is generated in its own sub-property only (no caller in the tree)",
    ],
    "units": [
        rapid_unit("nodedeque", "^TestC20_NodeDeque_Lock", quick={"checks": 24000, "shards": 8, "timeout_s": 300},
                   thorough={"checks": 1600000, "shards": 16, "timeout_s": 1500}),
        rapid_unit("perkey", "^TestC20_(HolderQueue|WaitQueue|Ring|PriorityRing|LongWaitQueue)$",
                   quick={"checks": 12000, "shards": 6, "timeout_s": 300},
                   thorough={"checks": 600000, "shards": 16, "timeout_s": 1500}),
        rapid_unit("shrink", "^TestC20_NodeDeque_Shrink$", quick={"checks": 2000, "shards": 1, "timeout_s": 120},
                   thorough={"checks": 50000, "shards": 2, "timeout_s": 600}),
        plain_unit("replay", "^TestC20_Replay$", replay=True),
    ],
}
