package server

// Engine R: reply-driven model and oracle (C05 / C06 in real time). Rapid-free, single-threaded, works on the
// recorded stamps only. See harness/notes/ER.md for the derivation of every bound.

import (
	"fmt"
	"math"
	"sort"
	"strings"
	"time"

	"github.com/snower/slock/protocol"
)

const rForever = time.Duration(math.MaxInt64 / 4)

type rReq struct {
	step     int
	op       rStep
	send     *rEv
	ret      *rEv
	terminal []*rEv // every reply that is not an EXPRIED notice
	sync     []bool // parallel to terminal: delivered inside the request's own call
	notices  []*rEv
	hold     *rHold // the hold whose terms this request set (grant, re-lock, update)
}

func (q *rReq) timeoutDur() time.Duration {
	return time.Duration(rDurMs(q.op.T, q.op.TF)) * time.Millisecond
}

func (q *rReq) first(res uint8) *rEv {
	for _, ev := range q.terminal {
		if ev.Res == int(res) {
			return ev
		}
	}
	return nil
}

type rSet struct {
	req  *rReq
	lb   *rEv   // the terms were set no earlier than this stamp
	ub   *rEv   // ... and no later than this one (the reply)
	kind string // grant | queue-grant | relock | update
}

func (s *rSet) ms() bool        { return s.req.op.EF&rEFms != 0 }
func (s *rSet) unlimited() bool { return s.req.op.EF&rEFunlimited != 0 }
func (s *rSet) dur() time.Duration {
	if s.unlimited() {
		return rForever
	}
	return time.Duration(rDurMs(s.req.op.E, s.req.op.EF)) * time.Millisecond
}
func (s *rSet) minute() bool { return !s.ms() && s.req.op.EF&rEFmin != 0 }
func (s *rSet) unit() time.Duration {
	if s.ms() {
		return time.Millisecond
	}
	return time.Second
}

// earliest: the hold must not end by time before this instant (and how stale the server's sampled clock was).
func (s *rSet) earliest() (time.Duration, int64) {
	if s.unlimited() {
		return rForever, 0
	}
	stale := s.lb.UnixS - s.lb.SrvS
	if stale < 0 {
		stale = 0
	}
	if s.ms() {
		// a period >= MILLISECOND_QUEUE_LENGTH ms ends on the second wheel, counted from the sampled clock as it stood
		// when the terms were set: a sampler that the machine kept late shortens it like a second-granularity period
		if s.req.op.E >= MILLISECOND_QUEUE_LENGTH {
			return s.lb.at + s.dur() - time.Duration(stale)*time.Second - time.Duration(s.lb.FracNs) - rMsGranularity, stale
		}
		return s.lb.at + s.dur() - rMsGranularity, 0
	}
	// the statement counts in SERVER time: a period set during server second S may end when the server clock shows S + E,
	// i.e. up to one second (the elapsed part of second S) less than E of wall time after the request
	return s.lb.at + s.dur() - time.Duration(stale)*time.Second - time.Duration(s.lb.FracNs), stale
}

type rHold struct {
	key, id    int
	sets       []*rSet
	notices    []*rEv
	unlocked   *rEv // the unlock reply that released the last level
	superseded *rEv // a later grant of the same LockId on the key with depth 1: this hold had gone
	unlockReqs []*rReq
}

func (h *rHold) last() *rSet { return h.sets[len(h.sets)-1] }
func (h *rHold) live() bool  { return len(h.notices) == 0 && h.unlocked == nil && h.superseded == nil }

// endAt: stamp of the reply that reported the end of the hold (the end itself happened before that stamp).
func (h *rHold) endAt() time.Duration {
	e := rForever
	for _, ev := range []*rEv{h.unlocked, h.superseded} {
		if ev != nil && ev.at < e {
			e = ev.at
		}
	}
	if len(h.notices) > 0 && h.notices[0].at < e {
		e = h.notices[0].at
	}
	return e
}
func (h *rHold) liveAt(at time.Duration) bool { return h.sets[0].ub.at < at && h.endAt() > at }

type rModel struct {
	reqs       []*rReq
	holds      []*rHold
	mismatches []string
	stray      []*rEv
}

// rBuildModel. Pass 1 collects, per request, its stamps and replies in recording order. Pass 2 builds the holds per
// (key, LockId) in SCRIPT order from the outcomes alone: the recording order of two callbacks of different goroutines
// says nothing about the order of the state changes behind them (a goroutine can be descheduled between changing the
// state and reaching its callback), but the server processes the requests of one (key, LockId) in script order - all
// but the last are answered inside their own call (generator rule: a LockId gets no further lock request once one
// with Timeout > 0 was issued for it), and a request is only queued while no hold bears its LockId.
func rBuildModel(c *rCase, evs []*rEv) *rModel {
	m := &rModel{reqs: make([]*rReq, len(c.Script))}
	for i, s := range c.Script {
		if s.K == "lock" || s.K == "unlock" {
			m.reqs[i] = &rReq{step: i, op: s}
		}
	}
	lastByGid := map[int64]*rEv{}
	prevOf := map[*rEv]*rEv{}
	for _, ev := range evs {
		prevOf[ev] = lastByGid[ev.Gid]
		lastByGid[ev.Gid] = ev
		if ev.Kind == "sleep" {
			continue
		}
		if ev.Step < 0 || ev.Step >= len(m.reqs) || m.reqs[ev.Step] == nil {
			m.stray = append(m.stray, ev)
			continue
		}
		q := m.reqs[ev.Step]
		switch ev.Kind {
		case "send":
			q.send = ev
		case "ret":
			q.ret = ev
		case "reply":
			if q.send == nil {
				m.stray = append(m.stray, ev)
			} else if ev.Res == int(protocol.RESULT_EXPRIED) {
				q.notices = append(q.notices, ev)
			} else {
				q.terminal = append(q.terminal, ev)
				q.sync = append(q.sync, q.ret == nil && ev.Gid == q.send.Gid)
			}
		}
	}
	type kid struct{ key, id int }
	cur := map[kid]*rHold{}
	for _, q := range m.reqs {
		if q == nil || q.send == nil || len(q.terminal) == 0 {
			continue
		}
		k := kid{q.op.Key, q.op.Id}
		ev := q.terminal[0]
		h := cur[k]
		if q.op.K == "unlock" {
			if h != nil {
				h.unlockReqs = append(h.unlockReqs, q)
			}
			if ev.Res == int(protocol.RESULT_SUCCED) {
				if h == nil {
					m.mismatches = append(m.mismatches, fmt.Sprintf("unlock #%d succeeded but no request before it obtained id%d on k%d (or the hold was released before)", q.step, q.op.Id, q.op.Key))
				} else if ev.LRCount == 0 {
					h.unlocked = ev
					delete(cur, k)
				}
			}
			continue
		}
		switch ev.Res {
		case int(protocol.RESULT_SUCCED):
			if ev.LRCount == 0 {
				continue // Expried 0: granted and released at once, no hold
			}
			if ev.LRCount >= 2 {
				if h == nil {
					m.mismatches = append(m.mismatches, fmt.Sprintf("re-lock #%d reports depth %d but no request before it obtained id%d on k%d (or the hold was released before)", q.step, ev.LRCount, q.op.Id, q.op.Key))
					continue
				}
				h.sets = append(h.sets, &rSet{q, q.send, ev, "relock"})
				q.hold = h
				continue
			}
			lb, kind := q.send, "grant"
			if !q.sync[0] {
				kind = "queue-grant"
				if prev := prevOf[ev]; prev != nil && prev.at > lb.at {
					lb = prev
				}
			}
			if h != nil {
				h.superseded = ev // depth 1: the earlier hold of this LockId had ended (by time)
			}
			h = &rHold{key: q.op.Key, id: q.op.Id, sets: []*rSet{{q, lb, ev, kind}}}
			q.hold = h
			cur[k] = h
			m.holds = append(m.holds, h)
		case int(protocol.RESULT_LOCKED_ERROR):
			if q.op.F&rFupdate != 0 {
				if h == nil {
					m.mismatches = append(m.mismatches, fmt.Sprintf("update #%d answered LOCKED_ERROR but no request before it obtained id%d on k%d (or the hold was released before)", q.step, q.op.Id, q.op.Key))
					continue
				}
				h.sets = append(h.sets, &rSet{q, q.send, ev, "update"})
				q.hold = h
			}
		}
	}
	for _, q := range m.reqs {
		if q == nil {
			continue
		}
		for _, n := range q.notices {
			if q.hold == nil {
				m.mismatches = append(m.mismatches, fmt.Sprintf("EXPRIED notice for request #%d which never obtained or changed a hold", q.step))
				continue
			}
			q.hold.notices = append(q.hold.notices, n)
		}
	}
	for _, h := range m.holds {
		sort.SliceStable(h.notices, func(i, j int) bool { return h.notices[i].Seq < h.notices[j].Seq })
	}
	return m
}

type rViol struct {
	Key   string
	Class string // order | early | capacity | wake | late
	Msg   string
}

type rInfo struct {
	msTimeouts, msExpiries, secFired, restarts, immediateTimeouts, queueGrants, staleSets int
	wakeChecked, wakeSlow, capacityChecked, ignorableUpdates, unitChanges, longWatched    int
	nontrivial                                                                            bool
}

type rVerdict struct {
	viols     []rViol
	notJudged []string
	discarded string
	info      rInfo
}

func rUnitName(flag int, v int) string {
	switch {
	case flag&rTFms != 0:
		if v >= MILLISECOND_QUEUE_LENGTH {
			return "ms-over-3s"
		}
		return "ms"
	case flag&rTFmin != 0:
		return "min"
	}
	return "s"
}

// rSlotCollision classifies an early firing (it does not decide whether there is one). The millisecond wheels have
// MILLISECOND_QUEUE_LENGTH slots indexed by (now + v) % length and no absolute time per slot: a timer whose slot still
// holds the queue of the millisecond one wheel turn earlier (its goroutine is 3000 - v ms late, or has not yet got the
// shard mutex) joins that queue and fires with it, i.e. within 3000 - v ms (+ lateness) of being filed. Only values
// that end on the millisecond wheel (v < length) and lie in its last 400 ms are given the slug, so that every other
// early firing keeps its generic one.
const rSlotCollisionFrom = MILLISECOND_QUEUE_LENGTH - 400

func rSlotCollision(v int, flag int, elapsed time.Duration, slack time.Duration) bool {
	if flag&rTFms == 0 || v >= MILLISECOND_QUEUE_LENGTH || v <= rSlotCollisionFrom {
		return false
	}
	return elapsed <= time.Duration(MILLISECOND_QUEUE_LENGTH-v)*time.Millisecond+slack
}

func rFmt(d time.Duration) string { return fmt.Sprintf("%.1fms", float64(d)/float64(time.Millisecond)) }

// effective earliest end of a hold given its sets: an update that moves the deadline by at most one unit may be ignored.
func rHoldEarliest(h *rHold) (at time.Duration, stale int64, governing *rSet, ignorable bool) {
	n := len(h.sets) - 1
	at, stale = h.sets[n].earliest()
	governing = h.sets[n]
	for n > 0 && h.sets[n].kind == "update" && rUpdateIgnorable(h.sets[n-1], h.sets[n]) {
		ignorable = true
		a2, s2 := h.sets[n-1].earliest()
		if a2 < at {
			at, stale, governing = a2, s2, h.sets[n-1]
		}
		n--
	}
	return
}

func rUpdateIgnorable(old, upd *rSet) bool {
	if old.unlimited() || upd.unlimited() {
		return old.unlimited() && upd.unlimited()
	}
	oldLo, oldHi := old.lb.at+old.dur(), old.ub.at+old.dur()
	newLo, newHi := upd.lb.at+upd.dur(), upd.ub.at+upd.dur()
	dist := time.Duration(0)
	if newLo > oldHi {
		dist = newLo - oldHi
	} else if oldLo > newHi {
		dist = oldLo - newHi
	}
	tol := time.Millisecond
	if !old.ms() || !upd.ms() {
		tol = 2 * time.Second // whole seconds of the sampled clock: one unit there is up to two seconds of wall time
	}
	if old.minute() || upd.minute() {
		tol = 62 * time.Second
	}
	return dist <= tol+5*time.Millisecond
}

func rUpdateShortens(old, upd *rSet) bool {
	if upd.unlimited() {
		return false
	}
	if old.unlimited() {
		return true
	}
	return upd.lb.at+upd.dur() < old.ub.at+old.dur()
}

func rJudge(c *rCase, run *rRun) *rVerdict {
	v := &rVerdict{}
	if run.Err != "" || run.Panic != "" {
		return v
	}
	if run.Discarded != "" {
		v.discarded = run.Discarded
		return v
	}
	if run.WallDriftUs > 2000 || run.WallDriftUs < -2000 {
		v.discarded = "wall clock and monotonic clock diverged during the case"
		return v
	}
	for _, ev := range run.Events {
		ev.at = time.Duration(ev.AtUs) * time.Microsecond
	}
	m := rBuildModel(c, run.Events)
	end := time.Duration(run.EndUs) * time.Microsecond
	// stalls of running goroutines: consecutive stamps of one goroutine are microseconds of work apart (callback ->
	// wake-up pass -> callback; send -> reply -> return), unless the goroutine was descheduled or had to wait for a
	// mutex whose holder was
	stall := run.StallUs
	lastOf := map[int64]*rEv{}
	for _, ev := range run.Events {
		if p := lastOf[ev.Gid]; p != nil && p.Kind != "sleep" && !(p.Kind == "ret" && ev.Kind != "reply") {
			if d := ev.AtUs - p.AtUs; d > stall {
				stall = d
			}
		}
		lastOf[ev.Gid] = ev
	}
	run.StallUs = stall
	over := run.MaxOvershootUs
	if run.SleepOverUs > over {
		over = run.SleepOverUs
	}
	if stall > over {
		over = stall
	}
	overshoot := time.Duration(over) * time.Microsecond
	loaded := overshoot >= rLoadLimit
	slack := 3 * overshoot
	if slack < rMinSlack {
		slack = rMinSlack
	}
	add := func(class, key, format string, a ...interface{}) {
		v.viols = append(v.viols, rViol{key, class, fmt.Sprintf(format, a...)})
	}

	for _, ev := range m.stray {
		add("order", "C05:rt:stray-reply", "reply %s with a RequestId no outstanding request of this case bears (step %d)", ev.ResName, ev.Step)
	}

	// ---- requests: C05 ----
	for _, q := range m.reqs {
		if q == nil || q.send == nil {
			continue
		}
		if len(q.terminal) > 1 {
			to, ok := q.first(protocol.RESULT_TIMEOUT), q.first(protocol.RESULT_SUCCED)
			switch {
			case to != nil && ok != nil && ok.Seq > to.Seq:
				add("order", "C05:rt:grant-after-timeout", "request #%d (%v) was answered TIMEOUT at %s and SUCCED at %s", q.step, q.op, rFmt(to.at), rFmt(ok.at))
			case to != nil && ok != nil:
				add("order", "C05:rt:timeout-after-grant", "request #%d (%v) was answered SUCCED at %s and TIMEOUT at %s", q.step, q.op, rFmt(ok.at), rFmt(to.at))
			default:
				add("order", "C05:rt:two-terminal-replies", "request #%d (%v) got %d terminal replies", q.step, q.op, len(q.terminal))
			}
		}
		if q.op.K != "lock" {
			if len(q.terminal) == 0 && q.ret != nil {
				add("order", "C05:rt:unlock-unanswered", "unlock #%d (%v) got no reply inside its call", q.step, q.op)
			}
			continue
		}
		T := q.timeoutDur()
		msT := q.op.TF&rTFms != 0
		unit := rUnitName(q.op.TF, q.op.T)
		if len(q.terminal) == 0 {
			if q.ret == nil {
				continue
			}
			if rDurMs(q.op.T, q.op.TF) > rLongMs && end >= q.send.at+time.Duration(rWatchMs(rDurMs(q.op.T, q.op.TF), q.op.TF))*time.Millisecond {
				v.info.longWatched++
			}
			if q.op.T == 0 {
				add("order", "C05:rt:timeout0-not-immediate", "request #%d (%v) has Timeout 0 but got no reply inside its call", q.step, q.op)
				continue
			}
			if limit := q.ret.at + T + 2*time.Second + slack; end > limit {
				add("late", "C05:rt:timeout-never-"+unit, "request #%d (%v) sent at %s was neither granted nor answered TIMEOUT by %s (= return + T + 2 s + slack %s); observed until %s",
					q.step, q.op, rFmt(q.send.at), rFmt(limit), rFmt(slack), rFmt(end))
			}
			continue
		}
		ev := q.terminal[0]
		if ev.Res == int(protocol.RESULT_SUCCED) && !q.sync[0] {
			v.info.queueGrants++
		}
		if ev.Res != int(protocol.RESULT_TIMEOUT) {
			continue
		}
		if q.op.T == 0 {
			v.info.immediateTimeouts++
			if !q.sync[0] {
				add("order", "C05:rt:timeout0-not-immediate", "request #%d (%v) has Timeout 0 but its TIMEOUT arrived outside its call, at %s", q.step, q.op, rFmt(ev.at))
			}
			continue
		}
		if msT {
			v.info.msTimeouts++
		} else {
			v.info.secFired++
		}
		lo := q.send.at + T - rMsGranularity
		stale := q.send.UnixS - q.send.SrvS
		if stale < 0 {
			stale = 0
		}
		switch {
		case !msT:
			// server time: queued during server second S, TIMEOUT admissible once the server clock shows S + T
			lo = q.send.at + T - time.Duration(stale)*time.Second - time.Duration(q.send.FracNs)
		case q.op.T >= MILLISECOND_QUEUE_LENGTH:
			// ends on the second wheel, counted from the sampled clock at the time of queueing (see rSet.earliest)
			lo -= time.Duration(stale)*time.Second + time.Duration(q.send.FracNs)
		default:
			stale = 0
		}
		if stale > 0 {
			v.info.staleSets++
		}
		if ev.at < lo {
			key := "C05:rt:timeout-early-" + unit
			if rSlotCollision(q.op.T, q.op.TF, ev.at-q.send.at, slack) {
				key = "C05:rt:ms-wheel-slot-collision"
			}
			add("early", key, "request #%d (%v): TIMEOUT %s after the request was handed to the server (sent at %s, TIMEOUT stamped at %s); earliest admissible %s (server clock %d s stale at send)",
				q.step, q.op, rFmt(ev.at-q.send.at), rFmt(q.send.at), rFmt(ev.at), rFmt(lo-q.send.at), stale)
		}
		if q.ret != nil {
			if limit := q.ret.at + T + 2*time.Second + slack; ev.at > limit {
				add("late", "C05:rt:timeout-late-"+unit, "request #%d (%v): TIMEOUT %s after the call returned; latest admissible T + 2 s + slack %s", q.step, q.op, rFmt(ev.at-q.ret.at), rFmt(slack))
			}
		}
		// non-triviality: a millisecond time-out fired while another request was queued or held on the key
		if msT && rOthersPresent(m, q, ev) {
			v.info.nontrivial = true
		}
	}

	// ---- holds: C06 ----
	for _, h := range m.holds {
		for i := 1; i < len(h.sets); i++ {
			if h.sets[i].ms() != h.sets[i-1].ms() && !h.sets[i].unlimited() && !h.sets[i-1].unlimited() {
				v.info.unitChanges++
			}
		}
		lo, stale, gov, ign := rHoldEarliest(h)
		if ign {
			v.info.ignorableUpdates++
		}
		if stale > 0 {
			v.info.staleSets++
		}
		last := h.last()
		unit := rUnitName(last.req.op.EF, last.req.op.E)
		if len(h.notices) > 1 {
			add("order", "C06:rt:two-notices", "hold k%d id%d got %d EXPRIED notices", h.key, h.id, len(h.notices))
		}
		if len(h.notices) > 0 && h.unlocked != nil {
			add("order", "C06:rt:notice-and-unlock", "hold k%d id%d was released by unlock (reply at %s) and also got an EXPRIED notice (at %s)", h.key, h.id, rFmt(h.unlocked.at), rFmt(h.notices[0].at))
		}
		if len(h.notices) > 0 {
			n := h.notices[0]
			holderReq := m.reqs[n.Step]
			if n.Client != holderReq.op.C%c.NClients {
				add("order", "C06:rt:notice-wrong-client", "EXPRIED notice of hold k%d id%d (request #%d of client %d) was delivered to client %d", h.key, h.id, n.Step, holderReq.op.C%c.NClients, n.Client)
			}
			if last.ms() {
				v.info.msExpiries++
			} else {
				v.info.secFired++
			}
			if len(h.sets) > 1 {
				v.info.restarts++
			}
			if last.ms() && rOthersPresentHold(m, h, n) {
				v.info.nontrivial = true
			}
			if last.unlimited() && !ign {
				key := "C06:rt:unlimited-expired"
				if last.ms() {
					key += "-ms-flag"
				}
				add("order", key, "hold k%d id%d has the unlimited-expiry flag (request #%d) but got an EXPRIED notice at %s", h.key, h.id, last.req.step, rFmt(n.at))
			} else if n.at < lo {
				key := "C06:rt:expiry-early-" + unit
				what := ""
				if len(h.sets) == 1 && rSlotCollision(gov.req.op.E, gov.req.op.EF, n.at-gov.lb.at, slack) {
					key = "C06:rt:ms-wheel-slot-collision"
				}
				if len(h.sets) > 1 {
					unitChanged := false
					for i := 1; i < len(h.sets); i++ {
						if h.sets[i].ms() != h.sets[i-1].ms() && !h.sets[i].unlimited() && !h.sets[i-1].unlimited() {
							unitChanged = true
						}
					}
					// did the hold end on the schedule of superseded terms?
					for i := len(h.sets) - 2; i >= 0; i-- {
						if o, _ := h.sets[i].earliest(); n.at >= o && h.sets[i] != gov {
							key = "C06:rt:restart-ignored-" + unit
							what = fmt.Sprintf("; it is consistent with the superseded terms of request #%d (%v, set no earlier than %s)", h.sets[i].req.step, h.sets[i].req.op, rFmt(h.sets[i].lb.at))
							break
						}
					}
					if unitChanged {
						key = "C06:rt:expiry-early-after-unit-change"
					}
				}
				add("early", key, "hold k%d id%d: EXPRIED at %s, only %s after its terms were last set by request #%d (%s, %v; handed to the server at %s); earliest admissible %s after (server clock %d s stale)%s",
					h.key, h.id, rFmt(n.at), rFmt(n.at-gov.lb.at), gov.req.step, gov.kind, gov.req.op, rFmt(gov.lb.at), rFmt(lo-gov.lb.at), stale, what)
			}
		}
		if h.live() && !last.unlimited() && rDurMs(last.req.op.E, last.req.op.EF) > rLongMs &&
			end >= last.ub.at+time.Duration(rWatchMs(rDurMs(last.req.op.E, last.req.op.EF), last.req.op.EF))*time.Millisecond {
			v.info.longWatched++
		}
		// late / never
		shortened := false
		for i := 1; i < len(h.sets); i++ {
			if h.sets[i].kind == "update" && (rUpdateShortens(h.sets[i-1], h.sets[i]) || rUpdateIgnorable(h.sets[i-1], h.sets[i])) {
				shortened = true // "within 10 s of the new deadline" / "may be ignored": not observable inside a case
			}
		}
		if !last.unlimited() && !shortened && h.unlocked == nil && h.superseded == nil {
			limit := last.ub.at + last.dur() + 2*time.Second + slack
			if len(h.notices) > 0 {
				if h.notices[0].at > limit {
					add("late", "C06:rt:expiry-late-"+unit, "hold k%d id%d: EXPRIED %s after its terms were set (request #%d %v, reply at %s); latest admissible E + 2 s + slack %s",
						h.key, h.id, rFmt(h.notices[0].at-last.ub.at), last.req.step, last.req.op, rFmt(last.ub.at), rFmt(slack))
				}
			} else if end > limit && len(h.unlockReqs) == 0 {
				add("late", "C06:rt:expiry-never-"+unit, "hold k%d id%d (request #%d %v, terms set by %s) got no EXPRIED notice by %s (= E + 2 s + slack %s); observed until %s",
					h.key, h.id, last.req.step, last.req.op, rFmt(last.ub.at), rFmt(limit), rFmt(slack), rFmt(end))
			}
		}
		if h.superseded != nil && len(h.notices) == 0 {
			if h.superseded.at < lo && len(h.unlockReqs) == 0 {
				add("capacity", "C06:rt:hold-gone-early", "hold k%d id%d (terms by request #%d, earliest admissible end %s) was gone at %s: request #%d obtained the same LockId afresh", h.key, h.id, gov.req.step, rFmt(lo), rFmt(h.superseded.at), h.superseded.Step)
			} else if end > h.superseded.at+slack+200*time.Millisecond && len(h.unlockReqs) == 0 {
				add("late", "C06:rt:expired-without-notice", "hold k%d id%d ended by time (request #%d obtained the same LockId afresh at %s) but no EXPRIED notice arrived by %s", h.key, h.id, h.superseded.Step, rFmt(h.superseded.at), rFmt(end))
			}
		}
	}

	// ---- capacity: a grant proves that enough earlier holds are gone ----
	for _, w := range m.holds {
		g := w.sets[0]
		blockers := 0
		var names []string
		for _, h := range m.holds {
			if h == w || h.key != w.key || h.sets[0].ub.at >= g.lb.at {
				continue // not reported as granted before the earliest moment the grant of w can have happened
			}
			if h.endAt() < g.lb.at {
				continue // reported as ended before the grant can have happened
			}
			skip := false
			for _, u := range h.unlockReqs {
				if u.send.at < g.ub.at {
					skip = true
				}
			}
			for _, s := range h.sets[1:] {
				if s.req.send.at < g.ub.at && s.ub.at > g.lb.at {
					skip = true // its terms were being changed while the grant happened
				}
			}
			if skip {
				continue
			}
			// terms as they stood when the grant happened
			hh := &rHold{sets: nil}
			for _, s := range h.sets {
				if s.ub.at < g.lb.at {
					hh.sets = append(hh.sets, s)
				}
			}
			if len(hh.sets) == 0 {
				continue
			}
			lo, _, _, _ := rHoldEarliest(hh)
			if lo > g.ub.at {
				blockers++
				names = append(names, fmt.Sprintf("k%d id%d (request #%d, cannot end before %s)", h.key, h.id, hh.last().req.step, rFmt(lo)))
			}
		}
		if blockers > 0 {
			v.info.capacityChecked++
		}
		if blockers > g.req.op.Cnt {
			add("capacity", "C06:rt:hold-gone-early", "request #%d (%v) was granted at %s (Count %d) although %d hold(s) on the key cannot have ended by then: %s",
				g.req.step, g.req.op, rFmt(g.ub.at), g.req.op.Cnt, blockers, strings.Join(names, ", "))
		}
	}

	// ---- wake-up after an expiry that empties the key ----
	for _, h := range m.holds {
		if len(h.notices) == 0 {
			continue
		}
		n := h.notices[0]
		lo, _, _, _ := rHoldEarliest(h)
		if n.at < lo {
			continue // already an early expiry
		}
		wakeBy := n.at + slack // by then the wake-up pass has certainly run
		if slack < 250*time.Millisecond {
			wakeBy = n.at + 250*time.Millisecond
		}
		quiet := true
		var head *rReq
		for _, q := range m.reqs {
			if q == nil || q.send == nil || q.op.Key != h.key {
				continue
			}
			if q.ret == nil || (q.ret.at >= lo && q.send.at <= wakeBy) {
				quiet = false
			}
			if q.op.K != "lock" || q.op.T == 0 || q.ret == nil || q.ret.at > n.at {
				continue
			}
			if len(q.terminal) > 0 && q.terminal[0].at < n.at {
				continue
			}
			if head == nil {
				head = q
			}
		}
		if head == nil || !quiet {
			continue
		}
		empty := true
		for _, o := range m.holds {
			// another hold that may have been granted before the notice and is not reported as ended before it
			if o != h && o.key == h.key && o.sets[0].req != head && o.sets[0].lb.at < n.at && o.endAt() > n.at {
				empty = false
			}
		}
		if !empty {
			continue
		}
		earliestTO := head.send.at + head.timeoutDur() - rMsGranularity
		if head.op.TF&rTFms == 0 || head.op.T >= MILLISECOND_QUEUE_LENGTH {
			earliestTO = head.send.at + head.timeoutDur() - time.Duration(head.send.UnixS-head.send.SrvS)*time.Second - time.Duration(head.send.FracNs)
		}
		if earliestTO <= wakeBy+50*time.Millisecond || end <= wakeBy+50*time.Millisecond {
			continue
		}
		v.info.wakeChecked++
		ok := head.first(protocol.RESULT_SUCCED)
		switch {
		case ok != nil && ok.at <= wakeBy:
		case ok != nil:
			v.info.wakeSlow++ // served, which is all the statement asks for
		default:
			out := "is still unanswered"
			if len(head.terminal) > 0 {
				out = fmt.Sprintf("was answered %s at %s", head.terminal[0].ResName, rFmt(head.terminal[0].at))
			}
			add("wake", "C06:rt:no-wakeup-after-expiry", "hold k%d id%d expired (notice at %s) and left the key empty; queued request #%d (%v, sent at %s) was never granted: it %s; observed until %s",
				h.key, h.id, rFmt(n.at), head.step, head.op, rFmt(head.send.at), out, rFmt(end))
		}
	}

	for _, s := range m.mismatches {
		add("order", "C06:rt:replies-inconsistent", "%s", s)
	}

	// ---- load policy ----
	if loaded {
		var keep []rViol
		for _, x := range v.viols {
			switch x.Class {
			case "late", "wake":
				v.notJudged = append(v.notJudged, "late under load (not judged)")
			case "early", "capacity":
				// a timer goroutine that is several hundred ms late can meet the next user of its wheel slot
				v.notJudged = append(v.notJudged, "early under load (not judged)")
			default:
				keep = append(keep, x)
			}
		}
		v.viols = keep
	}
	prio := map[string]int{"order": 0, "early": 1, "capacity": 2, "wake": 3, "late": 4}
	sort.SliceStable(v.viols, func(i, j int) bool { return prio[v.viols[i].Class] < prio[v.viols[j].Class] })
	return v
}

// rOthersPresent: when ev (the TIMEOUT of q) was stamped, was another request queued, or a hold live, on the key?
func rOthersPresent(m *rModel, q *rReq, ev *rEv) bool {
	for _, o := range m.reqs {
		if o == nil || o == q || o.send == nil || o.op.K != "lock" || o.op.Key != q.op.Key || o.send.at > ev.at {
			continue
		}
		if len(o.terminal) == 0 || o.terminal[0].at > ev.at {
			return true // still queued
		}
	}
	for _, h := range m.holds {
		if h.key == q.op.Key && h.liveAt(ev.at) {
			return true
		}
	}
	return false
}

func rOthersPresentHold(m *rModel, h *rHold, ev *rEv) bool {
	for _, o := range m.reqs {
		if o == nil || o.send == nil || o.op.K != "lock" || o.op.Key != h.key || o.send.at > ev.at || o.hold == h {
			continue
		}
		if len(o.terminal) == 0 || o.terminal[0].at > ev.at {
			return true
		}
	}
	for _, o := range m.holds {
		if o != h && o.key == h.key && o.liveAt(ev.at) {
			return true
		}
	}
	return false
}

func rHistory(c *rCase, run *rRun) string {
	var sb strings.Builder
	sb.WriteString(c.String())
	fmt.Fprintf(&sb, "calibration overshoot max %dus, worst stall of a running goroutine %dus, worst script sleep overshoot %dus, observed until %.1fms (tail cap %dms, stopped when idle: %v)\n",
		run.MaxOvershootUs, run.StallUs, run.SleepOverUs, float64(run.EndUs)/1000, run.TailCapMs, run.StoppedEarly)
	for _, ev := range run.Events {
		fmt.Fprintf(&sb, "[%9.3fms g%-6d srv-stale %ds] ", float64(ev.AtUs)/1000, ev.Gid, ev.UnixS-ev.SrvS)
		switch ev.Kind {
		case "sleep":
			fmt.Fprintf(&sb, "#%d sleep until %.3fms\n", ev.Step, float64(ev.EndUs)/1000)
		case "send":
			fmt.Fprintf(&sb, "#%d -> %v\n", ev.Step, c.Script[ev.Step])
		case "ret":
			fmt.Fprintf(&sb, "#%d call returned\n", ev.Step)
		case "reply":
			fmt.Fprintf(&sb, "   <- c%d req#%d %s lcount=%d lrcount=%d\n", ev.Client, ev.Step, ev.ResName, ev.LCount, ev.LRCount)
		}
	}
	return sb.String()
}
