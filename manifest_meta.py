# Human-written part of MANIFEST.json (tools/gen_manifest.py merges it with registry.py).
HOOK_COMMITS = []
NOTES = ("All checks are property-based tests / fuzzing (pgregory.net/rapid v1.3.0 state machines and generators, native go fuzzing "
         "in thorough tiers) against explicit oracles; see DESIGN.md. ./check <id> rebuilds the harness against /repo's working tree "
         "on every invocation (go test -c with -overlay), runs sharded over all cores, writes evidence/<id>.json, and handles "
         "known_findings.json (KNOWN-FINDING lines for listed keys only).")
ENGINES = {
    "Q-queues": {"path": "harness/server/c20_queues_test.go", "props": ["C20"], "kind": "model-based PBT (rapid) of the internal queues against slice / stable priority-queue models"},
}
META = {
    "C20": {
        "engine": "Q-queues",
        "design_ref": "DESIGN.md §5 C20, §4 Engine Q",
        "technique": "model-based property testing (rapid) against a slice deque / stable priority-queue reference model",
        "level_text": ("Exploration: tens of thousands (quick) to millions (thorough) of generated operation programs per queue type, every return "
                       "value compared with a plain slice model; covers all constructor shapes used in the tree plus degenerate ones, every "
                       "node-boundary, growth and representation switch. Sampling, not proof: absence of a counterexample is evidence only."),
        "level_note": ("Trusted: the slice models in the harness; Reset/Rellac only on drained queues (callers' precondition); Shrink checked "
                       "separately and listed as a known finding (dead code)."),
    },
}
_NOT_BUILT = "check not built yet in this session (planned in DESIGN.md); not claimed rather than faked"
NOT_APPLICABLE = {f"C{i:02d}": _NOT_BUILT for i in range(1, 21)}
