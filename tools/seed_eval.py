#!/usr/bin/env python3
"""Confirms and evaluates the seeded changes produced by independent sub-agents.

  tools/seed_eval.py <prop> [--checks C01,C03] [--tier quick]

For every /tmp/seedout-<prop>/changeN.diff (+ demoN_test.go, notes.md):
  1. scratch worktree of /repo HEAD (outside /repo and /verif), demo placed, demo must PASS without the change;
  2. change applied: must compile, the existing suite must pass, the demo must FAIL;
  3. the property's check(s) are run against the changed tree (VERIF_REPO), verdict recorded;
  4. kept as /verif/seeded/<prop>-<N>/ {patch.diff, demo file, notes.md, meta.json}; worktree removed.
"""
import argparse, glob, json, os, re, shutil, subprocess, sys, tempfile, time

VERIF = os.path.dirname(os.path.dirname(os.path.abspath(__file__)))
ENV = dict(os.environ, GOFLAGS="-mod=mod", GOPROXY="off", GOSUMDB="off", GOTOOLCHAIN="local")


def sh(cmd, cwd=None, env=ENV, timeout=1800):
    r = subprocess.run(cmd, shell=True, cwd=cwd, env=env, capture_output=True, text=True, timeout=timeout)
    return r.returncode, (r.stdout + r.stderr)


def demo_target(path):
    src = open(path).read()
    m = re.search(r"^package (\w+)", src, re.M)
    pkg = m.group(1) if m else "server"
    tests = re.findall(r"^func (Test\w+)\(", src, re.M)
    return pkg, tests


def main():
    ap = argparse.ArgumentParser()
    ap.add_argument("prop")
    ap.add_argument("--checks")
    ap.add_argument("--tier", default="quick")
    ap.add_argument("--src")
    ap.add_argument("--tag", default="")
    a = ap.parse_args()
    src = a.src or f"/tmp/seedout-{a.prop}"
    checks = a.checks.split(",") if a.checks else [a.prop]
    for diff in sorted(glob.glob(os.path.join(src, "change*.diff"))):
        n = re.search(r"change(\d+)", diff).group(1)
        demos = sorted(glob.glob(os.path.join(src, f"demo{n}*_test.go")) + glob.glob(os.path.join(src, f"demo{n}*.go")))
        demos = [d for d in dict.fromkeys(demos)]
        meta = {"property": a.prop, "change": os.path.basename(diff), "demo": [os.path.basename(d) for d in demos], "ran": []}
        wt = tempfile.mkdtemp(prefix="verif-seed-")
        os.rmdir(wt)
        rc, out = sh(f"git -C /repo worktree add -q --detach {wt} HEAD")
        if rc != 0:
            print("worktree failed", out)
            continue
        try:
            placed = []
            run_specs = []
            for d in demos:
                pkg, tests = demo_target(d)
                dst = os.path.join(wt, pkg if pkg in ("server", "protocol", "client") else "server", f"zz_seed_{a.prop}_{n}_{os.path.basename(d)}")
                if not dst.endswith("_test.go"):
                    dst = dst[:-3] + "_test.go"
                shutil.copy(d, dst)
                placed.append(dst)
                run_specs.append((pkg, tests))

            def run_demo():
                ok = True
                outs = []
                for pkg, tests in run_specs:
                    rgx = "^(" + "|".join(tests) + ")$" if tests else "."
                    rc, out = sh(f"go test -vet=off -count=1 -run '{rgx}' ./{pkg}", cwd=wt, timeout=900)
                    outs.append(out[-1500:])
                    ok = ok and rc == 0
                sh("rm -f server/append.aof.*", cwd=wt)
                return ok, "\n".join(outs)

            ok0, out0 = run_demo()
            meta["demo_passes_without_change"] = ok0
            meta["ran"].append("go test -run <demo tests> on HEAD: " + ("PASS" if ok0 else "FAIL"))
            rc, out = sh(f"git apply {diff}", cwd=wt)
            if rc != 0:
                meta["error"] = "patch does not apply: " + out[-400:]
                print(json.dumps(meta))
                continue
            rc, out = sh("go build ./...", cwd=wt)
            meta["compiles"] = rc == 0
            # existing suite (demo files temporarily moved away)
            for p in placed:
                os.rename(p, p + ".off")
            rc, out = sh("go test -vet=off -count=1 ./server ./protocol", cwd=wt, timeout=1500)
            meta["existing_suite_passes"] = rc == 0
            meta["ran"].append("go test -vet=off -count=1 ./server ./protocol with the change: " + ("PASS" if rc == 0 else "FAIL"))
            sh("rm -f server/append.aof.*", cwd=wt)
            for p in placed:
                os.rename(p + ".off", p)
            ok1, out1 = run_demo()
            meta["demo_fails_with_change"] = not ok1
            meta["ran"].append("go test -run <demo tests> with the change: " + ("PASS" if ok1 else "FAIL"))
            # our checks against the changed tree (demo files removed so that they do not interfere)
            for p in placed:
                os.remove(p)
            meta["checks"] = {}
            outdir = tempfile.mkdtemp(prefix="verif-seed-out-")
            for chk in checks:
                t0 = time.time()
                env = dict(ENV, VERIF_REPO=wt, VERIF_OUT=outdir)
                r = subprocess.run([os.path.join(VERIF, "check"), chk, "--tier", a.tier], env=env, capture_output=True, text=True)
                verdict = {0: "held (MISSED)", 1: "VIOLATION (caught)", 2: "inconclusive"}.get(r.returncode, str(r.returncode))
                keys = sorted(set(l.split("key=")[1].split()[0] for l in r.stderr.splitlines() if "key=" in l))[:4]
                meta["checks"][chk] = {"verdict": verdict, "wall_s": round(time.time() - t0, 1), "keys": keys}
                meta["ran"].append(f"VERIF_REPO=<worktree with the change> ./check {chk} --tier {a.tier}: {verdict}")
            shutil.rmtree(outdir, ignore_errors=True)
            confirmed = meta.get("compiles") and meta.get("existing_suite_passes") and ok0 and not ok1
            meta["confirmed"] = bool(confirmed)
            dst = os.path.join(VERIF, "seeded", f"{a.prop}-{a.tag + '-' if a.tag else ''}{n}")
            if confirmed:
                os.makedirs(dst, exist_ok=True)
                shutil.copy(diff, os.path.join(dst, "patch.diff"))
                for d in demos:
                    shutil.copy(d, os.path.join(dst, os.path.basename(d)))
                notes = os.path.join(src, "notes.md")
                if os.path.exists(notes):
                    shutil.copy(notes, os.path.join(dst, "notes.md"))
                    txt = open(notes).read()
                    meta["needs_to_manifest"] = "see notes.md (section for change %s)" % n
                json.dump(meta, open(os.path.join(dst, "meta.json"), "w"), indent=1)
            print(json.dumps(meta))
        finally:
            sh(f"git -C /repo worktree remove --force {wt}")
            shutil.rmtree(wt, ignore_errors=True)


if __name__ == "__main__":
    main()
