package server

// C18 "Disconnect semantics: wills run once, nothing leaks or misroutes" - generator, rapid property,
// replay and the child-process entry (executor: c18_engine_test.go).

import (
	"bytes"
	"encoding/json"
	"fmt"
	"os"
	"os/exec"
	"path/filepath"
	"regexp"
	"runtime/debug"
	"sort"
	"strings"
	"testing"
	"time"

	"pgregory.net/rapid"
)

// Failure classes that are known defects of the pinned tree (see harness/notes/C18.md). While a key is
// listed with status "known" the generator excludes its trigger by construction.
const (
	d18KeyRecursion = "C18:binary:init-will-close-stack-overflow"
	d18KeyTextWill  = "C18:text:will-never-executed"
	d18KeyZeroId    = "C18:misrouted:zero-client-id-receives-anonymous-replies"
)

// ---------------------------------------------------------------------------------------------
// generator

type d18GenConn struct {
	idx   int
	text  bool
	cid   int
	atoms []d18Step
}

type d18IssuedLock struct {
	conn, key, id, e int
}

func d18Gen(t *rapid.T, st *vStat) *d18Case {
	knownRec, knownText, knownZero := vIsKnown(d18KeyRecursion), vIsKnown(d18KeyTextWill), vIsKnown(d18KeyZeroId)
	pct := func(label string) int { return rapid.IntRange(0, 99).Draw(t, label) }
	if pct("mode") >= 62 {
		return d18GenChain(t)
	}
	nBase := rapid.IntRange(2, 4).Draw(t, "conns")
	nKeys := rapid.IntRange(1, 3).Draw(t, "keys")
	nextId := 0
	fresh := func() int { nextId++; return nextId - 1 }
	var issued []d18IssuedLock
	nextConn := nBase

	drawLock := func(conn int, will bool) d18Cmd {
		c := d18Cmd{Op: "lock", Key: rapid.IntRange(0, nKeys-1).Draw(t, "key")}
		if will {
			c.Op = "will_lock"
		}
		reusedE := 0
		if !will && len(issued) > 0 && pct("reuse-id") >= 80 {
			l := issued[rapid.IntRange(0, len(issued)-1).Draw(t, "reuse")]
			c.Id, reusedE = l.id, l.e
		} else {
			c.Id = fresh()
		}
		if pct("t0") < 35 {
			c.T = 0
		} else {
			c.T = rapid.IntRange(1, 9).Draw(t, "T")
		}
		c.E = rapid.IntRange(1, 14).Draw(t, "E")
		if reusedE > 0 {
			// a re-entrant request re-states the terms of the hold; a shortened expiry is honoured one sweep
			// late (the wheel slot is not moved) - lock-engine territory (C06), kept out of this check
			c.E = reusedE
		}
		if pct("cnt") >= 65 {
			c.Cnt = rapid.IntRange(1, 2).Draw(t, "Cnt")
		}
		rcp := 30
		if will {
			rcp = 60
		}
		if pct("rc") >= 100-rcp {
			c.Rc = rapid.IntRange(1, 2).Draw(t, "Rc")
		}
		if !will {
			issued = append(issued, d18IssuedLock{conn, c.Key, c.Id, c.E})
		}
		return c
	}
	drawUnlock := func(conn int, will bool) d18Cmd {
		c := d18Cmd{Op: "unlock"}
		if will {
			c.Op = "will_unlock"
		}
		var own []d18IssuedLock
		for _, l := range issued {
			if l.conn == conn {
				own = append(own, l)
			}
		}
		switch {
		case len(own) > 0 && pct("own") < 70:
			l := own[rapid.IntRange(0, len(own)-1).Draw(t, "ownlock")]
			c.Key, c.Id = l.key, l.id
		case len(issued) > 0 && pct("other") < 80:
			l := issued[rapid.IntRange(0, len(issued)-1).Draw(t, "anylock")]
			c.Key, c.Id = l.key, l.id
		default:
			c.Key, c.Id = rapid.IntRange(0, nKeys-1).Draw(t, "key"), fresh()
		}
		if pct("urc") >= 70 {
			c.Rc = 1
		}
		return c
	}

	var conns []*d18GenConn
	mkConn := func(idx int, text bool, cid int, reconnectOf int) *d18GenConn {
		g := &d18GenConn{idx: idx, text: text, cid: cid}
		g.atoms = append(g.atoms, d18Step{K: "open", C: idx, Text: text})
		var cmds []d18Cmd
		if cid >= 0 {
			cmds = append(cmds, d18Cmd{Op: "init", Cid: cid})
		}
		nBody := rapid.IntRange(0, 8).Draw(t, "body")
		if reconnectOf >= 0 {
			nBody = rapid.IntRange(0, 3).Draw(t, "rbody")
		}
		nWill, maxWill := 0, rapid.IntRange(0, 5).Draw(t, "wills")
		if text && knownText {
			if maxWill > 0 {
				st.Exclude("will on a text connection (" + d18KeyTextWill + ")")
			}
			maxWill = 0
		}
		for i := 0; i < nBody; i++ {
			p := pct("kind")
			switch {
			case p >= 65 && nWill < maxWill:
				nWill++
				if pct("wl") < 55 {
					cmds = append(cmds, drawLock(idx, true))
				} else {
					cmds = append(cmds, drawUnlock(idx, true))
				}
			case p < 45 || p >= 65:
				lc := drawLock(idx, false)
				kaFrom := 84
				if text {
					kaFrom = 68
				}
				// only on connections without a client id: a dead connection's proxy that a successor adopted
				// sees the successor's stream, so whether its keep-alive request is renewed depends on whether
				// some other late reply happened to be delivered first (observation in notes/C18.md, not judged)
				if lc.T > 0 && cid < 0 && pct("keepalive") >= kaFrom {
					lc.KA = true // keep-alive time-out: the queued request is renewed while its connection lives
				}
				cmds = append(cmds, lc)
			default:
				cmds = append(cmds, drawUnlock(idx, false))
			}
		}
		for len(cmds) > 0 {
			n := rapid.IntRange(1, 3).Draw(t, "group")
			if n > len(cmds) {
				n = len(cmds)
			}
			s := d18Step{K: "send", C: idx, Cmds: append([]d18Cmd{}, cmds[:n]...)}
			if !text && n > 1 && pct("batch") >= 65 {
				s.Batch = true
			}
			g.atoms = append(g.atoms, s)
			cmds = cmds[n:]
		}
		if reconnectOf < 0 || pct("rclose") >= 50 {
			hows := []string{"eof", "eof", "magic", "version", "server", "server", "eof+server", "proto-race"}
			g.atoms = append(g.atoms, d18Step{K: "close", C: idx, How: hows[rapid.IntRange(0, len(hows)-1).Draw(t, "how")], Twice: pct("twice") >= 65})
		}
		return g
	}
	for i := 0; i < nBase; i++ {
		text := pct("text") >= 70
		cid := -1
		if !text && pct("init") >= 45 {
			cid = rapid.IntRange(0, 1).Draw(t, "cid")
			if pct("zero") >= 92 {
				if knownZero {
					st.Exclude("INIT with the all-zero client id (" + d18KeyZeroId + ")")
				} else {
					cid = 2
				}
			}
		}
		g := mkConn(i, text, cid, -1)
		conns = append(conns, g)
		if !text && pct("reconnect") >= 55 {
			// a successor: same client id if the connection announced one
			r := mkConn(nextConn, false, cid, i)
			nextConn++
			g.atoms = append(g.atoms, r.atoms...)
		}
	}
	// interleave
	c := &d18Case{}
	for {
		var live []*d18GenConn
		for _, g := range conns {
			if len(g.atoms) > 0 {
				live = append(live, g)
			}
		}
		if len(live) == 0 {
			break
		}
		if pct("tick") >= 78 {
			c.Steps = append(c.Steps, d18Step{K: "tick", N: rapid.IntRange(1, 6).Draw(t, "N")})
			continue
		}
		g := live[rapid.IntRange(0, len(live)-1).Draw(t, "who")]
		c.Steps = append(c.Steps, g.atoms[0])
		g.atoms = g.atoms[1:]
	}
	if pct("endtick") >= 40 {
		c.Steps = append(c.Steps, d18Step{K: "tick", N: rapid.IntRange(1, 12).Draw(t, "N")})
	}
	if knownRec {
		if n := d18StripRecursive(c); n > 0 {
			st.Exclude("wills of a binary connection that is registered under its own client id when it closes (" + d18KeyRecursion + ")")
		}
	}
	return c
}

// d18GenChain: one client id used by 2..7 successive binary connections ("reconnects"), some of them
// overlapping (the successor announces the id while its predecessor is still open). Every member leaves
// 0..3 requests queued behind holds of a blocker connection (one private key per request, so the script
// decides when which request completes: the blocker unlocks that key) or with a short timeout, and holds
// with short expiries. Completions, clock ticks and the server's session check (which trims the proxies a
// connection adopted from its predecessors) are drawn between the members' lives; after the fourth member
// a "burst" completes one request of every earlier member so that one connection adopts many proxies.
func d18GenChain(t *rapid.T) *d18Case {
	pct := func(label string) int { return rapid.IntRange(0, 99).Draw(t, label) }
	const blocker = 50
	n := rapid.IntRange(2, 7).Draw(t, "chain")
	if pct("long") >= 50 && n < 5 {
		n = rapid.IntRange(5, 7).Draw(t, "chainlong")
	}
	// deep variant: long chain, every member leaves >= 2 requests, nothing completes before a drawn member
	// (the fifth or a later one) whose burst lets it adopt the proxies of all its predecessors
	deep, burstAt := pct("deep") >= 60, -1
	if deep {
		n = rapid.IntRange(6, 7).Draw(t, "deepchain")
		burstAt = rapid.IntRange(4, n-2).Draw(t, "burstAt")
	}
	cid := rapid.IntRange(0, 1).Draw(t, "cid")
	nextKey, nextId := 0, 0
	type pend struct{ member, key, bid int }
	var pool []pend
	var blockLocks []d18Cmd
	members := make([][]d18Cmd, n)
	for i := 0; i < n; i++ {
		q := 0
		switch p := pct("q"); {
		case p < 12:
			q = 0
		case p < 30:
			q = 1
		case p < 65:
			q = 2
		default:
			q = 3
		}
		if deep && q < 2 {
			q = 2
		}
		cmds := []d18Cmd{{Op: "init", Cid: cid}}
		for j := 0; j < q; j++ {
			key := nextKey
			nextKey++
			rid := nextId
			nextId++
			if pct("byTimeout") >= 80 && !(deep && j < 2) {
				// ends by TIMEOUT at a drawn later clock second; the key is held by the blocker for good
				bid := nextId
				nextId++
				blockLocks = append(blockLocks, d18Cmd{Op: "lock", Key: key, Id: bid, T: 0, E: 300})
				cmds = append(cmds, d18Cmd{Op: "lock", Key: key, Id: rid, T: rapid.IntRange(2, 12).Draw(t, "T"), E: rapid.IntRange(1, 4).Draw(t, "E")})
				continue
			}
			bid := nextId
			nextId++
			blockLocks = append(blockLocks, d18Cmd{Op: "lock", Key: key, Id: bid, T: 0, E: 300})
			cmds = append(cmds, d18Cmd{Op: "lock", Key: key, Id: rid, T: rapid.IntRange(60, 120).Draw(t, "Tlong"), E: rapid.IntRange(1, 4).Draw(t, "E")})
			pool = append(pool, pend{i, key, bid})
		}
		if pct("hold") >= 60 {
			cmds = append(cmds, d18Cmd{Op: "lock", Key: nextKey, Id: nextId, T: 0, E: rapid.IntRange(1, 5).Draw(t, "Ehold")})
			nextKey++
			nextId++
		}
		members[i] = cmds
	}
	c := &d18Case{}
	c.Steps = append(c.Steps, d18Step{K: "open", C: blocker})
	for len(blockLocks) > 0 {
		k := 3
		if k > len(blockLocks) {
			k = len(blockLocks)
		}
		c.Steps = append(c.Steps, d18Step{K: "send", C: blocker, Cmds: append([]d18Cmd{}, blockLocks[:k]...), Batch: k > 1 && pct("bbatch") >= 50})
		blockLocks = blockLocks[k:]
	}
	closed := make([]bool, n)
	complete := func(i int) {
		p := pool[i]
		pool = append(pool[:i], pool[i+1:]...)
		c.Steps = append(c.Steps, d18Step{K: "send", C: blocker, Cmds: []d18Cmd{{Op: "unlock", Key: p.key, Id: p.bid}}})
	}
	slot := func(cur int, allowBurst bool) {
		if deep && cur < burstAt {
			if pct("dtick") >= 80 {
				c.Steps = append(c.Steps, d18Step{K: "tick", N: 1})
			}
			return
		}
		if allowBurst && cur >= 3 && (pct("burst") >= 45 || cur == burstAt) {
			seen := map[int]bool{}
			for i := 0; i < len(pool); {
				if m := pool[i].member; m < cur && closed[m] && !seen[m] {
					seen[m] = true
					complete(i)
					continue
				}
				i++
			}
		} else {
			for k := rapid.IntRange(0, 2).Draw(t, "completions"); k > 0 && len(pool) > 0; k-- {
				complete(rapid.IntRange(0, len(pool)-1).Draw(t, "which"))
			}
		}
		if pct("session") >= 50 || (allowBurst && cur == burstAt && pct("dsession") >= 15) {
			c.Steps = append(c.Steps, d18Step{K: "session"})
		}
		if pct("tick") >= 70 {
			c.Steps = append(c.Steps, d18Step{K: "tick", N: rapid.IntRange(1, 3).Draw(t, "N")})
		}
	}
	hows := []string{"eof", "eof", "magic", "version", "server", "server", "eof+server", "proto-race"}
	closeStep := func(i int) {
		c.Steps = append(c.Steps, d18Step{K: "close", C: i, How: hows[rapid.IntRange(0, len(hows)-1).Draw(t, "how")], Twice: pct("twice") >= 70})
		closed[i] = true
	}
	prevOpen := -1
	for i := 0; i < n; i++ {
		c.Steps = append(c.Steps, d18Step{K: "open", C: i})
		cmds := members[i]
		for first := true; len(cmds) > 0; first = false {
			k := rapid.IntRange(1, 3).Draw(t, "group")
			if first {
				k = 1 // the INIT alone: the predecessor of an overlapping pair closes right behind it
			}
			if k > len(cmds) {
				k = len(cmds)
			}
			c.Steps = append(c.Steps, d18Step{K: "send", C: i, Cmds: append([]d18Cmd{}, cmds[:k]...), Batch: k > 1 && pct("batch") >= 65})
			cmds = cmds[k:]
			if first && prevOpen >= 0 {
				if pct("lateclose") >= 50 {
					slot(i, false) // completions while both announcers are open
				}
				closeStep(prevOpen)
				prevOpen = -1
			}
		}
		slot(i, true)
		if i < n-1 && pct("overlap") >= 70 && !(deep && pct("doverlap") < 70) {
			prevOpen = i
			continue
		}
		if i == n-1 && pct("keeplast") >= 50 {
			break
		}
		closeStep(i)
		if pct("orphan") >= 70 {
			slot(i, false) // completions while nobody holds the id
		}
	}
	for k := rapid.IntRange(0, 3).Draw(t, "tail"); k > 0; k-- {
		slot(n, false)
	}
	return c
}

// d18StripRecursive replays the INIT bookkeeping of the server (slock.clients) over the step list and
// removes the will registrations of every binary connection that would still be registered under its
// own client id at its close (or at the final drain). Returns the number of connections changed.
func d18StripRecursive(c *d18Case) int {
	type cs struct {
		text, inited, closed bool
		cid                  int
		wills                int
	}
	for {
		st := map[int]*cs{}
		var order []int
		table := map[int]int{}
		bad := -1
		check := func(idx int) bool {
			s := st[idx]
			if s == nil || s.closed {
				return false
			}
			if !s.text && s.inited && s.wills > 0 {
				if o, ok := table[s.cid]; ok && o == idx {
					return true
				}
			}
			return false
		}
		for _, sp := range c.Steps {
			switch sp.K {
			case "open":
				if st[sp.C] == nil {
					st[sp.C] = &cs{text: sp.Text, cid: -1}
					order = append(order, sp.C)
				}
			case "send":
				s := st[sp.C]
				if s == nil || s.closed || s.text {
					continue
				}
				for _, cm := range sp.Cmds {
					if cm.Op == "init" {
						if s.inited {
							if o, ok := table[s.cid]; ok && o == sp.C {
								delete(table, s.cid)
							}
						}
						s.inited, s.cid = true, cm.Cid
						table[cm.Cid] = sp.C
					}
					if cm.isWill() {
						s.wills++
					}
				}
			case "close":
				s := st[sp.C]
				if s == nil || s.closed {
					continue
				}
				if check(sp.C) {
					bad = sp.C
				}
				if s.inited {
					if o, ok := table[s.cid]; ok && o == sp.C {
						delete(table, s.cid)
					}
				}
				s.closed = true
			}
			if bad >= 0 {
				break
			}
		}
		if bad < 0 {
			// the drain closes what is left, in order of opening
			for _, i := range order {
				if check(i) {
					bad = i
					break
				}
				if s := st[i]; !s.closed && s.inited {
					if o, ok := table[s.cid]; ok && o == i {
						delete(table, s.cid)
					}
				}
			}
		}
		if bad < 0 {
			return 0
		}
		for i := range c.Steps {
			if c.Steps[i].K == "send" && c.Steps[i].C == bad {
				var keep []d18Cmd
				for _, cm := range c.Steps[i].Cmds {
					if !cm.isWill() {
						keep = append(keep, cm)
					}
				}
				c.Steps[i].Cmds = keep
			}
		}
		n := d18StripRecursive(c)
		return n + 1
	}
}

// ---------------------------------------------------------------------------------------------
// child process (a Go stack overflow kills the process; the suspect close is executed in a child)

type d18ChildResult struct {
	Key string `json:"key"`
	Msg string `json:"msg"`
}

func TestC18_Child(t *testing.T) {
	path := os.Getenv("VERIF_C18_CHILD")
	if path == "" {
		return
	}
	debug.SetMaxStack(48 << 20)
	var c d18Case
	b, err := os.ReadFile(path)
	if err == nil {
		err = json.Unmarshal(b, &c)
	}
	if err != nil {
		fmt.Printf("VERIF-C18-CHILD-ERROR %v\n", err)
		return
	}
	_, viol, err := d18Check(&c, true)
	res := d18ChildResult{}
	if err != nil {
		fmt.Printf("VERIF-C18-CHILD-ERROR %v\n", err)
		return
	}
	if viol != nil {
		res.Key, res.Msg = viol.Key, viol.Msg
	}
	out, _ := json.Marshal(res)
	fmt.Printf("VERIF-C18-CHILD-RESULT %s\n", out)
}

var d18ChildSeq int

var d18StackRe = regexp.MustCompile(`(?m)^github\.com/snower/slock/server\.[^\n]+`)

// d18RunChild executes the case without the recursion guard in a child process.
func d18RunChild(c *d18Case) (*d18Violation, error) {
	dir := os.Getenv("VERIF_DATADIR")
	if dir == "" {
		dir = os.TempDir()
	}
	_ = os.MkdirAll(dir, 0755)
	d18ChildSeq++
	path := filepath.Join(dir, fmt.Sprintf("c18-child-%d-%d.json", os.Getpid(), d18ChildSeq))
	b, _ := json.Marshal(c)
	if err := os.WriteFile(path, b, 0644); err != nil {
		return nil, err
	}
	defer os.Remove(path)
	cmd := exec.Command(os.Args[0], "-test.run", "^TestC18_Child$", "-test.timeout", "120s")
	env := []string{}
	for _, kv := range os.Environ() {
		if strings.HasPrefix(kv, "VERIF_STATS=") || strings.HasPrefix(kv, "VERIF_FAILDIR=") || strings.HasPrefix(kv, "VERIF_C18_CHILD=") {
			continue
		}
		env = append(env, kv)
	}
	cmd.Env = append(env, "VERIF_C18_CHILD="+path)
	var out bytes.Buffer
	cmd.Stdout, cmd.Stderr = &out, &out
	done := make(chan error, 1)
	if err := cmd.Start(); err != nil {
		return nil, err
	}
	go func() { done <- cmd.Wait() }()
	select {
	case <-done:
	case <-time.After(150 * time.Second):
		_ = cmd.Process.Kill()
		return nil, fmt.Errorf("child process did not finish")
	}
	s := out.String()
	if i := strings.Index(s, "VERIF-C18-CHILD-RESULT "); i >= 0 {
		line := s[i+len("VERIF-C18-CHILD-RESULT "):]
		if j := strings.IndexByte(line, '\n'); j >= 0 {
			line = line[:j]
		}
		var r d18ChildResult
		if err := json.Unmarshal([]byte(line), &r); err != nil {
			return nil, err
		}
		if r.Key == "" {
			return nil, nil
		}
		return &d18Violation{Key: r.Key, Msg: r.Msg}, nil
	}
	if strings.Contains(s, "VERIF-INCONCLUSIVE") || strings.Contains(s, "VERIF-C18-CHILD-ERROR") {
		return nil, fmt.Errorf("child inconclusive: %s", d18Head(s, 600))
	}
	if strings.Contains(s, "stack overflow") || strings.Contains(s, "goroutine stack exceeds") {
		// the repeating frames
		seen := map[string]bool{}
		var fr []string
		for _, m := range d18StackRe.FindAllString(s, 400) {
			if j := strings.LastIndex(m, "("); j > 0 {
				m = m[:j]
			}
			if !seen[m] {
				seen[m] = true
				fr = append(fr, "  "+m)
			}
			if len(fr) >= 8 {
				break
			}
		}
		return &d18Violation{Key: d18KeyRecursion, Msg: "the server process dies with 'fatal error: stack overflow' (not recoverable) when the connection closes: unbounded recursion through\n" +
			strings.Join(fr, "\n") + "\ncase:\n" + c.String()}, nil
	}
	return &d18Violation{Key: "C18:fatal:process-died-at-close", Msg: "the process executing the case died:\n" + d18Head(s, 3000) + "\ncase:\n" + c.String()}, nil
}

func d18Head(s string, n int) string {
	if len(s) > n {
		return s[:n] + "..."
	}
	return s
}

// d18CheckFull = in-process check, with the detour through a child process for closes that are
// predicted to kill the process.
var d18GuardOff, d18CanaryDone bool

// d18Canary: the minimal trigger of the recursion (INIT, one WILL_LOCK on a free key, EOF) executed in a
// child process once per test process. If the child survives, the tree under test does not have the
// defect and the guard (with its detour through child processes) is switched off.
func d18Canary() {
	if d18CanaryDone {
		return
	}
	d18CanaryDone = true
	c := &d18Case{Steps: []d18Step{
		{K: "open", C: 0},
		{K: "send", C: 0, Cmds: []d18Cmd{{Op: "init", Cid: 0}, {Op: "will_lock", Key: 0, Id: 0, T: 0, E: 10}}},
		{K: "close", C: 0, How: "eof"},
	}}
	viol, err := d18RunChild(c)
	if err == nil && viol == nil {
		d18GuardOff = true
	}
}

func d18CheckFull(c *d18Case) (d18Info, *d18Violation, error) {
	info, viol, err := d18Check(c, d18GuardOff)
	if err != nil || viol != nil || !info.NeedChild {
		return info, viol, err
	}
	d18Canary()
	if d18GuardOff {
		return d18Check(c, true)
	}
	viol, err = d18RunChild(c)
	if err != nil {
		return info, nil, err
	}
	if viol != nil {
		return info, viol, nil
	}
	// the prediction was wrong (no will produced a reply): safe to run in-process
	return d18Check(c, true)
}

// ---------------------------------------------------------------------------------------------
// property

func d18Classes(info *d18Info) []string {
	var out []string
	for k := range info.Classes {
		out = append(out, k)
	}
	sort.Strings(out)
	if info.NontrivCloses > 0 {
		out = append(out, "nontrivial:close-with-will-and-queued-request")
	}
	if info.Expired > 0 {
		out = append(out, "EXPRIED-notice-seen")
	}
	if info.TimedOut > 0 {
		out = append(out, "TIMEOUT-seen")
	}
	if info.Deferred > 0 {
		out = append(out, "close-deferred-behind-text-lock-wait")
	}
	if info.NeedChild {
		out = append(out, "executed-in-child-process")
	}
	return out
}

func TestC18_Disconnect(t *testing.T) {
	st := vstat("TestC18_Disconnect")
	rapid.Check(t, func(t *rapid.T) {
		c := d18Gen(t, st)
		info, viol, err := d18CheckFull(c)
		st.Case(info.NontrivCloses > 0, c.fingerprint(), d18Classes(&info), func() interface{} { return c })
		if err != nil {
			d18Abort(err.Error())
		}
		if viol != nil {
			vFail(t, "TestC18_Disconnect", viol.Key, c, "%s", viol.Msg)
		}
	})
}

func TestC18_Replay(t *testing.T) {
	for _, f := range vReplayFiles("C18") {
		var c d18Case
		key, err := vLoadReplay(f, &c)
		if err != nil {
			t.Fatalf("cannot load replay %s: %v", f, err)
		}
		_, viol, err := d18CheckFull(&c)
		if err != nil {
			fmt.Printf("VERIF-NOTE replay %s inconclusive: %v\n", f, err)
			continue
		}
		got, msg := "", "no violation"
		if viol != nil {
			got, msg = " observed-key="+viol.Key, d18Head(strings.ReplaceAll(viol.Msg, "\n", " | "), 700)
		}
		fmt.Printf("VERIF-KF key=%s reproduced=%v file=%s%s %s\n", key, viol != nil && viol.Key == key, f, got, msg)
	}
	_ = os.Stdout.Sync()
}
