package server

// C10, role changes as the arbiter performs them: ReplicationManager.SwitchToFollower("") (member left without a
// leader), SwitchToLeader() (member won), SwitchToFollower("") / SwitchToFollower(addr) (member deposed). A case is
// a sequence of such calls on the second node of a cluster (it starts as a follower of the first); after every call
// the node is either the leader (the last call was SwitchToLeader) or it is not - and then SLock.state and every
// LockDB.status must say so, a request handed to its database must be refused with STATE_ERROR and must leave the
// lock table as it was, and (while it has no leader address, hence no stream) a request over TCP - refused or forwarded - must not move its table either.
// Executed by TestC10_Forward (n10Case.Roles non-empty).

import (
	"fmt"
	"reflect"
	"strings"
	"time"

	"github.com/snower/slock/protocol"
)

const n10KeyDeposed = "C10:deposed-node-keeps-deciding"

func n10RunRoles(c *n10Case) (out n10Out) {
	e, why := n10Cluster(c.Preload, false)
	if e == nil {
		out.info.inconclusive = why
		return
	}
	defer func() {
		if r := recover(); r != nil {
			out.err = fmt.Errorf("panic in the harness goroutine: %v\n%s", r, vRepoFrames())
			out.key = "C10:panic"
		}
		e.close()
	}()
	node := e.slots[0].node
	sl := node.inst.slock
	mgr := sl.replicationManager
	proxyAddr := e.slots[0].proxy.addr
	direct := NewMemWaiterServerProtocol(sl)
	var reply *n10Reply
	_ = direct.SetResultCallback(func(_ *MemWaiterServerProtocol, cmd *protocol.LockCommand, result uint8, lcount uint16, lrcount uint8, data []byte) error {
		reply = &n10Reply{Result: result, LCount: lcount, LRCount: lrcount}
		return nil
	})
	defer direct.Close()
	var log []string
	fail := func(key, format string, a ...interface{}) {
		out.key = key
		out.err = fmt.Errorf("%s\n  role calls on the second node (it started as a follower of the first):\n    %s\n  its table now:\n%s", fmt.Sprintf(format, a...), strings.Join(log, "\n    "), n09DescribeState(n09Canon(sl, false)))
	}
	poke := 0
	wasLeader := false
	// the table without the harness' own poke key (its record may still be on its way through the ended client's pipelines)
	canon := func() map[string]*n09KeyState {
		m := n09Canon(sl, false)
		delete(m, "db0/key41")
		return m
	}
	for i, role := range c.Roles {
		done := make(chan error, 1)
		go func() {
			switch role {
			case "leader":
				done <- mgr.SwitchToLeader()
			case "follower-empty":
				done <- mgr.SwitchToFollower("")
			default:
				done <- mgr.SwitchToFollower(proxyAddr)
			}
		}()
		var cerr error
		waited := 0
	wait:
		for {
			select {
			case cerr = <-done:
				break wait
			case <-time.After(100 * time.Millisecond):
				// ReplicationClient.End lets a connected client finish at its next record: give it one
				waited++
				if waited > 100 {
					out.info.inconclusive = fmt.Sprintf("role call %d (%s) did not return within 10 s", i, role)
					return
				}
				poke++
				if poke%2 == 1 {
					e.send(n09Op{K: "lock", Key: 40, Id: 4, E: 600, EF: 0x0100})
				} else {
					e.send(n09Op{K: "unlock", Key: 40, Id: 4})
				}
			}
		}
		out.info.stateSwitches++
		isLeader := role == "leader"
		log = append(log, fmt.Sprintf("#%d %s -> err=%v; SLock.state=%d leaderAddress=%q isLeader=%v", i, role, cerr, sl.state, mgr.leaderAddress, mgr.isLeader))
		if isLeader {
			wasLeader = true
			reply = nil
			cmd := n10Command(&n09Op{K: "lock", Key: 30 + i, Id: 3, E: 600, EF: 0x0100}, 200000+i)
			_ = sl.GetOrNewDB(0).Lock(direct, cmd, 0)
			if reply != nil {
				log = append(log, fmt.Sprintf("#%d   as leader: lock key %d -> %s", i, 30+i, aResultName(reply.Result)))
				if reply.Result == protocol.RESULT_SUCCED {
					out.info.forwarded++ // "decided": counted as the non-refusal half of the non-triviality rule
				}
			}
			continue
		}
		if wasLeader {
			out.info.deposed++
		}
		// deposed / leaderless: nothing on this node may decide any more
		if sl.state == STATE_LEADER {
			fail(n10KeyDeposed, "call %d (%s) returned, but SLock.state still is LEADER", i, role)
			return
		}
		for id, db := range sl.dbs {
			if db != nil && db.status == STATE_LEADER {
				fail(n10KeyDeposed, "call %d (%s) returned, but LockDB %d still has status LEADER", i, role, id)
				return
			}
		}
		if role == "follower-addr" {
			// it resynchronises with the first node now: let that finish so that the bracket below sees a quiet table
			target, _ := e.leaderTarget()
			if why := e.waitCaughtUp(0, target); why != "" {
				out.info.inconclusive = why
				return
			}
		}
		before := canon()
		reply = nil
		cmd := n10Command(&n09Op{K: "lock", Key: 30 + i, Id: 3, E: 600, EF: 0x0100}, 200000+i)
		_ = sl.GetOrNewDB(0).Lock(direct, cmd, 0)
		out.info.direct++
		switch {
		case reply == nil:
			fail(n10KeyDeposed, "call %d (%s): a lock request on the deposed node was not answered at once (queued?)", i, role)
			return
		case reply.Result != protocol.RESULT_STATE_ERROR:
			log = append(log, fmt.Sprintf("#%d   lock key %d -> %s", i, 30+i, aResultName(reply.Result)))
			fail(n10KeyDeposed, "call %d (%s): a lock request on the deposed node was answered %s instead of STATE_ERROR", i, role, aResultName(reply.Result))
			return
		}
		out.info.refused++
		if after := canon(); !reflect.DeepEqual(before, after) {
			fail(n10KeyDeposed, "call %d (%s): the refused request changed the deposed node's table\n  before:\n%s", i, role, n09DescribeState(before))
			return
		}
		if role == "follower-empty" {
			conn, derr := n10Dial(node.addr, false)
			if derr == nil {
				rp := conn.do(&n09Op{K: "lock", Key: 31 + i, Id: 3, E: 600, EF: 0x0100})
				conn.close()
				log = append(log, fmt.Sprintf("#%d   tcp lock key %d -> %v", i, 31+i, rp))
				// refused, or forwarded to the leader its forwarding layer still knows: either is fine - but this node has no
				// replication stream now, so whatever the answer its own table must not move
				if after := canon(); !reflect.DeepEqual(before, after) {
					fail(n10KeyDeposed, "call %d (%s): a request over TCP changed the leaderless node's own table (answer %v)\n  before:\n%s", i, role, rp, n09DescribeState(before))
					return
				}
			}
		}
	}
	return
}
