# Registry of checks: property id -> units (test binaries / regexes / budgets per tier).
# Read by ./check. Budgets are case counts (never per-case time limits).

def rapid_unit(name, run, pkg="server", quick=None, thorough=None, **kw):
    u = {"name": name, "pkg": pkg, "run": run, "kind": "rapid"}
    if quick:
        u["quick"] = quick
    if thorough:
        u["thorough"] = thorough
    u.update(kw)
    return u


def plain_unit(name, run, pkg="server", quick=None, thorough=None, **kw):
    u = {"name": name, "pkg": pkg, "run": run, "kind": "plain"}
    u["quick"] = quick or {"shards": 1, "timeout_s": 900}
    u["thorough"] = thorough or u["quick"]
    u.update(kw)
    return u


PROPS = {}

PROPS["C20"] = {
    "level": "exploration",
    "rule": ("rapid-generated operation programs (segments with drawn push/pop bias; push, pushleft, pop, popright, "
             "head/tail/len after every step, iteration, in-place hole + restructuring, resize, freeQueue, and on a drained "
             "queue reset/rellac) over constructor parameters base 1..4, nodes base..base+6, size 1..8 for the three node "
             "deques; holder queue through AddLock/RemoveLock/GetLockedLock; wait queue through AddWaitLock/GetWaitLock with "
             "mixed priorities and lazily discarded answered entries; ring and priority ring; long-wait queue with Remove + "
             "restructuringLong*Queue. Oracle: slice / stable-priority-queue model compared on every return value. "
             "Non-trivial: node deques and long-wait queue - crossed >=2 node boundaries and ran >=1 maintenance operation "
             "on a partially filled queue; holder queue - >7 holders with a released holder still inside the container; "
             "wait queue - >8 waiters and a ring representation reached; rings - grew beyond initial capacity. "
             "Distinct = distinct FNV-64 fingerprints of (kind, parameters, op list)."),
    "assumptions": [
        "Reset and Rellac are only generated on a drained queue (every caller in the tree drains first)",
        "PushLeft may refuse with 'full' exactly when no slot was popped from the front since the last repositioning",
        "Shrink is generated in its own sub-property only (no caller in the tree)",
    ],
    "units": [
        rapid_unit("nodedeque", "^TestC20_NodeDeque_Lock", quick={"checks": 24000, "shards": 8, "timeout_s": 900},
                   thorough={"checks": 800000, "shards": 16, "timeout_s": 3600}),
        rapid_unit("perkey", "^TestC20_(HolderQueue|WaitQueue|Ring|PriorityRing|LongWaitQueue)$",
                   quick={"checks": 12000, "shards": 6, "timeout_s": 900},
                   thorough={"checks": 300000, "shards": 16, "timeout_s": 3600}),
        rapid_unit("shrink", "^TestC20_NodeDeque_Shrink$", quick={"checks": 2000, "shards": 1, "timeout_s": 900},
                   thorough={"checks": 50000, "shards": 2, "timeout_s": 3600}),
        plain_unit("replay", "^TestC20_Replay$", replay=True),
    ],
}

# ------------------------------------------------------------------------------------------------
# Engine A (sequential lock engine under a virtual clock): C01..C06, C15, C17

_A_GEN = ("rapid state-machine style generation against one fresh leader instance per case (db_concurrent in {1,2,4}, "
          "db_fast_key_count in {1,4,64} so that fast-slot collisions and the slow key map are common, aof time in {0,1}), 1..4 "
          "in-memory clients, 3..70 operations: LOCK/UNLOCK from the core command subset (flags show/update/concurrent-check/"
          "contains-data, unlock-first/cancel-wait, minute/priority/wait-when-unlocked timeout flags, minute/unlimited/aof expiry "
          "flags, Count/Rcount/Timeout/Expried over their whole ranges with weights on boundary values), bursts of 9..330 "
          "requests on one key (holders 200..260 beyond the in-line holder list; FIFO waiters 150..330 beyond the in-line wait slice, then a late "
          "priority waiter, cancel-waits, or a drain of >= 256 grants by unlock-first followed by late arrivals that must not overtake the "
          "overflow ring), priority-drain scenarios (the highest priority level of a priority-mode wait queue is served completely while lower levels stay queued, then newcomers with priorities between the live maximum and the drained one and mixed Counts), long-expiry scenarios (2..6 holds sharing an entry of the long expiry table - zero-aof-time flag with E > 5 s, or aged "
          "> 45 s - of which some leave by unlock or update before the deadline; the others must expire on time), virtual-clock ticks (single seconds and clock jumps with the catch-up loop, timeout sweep before/after "
          "expiry sweep), pool collection; then a drain (cancel every queued request, release every hold, advance the clock 24 s). "
          "Oracle: reference ledger driven by the reply stream + in-package snapshot after every operation and every clock second. ")

_B_GEN = (" Engine B (controlled schedules): a sequential prefix of 1..8 requests on two hot keys, then 2..5 logical threads (each on its own connection: 1..3 "
          "LOCK/UNLOCK requests incl. unlock-first / cancel-wait / update / priority, or a sweeper thread that advances the clock 1..3 s and runs the timeout and expiry sweeps) "
          "run as goroutines that park at the shard-mutex hook points (about to lock / just unlocked); exactly one runs at a time and the rapid-drawn schedule picks which parked "
          "thread continues, so the interleaving is part of the case and replays. One case in ten is the key-manager recycling scenario (a request for key 0 is held "
          "back in front of the shard mutex - a 'stall' directive of the schedule - while key 0's last hold ends, a sweep recycles its key manager and a run of 8..12 fresh keys "
          "is locked under the stalled request's LockId - or, for a stalled LOCK, under other LockIds with sharing Counts - until the recycled manager is handed out again; variants: key 0's manager in the overflow map of the key table "
          "(another key owns the only fast slot, or its hold is filed in the long expiry table), an ordered thread 'unlock, sweep, fresh keys, refill of key 0', and the 'orphan' variant in which the removed manager is NOT handed out again before the stalled LOCK continues). After every segment the in-package snapshot is compared with the previous one: a new holder "
          "only if the admission rule held before (C01), every holder that left a key without expiring is matched (maximum matching) by an unlock request of the concurrent "
          "phase for that key bearing its LockId or the unlock-first flag (C01: a hold is outstanding until its unlock is accepted, it expires or is rolled back), granted waiter was the head of the queue (C04), a key manager records only requests sent for its key and every LOCK of the concurrent phase that has been answered SUCCED is a holder of its key unless a request sent meanwhile may have ended or re-termed the hold (C01), locked == sum of depths and STATE counters == census (C17; a violation of another property than the one under test does not end the run, so that its consequences for the property under test are still observed); every reply "
          "is checked against the request table (C03); at the end of the schedule no admissible head waiter (C04), then a drain: all counts zero, nothing reachable, every request "
          "answered exactly once (C17, C03). Non-trivial (engine B): >=2 thread switches and a holder added or removed during the concurrent phase.")

def _engineA(prop, nontrivial, quick_checks, thorough_checks, extra_units=(), steps=None):
    units = [
        rapid_unit("A-" + prop, "^Test%s_EngineA$" % prop,
                   quick={"checks": quick_checks, "shards": 16, "timeout_s": 900},
                   thorough={"checks": thorough_checks, "shards": 16, "timeout_s": 6000}),
        plain_unit("replay-" + prop, "^Test%s_Replay" % prop, replay=True),
    ]
    if prop in ("C01", "C03", "C04", "C17"):
        units.insert(1, rapid_unit("B-" + prop, "^Test%s_EngineB$" % prop,
                                   quick={"checks": 4800, "shards": 16, "timeout_s": 900},
                                   thorough={"checks": 80000, "shards": 16, "timeout_s": 6000}))
    units += list(extra_units)
    return {
        "level": "exploration",
        "rule": _A_GEN + "Non-trivial: " + nontrivial + " Distinct = distinct FNV-64 fingerprints of the executed operation list + instance parameters." + (_B_GEN if prop in ("C01", "C03", "C04", "C17") else ""),
        "assumptions": [
            "millisecond time flags and require-ack are not generated in this engine (they leave the virtual clock); less-lock-version, unlock-to-wait, tree lock, reverse-key, EXECUTE data and keeplive flags are excluded as the property states",
            "a LockId is not reused for a new lock request while a request bearing it is still queued on the same key",
            "(unlimited flag, Expried 0xffff) - an undocumented 'keep the current terms' value - is not generated",
            "timeouts/expiries are observed on the server's own clock (LockDB.currentTime driven by the harness through the real sweep functions)",
        ],
        "units": units,
    }

PROPS["C01"] = _engineA("C01", "a grant happened while another hold was outstanding, or a request was queued/refused because of capacity.", 12000, 400000)
PROPS["C02"] = _engineA("C02", "the case contains a re-entrant success and at least one refused unlock.", 12000, 400000)
PROPS["C03"] = _engineA("C03", "at least one asynchronous terminal reply or notice (grant from the queue, TIMEOUT, cancel, EXPRIED).", 12000, 400000)
PROPS["C04"] = _engineA("C04", "at least two requests queued on one key and a hold ended while they waited.", 12000, 400000)
PROPS["C05"] = _engineA("C05", "a TIMEOUT of a queued request fired from the long-wait table (T > 9 s) or while other requests stayed queued on the key.", 12000, 400000)
PROPS["C06"] = _engineA("C06", "an EXPRIED notice while requests were queued on the key, or an applied update of a live hold.", 12000, 400000)
PROPS["C17"] = _engineA("C17", "at least three different ways of ending a hold or a wait (unlock, one-level unlock, expiry, timeout, cancel, grant from queue) before the drain.", 12000, 400000)
PROPS["C15"] = _engineA("C15", "engine A: at least three value operations of at least two kinds applied on one case including one refused request carrying a value operation; pure differential: at least three operations of at least two kinds.", 8000, 300000,
    extra_units=[rapid_unit("pure", "^TestC15_PureDifferential$", quick={"checks": 40000, "shards": 8, "timeout_s": 900},
                            thorough={"checks": 1000000, "shards": 16, "timeout_s": 4800})])
PROPS["C15"]["units"][1] = plain_unit("replay-C15", "^TestC15_Replay$", replay=True)
PROPS["C15"]["rule"] = ("Two layers. (a) pure differential: LockManager.ProcessLockData on a bare key manager vs. a sequential interpreter written from the "
                        "protocol description, 1..14 operations per case over typed keys (bytes: SET/APPEND/SHIFT/UNSET; number: INCR/SET/UNSET; array: PUSH/POP/UNSET), "
                        "payloads 0..700 bytes, INCR operands incl. int64 extremes, SHIFT/POP beyond the length, property headers, single-level PIPELINEs, "
                        "carried on lock and unlock commands; a third of the SETs on a LOCK with the update flag or a zero-expiry LOCK (the carriers for which a SET equal to the stored frame is a no-op); "
                        "15% of the cases end with the same payload bytes stored twice with different value types (plain / array). (b) " + PROPS["C15"]["rule"])
PROPS["C15"]["assumptions"] = PROPS["C15"]["assumptions"] + [
    "keys are typed per case/index so only operations the protocol description defines for that value type meet; array elements are non-empty",
    "operations flagged process-first-or-last may legitimately be skipped (documented convention): both outcomes are accepted",
    "once nothing holds a key its value may vanish with the key manager at any time (candidate set {old value, none})",
]

# ------------------------------------------------------------------------------------------------
# C14 (harness written by a sub-agent, reviewed; see harness/notes/C14.md)
PROPS["C14"] = {
    "level": "exploration",
    "rule": ("binary: for each of the 20 codec types of protocol/command.go (Command, ResultCommand, Init, Lock, State, Admin, Ping, "
             "Quit, Call, Leader, Subscribe and their results; WILL_LOCK/WILL_UNLOCK reuse LockCommand, PUBLISH has no type) rapid draws "
             "every field (per field: zero / all-ones / one-hot / arbitrary; names <= 38/37/43 bytes without NUL) -> Encode into a "
             "pre-filled 64-byte buffer -> bytes at the documented offsets equal the fields -> Decode -> fields equal; and arbitrary "
             "64 bytes -> Decode reads every field from its documented offset -> Encode reproduces every defined byte (per-type mask; "
             "padding undefined). Offsets: README diagrams for the lock request/response, type declarations (field order, Blank[N]) "
             "for the undocumented types, never the Encode/Decode bodies. text: 1-8 requests (1..200 arguments, incl. 64/65/66/100/200) / 1-8 replies (+simple, -error, single bulk, nil bulk "
             "'$-1', arrays of 2..200 elements incl. > 64) of binary-safe, possibly empty arguments (<= 64 KiB) -> "
             "BuildRequest/BuildResponse must equal an independent RESP writer -> every message alone on a fresh TextParser gives "
             "back what was built -> the whole sequence through ONE TextParser with the exact reuse loop of TextServerProtocol.Process "
             "/ TextClientProtocol.Read (BufferUpdate when IsBufferEnd, Reset after every finished message; optionally a first "
             "<= 64-byte delivery through CopyToReadBuf as Server.checkProtocol does) under a drawn plan (read-buffer size, repeating "
             "chunk pattern, cuts aimed at length lines / CRLFs / simple-string ends / message ends; streams > 8 KiB in pieces >= 64 "
             "bytes) -> per message the same arguments as the fresh parser, every complete message finished; a failure that persists "
             "with a single delivery is keyed state-carried-across-messages. "
             "key/id: strings of 0..64 bytes (hex, near-hex, boundary lengths) vs a model written from the README. result text: every "
             "code 0..12 renders [code,msg,LOCK_ID,hex,LCOUNT,n,COUNT,n+1,LRCOUNT,n,RCOUNT,n+1(,DATA,v)] and ParseResponse reads it back. "
             "text LOCK/UNLOCK with the README's options in any order -> command fields of the model (into a dirty recycled command). "
             "value frames: constructors (properties, array, KV, EXECUTE, INCR/SHIFT/POP) vs the accessors. server: the same 64 bytes "
             "through BinaryServerProtocol.ProcessParse (unknown-database path, command read back from the free list) and through "
             "LockCommand.Decode give identical fields and identical reply bytes; ProcessLockResultCommand (direct path with short "
             "writes, buffered path, data frames up to > writer buffer) writes the bytes of LockResultCommand.Encode; a 1-10 step "
             "LOCK/UNLOCK program run as binary frames and as text commands on a live database gives the same result fields "
             "(text COUNT/RCOUNT = wire + 1). "
             "Non-trivial: binary - every defined field has a non-zero byte; text - some delivery boundary falls strictly inside a "
             "length line or between CR and LF; key/id - non-empty string; result text - non-zero code or counts; text LOCK - >= 3 "
             "options; value frames - properties and value both present / >= 2 elements / key and value lengths differ / nested data; "
             "server decode/encode - every request field non-zero (encode: and result, lcount, lrcount non-zero); live - >= 2 grants "
             "and >= 1 refusal. Distinct = FNV-64 of the whole case."),
    "assumptions": [
        "':' integer replies are not generated (BuildResponse cannot produce them, ParseResponse has no integer type); a nil bulk reply may be reported with no element or with one empty element",
        "CALL method names / error types / leader hosts contain no NUL byte (NUL is the padding byte); LeaderResultCommand.HostLen = len(Host) as its constructor sets it",
        "a request has at least one argument ('*0' is not generated, see section 4)",
        "simple strings and errors contain no CR/LF (RESP's own precondition)",
        "text options appear at most once, with values in the README's ranges (COUNT <= 0xffff, RCOUNT <= 0xff, TIMEOUT/EXPRIED <= 0xffffffff, FLAG <= 0xff, WILL 0/1); option names upper-case as documented",
        "array elements and KV keys/values of value frames are non-empty (the representation of an empty element is undocumented)",
        "server decode differential uses frames the server answers without taking a lock: LOCK with DbId 0xff, UNLOCK with any DbId on an instance without databases; FLAG bit 0x20 is generated together with a well-formed data frame of >= 2 bytes (shorter ones belong to C13)",
        "live text-vs-binary programs use TIMEOUT 0, EXPRIED 30..3000 s, FLAG 0, explicit LOCK_ID: every request is answered synchronously and never touches the clock",
        "while a finding is listed as known its trigger is excluded by construction (vIsKnown): code 12; HostLen > 43; string area with a NUL before its end; empty simple strings and deliveries starting at their CR/LF/first space; a split argument whose last piece arrives without its CRLF; KV pairs with len(key) != len(value)",
    ],
    "units": [
        rapid_unit("binary", "^TestC14_(BinaryRoundTrip|BinaryDecodeEncode|KeyIdNormalisation|ResultCodeText|TextLockConvert|ValueFrames)$",
                   pkg="protocol", quick={"checks": 80000, "shards": 4, "timeout_s": 900},
                   thorough={"checks": 12000000, "shards": 16, "timeout_s": 3600}),
        rapid_unit("text", "^TestC14_Text(Request|Response)Chunking$", pkg="protocol",
                   quick={"checks": 24000, "shards": 8, "timeout_s": 900},
                   thorough={"checks": 3000000, "shards": 16, "timeout_s": 3600}),
        rapid_unit("server", "^TestC14_(ServerInlineDecode|ServerInlineEncode|TextVsBinaryLive)$", pkg="server",
                   quick={"checks": 32000, "shards": 4, "timeout_s": 900},
                   thorough={"checks": 6000000, "shards": 16, "timeout_s": 3600}),
        plain_unit("replay-protocol", "^TestC14_Replay$", pkg="protocol", replay=True),
        plain_unit("replay-server", "^TestC14_Replay$", pkg="server", replay=True),
    ],
}

# ------------------------------------------------------------------------------------------------
# C19 (harness written by a sub-agent, reviewed; see harness/notes/C19.md)
PROPS["C19"] = {
    "level": "exploration",
    "rule": ("rapid-generated cases = plain JSON scripts for 2..64 real goroutines (90% 2..12) on 1..8 client connections "
             "(goroutine -> connection drawn per script, so conns=1 is request pipelining from up to 64 goroutines on ONE "
             "connection) against one in-process leader per shard on a loopback port, fresh key per case, timeout 20 s / "
             "expiry 60 s so the server never ends a wait or a hold itself; per step a pause and a hold of 0 / Gosched / "
             "0.1 / 0.4 / 1 / 3 ms. Primitives: Lock, RLock (own RLock object per goroutine, 0..3 extra re-entrant Lock() "
             "calls per hold, 25% of goroutines compete with a plain Lock object), Semaphore(n) and MaxConcurrentFlow(n) "
             "n=1..5, RWLock (each step reader or writer), PriorityLock (a holder, then 2..23 waiters with priorities "
             "mostly 0..4; the harness waits until LIST_WAIT shows every waiter queued before the holder releases), Event "
             "in default-set and default-clear mode (one setter doing Set/Clear 1..6 rounds, waiters doing 1..4 Waits, "
             "optionally released by the harness right after a Clear returned). Thorough only: Lock with a mid-run drop of "
             "all connections by the server (client reconnects after its 3 s back-off; unanswered requests are removed "
             "with CancelWait and retried). Oracle: client-side history with one global atomic logical clock; an acquire is "
             "stamped after the client call returned, a release before the unlock is issued; at no instant more than 1 "
             "(Lock, RLock until the k-th unlock of k locks is called, PriorityLock) / n (Semaphore, MaxConcurrentFlow) "
             "definitely-held intervals overlap, never a writer with another writer or reader; a re-entrant Lock() by the "
             "holder must succeed; a release of a definitely-held primitive must not fail; PriorityLock hand-overs in "
             "acquire-return order have non-increasing priority (higher number first, as client/prioritylock_test.go and "
             "the server's priority ring define it); a successful Event.Wait must not lie entirely inside an interval "
             "(Clear returned, next Set called) - for a default-clear event that includes (start, first Set called). "
             "Acquire failures/timeouts are recorded, not judged. Non-trivial: max simultaneous holders reached the bound "
             "AND >=1 successful acquire was called at an instant where the primitive was definitely full (so it had to "
             "wait for a release); RLock additionally: such a wait began while the holder was inside a hold with >=1 "
             "successful re-entry; RWLock: a forced wait and both a reader and a writer acquired; PriorityLock: all waiters "
             "queued before the release (settled), >=2 distinct priorities, every waiter acquired; Event: >=1 successful "
             "Wait was called while the event was definitely clear; reconnect: additionally >=1 transport error and >=1 "
             "acquire after the drop. Distinct = distinct FNV-64 of the case JSON. Executions use real goroutines and "
             "sockets: scripts replay, schedules do not (TestC19_Replay retries a file up to 400 times; the committed "
             "probe replay is deterministic). A 30 s per-case watchdog prints VERIF-INCONCLUSIVE and exits 3. "
             "Round 3 additions. (a) One third of the Lock/RLock/Semaphore/Flow/RWLock/PriorityLock cases pass "
             "EXPRIED_FLAG_ZEOR_AOF_TIME (0x0100, through the expried argument of the client constructors) with an expiry of 6..8 s, so "
             "every hold is filed in the server's long expiry queue at once and the key's manager lives in the overflow map of the key "
             "table. (b) TestC19_CollidingKeys: the case key B and a second key A differ only by swapping their first two 32-bit words "
             "(same slot of the fast key table for every table size); the harness locks A, lets bound-many early holders take B "
             "(lock, rlock, sem n=1..4, flow, rwlock writer or 1..3 readers), unlocks A, pauses 1.2..1.5 s and then polls (white-box, "
             "settle flag only) until A's manager is gone, starts 1..6 contenders on B and keeps the early holders for another "
             "5..40 ms. (c) TestC19_WaitedHold: expiry 3..5 s; bound-many first holders keep the primitive for expiry-0.7 s, "
             "bound-many waiters ask after 0.15..0.3 s, are granted after ~expiry-1 s of waiting and stay inside until 0.6..0.7 s "
             "before the expiry promised at the grant, 1..3 contenders ask meanwhile (timeout 20 s). Same interval oracle for all "
             "three. Lateness rule (only use of wall time): the grant of a hold is not earlier than its acquire call and, if the "
             "primitive was definitely full at the call, not earlier than the first release stamped after it; a release stamped later "
             "than that lower bound + expiry - 300 ms makes the whole case inconclusive (class late_hold_inconclusive, no verdict, not "
             "non-trivial). Non-trivial: colliding keys - base rule and A's manager observed gone before the contenders start; "
             "waited hold - base rule and a hold granted after a forced wait >= 1 s outlived (its request stamp + expiry + 1 s) while "
             "another acquire was outstanding at that instant."),
    "assumptions": [
        "known finding C19:release-failed:overflow-map, while listed as known, is excluded by construction: cases whose key manager "
        "lives in the overflow map (zero-aof-time flag, colliding keys) then use ONE client connection (the finding is repaired; the "
        "exclusion is inactive)",
        "one primitive object per goroutine (Lock/RLock/MaxConcurrentFlow/RWLock/PriorityLock objects carry one lock id; "
        "sharing one object between goroutines is not a documented use)",
        "higher PriorityLock number = served first (client/prioritylock_test.go); order among equal priorities is not asserted",
        "Event: single setter goroutine alternating Set/Clear; default-set events are cleared once before the waiters start",
        "expiry 60 s and timeout 20 s are never reached in a healthy run, so the server never ends a hold or a wait by itself",
        "reconnect mode is restricted to Lock: it is the only primitive whose API (CancelWait) can remove a request that "
        "lost its connection; a release that got no answer is retried and a later UNLOCK_ERROR answer is then accepted",
        "known finding C19:event-wait-before-set is excluded by construction while listed as known: a default-clear event "
        "is then set exactly once and never cleared again",
    ],
    "units": [
        rapid_unit("primitives", "^TestC19_(Lock|RLock|Semaphore|Flow|RWLock|PriorityLock|Event)$", pkg="server",
                   quick={"checks": 160, "shards": 4, "timeout_s": 900, "shrinktime": "20s"},
                   thorough={"checks": 4000, "shards": 8, "timeout_s": 3600, "shrinktime": "30s"}),
        rapid_unit("colliding", "^TestC19_CollidingKeys$", pkg="server",
                   quick={"checks": 24, "shards": 4, "timeout_s": 900, "shrinktime": "10s"},
                   thorough={"checks": 480, "shards": 8, "timeout_s": 3600, "shrinktime": "20s"}),
        rapid_unit("waited", "^TestC19_WaitedHold$", pkg="server",
                   quick={"checks": 8, "shards": 4, "timeout_s": 900, "shrinktime": "5s"},
                   thorough={"checks": 96, "shards": 8, "timeout_s": 3600, "shrinktime": "10s"}),
        rapid_unit("reconnect", "^TestC19_LockReconnect$", pkg="server",
                   thorough={"checks": 96, "shards": 8, "timeout_s": 3600, "shrinktime": "30s"}),
        plain_unit("selftest", "^TestC19_OracleSelfTest$", pkg="server"),
        plain_unit("replay", "^TestC19_Replay$", pkg="server", replay=True),
    ],
}

# ------------------------------------------------------------------------------------------------
# Engine P (persistence): C07
PROPS["C07"] = {
    "level": "exploration",
    "rule": ("rapid-generated histories (engine A grammar restricted to Timeout 0; expiries in seconds/minutes/unlimited chosen at least 15 s away "
             "from the restart instant; persist-immediately / never-persist / percent aof flags on 50% of the requests; value SET/PUSH/INCR attached when a "
             "hold is created; re-entrant re-locks and updates of live holds (a third of the updates carry the minute time-out flag, meaningless with Timeout 0 but part of the command in force); unlocks incl. unlock-first/cancel/one level; 1-3 s clock ticks; admin REWRITEAOF rotations+compactions at drawn points; 2 databases; "
             "aof_file_buffer_size in {64,128,256,4096}, db_lock_aof_time in {0,1}) run on instance 1 whose clock lags the wall clock by 15/45/130 s "
             "(= an outage of that length); at a quiescent point (persistence queue drained, file flushed) the directory is copied, a fresh leader is "
             "started on the copy (wall clock) and its in-package snapshot must contain exactly the persisted, still-live holds of instance 1 (same key, "
             "LockId, depth, Count, Rcount, value of keys whose holders all survive, deadline within one unit + 1 s, never later); must-persist rule "
             "(persist-immediately flag, or older than the delay) and never-persist rule checked on instance 1; then a second restart on what the first "
             "one left behind (it compacts at start-up) must recover the same again. Non-trivial: >=2 log files or a value blob, a hold released before "
             "the restart, and >=1 hold restored (class counters also report cases with a restored re-entrant hold of depth >= 2). Distinct = FNV-64 of the operation list + parameters. "
             "12% of the attached SET values are 1.5..9 KB (larger than the value file's 4 KiB read/write buffer at aof_file_buffer_size 64, or adding up to more than it). "
             "60% of the cases take 1..8 more holds (persist-immediately flag, fresh keys, a quarter with a value) on the restarted instance before the second restart: each must be "
             "persisted at the quiescent point and restored by the second restart (class 'holds taken on the restarted instance and carried over the second restart')."),
    "assumptions": [
        "instance 1 runs on a harness-driven clock that lags the wall clock (hook H1); recovery runs on the wall clock as in production",
        "holds whose deadline lies within 6 s (+ one unit) of the restart instant may or may not be restored",
        "value operations on re-locks, updates and unlocks are not generated here (their persistence is not compared; C15 covers their semantics)",
        "re-entrant re-locks and updates of live holds are generated; while the listed known findings are open each is narrowed by its own rule, counted per decision in the evidence: "
        "no update flag on a request that creates a hold or on a hold not logged at its grant; a live hold is re-locked/updated only if old and new terms end more than 40 s after the outage and "
        "every holder of the key was logged at its grant (a sole first holder may be re-locked before it is persisted, without aof timing flags); updates keep Count and Rcount; "
        "holders of one key use one Count; a key that became free after carrying a value is not used again",
        "a failure is reported only if the same case fails again with the same key when it is executed again from its recorded operations (background goroutines are not owned); otherwise it is counted as unreproduced anomaly",
        "size-triggered compaction (a goroutine racing the workload) is not generated here",
    ],
    "units": [
        rapid_unit("restart", "^TestC07_Restart$", quick={"checks": 3200, "shards": 16, "timeout_s": 900, "shrinktime": "45s"},
                   thorough={"checks": 60000, "shards": 16, "timeout_s": 6000, "shrinktime": "90s"}),
        plain_unit("replay", "^TestC07_Replay$", replay=True),
    ],
}

# ------------------------------------------------------------------------------------------------
# C12 (harness written by a sub-agent, reviewed; see harness/notes/C12.md)
PROPS["C12"] = {
    "level": "exploration",
    "rule": ("Layer 1 (pure): CompareAofId reflexive/antisymmetric and = 'b is a advanced by d files/records => b newer' for every "
             "d < 0x7fffffff00000000 incl. file-index wrap-around, command time as tie-break; Format/ParseAofId round trips and "
             "refusal of malformed text; ArbiterStore Save->Load round trip of members (host, weight, arbiter), owner, gid, version, "
             "vertime, commit id, and Load seeding accepted = committed. Layer 2 (acceptor): 3..5 real ArbiterManagers started through "
             "Load from scratch dirs (meta.pb + aof tail), 2..3 protocol-abiding abstract candidates with 1..2 candidacies each and "
             "colliding numbers, shuffled proposal/commit deliveries to the real handlers / DoSelf*, lost requests, lost replies, "
             "restarts of pure acceptors from their saved metadata; REPL_ANNOUNCEMENT of the holder of a recorded commit majority through the "
             "real handler (real meta.pb), a restart after it and delayed stale proposals/commits to the restarted member. Layer 3 (voter, engine V): the real DoVote/DoProposal/DoCommit of "
             "2..3 candidates (<=3 rounds) over net.Pipe-backed ArbiterClients, every delivery / loss / reply loss / restart / phase start "
             "chosen by the case's schedule at quiescent points. Oracles: numbers never decrease (also across restarts); handler "
             "preconditions (n > accepted, n > committed, no pending commit; commit only for the accepted number, once); members with a "
             "newer own log refuse; at most one recorded commit majority (layer 2) / at most one successful DoCommit, success implies a "
             "recorded majority (layer 3); DoVote picks the eligible responder with the newest log (ties weight, host) iff a majority "
             "answered; after a processed announcement the member's commit id survives a restart and requests with a number <= it stay "
             "refused. Non-trivial: layer 2 additionally - announcement, then restart of that member, then a stale proposal delivered; layers 2/3 - two different candidates' proposals were delivered at one acceptor while the earlier "
             "candidacy was not concluded; CompareAofId - file index wrapped between the positions or equal file position with different "
             "command time; store - >=3 members of >=2 kinds and commit id > 0. Distinct = FNV-64 of the whole case."),
    "assumptions": [
        "no announcement, offline/online event or membership change is injected between candidacies (property quantifier); a lost "
        "message fails the pending Request and the connection is there again for the next one (ArbiterClient.Run's reconnect/offline "
        "handling is replaced by its bare read loop)",
        "only members that are not candidates restart; frames in flight to a restarting member are lost; the harness never calls "
        "ArbiterStore.Save after the setup (none of the simulated code paths does)",
        "all log positions of a case lie within 4 aof files of the case's origin index (total order, far from the ambiguous half range); "
        "file index 0xffffffff is not generated (Aof.FindAofFiles cannot enumerate it)",
        "layer 3 runs a candidate's local self-call at the start of its phase (before any other delivery of that phase); other "
        "placements of the self-call are covered by layer 2",
        "layer 2 executes announcements only for a candidacy with a recorded commit majority, mirrors voteSucced's role/version/Save on the winner "
        "and DoAnnouncement's request; after a processed announcement further commit majorities are counted, not judged (the election is over, "
        "pending commits are legitimately cleared); layer 3 still stops at the return of DoCommit",
        "the goroutine ArbiterManager.DoAnnouncement() starts on ERR_STATUS / ERR_ROLE answers is awaited before the next delivery (it reads "
        "voter.proposalHost without the voter mutex: a data race of the server outside this property, see notes/C12.md)",
        "while a finding is listed as known: F1 - all positions of a case share one aof file; F2 - restarts that would forget a number the unchanged code does not persist "
        "are skipped (a member whose last relevant event was a processed announcement does restart); F3 - a candidate whose number was overwritten gives the round up; F3/F4/F5 - verdicts at a member whose "
        "acceptor state was corrupted by the known defect (and the two-winner verdict of that execution) are withheld and counted",
    ],
    "units": [
        rapid_unit("pure", "^TestC12_Pure_", quick={"checks": 16000, "shards": 2, "timeout_s": 900},
                   thorough={"checks": 200000, "shards": 4, "timeout_s": 3600}),
        rapid_unit("acceptor", "^TestC12_Acceptor$", quick={"checks": 24000, "shards": 6, "timeout_s": 900},
                   thorough={"checks": 450000, "shards": 6, "timeout_s": 4800}),
        rapid_unit("voter", "^TestC12_Voter$", quick={"checks": 48000, "shards": 8, "timeout_s": 900},
                   thorough={"checks": 450000, "shards": 6, "timeout_s": 4800}),
        plain_unit("replay", "^TestC12_Replay$", replay=True),
    ],
}

PROPS["C08"] = {
    "level": "fault_enumeration",
    "exhaustive_key": "every byte offset of the newest file",
    "rule": ("crash points = truncations. A generated persisted history (as C07, ending with 2-5 complete records, some with value blobs) is run, quiesced and "
             "closed; the newest append file is cut at drawn byte offsets (header 0..12, every record x every residue 0..63; thorough: in a quarter of the cases at EVERY "
             "byte offset of the file) and its value file at drawn offsets. For each cut a fresh leader must start on the cut copy and its in-package snapshot must equal "
             "the snapshot recovered from the copy cut at the preceding record boundary (metamorphic: torn bytes contribute nothing; value-file cuts: equal to the state of "
             "SOME complete-record prefix); then a second workload of persisted locks is run on the recovered instance, quiesced, and a following restart must recover the "
             "live persisted state. evaluations = generated histories; the class 'crash points' counts the cuts. Non-trivial: newest file has >=3 records and the case "
             "contains a cut with residue != 0 or a value-file cut. Distinct = FNV-64 of history + cut lists. "
             "55% of the cases also take crash images at write boundaries while the history runs (hook point 'log flush about to start: records buffered, nothing of this flush "
             "written'; every 1st..3rd flush that finds the files changed, at most 5 per case; no size-triggered compaction in these cases, aof_file_buffer_size 64 in half of them, "
             "a third of the tail values 4..17 KB so that values are written around the buffer): a fresh leader must start on each image, and the second workload + following restart "
             "must recover what was persisted after it (an orphan value in the value file would be handed to the next value record)."),
    "assumptions": [
        "a failure is reported only if the same case fails again with the same key when it is executed again from its recorded operations (background goroutines are not owned); otherwise it is counted as unreproduced anomaly; holds whose deadline lies within the margin of the current time are not compared between two recoveries",
        "the file image at a system-call boundary is the crash state (un-synced page cache is not modelled)",
        "only the newest append file and its value file are cut (older files are complete by construction of the writer)",
        "the crash point between the record write and the value write of one Flush is represented by value-file cuts (hook H4 is used by C16 only); crash images at the start of a flush use hook point 20",
        "known findings of C07 (re-lock/update records, start-up compaction race) are excluded by construction here too",
    ],
    "units": [
        rapid_unit("cuts", "^TestC08_CrashCut$", quick={"checks": 1600, "shards": 16, "timeout_s": 900, "shrinktime": "45s"},
                   thorough={"checks": 8000, "shards": 16, "timeout_s": 6000, "shrinktime": "90s"}),
        plain_unit("replay", "^TestC08_Replay$", replay=True),
    ],
}

PROPS["C16"] = {
    "level": "fault_enumeration",
    "rule": ("a generated persisted history (as C07) with rotations that compact (admin REWRITEAOF path) and rotations whose compaction does not run (so that 1..4 append files "
             "plus an existing rewrite file accumulate) is quiesced and its directory copied (pre-compaction image); then ONE compaction runs synchronously and the hook points "
             "of the rewrite path copy the directory after every file-system mutation it performs (rewrite.aof.tmp written, each input removed, each value file removed, the two "
             "renames, old append file closed / new one opened) - every crash point of that compaction is enumerated - and, while rewrite.aof.tmp is being written, "
             "at the 1st, 2nd, 4th and 8th flush of it (before the records of the flush are written, and between its records and its values: partly written temp files). Every image and the final directory are recovered by a fresh "
             "leader: the in-package snapshot must equal the one recovered from the pre-compaction image, also when recovered a second time from what the first recovery left "
             "behind (it compacts again at start-up); the final directory must also recover the live persisted state. evaluations = histories; class 'crash images' counts the "
             "enumerated crash points. Non-trivial: >=2 append files compacted, an existing rewrite file, and a released hold in the inputs. Distinct = FNV-64 of the history. "
             "10% of the operations are value-only requests (zero expiry, SET/UNSET/APPEND/INCR/PUSH, admitted next to the holders of a key whose Count permits: the log gets a record that only "
             "changes the key's value); 35% of the cases start with a clock lag of 205 s and end with a clock step that puts the compaction exactly 60/120 s (80%; else 55..125 s) after the last update of "
             "a hold with minute-unit terms (the compaction re-derives such deadlines with a one-minute granularity)."),
    "assumptions": [
        "a failure is reported only if the same case fails again with the same key when it is executed again from its recorded operations (background goroutines are not owned); otherwise it is counted as unreproduced anomaly; holds whose deadline lies within the margin of the current time are not compared between two recoveries",
        "the compaction under test runs in the harness goroutine (same body as the goroutine the server starts); compactions racing with appends are not generated",
        "the directory image at a hook point (after a completed system call) is the crash state",
        "crash images between the removal of the inputs and the renames are skipped while the two listed known findings are open (counted in evidence); the C07 known findings are excluded by construction",
    ],
    "units": [
        rapid_unit("compaction", "^TestC16_Compaction$", quick={"checks": 1600, "shards": 16, "timeout_s": 900, "shrinktime": "45s"},
                   thorough={"checks": 8000, "shards": 16, "timeout_s": 6000, "shrinktime": "90s"}),
        plain_unit("replay", "^TestC16_Replay$", replay=True),
    ],
}

PROPS["C13"] = {
    "level": "exploration",
    "rule": ("engine W: every case runs on a fresh in-process leader; 1..3 client connections are driven one after the other "
             "through Server.handle over a scripted fake conn. Structured rapid generator: valid 64-byte frames (INIT, LOCK, "
             "UNLOCK, STATE, ADMIN (then RESP on the same connection), PING, QUIT, CALL LIST_* with protobuf / junk / lying "
             "content length, WILL_LOCK, WILL_UNLOCK, LEADER, SUBSCRIBE, PUBLISH, unknown types, wrong magic/version) with "
             "arbitrary field values; LOCK-family frames with flag 0x20 followed by value frames [len32][stage|type][flags]"
             "[proplen16 props][payload]: every length 0..64 with arbitrary content, all nine operation types and unknown "
             "ones, stages 0..3, property headers that lie, ARRAY/KV payloads with lying element lengths, nested "
             "PIPELINE/EXECUTE (depth 3, embedded lock commands, cut frames), payloads up to 1 MiB, declared lengths "
             "0,1,2,3,5,6,7,len+-1,1 MiB,1 MiB+1,2^31,2^32-1; every registered text command (SELECT, TIMEOUT, LOCK, UNLOCK, "
             "PUSH, DEL, SET, APPEND, GETSET, SETEX, PSETEX, SETNX, INCR(BY), DECR(BY), EXISTS, EXPIRE, PEXPIRE(AT), PERSIST, "
             "GET, STRLEN, TYPE, DUMP, KEYS, SCAN, TTL, PTTL, ECHO, PING, INFO, SHOW, QUIT, unknown, empty name) as plausible "
             "vector, every prefix of it (arity sweep), with dangling option keywords, or as arbitrary list from a hostile "
             "pool (huge / negative numbers, empty strings, option keywords), RESP rendering with lying *count / $len / "
             "missing CR; then mutation (bit flips, byte set, truncate, delete, duplicate (frame aligned), splice with a stream "
             "of the other protocol, insert, swap) on 30 % of the connections and a drawn split into reads (one read, fixed "
             "1..5000, frame + small pieces, random sizes). 60 % of the cases focus on one key so that value operations of "
             "different connections / protocols meet each other's state. TestC13_WireTimers: same, with time-outs / expiries "
             "of 0..60 ms or 0..1 s and a pause of 150 ms (80 %) or 2.3 s (20 %) before the probe so that the sweep "
             "goroutines act on client data. FuzzC13_Wire: native fuzzing over (bytes, split) on a fresh instance per input, "
             "seeded with 60 structured cases, the repo's RESP fixtures and hostile constants. Oracle: no panic escapes "
             "Server.handle and the process does not die; after every connection a pre-established bystander connection still "
             "holds its private lock and gets PING=SUCCED, re-LOCK=LOCKED_ERROR, UNLOCK=SUCCED, LOCK=SUCCED with matching "
             "request ids, and fresh binary and text connections are served; the handler ends after EOF (queued lock waits "
             "are released by the server's forced time-out; a handler still running after 25 s = not judged). "
             "Non-trivial: at least one connection of the case had >=1 complete command parsed (reached a handler; measured "
             "as the delta of SLock.statsTotalCommandCount); streams rejected before any command was parsed (first-read "
             "sniffing, '*' test) are counted in class 'rejected before any command was parsed'. Distinct = FNV-64 of the "
             "(hex, chunks) of all connections. "
             "Shape 'pool' (7% of wire cases): one connection accumulates N resources of one kind and gives them back, all frames "
             "well-formed; N 65% from {60..70, 100, 130}, 35% from the capacities of the containers found in the code (5..9, 12, 13, 16, 17, "
             "24, 25, 32, 33, 48, 49, 56, 57, 96, 97, 119..121, 127..129, 192..194, 248..250: per-connection free-command stack [64], will "
             "queue 8+16+32+64, per-key holder list 6 doubling to 192 then 256); kinds: holds on N keys, N lock ids on one key, N re-entrant "
             "holds, N queued requests, N wills, N/2 holders + N/2 waiters; released by the connection itself in order / in reverse / partly / "
             "by closing / by another connection / in 2..3 waves / followed by 1..4 more LOCK-UNLOCK pairs; waiters cancelled (0x02) or granted "
             "in a row; 20% text protocol; reads from one frame per read to one read. Shape 'exec-tight' (6% of wire and timers cases, 4% of "
             "nested value frames elsewhere): EXECUTE frame with a property block of P bytes (P from {0,1,2,3,6,9,255}) followed by a nested "
             "LOCK/UNLOCK with a value frame whose length field is the bytes present plus d, d in -2..P+3, at every stage (current, unlock, "
             "timeout, expried) with the follow-up that makes the stage fire; 15% as the last sub-frame of a PIPELINE. Classes count 'one "
             "connection drives a per-connection pool to or beyond its capacity (n >= 64)' and 'EXECUTE frame with a property block whose "
             "nested length overstates the bytes present by 1..P+2'. "
             "Cases carry their instance configuration aof_queue_size in {1024, 2048, 4096, 65536}. Shape 'fanout' (5%): one LOCK frame whose value frame is a PIPELINE of N "
             "sub-frames, N = C + {-1, 0, 1, 2, 16, C+1, -C/2} with C = aof_queue_size/64 (the length of the shard executor's task free list, the AOF channel free list and the "
             "AOF lock-queue nodes); sub-frames are EXECUTE (stage current / unlock / expried, nested LOCK/UNLOCK on the outer key or on N keys) or PUSH; follow-up holder UNLOCK, "
             "optionally the same frame again. Pool shape: holds optionally with expiry flag 0x0100 (immediate AOF), queued requests optionally with Timeout 20 ms and time-out "
             "flag 0x0480 (reverse key lock through the executor). Class: 'one frame fans out into more commands than the shard executor's free list holds (n > aof_queue_size/64)'."),
    "assumptions": [
        "domain filter (counted): SHUTDOWN, FLUSHALL, (BG)REWRITEAOF never; FLUSHDB, CONFIG, CLIENT, SLAVEOF, REPLSET only as "
        "variants that cannot take effect on a stand-alone leader, and only on unmutated connections; mutated / raw / fuzz "
        "streams that contain one of those words, SYNC or REPL_ anywhere (case-insensitive) are dropped",
        "binary CALL of SYNC / REPL_* (switches the connection into replication mode) is not generated",
        "everything that makes a handler wait is 0 or tiny: text sessions start with TIMEOUT SET 0, LOCK/UNLOCK/PUSH always "
        "carry TIMEOUT 0 or 1..30 ms without the minute (0x40) and keep-alive (0x8000) flags, TX/PTX values from {0,1,20}; "
        "remaining waits are ended with LockDB.flushTimeOut (forced time-out) 400 ms after EOF",
        "streams that can touch more than 8 databases are dropped (every db costs MBs of queues: resource question)",
        "one live instance per process; the previous instance is frozen while NewSLock replaces the package global "
        "defaultServerProtocol; instances are stopped without running the server's shutdown path (LockDB.Close forced "
        "time-out/expiry), which has panics and races of its own that are outside C13 (see notes §5)",
        "process deaths are attributed to the case in flight only if the dying goroutine is its connection handler or the "
        "case reproduces the death in an isolated child; otherwise the report says so",
        "known findings (listed in known_findings.json) are excluded by construction and counted; see notes/C13.md §3",
    ],
    "units": [
        rapid_unit("wire", "^TestC13_Wire$", quick={"checks": 12000, "shards": 12, "timeout_s": 900, "shrinktime": "20s"},
                   thorough={"checks": 160000, "shards": 16, "timeout_s": 6000}),
        rapid_unit("timers", "^TestC13_WireTimers$", quick={"checks": 240, "shards": 4, "timeout_s": 900, "shrinktime": "20s"},
                   thorough={"checks": 9600, "shards": 16, "timeout_s": 6000}),
        {"name": "fuzz", "pkg": "server", "run": "FuzzC13_Wire", "kind": "fuzz",
         "thorough": {"fuzztime": "300s", "shards": 1, "timeout_s": 900}},
        plain_unit("replay", "^TestC13_Replay$", replay=True),
    ],
}

PROPS["C18"] = {
    "level": "exploration",
    "rule": ("engine D: one fresh leader per case under a virtual clock (hook H1), 2-4 client connections (30% text) plus "
             "successor connections re-announcing a client id, each served by the real Server.handle over an in-memory "
             "net.Conn; rapid draws per connection an optional INIT (client id pool of 2, plus the all-zero id), 0-5 "
             "WILL_LOCK/WILL_UNLOCK registrations, LOCK/UNLOCK requests (Timeout 0-9 s, Expried 1-14 s, Count 0-2, Rcount 0-2, "
             "1-3 keys, re-used LockIds) optionally delivered in one read, the way the connection ends (EOF, bad magic, bad "
             "version, stream.Close(), both, a second party's Close() racing the EOF; optionally Close() once more) and "
             "clock ticks, all interleaved. Oracle: (1) lock table after every step equals a reference run of the same case in "
             "which wills are not registered and the watcher sends the same commands once, in registration order, when the "
             "connection has ended; a close without wills and a repeated Close() change nothing; (2) no queued request "
             "outlives its timeout, no hold its expiry; after unlocking everything and 24 s STATE reports 0/0/0, snapshot "
             "empty, client table empty, every handler ended; (3) holds survive closes and clock seconds until their expiry; "
             "(4) every frame a connection receives answers a request it sent or one of a dead connection with the same "
             "client id; one reply per text command; a reply for a dead connection's request is delivered when a "
             "connection is registered under its client id. Non-trivial: a connection with >= 1 registered will closed "
             "while >= 1 of its requests was queued (asynchronous reply pending). Distinct = distinct FNV-64 "
             "fingerprints of the step list. 38% of the cases are successor chains: one client id announced by 2-7 "
             "successive binary connections (30% overlapping hand-overs), each leaving 0-3 requests queued behind a blocker connection's "
             "holds on private keys (completed at drawn later points by the blocker's UNLOCK, or by TIMEOUT) and short-lived holds, "
             "interleaved with clock ticks and with SLock.checkServerProtocolSession() (the 120 s proxy trim) run by the harness; a burst "
             "lets one connection adopt the proxies of all its predecessors. The connection owed a late reply is the live connection "
             "that announced the id most recently according to the harness's own record, not slock.clients. "
             "LOCK requests of connections without a client id carry the keep-alive time-out flag in 16-32% of the cases with Timeout > 0; a request that was "
             "queued when its id-less connection was closed keeps the deadline it had then and ends by it, also when the server closed the stream while the text "
             "handler was still waiting (checked after every clock second); the drain lets 10 s pass before it unlocks anything."),
    "assumptions": [
        "the session check is invoked directly while every handler is parked (its wall-clock timer is not part of the virtual clock)",
        "keep-alive time-outs only on connections that never announce a client id (with proxy adoption by a successor the will-free reference run is no reference); keep-alive expiries are not generated",
        "only DbId 0, flags 0, second-granularity Timeout/Expried, no value operations (the known C13 crash inputs are out of the domain by construction)",
        "a LockId is not re-used for a lock request while a request bearing it is queued on the key (engine A's assumption); will commands use fresh LockIds",
        "a re-entrant request re-states the Expried of the original request: a shortened expiry is honoured one sweep late (wheel slot not moved) - lock-engine territory, not judged here",
        "text connections process one command at a time; a command for a text connection that waits for a queued lock is skipped, and a close requested meanwhile (EOF, garbage, or any close of a connection with wills) is applied when its reply has arrived - only stream.Close() on a will-less text connection is applied while it waits",
        "'dropped - or delivered to a reconnected client with the same id' is read as: delivered if a connection is registered under the id when the reply is produced (VERIF_C18_LENIENT=1 accepts a drop there as well); any live connection that announced the id counts (a proxy re-bound to an earlier successor keeps delivering there)",
        "reference semantics of a will = the same LOCK/UNLOCK command sent by a live connection at the instant the dying connection's handler has finished",
        "the real goroutines are serialised by the harness (it acts only when every handler is parked); proto-race is the only step with two goroutines racing and is judged on its end state only",
    ],
    "units": [
        rapid_unit("D-C18", "^TestC18_Disconnect$", quick={"checks": 24000, "shards": 16, "timeout_s": 900},
                   thorough={"checks": 240000, "shards": 16, "timeout_s": 3600}),
        plain_unit("replay-C18", "^TestC18_Replay$", replay=True),
    ],
}

PROPS["C11"] = {
    "level": "exploration",
    "rule": ("Layer 1 (single leader, harness clock, harness parks the append-file writers by owning Aof.aofGlock): rapid-generated "
             "histories of ack-required LOCKs (fresh LockIds; fresh grants and grants out of the wait queue; Count 0..2; with SET/UNSET/"
             "INCR/APPEND/SHIFT/PUSH/POP value operations on mixed types), ordinary locks, unlocks, competing lock/unlock requests for a "
             "pending LockId, re-entrant requests, clock seconds, hold/release phases with the record file or the value file closed "
             "under the writer, ack waits timed out while parked; buffer sizes 64/128/4096, 1..4 shards, 1..3 clients. Layer 2 (leader "
             "+ 1..2 followers in one process behind a harness proxy, ack mode all/majority): follower ack frames stalled, then passed, "
             "negated or dropped with a connection cut; the leader's own flush parked (parkflush) while follower frames pass; leader demotion; timeouts. Oracle: SUCCED only when a LOCK record of that "
             "key/LockId is in the leader's append files (read in the reply callback) and, cluster, the proxies have already forwarded "
             "the required number of positive ack frames; while pending every request for the LockId gets LOCK_ACK_WAITING and changes "
             "nothing (snapshot equal); reply-driven ledger == in-package snapshot at every stable point (acknowledged hold is a normal "
             "hold, failed hold is gone); on write error / negative or lost ack / timeout / demotion the requester gets a non-SUCCED "
             "terminal reply exactly once, the value equals the value before the request (failure reply + stored value), the head of the "
             "queue is not admissible afterwards, no freed Lock object is reachable; followers end with the leader's holds. "
             "Non-trivial: single - a failed ack after a value operation with a request queued behind it; cluster - an ack-required "
             "request whose SUCCED needed >=1 follower frame. Distinct = FNV-64 of configuration + op list. "
             "Competing unlocks also carry the unlock flags: 0x01 unlock-first with a LockId nobody holds (the server falls back to the key's "
             "oldest holder - the pending hold or, behind a shared older holder, not the pending one), 0x01 with the pending LockId, 0x02 "
             "cancel-wait aimed at the pending LockId / a queued LockId / nothing, 0x03; if the hold the request resolves to (found by the "
             "LockId the reply carries) awaits acknowledgement the answer must be LOCK_ACK_WAITING and the key's snapshot must not change. A "
             "violation recorded before a later wait runs into its watchdog is reported, not turned into an inconclusive run."),
    "assumptions": [
        "the harness owns the leader's clock (hook H1); ack waits time out only when the case ticks",
        "a failed write is injected by closing the *os.File under AofFile (what a full disk / EIO looks like to Flush); the file is re-opened after quiescence",
        "value undo is compared with the value observed before the request; when other value operations interleave on the key the check is skipped (counted), and a value that vanished because nothing holds or awaits the key any more is accepted",
        "APPEND/SHIFT are only applied at once to non-array values (byte operations on arrays make malformed arrays: C15 domain)",
        "a lock request for a LockId that is still queued is skipped (two holds of one LockId: C02 domain)",
        "cluster: followers join before the workload, no reconnect after a cut, no log rotation (join/transfer races belong to C09); leader clock starts at the wall clock",
        "cluster: the positive-frame requirement is computed from the followers still connected at reply time (lower bound of the registered count)",
        "parkflush = the harness adds one to Aof.channelActiveCount (another shard's writer busy), so records are buffered, registered and replicated but not written until unparkflush",
        "cluster verdicts are printed only if the same case fails with the same key on re-execution (<=3); others are saved as unreproduced anomalies",
        "while listed findings are open: no re-entrant ack request, no never-persist flag, buffer 4096 when a write fault is drawn, value operations whose undo is inexact in the current state are replaced by SET, demotion is executed with the mutex released around updateState, a LOCKED_ERROR after the TIMEOUT of an ack wait is counted as known hit (all counted in evidence)",
    ],
    "units": [
        rapid_unit("single", "^TestC11_SingleNode$", quick={"checks": 16000, "shards": 8, "timeout_s": 900, "shrinktime": "30s"},
                   thorough={"checks": 100000, "shards": 8, "timeout_s": 3600, "shrinktime": "60s"}),
        rapid_unit("cluster", "^TestC11_Cluster$", quick={"checks": 4000, "shards": 8, "timeout_s": 900, "shrinktime": "30s"},
                   thorough={"checks": 48000, "shards": 8, "timeout_s": 3600, "shrinktime": "60s"}),
        plain_unit("replay", "^TestC11_Replay$", replay=True),
    ],
}

PROPS["C09"] = {
    "level": "exploration",
    "rule": ("(a) TestC09_RingModel: rapid-generated programs over ReplicationBufferQueue (manager nil) with bufSize 128..1024 bytes, "
             "maxSize = bufSize x {1,2,4,8}: push (payload 0..200 bytes), cursors created fresh / positioned by Head / by Search "
             "(recent, evicted and never-produced ids), AddPoll before the first Pop as ReplicationServer does, Pop bursts with the "
             "pollIndex acknowledgement of SendProcess, RemovePoll; final drain of every live cursor. Oracle: a cursor standing on "
             "seq p is handed exactly seq p+1 with the pushed 64 bytes, payload and aof id, or EOF iff nothing is pending, or the "
             "documented 'out of buf' error (then it is dead); a fresh cursor starts at the oldest retained record; Search finds a "
             "record iff it is still linked in the ring and positions exactly on it; the ring never grows beyond maxSize. "
             "Non-trivial: >=1 record recycled and (ring doubled or a cursor told out-of-buf) and >=5 successful pops. "
             "(b) TestC09_Cluster (engine N): leader + 1..2 followers as in-process instances on loopback sockets, follower's slaveof = "
             "harness fault proxy. Case = ring size {128,256,512,4096,65536} x max factor {1,2,4}, 7..50 leader operations through a "
             "MemWaiterServerProtocol (LOCK/UNLOCK on 1..4 keys x DbId 0/1 x 3 LockIds, expiry 60..3600 s or unlimited, ExpriedFlag "
             "0x0100 = logged at once, Timeout 0, Count 0..2, Rcount 0..3 (re-entrant), update flag 0x02, SET/INCR/APPEND value "
             "operations on lock and unlock, 4 % of them with payloads of 4000..4100 or 5000..9000 bytes, i.e. at and beyond the 4096-byte batch buffer "
             "of the live-stream sender), bursts 'LOCK K by a, 0..3 small requests, UNLOCK K by a, LOCK K by b with such a value' of which half are executed while the harness holds "
             "the write mutex of the leader's replication channels (a socket write that blocks for a moment: the whole burst leaves as one batch), "
             "log rotations (Aof.RewriteAofFile as the admin command does), leader restarts (all followers stopped, leader closed and a fresh "
             "instance started on the same directory: empty ring, position = last log record; 1 case in 8 is 'workload, quiesce, restart, a follower joins - mostly "
             "with an emptied directory - before the leader's first new write, more workload'), follower join (empty or "
             "emptied directory) / stop / rejoin with its stale directory at drawn positions (before the first record, in the middle, "
             "after the workload), stall/unstall and drop of the replication connection, intermediate quiescence checks, and per "
             "follower 0..4 cuts at cumulative byte offsets of the leader->follower replication stream (gap classes 1..63, 64..400, "
             "400..3000, 3000..20000). Quiescence = all AOF channels of the leader idle, follower position == leader's last aof id, "
             "replay/append/push pipelines drained (20 s watchdog => VERIF-INCONCLUSIVE, exit 3). Oracle: follower snapshot == leader "
             "snapshot restricted to persisted holds (keys, LockIds, depth, Count, Rcount, value bytes, deadlines within 1 s); live "
             "records on one connection have consecutive ids (file switches checked against the closed file's last offset); every "
             "follower file record exists byte-identically (modulo the REWRITED flag) in the leader's complete log (copies taken at "
             "every rotation), ids strictly increasing, payloads aligned, and from the follower's start id (first live record after "
             "its last full transfer) on the records of each append file are exactly the leader's; a directory whose append file "
             "indices have a hole is a violation. Non-trivial: (>=1 cut in file transfer and >=1 in live streaming) or (leader ring "
             "overflowed and a follower had to resume / resynchronise) or (the leader was restarted and a follower synchronised with it afterwards). Distinct = FNV-64 of ring sizes, operation list and cut plan. "
             "Inputs and fault plans replay, schedules do not (TestC09_Replay tries a cluster case up to 25 times). "
             "About 1 case in 8: a follower in step, then 300..600 leader records while the harness holds that follower's Aof.aofGlock (its log append "
             "falls behind its receiver), quiescence check, mostly followed by a restart of the follower from its own directory; about 1 case in 12: "
             "1..3 value-carrying holds with a 1 s expiry, 2..4 more value records behind them, 3.2 s of wall time, then the follower joins by file "
             "transfer or is restarted from its own directory (log files read with the expiry filter). "
             "The nodes of a case run with aof_file_buffer_size 4096 (half of the cases), 64, 128 or 1024; about 1 case in 6: a follower in step, then "
             "k file buffers' worth of records (k = 1..4, <= 64 records) arrive while the harness holds its Aof.aofGlock, the connection is cut while they "
             "are all queued for the log append, the append goes on; reconnect, quiescence check."),
    "assumptions": [
        "apart from the dedicated short-lived holds (1 s, keys 20..22, always followed by a 3.2 s pause before anything is compared) nothing expires "
        "during a case (expiries >= 60 s) and nothing waits (Timeout 0); require-ack is C11's",
        "fburst holds the follower's Aof.aofGlock for the duration of the burst plus <= 0.5 s",
        "after a leader restart the reference is the restarted leader (what its log recovers); followers are stopped with the leader, so no node carries pre-restart memory across it",
        "tunables read from the package-global Config after Init are identical on all nodes of a cluster; nodes are created sequentially",
        "ReplicationClient's 5 s reconnect sleep is shortened through its own WakeupRetryConnect every 3 ms; nothing else is touched",
        "Aof.WaitFlushAofChannel is not a barrier (returns while another channel still has a queued record): the harness repeats it "
        "until every channel is idle and empty",
        "ring model: a cursor is registered (AddPoll) before its first Pop and positioned at most once, as ReplicationServer does",
        "a case in which the harness could not tear down a stopped follower within 5 s is discarded, not judged",
        "verdict rule: a failing cluster case is executed again on fresh clusters (same case, up to 4 more times); it is a "
        "failure only if the same key shows again (2 of <= 5 executions; confirmed verdicts are memoised by case fingerprint so "
        "that rapid's shrinking and final re-run see a function of the input); otherwise it is counted as 'unreproduced anomaly "
        "(not judged)', written to $VERIF_FAILDIR/C09.anomaly-<pid>-<n>.json with both snapshots and announced by a "
        "VERIF-ANOMALY line; an inconclusive execution is repeated twice before the shard gives up (exit 3)",
        "a follower that is connected, whose pipelines are drained, whose position is not the leader's while every leader cursor "
        "stands at the end of the ring for 3 polls (>3 s) is a violation (C09:live-stream-gap), not a watchdog case",
        "a divergence of a follower that was built from a compacted log (records of the leader's rewrite.aof in its transfers, "
        "or a restart from its own directory holding a rewrite.aof), or in a case where a restart of the leader from a copy of "
        "its files does not recover the leader's state, is attributed to C09:leader-compacted-log-does-not-reproduce-leader-state",
        "nodes get their logger configured once per process (vQuietLogger's SetLevel per instance deadlocks go-logging's "
        "recursive read lock when another node of the cluster is logging)",
        "while listed as known: C09:ring:addpoll-after-recycle-of-seq0-stalls (ring pre-rolled past its first record), "
        "C09:full-transfer-after-compaction-loses-hold-created-by-update-request (update flag dropped from requests whose LockId is not a holder), "
        "C09:aborted-full-transfer-resumes-at-bound-skipping-history (cuts deferred past the first record of a full transfer; residual "
        "leader-side aborts recognised by the proxy signature), C09:file-transfer-concurrent-with-compaction-misses-history (rotation waits "
        "for transfers, proxy holds new handshakes back), C09:first-record-delivered-twice-when-sync-races-with-empty-ring (workload pauses "
        "until the handshake of a follower joining an empty leader is over), C09:follower-wedged-by-append-file-index-hole (no rotation of an "
        "empty file; remaining holes recognised by Aof.FindAofFiles failing), C09:follower-log-duplicated-by-unlocked-flush-during-file-transfer "
        "(recognised by signature: byte-identical repetitions / orphan or misattributed payloads, no live record forwarded twice), "
        "C09:reconnect-overtakes-the-old-connection-pipelines (recognised by signature: repetitions with live records forwarded twice, or "
        ">= 2 full transfers in one incarnation), C09:leader-compacted-log-does-not-reproduce-leader-state (recognised by signature, see above); "
        "the first-record finding additionally makes the workload wait until the first logged record has reached such a follower",
    ],
    "units": [
        # the driver divides `checks` by `shards`
        rapid_unit("ring", "^TestC09_RingModel$", quick={"checks": 160000, "shards": 4, "timeout_s": 900},
                   thorough={"checks": 1600000, "shards": 16, "timeout_s": 3600}),
        rapid_unit("cluster", "^TestC09_Cluster$", quick={"checks": 200, "shards": 8, "timeout_s": 900},
                   thorough={"checks": 2500, "shards": 16, "timeout_s": 3600}),
        plain_unit("replay", "^TestC09_Replay$", replay=True, quick={"shards": 1, "timeout_s": 1200}),
    ],
}

PROPS["C10"] = {
    "level": "exploration",
    "rule": ("engine N: leader + one follower (in-process instances, loopback sockets, follower's slaveof = harness proxy that can stall "
             "the replication stream while client-forwarding connections keep working). TestC10_Forward: case = 0..6 preloaded holds on "
             "the leader + a script of 3..16 steps: LOCK/UNLOCK requests (1..3 keys, 3 LockIds, DbId 0/1, flags show/update/concurrent-"
             "check/unlock-first, Count 0..2, Rcount 0..2, expiry 60..600 s logged at once, Timeout 0, SET/INCR/APPEND values; 1 binary script in 3 additionally one LOCK with the concurrent-check flag "
             "and Timeout 1..3 s on a key that preloaded holders keep over its Count: the leader has to queue it, the harness watches 300 ms for an answer, then "
             "releases the holder through the leader and reads the final reply) sent over "
             "one real TCP connection to the FOLLOWER's port as binary 64-byte frames (2/3) or RESP text (1/3): 'LOCK|UNLOCK|PUSH key TIMEOUT 0 EXPRIED n "
             "LOCK_ID hex FLAG f COUNT c+1 RCOUNT r+1' and the key-value commands 'SET k v', 'GET k', 'DEL k' (GET only with a live stream, after the follower caught up: it is a local read), direct in-process followerDB.Lock/UnLock calls, and role steps forcing the "
             "follower into SYNC / FOLLOWER / VOTE / CONFIG (SLock.updateState) between two requests of the same connection; half of "
             "the cases with the replication stream stalled. The requests that were not refused are then sent to the LEADER of a "
             "second fresh cluster with the same preload; a text PUSH goes to that leader through the in-memory client (its own text protocol has a listed PUSH finding) and is compared by "
             "its '+OK' and by the replies of everything after it on the connection. Oracle: every reply through the follower equals the leader's reply to the "
             "same request (result, LCount, LRCount, Count, Rcount, LockId, value bytes; text: identical RESP bytes) or is a refusal "
             "(STATE_ERROR, text '-ERR ...'); a waiting request must not be answered through the follower before the leader path answers it; a direct call answers STATE_ERROR and leaves the node's snapshot unchanged; with the "
             "stream stalled the follower's snapshot (holders, depths, deadlines, values) is identical after every step although the "
             "leader's state does change; afterwards the follower converges to the leader (C09's oracle). "
             "TestC10_FollowerKeepsExpiredHold: holds with 1..3 s expiry (or 1 min with the minute flag) on 1..3 keys (depth 1..3), carrying a drawn subset of the "
             "expiry flags a log record preserves (keep-alive 0x8000, minute 0x0040, log-error 0x0800, no-reset 0x2000; always 0x0100, never unlimited) are replicated, the stream is "
             "stalled and the follower's clock is advanced 5..700 s through LockDB.checkTimeExpried (hook H1, no wall-clock sweeps): "
             "the hold must be present while clock - deadline < 300 s; then the leader releases and the follower must follow. "
             "...Real (3 cases): the same with the real sweep goroutines, expiry + 2.5 s of wall time, one case with the millisecond flag 0x0400 "
             "(expiry 900..2900 ms; only wall time drives the millisecond wheel), leader expires, follower keeps, follower drops when "
             "the leader's record arrives. About 1 case in 4 of TestC10_Forward is a role case: 2..6 calls of ReplicationManager.SwitchToFollower(\"\"), "
             "SwitchToLeader(), SwitchToFollower(addr) on the second node, as the arbiter performs them; after every deposition SLock.state / "
             "LockDB.status are not LEADER, a LOCK handed to the node answers STATE_ERROR and its table does not change (TCP requests to a "
             "leaderless node may be refused or forwarded but must not move its table); a role case is non-trivial with >=1 LOCK granted as "
             "leader and >=1 refusal after a deposition. Non-trivial (Forward): >=1 request answered by forwarding and >=1 refused with STATE_ERROR "
             "(over TCP or direct); (expiry): hold observed past its deadline. Distinct = FNV-64 of the script / case."),
    "assumptions": [
        "role cases exclude the harness' poke key from the table comparison (its record may still be in the ended client's pipelines); "
        "the real-time unit needs ~15 s (3 cases)",
        "text protocol scripts use DbId 0 and no value operations; a text refusal is a RESP error line ('-ERR Leader Server Error')",
        "the early-answer window is 300 ms of wall time: a forwarded request that the leader answers at once (refusal) is an early answer on both paths and compared as usual; only 'early through the follower, late at the leader' is judged",
        "a request in role VOTE/CONFIG may be refused or, on a connection that already has a forwarding client, forwarded - both allowed",
        "forwarded requests without an INIT frame (no client id): the follower's pushed state frames are not part of the comparison",
        "the driver passes only C10's keys to a C10 run, so C09's exclusions are off there: a case whose cluster preparation or "
        "final convergence check fails with a C09 key is noted (VERIF-NOTE, class 'case ran into a C09 finding'), not judged by C10; "
        "the workload of a C10 case starts only after the follower's handshake is over (C10 does not explore joins racing with the "
        "leader's first records)",
        "verdict rule as in C09: a failing script is executed again on fresh clusters up to 4 more times and is a failure only if "
        "the same key shows again; otherwise VERIF-ANOMALY + $VERIF_FAILDIR/C10.anomaly-<pid>-<n>.json, class 'unreproduced anomaly "
        "(not judged)'; inconclusive executions are repeated twice before the shard exits 3",
        "while listed as known: C10:concurrent-check-answered-locally-by-non-leader (flag 0x08 not generated for direct calls nor with a "
        "stalled stream), C10:follower-keeps-replicated-hold-beyond-300s (clock beyond deadline+300 s only observed, not judged); "
        "C10:non-leader-unlock-of-unknown-key-answers-UNLOCK_ERROR is repaired in /repo (793e756): list it as fixed, its exclusion is off",
    ],
    "units": [
        # the driver divides `checks` by `shards`
        rapid_unit("forward", "^TestC10_Forward$", quick={"checks": 200, "shards": 8, "timeout_s": 900},
                   thorough={"checks": 4000, "shards": 16, "timeout_s": 3600}),
        rapid_unit("expiry", "^TestC10_FollowerKeepsExpiredHold$", quick={"checks": 30, "shards": 2, "timeout_s": 900},
                   thorough={"checks": 600, "shards": 4, "timeout_s": 3600}),
        plain_unit("expiry-real", "^TestC10_FollowerKeepsExpiredHoldReal$", quick={"shards": 1, "timeout_s": 900}),
        plain_unit("replay", "^TestC10_Replay$", replay=True),
    ],
}

# engine R (real time): millisecond flags and the server's own dispatcher loops (harness/server/er_*.go, notes/ER.md)
_R_RULE = ("engine R (real time): one fresh in-process leader per case with its own clock/time-out/expiry goroutines and millisecond "
           "wheels, 1..3 in-memory clients, rapid-drawn script of 3..14 LOCK/UNLOCK/sleep steps on 1..2 keys (Timeout 0 | 1..2500 ms "
           "with the millisecond flag | 1..3 s | boundary classes 2999, 3000, 3001, 5999, 6000, 30000, 64535..65535 ms, 65535 s, minute flag 1, 2, 1092, 1093, 65535; Expried 30..2500 ms with the flag | 1..3 s | unlimited | the same boundary classes; Count 0..2; re-entrant re-locks "
           "and updates; sleeps 0..1500 ms; optional alignment of the start to an offset inside the wall-clock second). Every request "
           "is stamped before/after the call, every reply in the callback (monotonic clock, wall second, server's sampled clock, "
           "goroutine). Oracle: early = violation (ms: T-2 ms; s: T minus the measured staleness of the sampled clock; expiry from the "
           "latest sound lower bound of the moment the terms were set; a grant that needs an unexpired hold to be gone), late = "
           "T/E + 2 s + max(50 ms, 3 x worst observed delay) and only when that delay was < 200 ms; order violations always. A violation "
           "is reported only if it recurs in 1..3 re-executions. Non-trivial: a millisecond-flag timer fired while another request was "
           "queued or held on the key. Distinct = FNV-64 of parameters + script.")
_R_ASSUME = [
    "engine R: only LockIds whose earlier lock requests all had Timeout 0 are re-locked/updated (engine A's LockId assumption)",
    "engine R: the wall clock is not stepped during a case (a case in which wall and monotonic clock diverge by > 2 ms is discarded)",
    "engine R: sub-granularity is not judged: a millisecond timer may fire up to 2 ms before T (two truncations to whole ms)",
    "engine R: second- and minute-granularity periods are counted in server time: the lower bound starts at the beginning of the server second sampled when the request was handed over (a period may end up to that second's elapsed part earlier than T of wall time)",
    "engine R: an update that shortens the deadline, or moves it by <= 1 unit, is not judged for lateness",
    "engine R: lateness is judged only when the measured scheduling delay of the process stayed below 200 ms; cases that could not be kept on schedule are discarded (counted)",
    "engine R: cases run 4 at a time per process on separate instances; a failure is reported only if it recurs when the case is executed again",
    "engine R: periods longer than 4 s are only checked for not ending early inside their watch window (3000 + 1100 ms for the millisecond flag, 2.2 s for second / minute granularity); they are abandoned with the instance",
]
for _p in ("C05", "C06"):
    PROPS[_p]["units"] += [
        rapid_unit("R-" + _p, "^Test" + _p + "_RealTime$", quick={"checks": 192, "shards": 16, "timeout_s": 900},
                   thorough={"checks": 3200, "shards": 16, "timeout_s": 3600}),
        plain_unit("replay-rt-" + _p, "^Test" + _p + "_RTReplay$", replay=True, replay_match="^rt-", quick={"shards": 1, "timeout_s": 900}),
    ]
    PROPS[_p]["rule"] = PROPS[_p]["rule"] + " Second engine: " + _R_RULE
    PROPS[_p]["assumptions"] = PROPS[_p]["assumptions"] + _R_ASSUME
    # dispatcher unit: the real sweep dispatchers under a harness-owned clock with jumps (harness/server/er_disp_test.go)
    PROPS[_p]["units"] += [
        rapid_unit("RD-" + _p, "^Test" + _p + "_Dispatcher$", quick={"checks": 1600, "shards": 8, "timeout_s": 900},
                   thorough={"checks": 48000, "shards": 16, "timeout_s": 3600}),
    ]
    PROPS[_p]["rule"] = PROPS[_p]["rule"] + (
        " Dispatcher unit: a fresh leader with the no-check-loop hook; the REAL LockDB.checkTimeOut / checkExpried goroutines are "
        "started by the harness, which owns LockDB.currentTime and signals them like updateCurrentTime - single seconds and jumps of 2..70 s "
        "(stall, suspended process, clock step); rapid draws 4..28 steps on 1..3 keys (LOCK Timeout 0..60 s, Expried 1..60 s incl. the "
        "zero-aof-time flag with E > 5 = long table at once and E >= 44 aged into the long table, unlimited; UNLOCK; clock moves); after every "
        "move the harness waits for the spawned sweep goroutines and checks a reply-driven ledger: nothing early, every hold past E + 2 s "
        "ended with EXPRIED, every request past T + 2 s answered, nothing queued on an empty key, at the end every key free (probe LOCK). "
        "Non-trivial: a jump > 16 s whose catch-up delivered an EXPRIED or TIMEOUT.")
    PROPS[_p]["assumptions"] = PROPS[_p]["assumptions"] + [
        "dispatcher unit: second unit only; fresh LockId per request; real time is used only to wait for the spawned goroutines (2 s watchdog = "
        "inconclusive); a miss is reported only if it recurs on re-execution (on the unchanged tree 0.1-0.2% of the cases show a schedule-dependent "
        "miss right after a jump that never recurred in 54 000 cases: counted as anomalies, see DESIGN 0.7)",
    ]

# engine T (Redis-style text commands against a key-value reference store; harness/server/c15t_*.go, notes/C15T.md)
PROPS["C15"]["units"] += [
    rapid_unit("text-kv", "^TestC15_TextKV$", quick={"checks": 4000, "shards": 8, "timeout_s": 1200},
               thorough={"checks": 48000, "shards": 16, "timeout_s": 7200}),
    plain_unit("replay-C15-text", "^TestC15_TextReplay$", replay=True, replay_match="^text-"),
]
PROPS["C15"]["rule"] = PROPS["C15"]["rule"] + (" (c) engine T: one fresh leader per case under a virtual clock, 1..2 text connections served by the real "
    "Server.handle over in-memory connections; rapid draws 5..60 Redis-style commands (SET with EX/PX/NX/XX, GET, DEL, SETNX, GETSET, INCR/DECR/INCRBY/DECRBY, "
    "APPEND, EXISTS, STRLEN, TYPE, EXPIRE, PEXPIRE, PERSIST, TTL, PTTL, SETEX, PSETEX) and clock ticks over 1..4 keys with values from empty to 4 kB incl. CR LF NUL, "
    "decimal and near-int64 numbers; every reply is compared with a reference key-value store kept as a set of hypotheses (forks only where a plain store has a choice), "
    "every key is read back after every command and fully (GET/EXISTS/STRLEN/TYPE/TTL) after every tick and at the end. Non-trivial (engine T): at least three successful "
    "writes of at least two kinds on one key since its last DEL and at least one GET that returned a stored value after a write.")
PROPS["C15"]["assumptions"] = PROPS["C15"]["assumptions"] + [
    "engine T: commands are issued one at a time (no pipelining, no concurrency between the two connections)",
    "engine T: millisecond expiries <= 3000 ms and PEXPIREAT are not generated (wall-clock wheel / wall clock); EXPIREAT is not registered by the server",
    "engine T: seconds 1..65535, no zero/negative/minute-granular times; key names that map to different 16-byte keys; one database; stand-alone leader; no ACK/NAOF/TX/PTX options",
    "engine T design choices that are modelled, not flagged: GET of an integer answers :n, integer overflow wraps, '+5' and '007' are accepted as deltas, a key set for n s is gone after the sweep of t+n+1, "
    "an expiry update that moves the due time by at most 1 s may be ignored, SETNX on a held key waits for the connection time-out",
    "engine T: six listed known findings are excluded by construction while listed (counted in the evidence)",
]

# C03 over the text protocol (engine D executor; harness/server/c03t_*.go, notes/C03T.md)
PROPS["C03"]["units"] += [
    rapid_unit("text-replies", "^TestC03_TextReplies$", quick={"checks": 16000, "shards": 16, "timeout_s": 900},
               thorough={"checks": 200000, "shards": 16, "timeout_s": 3600}),
    plain_unit("replay-C03-text", "^TestC03_TxtReplay$", replay=True, replay_match="^text-"),
]
PROPS["C03"]["rule"] += (" Text engine: one fresh leader per case under a virtual clock, 1-3 text connections (plus, 30%, one binary "
    "contender) served by the real Server.handle over in-memory connections; rapid draws 3-26 steps: LOCK/UNLOCK/PUSH with explicit "
    "LOCK_ID, TIMEOUT 0-3, EXPRIED 1-5, COUNT/RCOUNT 1-3 on 1-3 keys (re-used LockIds, unlocks of own/foreign/unknown ids) and "
    "clock ticks of 1-4 s, so holds expire and queued requests time out while a connection is idle or waits. Oracle per text "
    "command: exactly one RESP reply; PUSH -> +OK; LOCK/UNLOCK -> 12-element result whose LOCK_ID, COUNT, RCOUNT are the command's "
    "own, never result EXPRIED (a notice is not a terminal reply), result plausible for the lock table read before the command "
    "(LOCK on a key without holder and queue: SUCCED; LockId already holding: SUCCED iff depth <= RCOUNT else LOCKED_ERROR; "
    "otherwise SUCCED/TIMEOUT; UNLOCK: SUCCED iff the LockId held the key, else UNLOCK_ERROR/UNOWN_ERROR), LOCK SUCCED -> the "
    "LockId holds the key with depth = LRCOUNT; a command that cannot queue (UNLOCK, PUSH, TIMEOUT 0) is answered at once, a "
    "handler neither back in Read nor behind a queued request within 3 s = missing reply; no unsolicited reply. End: 6 s pass, no "
    "command unanswered, no partial output, the reply channel of every idle text connection empty, and a probe LOCK on a private "
    "free key per connection is answered SUCCED with its own LOCK_ID. Non-trivial: a hold of a text connection expired while it "
    "had no command outstanding and the connection sent a lock-type command afterwards (about 28% of the cases).")
PROPS["C03"]["assumptions"] += [
    "text engine: flags 0, DbId 0, second granularity, no value operations, no wills, no closes before the end; a command for a connection that waits in a queue is skipped",
    "text engine: a LockId is not re-used for LOCK/PUSH while a request bearing it is queued on the key; a re-stated hold keeps its Expried (shortened expiries are C06 matter)",
    "text engine: plausibility uses the lock table read immediately before the command is sent (the harness is the only actor then); for a request that waited only SUCCED/TIMEOUT and the reply's identity are judged",
    "text engine: the 3 s 'no reply' bound is a verdict only because every other goroutine of the instance is parked at that moment (VERIF_C03T_STUCK_MS)",
]

# C10 under controlled schedules (engine B): a leader loses leadership while client requests are in flight
PROPS["C10"]["units"] += [
    rapid_unit("B-C10", "^TestC10_EngineB$", quick={"checks": 4800, "shards": 16, "timeout_s": 900},
               thorough={"checks": 80000, "shards": 16, "timeout_s": 3600}),
    plain_unit("replay-B-C10", "^TestC10_ReplayB$", replay=True, replay_match="engineB"),
]
PROPS["C10"]["rule"] = PROPS["C10"]["rule"] + (" Engine B (controlled schedules): a single-shard leader with 1..3 holds; threads: one client request (unlock by LockId / unlock-first / "
    "re-entrant lock / sharing lock / lock of a free key) that is held back in front of the shard mutex ('stall' directive, 75 %), the role change itself (SLock.updateState(STATE_FOLLOWER), "
    "what ReplicationManager.SwitchToFollower runs) and 0..2 further client requests, all parking at the shard-mutex hook points; the rapid-drawn schedule decides who continues. Oracle: once the "
    "role change has finished the node's lock table (holders with depth, queued requests) is identical after every further segment, and no request sent afterwards is answered SUCCED. "
    "Non-trivial (engine B): >= 2 thread switches and a holder added or removed during the concurrent phase.")
PROPS["C10"]["assumptions"] = PROPS["C10"]["assumptions"] + [
    "engine B for C10 uses one shard (updateState takes every shard mutex in turn and would park while holding one), no sweeps after the role change, expiries of 30 s",
]
