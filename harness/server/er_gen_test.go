package server

// Engine R: generator, properties, replay tests (C05 / C06 in real time).

import (
	"encoding/json"
	"fmt"
	"os"
	"path/filepath"
	"strings"
	"sync"
	"sync/atomic"
	"testing"

	"pgregory.net/rapid"
)

// Keys of findings this engine knows how to steer around (active only while listed as known: VERIF_KNOWN_KEYS).
const (
	rKeyRestartMs    = "C06:rt:restart-ignored-ms"
	rKeyRestartUnit  = "C06:rt:expiry-early-after-unit-change"
	rKeyExpOver3s    = "C06:rt:expiry-early-ms-over-3s"
	rKeyTimeoutOver3 = "C05:rt:timeout-early-ms-over-3s"
	rKeyUnlimitedMs  = "C06:rt:unlimited-expired-ms-flag"
	rKeySlotT        = "C05:rt:ms-wheel-slot-collision"
	rKeySlotE        = "C06:rt:ms-wheel-slot-collision"
)

// rPar: cases executed concurrently inside one process (each on its own instance).
func rPar() int { return vEnvInt("VERIF_R_PAR", 4) }

type rGenState struct {
	ids     [2][]int    // LockIds already used for a lock request, per key
	idMs    map[int]int // id -> expiry unit used last: 1 ms, 2 s, 3 unlimited
	idOwner map[int]int
	sealed  map[int]bool // a lock request with Timeout > 0 was issued for this id: no further lock request for it
	sleepMs int
}

func rGenDur(t *rapid.T, label string, w []int) (kind int) {
	// weighted choice, returns the index
	total := 0
	for _, x := range w {
		total += x
	}
	r := rapid.IntRange(0, total-1).Draw(t, label)
	for i, x := range w {
		if r < x {
			return i
		}
		r -= x
	}
	return len(w) - 1
}

func rGenTimeout(t *rapid.T, prof string, st *vStat) (T, TF int) {
	// 0 | ms small | ms mid | ms large | 1 s | 2..3 s | ms >= 3000
	w := []int{10, 35, 20, 5, 20, 7, 3}
	if prof == "C06" {
		w = []int{40, 8, 20, 10, 10, 9, 3}
	}
	if vIsKnown(rKeyTimeoutOver3) {
		w[6] = 0
	}
	switch rGenDur(t, "timeout-kind", w) {
	case 0:
		return 0, 0
	case 1:
		return rapid.IntRange(1, 400).Draw(t, "T-ms"), rTFms
	case 2:
		return rapid.IntRange(400, 1500).Draw(t, "T-ms"), rTFms
	case 3:
		return rapid.IntRange(1500, 2500).Draw(t, "T-ms"), rTFms
	case 4:
		return 1, 0
	case 5:
		return rapid.IntRange(2, 3).Draw(t, "T-s"), 0
	default:
		return rapid.IntRange(3000, 3900).Draw(t, "T-ms"), rTFms
	}
}

// unitHint: 0 free, 1 ms, 2 s (keep the unit of the hold's current terms)
func rGenExpiry(t *rapid.T, prof string, unitHint int, st *vStat) (E, EF int) {
	// ms small | ms mid | ms large | 1 s | 2..3 s | unlimited | ms >= 3000
	w := []int{18, 12, 6, 20, 8, 32, 4}
	if prof == "C06" {
		w = []int{38, 20, 8, 17, 6, 7, 4}
	}
	if vIsKnown(rKeyExpOver3s) {
		w[6] = 0
	}
	switch unitHint {
	case 1:
		w[3], w[4], w[5] = 0, 0, 0
	case 2:
		w[0], w[1], w[2], w[5], w[6] = 0, 0, 0, 0, 0
	}
	switch rGenDur(t, "expiry-kind", w) {
	case 0:
		return rapid.IntRange(30, 500).Draw(t, "E-ms"), rEFms
	case 1:
		return rapid.IntRange(500, 1500).Draw(t, "E-ms"), rEFms
	case 2:
		return rapid.IntRange(1500, 2500).Draw(t, "E-ms"), rEFms
	case 3:
		return 1, 0
	case 4:
		return rapid.IntRange(2, 3).Draw(t, "E-s"), 0
	case 5:
		// Expried must be > 0 (0 = release at once); its value is ignored under the unlimited flag
		if !vIsKnown(rKeyUnlimitedMs) && rapid.IntRange(0, 5).Draw(t, "unlimited-with-ms-flag") == 0 {
			return rapid.IntRange(30, 900).Draw(t, "E-ms"), rEFunlimited | rEFms
		}
		return rapid.IntRange(1, 3).Draw(t, "E-s"), rEFunlimited
	default:
		return rapid.IntRange(3000, 3900).Draw(t, "E-ms"), rEFms
	}
}

// rLongBoundaryMs: millisecond values around the hand-over between the timer structures (the millisecond wheel has
// MILLISECOND_QUEUE_LENGTH = 3000 slots; longer periods are handed to the second wheel in whole seconds) and around the top
// of the uint16 range of the field (value + 999 wraps from 64537 on).
var rLongBoundaryMs = []int{2999, 3000, 3001, 5999, 6000, 30000, 64535, 64536, 64537, 65000, 65535}

// rGenLongValue: a period that is (mostly) far longer than a case. flagMs / flagMin are the unit bits (same values in
// TimeoutFlag and ExpriedFlag).
func rGenLongValue(t *rapid.T, allowMs bool) (v, flag int) {
	// ms boundary | ms top of the range | ms anywhere >= 3000 | 65535 s | s anywhere | minutes
	w := []int{50, 15, 10, 8, 7, 10}
	if !allowMs {
		w[0], w[1], w[2] = 0, 0, 0
	}
	switch rGenDur(t, "long-kind", w) {
	case 0:
		return rapid.SampledFrom(rLongBoundaryMs).Draw(t, "long-ms"), rTFms
	case 1:
		return rapid.IntRange(64000, 65535).Draw(t, "long-ms"), rTFms
	case 2:
		return rapid.IntRange(3000, 65535).Draw(t, "long-ms"), rTFms
	case 3:
		return 65535, 0
	case 4:
		return rapid.IntRange(5, 65535).Draw(t, "long-s"), 0
	default:
		return rapid.SampledFrom([]int{1, 2, 1092, 1093, 65535}).Draw(t, "long-min"), rTFmin
	}
}

// rAvoidSlotCollision: while the finding is listed as known, millisecond periods that end on the millisecond wheel in its
// last 400 ms (2601..2999) are not generated (the value is lowered to 2600): a slot goroutine that is 3000 - v ms late makes
// them fire at once, and 400 ms is twice the delay at which this engine stops judging early answers.
func rAvoidSlotCollision(v, flag int, key string) int {
	if flag&rTFms != 0 && v < MILLISECOND_QUEUE_LENGTH && v > rSlotCollisionFrom && vIsKnown(key) {
		return rSlotCollisionFrom
	}
	return v
}

// rGenLongBlock: requests that really have to wait (behind a holder with unlimited expiry, on a key of their own) and
// holds that are watched for the rest of the case (on another key of their own), with periods from rGenLongValue. They
// come first in the script so that their watch window (rWatchMs) lies inside the case.
func rGenLongBlock(t *rapid.T, c *rCase, prof string) {
	w := []int{45, 40, 10, 5} // none | waiters | holds | both
	if prof == "C06" {
		w = []int{45, 10, 40, 5}
	}
	kind := rGenDur(t, "long-block", w)
	if kind == 1 || kind == 3 {
		c.Script = append(c.Script, rStep{K: "lock", C: 0, Key: 2, Id: 32, E: 1, EF: rEFunlimited})
		n := rapid.IntRange(1, 3).Draw(t, "long-waiters")
		for i := 0; i < n; i++ {
			s := rStep{K: "lock", C: rapid.IntRange(0, c.NClients-1).Draw(t, "client"), Key: 2, Id: 33 + i, E: 1}
			s.T, s.TF = rGenLongValue(t, !vIsKnown(rKeyTimeoutOver3))
			s.T = rAvoidSlotCollision(s.T, s.TF, rKeySlotT)
			c.Script = append(c.Script, s)
		}
	}
	if kind == 2 || kind == 3 {
		n := rapid.IntRange(1, 3).Draw(t, "long-holds")
		for i := 0; i < n; i++ {
			s := rStep{K: "lock", C: rapid.IntRange(0, c.NClients-1).Draw(t, "client"), Key: 3, Id: 48 + i, Cnt: 2}
			s.E, s.EF = rGenLongValue(t, !vIsKnown(rKeyExpOver3s))
			s.E = rAvoidSlotCollision(s.E, s.EF, rKeySlotE)
			c.Script = append(c.Script, s)
		}
	}
}

func rGenCase(t *rapid.T, prof string, st *vStat) *rCase {
	c := &rCase{Engine: "R", Profile: prof}
	c.DbConc = rapid.SampledFrom([]int{1, 2, 4}).Draw(t, "dbconc")
	c.AofSecs = rapid.SampledFrom([]int{0, 1, 5}).Draw(t, "aofsecs")
	c.NClients = rapid.IntRange(1, 3).Draw(t, "clients")
	c.PhaseMs = -1
	switch rapid.IntRange(0, 9).Draw(t, "phase-kind") {
	case 0, 1:
		c.PhaseMs = rapid.IntRange(880, 999).Draw(t, "phase")
	case 2:
		c.PhaseMs = rapid.IntRange(0, 60).Draw(t, "phase")
	case 3:
		c.PhaseMs = rapid.IntRange(0, 999).Draw(t, "phase")
	}
	nkeys := rapid.IntRange(1, 2).Draw(t, "keys")
	n := rapid.IntRange(3, 14).Draw(t, "steps")
	g := &rGenState{idMs: map[int]int{}, idOwner: map[int]int{}, sealed: map[int]bool{}}
	knownRestartMs, knownRestartUnit := vIsKnown(rKeyRestartMs), vIsKnown(rKeyRestartUnit)
	if vIsKnown(rKeyTimeoutOver3) {
		st.Exclude("millisecond-flag Timeout >= 3000 not generated (known finding " + rKeyTimeoutOver3 + ")")
	}
	if vIsKnown(rKeyExpOver3s) {
		st.Exclude("millisecond-flag Expried >= 3000 not generated (known finding " + rKeyExpOver3s + ")")
	}
	if vIsKnown(rKeySlotT) {
		st.Exclude("millisecond-flag Timeout 2601..2999 not generated (known finding " + rKeySlotT + ")")
	}
	if vIsKnown(rKeySlotE) {
		st.Exclude("millisecond-flag Expried 2601..2999 not generated (known finding " + rKeySlotE + ")")
	}
	if vIsKnown(rKeyUnlimitedMs) {
		st.Exclude("unlimited-expiry flag is not combined with the millisecond flag (known finding " + rKeyUnlimitedMs + ")")
	}
	if knownRestartMs {
		st.Exclude("no re-lock/update of a hold whose current terms carry the millisecond flag (known finding " + rKeyRestartMs + ")")
	}
	if knownRestartUnit {
		st.Exclude("re-lock/update keeps the unit of the hold's current terms (known finding " + rKeyRestartUnit + ")")
	}
	rGenLongBlock(t, c, prof)
	// step kinds: lock-new | relock/update | unlock | sleep
	w := []int{45, 6, 14, 35}
	if prof == "C06" {
		w = []int{34, 26, 8, 32}
	}
	for len(c.Script) < n {
		key := 0
		if nkeys == 2 {
			key = rapid.IntRange(0, 1).Draw(t, "key")
		}
		kind := rGenDur(t, "step-kind", w)
		if len(c.Script) == 0 {
			kind = 0
		}
		if (kind == 1 || kind == 2) && len(g.ids[key]) == 0 {
			kind = 0
		}
		switch kind {
		case 0:
			id := key*16 + len(g.ids[key]) // always a fresh LockId (at most 14 per key)
			g.ids[key] = append(g.ids[key], id)
			g.idOwner[id] = rapid.IntRange(0, c.NClients-1).Draw(t, "client")
			s := rStep{K: "lock", C: g.idOwner[id], Key: key, Id: id}
			s.Cnt = rapid.SampledFrom([]int{0, 0, 0, 0, 1, 1, 2}).Draw(t, "count")
			s.Rc = rapid.SampledFrom([]int{0, 0, 1, 2}).Draw(t, "rcount")
			s.T, s.TF = rGenTimeout(t, prof, st)
			s.E, s.EF = rGenExpiry(t, prof, 0, st)
			g.idMs[id] = rExpUnit(s.EF)
			if s.T > 0 {
				g.sealed[id] = true
			}
			c.Script = append(c.Script, s)
		case 1:
			// Assumption shared with engine A: a LockId is not used for another lock request while a request bearing
			// it may still be queued on the key. Statically: only ids whose earlier lock requests all had Timeout 0.
			var open []int
			for _, x := range g.ids[key] {
				if !g.sealed[x] {
					open = append(open, x)
				}
			}
			if len(open) == 0 {
				continue
			}
			id := rapid.SampledFrom(open).Draw(t, "id")
			if knownRestartMs && g.idMs[id] == 1 {
				continue
			}
			s := rStep{K: "lock", C: g.idOwner[id], Key: key, Id: id}
			if rapid.IntRange(0, 9).Draw(t, "other-client") == 0 {
				s.C = rapid.IntRange(0, c.NClients-1).Draw(t, "client")
			}
			s.Rc = rapid.IntRange(1, 3).Draw(t, "rcount")
			if rapid.Bool().Draw(t, "update") {
				s.F = rFupdate
			}
			s.Cnt = rapid.SampledFrom([]int{0, 0, 0, 1, 2}).Draw(t, "count")
			hint := 0
			if g.idMs[id] != 3 && (knownRestartUnit || rapid.IntRange(0, 9).Draw(t, "keep-unit") < 8) {
				hint = g.idMs[id]
			}
			if knownRestartMs && hint == 0 {
				hint = 2
			}
			s.E, s.EF = rGenExpiry(t, prof, hint, st)
			if rapid.IntRange(0, 3).Draw(t, "with-timeout") == 0 {
				s.T, s.TF = rGenTimeout(t, prof, st)
			}
			if s.T > 0 {
				g.sealed[id] = true
			}
			g.idMs[id] = rExpUnit(s.EF)
			c.Script = append(c.Script, s)
		case 2:
			id := rapid.SampledFrom(g.ids[key]).Draw(t, "id")
			s := rStep{K: "unlock", C: g.idOwner[id], Key: key, Id: id, Rc: rapid.IntRange(0, 1).Draw(t, "rcount")}
			c.Script = append(c.Script, s)
		default:
			d := 0
			switch rGenDur(t, "sleep-kind", []int{40, 40, 20}) {
			case 0:
				d = rapid.IntRange(0, 100).Draw(t, "d")
			case 1:
				d = rapid.IntRange(100, 600).Draw(t, "d")
			default:
				d = rapid.IntRange(600, 1500).Draw(t, "d")
			}
			if g.sleepMs+d > 3000 {
				d = 3000 - g.sleepMs
			}
			if d <= 0 && len(c.Script) > 0 && c.Script[len(c.Script)-1].K == "sleep" {
				continue
			}
			g.sleepMs += d
			c.Script = append(c.Script, rStep{K: "sleep", D: d})
		}
	}
	return c
}

func rExpUnit(ef int) int {
	switch {
	case ef&rEFunlimited != 0:
		return 3
	case ef&rEFms != 0:
		return 1
	}
	return 2
}

type rOutcome struct {
	c   *rCase
	run *rRun
	v   *rVerdict
}

func rRunOne(c *rCase) rOutcome {
	run := rExec(c)
	return rOutcome{c, run, rJudge(c, run)}
}

// pick the first violation that belongs to the property under test
func (o rOutcome) violation(prop string) *rViol {
	for i := range o.v.viols {
		if strings.HasPrefix(o.v.viols[i].Key, prop+":") {
			return &o.v.viols[i]
		}
	}
	return nil
}

var rAnomalySeq int64

type rAnomalyFile struct {
	Test    string  `json:"test"`
	Key     string  `json:"key"`
	Message string  `json:"message"`
	Case    *rCase  `json:"case"`
	Runs    []*rRun `json:"runs"`
}

func rSaveAnomaly(kind, test, key, msg string, c *rCase, runs []*rRun) string {
	dir := os.Getenv("VERIF_FAILDIR")
	if dir == "" {
		return ""
	}
	n := atomic.AddInt64(&rAnomalySeq, 1)
	path := filepath.Join(dir, fmt.Sprintf("ER.%s-%d.json", kind, n))
	b, err := json.MarshalIndent(rAnomalyFile{test, key, msg, c, runs}, "", " ")
	if err == nil {
		_ = os.WriteFile(path, b, 0644)
	}
	return path
}

func rClasses(o rOutcome, prop string) (bool, []string) {
	var cls []string
	add := func(b bool, s string) {
		if b {
			cls = append(cls, s)
		}
	}
	in := o.v.info
	add(o.run.Err != "", "harness error: "+o.run.Err)
	add(o.run.Panic != "", "panic")
	add(o.v.discarded != "", "discarded: "+o.v.discarded)
	for _, s := range o.v.notJudged {
		cls = append(cls, s)
	}
	add(in.msTimeouts > 0, "millisecond time-out fired")
	add(in.msExpiries > 0, "millisecond expiry fired")
	add(in.secFired > 0, "second-granularity timer fired (server's own loops)")
	add(in.restarts > 0, "expiry observed after a re-lock/update restarted the period")
	add(in.immediateTimeouts > 0, "Timeout 0 answered at once")
	add(in.queueGrants > 0, "grant from the wait queue")
	add(in.staleSets > 0, "server's sampled clock was stale when a period started (bound relaxed by the measured staleness)")
	add(in.wakeChecked > 0, "wake-up after an expiry that emptied the key was judged")
	add(in.wakeSlow > 0, "wake-up after an expiry came later than the slack after the notice (no bound claimed)")
	add(in.longWatched > 0, "period far longer than the case (boundary values up to 65535 ms/s/min) watched through its hand-over window, unanswered as it must be")
	add(in.capacityChecked > 0, "a grant was checked against holds that cannot have ended")
	add(in.ignorableUpdates > 0, "update moved the deadline by at most one unit (either outcome accepted)")
	add(in.unitChanges > 0, "re-lock/update changed the unit of the expiry")
	add(o.run.StoppedEarly, "observation stopped when nothing was outstanding")
	for _, x := range o.v.viols {
		if !strings.HasPrefix(x.Key, prop+":") {
			cls = append(cls, "violation of the sibling property (reported by its own test): "+x.Key)
		}
	}
	return in.nontrivial && o.v.discarded == "", cls
}

func rProp(test, prop string) func(*rapid.T) {
	st := vstat(test)
	return func(t *rapid.T) {
		par := rPar()
		cases := make([]*rCase, par)
		for i := range cases {
			cases[i] = rGenCase(t, prop, st)
		}
		outs := make([]rOutcome, par)
		var wg sync.WaitGroup
		for i := range cases {
			wg.Add(1)
			go func(i int) {
				defer wg.Done()
				outs[i] = rRunOne(cases[i])
			}(i)
		}
		wg.Wait()
		for _, o := range outs {
			nt, cls := rClasses(o, prop)
			c := o.c
			st.Case(nt, c.fingerprint(), cls, func() interface{} { return c })
		}
		for _, o := range outs {
			if o.run.Panic != "" {
				vFail(t, test, prop+":rt:panic:"+vTopRepoFunc(), o.c, "panic: %s\n%s", o.run.Panic, rHistory(o.c, o.run))
			}
			if o.run.Err != "" {
				t.Fatalf("engine R harness error: %s", o.run.Err)
			}
			x := o.violation(prop)
			if x == nil {
				if len(o.v.viols) > 0 { // belongs to the sibling property: kept for diagnosis, judged by the sibling's test
					y := o.v.viols[0]
					f := rSaveAnomaly("sibling", test, y.Key, y.Msg, o.c, []*rRun{o.run})
					fmt.Printf("VERIF-SIBLING key=%s file=%s %s\n", y.Key, f, y.Msg)
				}
				continue
			}
			// Schedules are real: confirm by re-execution (alone, not in a batch). Second-granularity outcomes depend
			// on where inside a wall-clock second the script started: a case that left this open is pinned to the
			// offset the failing run happened to start at, and it is the pinned case that is reported.
			cc := *o.c
			if cc.PhaseMs < 0 {
				cc.PhaseMs = int(o.run.StartPhaseMs)
			}
			runs := []*rRun{o.run}
			confirmed := (*rOutcome)(nil)
			for k := 0; k < 3 && confirmed == nil; k++ {
				o2 := rRunOne(&cc)
				runs = append(runs, o2.run)
				for i := range o2.v.viols {
					if o2.v.viols[i].Key == x.Key {
						confirmed = &o2
					}
				}
			}
			if confirmed == nil {
				st.Class("unreproduced anomaly (not judged)", 1)
				f := rSaveAnomaly("anomaly", test, x.Key, x.Msg, &cc, runs)
				fmt.Printf("VERIF-ANOMALY key=%s file=%s %s\n", x.Key, f, x.Msg)
				continue
			}
			vFail(t, test, x.Key, &cc, "%s\n--- first run ---\n%s\n--- confirming run ---\n%s", x.Msg, rHistory(o.c, o.run), rHistory(confirmed.c, confirmed.run))
		}
	}
}

func TestC05_RealTime(t *testing.T) { rapid.Check(t, rProp("TestC05_RealTime", "C05")) }
func TestC06_RealTime(t *testing.T) { rapid.Check(t, rProp("TestC06_RealTime", "C06")) }

func rReplayTest(t *testing.T, prop string) {
	for _, f := range vReplayFiles(prop) {
		if os.Getenv("VERIF_REPLAY") == "" && !strings.HasPrefix(filepath.Base(f), "rt-") {
			continue
		}
		var c rCase
		key, err := vLoadReplay(f, &c)
		if err == nil && c.Engine == "RD" {
			dReplay(f, key, prop) // dispatcher unit (er_disp_test.go)
			continue
		}
		if err != nil || c.Engine != "R" || len(c.Script) == 0 {
			continue // not an engine-R case
		}
		msg := ""
		var last rOutcome
		// "tries" in the replay file: schedule-dependent findings get more than the default 4 attempts.
		// VERIF_R_RATE=n (development aid): run n times whatever happens and print the hit rate.
		tries, rate, hits := 4, vEnvInt("VERIF_R_RATE", 0), 0
		var meta struct {
			Tries int `json:"tries"`
		}
		if b, err := os.ReadFile(f); err == nil && json.Unmarshal(b, &meta) == nil && meta.Tries > 0 {
			tries = meta.Tries
		}
		if rate > 0 {
			tries = rate
		}
		for k := 0; k < tries && (msg == "" || rate > 0); k++ {
			last = rRunOne(&c)
			if last.run.Panic != "" {
				msg = "panic: " + last.run.Panic
			}
			for _, x := range last.v.viols {
				if x.Key == key || (key == "" && strings.HasPrefix(x.Key, prop+":")) {
					msg = x.Msg
					hits++
					break
				}
			}
		}
		if rate > 0 {
			fmt.Printf("VERIF-RATE key=%s hits=%d/%d file=%s\n", key, hits, tries, f)
		}
		fmt.Printf("VERIF-KF key=%s reproduced=%v file=%s %s\n", key, msg != "", f, strings.ReplaceAll(msg, "\n", " | "))
		if testing.Verbose() {
			fmt.Println(rHistory(&c, last.run))
			for _, x := range last.v.viols {
				fmt.Printf("   judged: %s %s\n", x.Key, x.Msg)
			}
			for _, s := range last.v.notJudged {
				fmt.Printf("   not judged: %s\n", s)
			}
			if last.v.discarded != "" {
				fmt.Printf("   discarded: %s\n", last.v.discarded)
			}
		}
	}
}

func TestC05_RTReplay(t *testing.T) { rReplayTest(t, "C05") }
func TestC06_RTReplay(t *testing.T) { rReplayTest(t, "C06") }
