#!/usr/bin/env python3
"""Regenerates the tables of DESIGN.md between the markers <!-- BEGIN GENERATED:<name> --> / <!-- END GENERATED:<name> -->
from known_findings.json, seeded/*/meta.json, MANIFEST.json and /repo's git log (fix: / hook commits)."""
import glob, json, os, re, subprocess

V = os.path.dirname(os.path.dirname(os.path.abspath(__file__)))


def cell(s, n=260):
    s = re.sub(r"\s+", " ", str(s)).replace("|", "\\|")
    return s if len(s) <= n else s[: n - 1] + "…"


def findings():
    kf = json.load(open(os.path.join(V, "known_findings.json")))["findings"]
    seen = set()
    rows_fixed, rows_known = [], []
    for f in kf:
        if f["key"] in seen:  # aliases of one finding under several properties: list once, name the properties
            continue
        props = sorted({g["property"] for g in kf if g["key"] == f["key"]})
        seen.add(f["key"])
        what = re.sub(r"^fixed: property=\S+ \S+ ", "", f["what"])
        if f["status"] == "fixed":
            rows_fixed.append(f"| `{f['key']}` | {', '.join(props)} | {f.get('commit','')} | {cell(what)} | {cell(f.get('trigger',''),140)} |")
        else:
            rows_known.append(f"| `{f['key']}` | {', '.join(props)} | {cell(what, 420)} | {cell(f.get('trigger',''),160)} |")
    out = [f"Repaired in /repo by `fix:` commits ({len(rows_fixed)} distinct findings; each listed as `fixed` in known_findings.json with its replay, which the check keeps running as a regression probe):", "",
           "| key | properties | commit | what failed | trigger |", "|---|---|---|---|---|"] + rows_fixed
    out += ["", f"Recorded as known findings, not repaired ({len(rows_known)} distinct findings; the check prints one KNOWN-FINDING line per listed key and excludes its trigger by construction, counted in the evidence):", "",
            "| key | properties | what fails, and why it is not repaired | trigger |", "|---|---|---|---|"] + rows_known
    return "\n".join(out)


def commits():
    log = subprocess.check_output(["git", "-C", "/repo", "log", "--format=%h %s", "-n", "80"], text=True).splitlines()
    rows = []
    for l in log:
        h, s = l.split(" ", 1)
        if s.startswith("fix:") or "verif" in s.lower() or "hook" in s.lower():
            rows.append(f"| {h} | {cell(s, 200)} |")
    return "\n".join(["| commit | subject |", "|---|---|"] + rows[::-1])


def seeded():
    rows = []
    for d in sorted(glob.glob(os.path.join(V, "seeded", "*"))):
        mp = os.path.join(d, "meta.json")
        if not os.path.exists(mp):
            continue
        m = json.load(open(mp))
        patch = open(os.path.join(d, "patch.diff")).read()
        files = sorted(set(re.findall(r"^\+\+\+ b/(\S+)", patch, re.M)))
        fn = re.findall(r"^@@.*@@ func (?:\([^)]*\) )?(\w+)", patch, re.M)
        for chk, r in (m.get("checks") or {}).items():
            keys = ", ".join("`" + k + "`" for k in r.get("keys", [])[:2])
            rows.append(f"| {os.path.basename(d)} | {', '.join(files)} {('(' + ', '.join(dict.fromkeys(fn)) + ')') if fn else ''} | ./check {chk} quick | {r['verdict']} | {keys} |")
    return "\n".join(["| seeded change | file (hunk context) | check run | verdict | first failure keys |", "|---|---|---|---|---|"] + rows)


def claims():
    m = json.load(open(os.path.join(V, "MANIFEST.json")))
    rows = []
    for c in m.get("checks", []):
        rows.append(f"| {c['property_id']} | {(c.get('level_claimed') or {}).get('category','')} | {cell(c.get('technique',''), 200)} |")
    na = m.get("not_applicable", [])
    out = ["| property | level | deciding technique |", "|---|---|---|"] + rows
    if na:
        out += ["", "Not claimed:"] + [f"* {x['property_id']}: {x['reason']}" for x in na]
    return "\n".join(out)


def main():
    p = os.path.join(V, "DESIGN.md")
    s = open(p).read()
    for name, fn in (("findings", findings), ("commits", commits), ("seeded", seeded), ("claims", claims)):
        a, b = f"<!-- BEGIN GENERATED:{name} -->", f"<!-- END GENERATED:{name} -->"
        if a in s and b in s:
            s = s[: s.index(a) + len(a)] + "\n" + fn() + "\n" + s[s.index(b):]
    open(p, "w").write(s)
    print("DESIGN.md tables regenerated")


if __name__ == "__main__":
    main()
