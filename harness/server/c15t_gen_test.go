package server

// C15 / engine T: case execution against the oracle, generator, tests.

import (
	"encoding/hex"
	"errors"
	"fmt"
	"os"
	"path/filepath"
	"sort"
	"strconv"
	"strings"
	"testing"
	"time"

	"pgregory.net/rapid"
)

// ---------------------------------------------------------------------------------------------
// execution (rapid-free)

type t15Info struct {
	Cmds     map[string]int // commands per kind (read-back excluded)
	Refused  int            // commands the model refuses or answers "not done" (NX on a present key, DEL of an absent key, unparsable numbers, ...)
	Expiries int            // keys seen to disappear because their time came
	Waits    int            // virtual seconds spent while a command sat in the server's wait queue
	Ticks    int
	ReadBack int    // GETs (explicit or read-back) that returned a stored value after a write to that key
	maxW     int    // largest number of successful writes on one key
	maxKinds int    // ... and of distinct kinds among them
	Forks    int    // largest number of simultaneous hypotheses
	Diverged string // first command whose reply is not the one the generator's prediction (primary hypothesis) expects
}

func (i *t15Info) nontrivial() bool { return i.maxW >= 3 && i.maxKinds >= 2 && i.ReadBack >= 1 }

var t15ReadOps = []string{"GET", "EXISTS", "STRLEN", "TYPE", "TTL"}

func t15Run(c *t15Case) (info t15Info, viol *t15Violation, err error) {
	info.Cmds = map[string]int{}
	if len(c.Keys) == 0 || len(c.Keys) > 8 || len(c.Timeouts) == 0 || len(c.Timeouts) > 4 {
		return info, nil, errors.New("malformed case: 1..8 keys and 1..4 connections")
	}
	t0 := time.Now()
	e, err := t15NewEnv(c)
	if err != nil {
		return info, nil, err
	}
	t1 := time.Now()
	defer func() {
		t2 := time.Now()
		e.close()
		if os.Getenv("VERIF_C15T_TIMING") != "" {
			fmt.Printf("C15T timing: create %v run %v close %v\n", t1.Sub(t0), t2.Sub(t1), time.Since(t2))
		}
	}()
	defer func() { info.Waits = e.waits }()
	for i, to := range c.Timeouts {
		if to >= 0 {
			r, _, err := e.roundTrip(i, "", [][]byte{[]byte("TIMEOUT"), []byte("SET"), []byte(strconv.Itoa(to))})
			if err != nil || string(r) != "+OK\r\n" {
				return info, nil, fmt.Errorf("TIMEOUT SET %d on connection %d: %q %v", to, i, r, err)
			}
		}
	}
	m := t15NewHyps(len(c.Keys), c.Timeouts)
	g := t15NewHyps(len(c.Keys), c.Timeouts) // what the generator predicted (it follows the first outcome everywhere)
	follow := func(st *t15Step, reply []byte, waited int, ctx *t15Ctx) {
		if info.Diverged != "" {
			return
		}
		if st.Op == "tick" {
			n, _ := strconv.Atoi(st.N)
			for i := 0; i < n; i++ {
				g.hs = g.hs[:1]
				g.second(false)
			}
			g.hs = g.hs[:1]
			return
		}
		w, byExpiry := g.predictWait(st)
		for i := 0; i < w; i++ {
			g.hs = g.hs[:1]
			g.second(i == w-1 && !byExpiry)
		}
		g.hs = g.hs[:1]
		o := g.hs[0].apply(st, ctx)[0]
		if w != waited || !o.accepts(reply) {
			info.Diverged = fmt.Sprintf("%s -> %q after %d s, predicted wait %d s", st.String(), t15Short(string(reply)), waited, w)
			return
		}
		nst := o.St
		if nst == g.hs[0] {
			nst = nst.clone()
		}
		nst.settle()
		g.hs = []*t15State{nst}
	}
	writes := make([]map[string]int, len(c.Keys))
	for i := range writes {
		writes[i] = map[string]int{}
	}
	alive := func() int {
		n := 0
		for _, v := range m.hs[0].Keys {
			if v.Exists {
				n++
			}
		}
		return n
	}
	fail := func(v *t15Violation) {
		v.Msg += "\n" + e.history()
		viol = v
	}
	do := func(st *t15Step, readBack bool) bool {
		key := c.Keys[st.K%len(c.Keys)]
		w0 := time.Now() // only to interpret TTL replies: the server's TTL subtracts the wall clock from its (virtual) expiry instant
		reply, waited, rerr := e.roundTrip(st.C, key, st.args(c))
		w1 := time.Now()
		if rerr != nil {
			if errors.Is(rerr, errT15Inconclusive) {
				err = rerr
				return false
			}
			e.logf("%s -> %v", st.String(), rerr)
			cls := "no-reply"
			if strings.HasPrefix(rerr.Error(), "panic") {
				cls = "panic:" + t15TopFunc(rerr.Error())
			}
			fail(&t15Violation{Key: "C15:text:" + cls, Msg: fmt.Sprintf("%s: %v", st.String(), rerr)})
			return false
		}
		if !readBack || os.Getenv("VERIF_C15T_TRACE") != "" {
			e.logf("%s -> %q%s", st.String(), t15Short(string(reply)), map[bool]string{true: fmt.Sprintf(" (after waiting %d s)", waited), false: ""}[waited > 0])
		}
		ctx := &t15Ctx{W0: w0.Unix(), W1: w1.Unix(), WM0: w0.UnixMilli(), WM1: w1.UnixMilli()}
		before := alive()
		if !readBack {
			follow(st, reply, waited, ctx)
		}
		out, v := m.command(st, reply, waited, ctx)
		if v != nil {
			if readBack {
				e.logf("read-back %s -> %q", st.String(), t15Short(string(reply)))
			}
			fail(v)
			return false
		}
		if len(m.hs) > info.Forks {
			info.Forks = len(m.hs)
		}
		if waited > 0 && alive() < before && st.Op != "DEL" {
			info.Expiries += before - alive()
		}
		k := st.K % len(c.Keys)
		if !readBack {
			info.Cmds[st.Op]++
			if out.Refused {
				info.Refused++
			}
			if out.Wrote {
				kind := st.Op
				switch kind {
				case "DECR", "INCRBY", "DECRBY":
					kind = "INCR"
				case "SETEX", "PSETEX":
					kind = "SET"
				case "PEXPIRE":
					kind = "EXPIRE"
				}
				if kind == "DEL" {
					writes[k] = map[string]int{}
				} else {
					writes[k][kind]++
				}
				n := 0
				for _, x := range writes[k] {
					n += x
				}
				if n > info.maxW || (n == info.maxW && len(writes[k]) > info.maxKinds) {
					info.maxW, info.maxKinds = n, len(writes[k])
				}
			}
		}
		if out.Hit && len(writes[k]) > 0 {
			info.ReadBack++
		}
		return true
	}
	readBack := func(conn int, full bool) bool {
		for k := range c.Keys {
			ops := t15ReadOps[:1]
			if full {
				ops = t15ReadOps
			}
			for _, op := range ops {
				if !do(&t15Step{Op: op, C: conn, K: k}, true) {
					return false
				}
			}
		}
		return true
	}
	for i := range c.Steps {
		st := &c.Steps[i]
		st.K %= len(c.Keys)
		st.C %= len(c.Timeouts)
		if st.Op == "tick" {
			n, _ := strconv.Atoi(st.N)
			if n < 1 || n > 3600 {
				return info, nil, fmt.Errorf("malformed case: tick %q", st.N)
			}
			before := alive()
			for j := 0; j < n; j++ {
				e.second()
				m.second(false)
			}
			follow(st, nil, 0, nil)
			info.Ticks++
			e.logf("tick %d", n)
			if !readBack(i%len(c.Timeouts), true) {
				return
			}
			if a := alive(); a < before {
				info.Expiries += before - a
			}
			continue
		}
		if !do(st, false) {
			return
		}
		// every key is read after every command: a command on one key must not change another
		if !readBack((st.C+1)%len(c.Timeouts), false) {
			return
		}
	}
	readBack(0, true)
	return
}

func t15Guard(c *t15Case) (info t15Info, viol *t15Violation, err error) {
	defer func() {
		if r := recover(); r != nil {
			viol = &t15Violation{Key: "C15:text:panic:" + vTopRepoFunc(), Msg: fmt.Sprintf("panic: %v\n%s", r, vRepoFrames())}
		}
	}()
	return t15Run(c)
}

// ---------------------------------------------------------------------------------------------
// generator

// key names: 1..15 bytes (left-padded with NUL by the server), exactly 16, 32 hex digits (decoded), longer (MD5).
// No two of them map to the same 16-byte key.
var t15KeyPool = []string{"a", "kb", "key:c", "counter", "0123456789abcdef", "000102030405060708090a0b0c0d0e0f", "a-key-longer-than-16-bytes", "Z"}

func t15Hex(b []byte) *string { s := hex.EncodeToString(b); return &s }

func t15GenValue(t *rapid.T) []byte {
	switch rapid.IntRange(0, 11).Draw(t, "valKind") {
	case 0:
		return []byte{}
	case 1, 2:
		return []byte(rapid.StringMatching(`[a-zA-Z0-9 _:-]{1,12}`).Draw(t, "ascii"))
	case 3:
		return rapid.SliceOfN(rapid.SampledFrom([]byte{0, '\r', '\n', 0xff, 'x', '$', '*', ':', '+', '-', ' ', 0x80}), 1, 10).Draw(t, "binary")
	case 4:
		return rapid.SliceOfN(rapid.Byte(), 1, 16).Draw(t, "bytes")
	case 5:
		return []byte(strconv.FormatInt(rapid.Int64Range(-1000, 1000).Draw(t, "dec"), 10))
	case 6:
		return []byte(rapid.SampledFrom([]string{"+5", "007", "-0", " 5", "5 ", "0x10", "1e3", "1.5", "--1", "+", "-"}).Draw(t, "oddNumber"))
	case 7:
		return []byte(rapid.SampledFrom([]string{"9223372036854775807", "-9223372036854775808", "9223372036854775806", "9223372036854775808", "-9223372036854775809", "18446744073709551615"}).Draw(t, "limit"))
	case 8:
		return []byte(rapid.SampledFrom([]string{"NX", "XX", "EX", "PX", "nil", "OK", "\r\n", "$-1\r\n", "+OK\r\n", "*1\r\n$3\r\nGET\r\n"}).Draw(t, "protoWord"))
	case 9:
		// eight bytes: the size of the server's integer encoding
		return rapid.SliceOfN(rapid.Byte(), 8, 8).Draw(t, "eight")
	case 10:
		n := rapid.SampledFrom([]int{100, 255, 256, 1000, 1024, 1500, 4100}).Draw(t, "longLen")
		b := make([]byte, n)
		seed := rapid.Byte().Draw(t, "longSeed")
		for i := range b {
			b[i] = 'a' + (seed+byte(i))%26
		}
		return b
	default:
		return []byte(rapid.StringMatching(`[a-z]{1,4}`).Draw(t, "short"))
	}
}

func t15GenDelta(t *rapid.T) string {
	switch rapid.IntRange(0, 9).Draw(t, "deltaKind") {
	case 0, 1, 2, 3:
		return strconv.FormatInt(rapid.Int64Range(-50, 50).Draw(t, "smallDelta"), 10)
	case 4:
		return strconv.FormatInt(rapid.Int64().Draw(t, "anyDelta"), 10)
	case 5, 6:
		return rapid.SampledFrom([]string{"9223372036854775807", "-9223372036854775808", "9223372036854775806", "-9223372036854775807", "4611686018427387904", "-4611686018427387905"}).Draw(t, "limitDelta")
	case 7:
		return rapid.SampledFrom([]string{"+5", "007", "-0", "+0", "-007"}).Draw(t, "lenientDelta")
	default:
		return rapid.SampledFrom([]string{"abc", "1.5", " 5", "5 ", "", "9223372036854775808", "-9223372036854775809", "0x10", "1e2", "--1"}).Draw(t, "badDelta")
	}
}

func t15GenSeconds(t *rapid.T) int {
	if rapid.IntRange(0, 9).Draw(t, "longTime") == 0 {
		return rapid.SampledFrom([]int{30, 100, 1000, 65535}).Draw(t, "seconds")
	}
	return rapid.IntRange(1, 8).Draw(t, "seconds")
}

func t15GenMillis(t *rapid.T) int {
	// <= 3000 ms goes to the wall-clock millisecond wheel, which a virtual clock cannot drive: left out
	return rapid.SampledFrom([]int{3001, 3500, 4000, 4999, 5000, 6001, 8000, 12000, 60000}).Draw(t, "millis")
}

type t15GenInfo struct {
	excluded map[string]int
}

func t15GenCase(t *rapid.T, ex func(string)) *t15Case {
	c := &t15Case{}
	nKeys := rapid.IntRange(1, 4).Draw(t, "nKeys")
	perm := rapid.Permutation(t15KeyPool).Draw(t, "keys")
	c.Keys = append(c.Keys, perm[:nKeys]...)
	nConns := rapid.IntRange(1, 2).Draw(t, "nConns")
	for i := 0; i < nConns; i++ {
		c.Timeouts = append(c.Timeouts, rapid.SampledFrom([]int{0, 0, 0, 0, 0, 1, 2, 3, -1}).Draw(t, "timeout"))
	}
	kSetnx, kIncr, kAppend := vIsKnown(t15KeySetnxRefuses), vIsKnown(t15KeyIncrString), vIsKnown(t15KeyAppendNumber)
	kPersist, kExpAbsent, kPx := vIsKnown(t15KeyPersistArg), vIsKnown(t15KeyExpireAbsent), vIsKnown(t15KeyPxSeconds)
	kResurface, kLate := vIsKnown(t15KeyResurface), vIsKnown(t15KeyLateExpiry)
	goneAt := make([]int64, nKeys) // virtual instant at which the key was last seen to vanish (0: never)

	m := t15NewHyps(nKeys, c.Timeouts) // the generator follows the model to keep known triggers out by construction
	hot := rapid.IntRange(0, nKeys-1).Draw(t, "hotKey")
	n := rapid.IntRange(5, 60).Draw(t, "nSteps")
	// op mix: a general one, a counter-flavoured one and an expiry-flavoured one
	ops := []string{"SET", "SET", "SET", "GET", "GET", "DEL", "SETNX", "GETSET", "INCR", "DECR", "INCRBY", "INCRBY", "DECRBY", "APPEND", "APPEND",
		"EXISTS", "STRLEN", "EXPIRE", "EXPIRE", "PEXPIRE", "PERSIST", "TTL", "PTTL", "SETEX", "PSETEX", "TYPE", "tick", "tick", "tick"}
	switch rapid.IntRange(0, 9).Draw(t, "flavour") {
	case 0, 1, 2:
		ops = []string{"INCR", "INCR", "INCR", "DECR", "DECR", "INCRBY", "INCRBY", "INCRBY", "DECRBY", "DECRBY", "GET", "GET", "DEL", "EXPIRE", "TTL",
			"PERSIST", "STRLEN", "EXISTS", "GETSET", "SET", "SETNX", "APPEND", "tick", "tick"}
	case 3, 4:
		ops = []string{"SET", "SET", "SETEX", "SETEX", "PSETEX", "EXPIRE", "EXPIRE", "EXPIRE", "PEXPIRE", "PERSIST", "PERSIST", "TTL", "TTL", "PTTL", "GET",
			"DEL", "SETNX", "APPEND", "INCR", "GETSET", "tick", "tick", "tick", "tick", "tick", "tick"}
	}
	for len(c.Steps) < n {
		st := t15Step{Op: rapid.SampledFrom(ops).Draw(t, "op")}
		if st.Op == "tick" {
			st.N = strconv.Itoa(rapid.SampledFrom([]int{1, 1, 1, 2, 2, 3, 4, 5, 9, 20}).Draw(t, "tick"))
		} else {
			st.C = rapid.IntRange(0, nConns-1).Draw(t, "conn")
			st.K = hot
			if rapid.IntRange(0, 9).Draw(t, "otherKey") < 4 {
				st.K = rapid.IntRange(0, nKeys-1).Draw(t, "key")
			}
		}
		cur := m.hs[0].Keys[st.K]
		switch st.Op {
		case "SET":
			st.V = t15Hex(t15GenValue(t))
			switch rapid.IntRange(0, 9).Draw(t, "setOpt") {
			case 0, 1:
				st.Opt = []string{"EX", strconv.Itoa(t15GenSeconds(t))}
			case 2:
				st.Opt = []string{"PX", strconv.Itoa(t15GenMillis(t))}
			case 3:
				st.Opt = []string{"NX"}
			case 4:
				st.Opt = []string{"XX"}
			case 5:
				st.Opt = []string{rapid.SampledFrom([]string{"NX", "XX", "nx", "xx"}).Draw(t, "cond"), rapid.SampledFrom([]string{"EX", "ex"}).Draw(t, "exWord"), strconv.Itoa(t15GenSeconds(t))}
				if rapid.Bool().Draw(t, "condLast") {
					st.Opt = []string{st.Opt[1], st.Opt[2], st.Opt[0]}
				}
			}
		case "SETNX", "GETSET", "APPEND":
			st.V = t15Hex(t15GenValue(t))
		case "SETEX":
			st.N, st.V = strconv.Itoa(t15GenSeconds(t)), t15Hex(t15GenValue(t))
		case "PSETEX":
			st.N, st.V = strconv.Itoa(t15GenMillis(t)), t15Hex(t15GenValue(t))
		case "INCRBY", "DECRBY":
			st.N = t15GenDelta(t)
		case "EXPIRE":
			st.N = strconv.Itoa(t15GenSeconds(t))
		case "PEXPIRE":
			st.N = strconv.Itoa(t15GenMillis(t))
		case "PERSIST":
			if rapid.IntRange(0, 3).Draw(t, "persistArg") == 0 {
				st.N = "0" // the form the server takes: a dummy argument
			}
		}
		// known findings: their triggers are kept out so that the search goes on behind them
		isWrite := map[string]bool{"SET": true, "SETEX": true, "PSETEX": true, "GETSET": true, "APPEND": true, "INCR": true, "DECR": true, "INCRBY": true,
			"DECRBY": true, "EXPIRE": true, "PEXPIRE": true, "PERSIST": true}[st.Op]
		switch {
		case kSetnx && isWrite && cur.Exists && cur.NX && !(st.Op == "SET" && t15HasOpt(st.Opt, "NX")):
			ex("write to a key created by SETNX / SET NX (known: refused until DEL)")
			st = t15Step{Op: rapid.SampledFrom([]string{"GET", "DEL", "STRLEN"}).Draw(t, "instead"), C: st.C, K: st.K}
		case kIncr && (st.Op == "INCR" || st.Op == "DECR" || st.Op == "INCRBY" || st.Op == "DECRBY") && cur.Exists && !cur.Num:
			ex("INCR/DECR of a key that holds a byte string (known: reads the raw bytes as an integer)")
			st = t15Step{Op: "GET", C: st.C, K: st.K}
		case kAppend && st.Op == "APPEND" && cur.Exists && cur.Num:
			ex("APPEND to a key that holds an integer (known: answers a length, keeps the integer)")
			st = t15Step{Op: "STRLEN", C: st.C, K: st.K}
		case kResurface && (st.Op == "APPEND" || st.Op == "INCR" || st.Op == "DECR" || st.Op == "INCRBY" || st.Op == "DECRBY") && !cur.Exists && goneAt[st.K] != 0 && m.hs[0].Now-goneAt[st.K] < t15LingerSeconds:
			ex("APPEND/INCR/DECR of a key that vanished less than 20 s ago (known: builds on the old value)")
			st = t15Step{Op: "SET", C: st.C, K: st.K, V: t15Hex(t15GenValue(t))}
		case kExpAbsent && (st.Op == "EXPIRE" || st.Op == "PEXPIRE" || st.Op == "PERSIST") && !cur.Exists:
			ex("EXPIRE/PEXPIRE/PERSIST of an absent key (known: creates a holder without value)")
			st = t15Step{Op: "TTL", C: st.C, K: st.K}
		}
		if kPersist && st.Op == "PERSIST" && st.N == "" {
			ex("PERSIST without the dummy argument (known: refused)")
			st.N = "0"
		}
		if kPx && (st.Op == "PEXPIRE" || st.Op == "PSETEX" || (st.Op == "SET" && t15HasOpt(st.Opt, "PX"))) {
			ex("PX / PEXPIRE / PSETEX above 3000 ms (known: counted as seconds)")
			switch st.Op {
			case "PEXPIRE":
				st.Op, st.N = "EXPIRE", strconv.Itoa(t15GenSeconds(t))
			case "PSETEX":
				st.Op, st.N = "SETEX", strconv.Itoa(t15GenSeconds(t))
			default:
				st.Opt = []string{"EX", strconv.Itoa(t15GenSeconds(t))}
			}
		}
		if kLate && cur.Exists && !cur.Shortened {
			if outs := m.hs[0].apply(&st, &t15Ctx{}); len(outs) > 0 && outs[0].St.Keys[st.K].Shortened {
				ex("expiry moved forward on a key born with an expiry of at most 4 s (known: noticed up to 8 s late)")
				st = t15Step{Op: "TTL", C: st.C, K: st.K}
			}
		}
		c.Steps = append(c.Steps, st)
		was := make([]bool, nKeys)
		for i, v := range m.hs[0].Keys {
			was[i] = v.Exists
		}
		// follow the model (primary hypothesis: the behaviour observed where the statement leaves a choice)
		note := func() {
			for i, v := range m.hs[0].Keys {
				if was[i] && !v.Exists {
					goneAt[i] = m.hs[0].Now
				}
			}
		}
		if st.Op == "tick" {
			k, _ := strconv.Atoi(st.N)
			for i := 0; i < k; i++ {
				m.hs = m.hs[:1]
				m.second(false)
			}
			m.hs = m.hs[:1]
			note()
			continue
		}
		w, byExpiry := m.predictWait(&st)
		for i := 0; i < w; i++ {
			m.hs = m.hs[:1]
			m.second(i == w-1 && !byExpiry)
		}
		outs := m.hs[0].apply(&st, &t15Ctx{})
		nst := outs[0].St
		if nst == m.hs[0] {
			nst = nst.clone()
		}
		nst.settle()
		m.hs = []*t15State{nst}
		note()
	}
	return c
}

// t15LingerSeconds: a key record outlives its last lock while a lock object of it still sits in a timer
// wheel: at most the longest connection time-out (15 s + 1) or a short expiry (<= 5 s).
const t15LingerSeconds = 20

// ---------------------------------------------------------------------------------------------
// tests

func t15Abort(why string) {
	fmt.Printf("VERIF-INCONCLUSIVE C15T %s\n", why)
	vFlush()
	os.Exit(3)
}

func TestC15_TextKV(t *testing.T) {
	st := vstat("TestC15_TextKV")
	rapid.Check(t, func(t *rapid.T) {
		c := t15GenCase(t, st.Exclude)
		info, viol, err := t15Guard(c)
		if err != nil {
			if errors.Is(err, errT15Inconclusive) {
				t15Abort("no reply within the watchdog and the command is not in the wait queue")
			}
			t.Fatalf("harness error: %v", err)
		}
		cls := []string{}
		if info.Refused > 0 {
			cls = append(cls, "has refused command")
		}
		if info.Expiries > 0 {
			cls = append(cls, "has expiry")
		}
		if info.Waits > 0 {
			cls = append(cls, "has command waiting in the server")
		}
		if len(c.Timeouts) > 1 {
			cls = append(cls, "two connections")
		}
		if info.Forks > 1 {
			cls = append(cls, "oracle forked")
		}
		if info.Diverged != "" && viol == nil {
			cls = append(cls, "generator's prediction diverged (exclusions unreliable from there)")
		}
		st.Case(info.nontrivial(), c.fingerprint(), cls, func() interface{} { return c })
		kinds := make([]string, 0, len(info.Cmds))
		for k := range info.Cmds {
			kinds = append(kinds, k)
		}
		sort.Strings(kinds)
		for _, k := range kinds {
			st.Class("cmd "+k, int64(info.Cmds[k]))
		}
		st.Class("commands refused", int64(info.Refused))
		st.Class("expiries observed", int64(info.Expiries))
		st.Class("seconds waited inside the server", int64(info.Waits))
		st.Class("ticks", int64(info.Ticks))
		st.Class("stored values read back", int64(info.ReadBack))
		if viol != nil {
			vFail(t, "TestC15_TextKV", viol.Key, c, "%s", viol.Msg)
		}
	})
}

// TestC15_TextReplay replays the committed text-*.json cases of C15 (the other files of that directory
// belong to TestC15_Replay, which in turn skips these: they have neither a "type" nor an "ops" field).
func TestC15_TextReplay(t *testing.T) {
	for _, f := range vReplayFiles("C15") {
		if !strings.HasPrefix(filepath.Base(f), "text-") && os.Getenv("VERIF_REPLAY") == "" {
			continue
		}
		var c t15Case
		key, err := vLoadReplay(f, &c)
		if err != nil || len(c.Keys) == 0 || len(c.Steps) == 0 {
			if strings.HasPrefix(filepath.Base(f), "text-") {
				t.Fatalf("cannot load replay %s: %v", f, err)
			}
			continue // VERIF_REPLAY names a case of another C15 test
		}
		rinfo, viol, rerr := t15Guard(&c)
		if os.Getenv("VERIF_C15T_TRACE") != "" && rinfo.Diverged != "" {
			fmt.Printf("C15T prediction diverged at: %s\n", rinfo.Diverged)
		}
		if rerr != nil {
			fmt.Printf("VERIF-KF key=%s reproduced=false file=%s harness error: %v\n", key, f, rerr)
			continue
		}
		msg, got := "", ""
		if viol != nil {
			got = viol.Key
			msg = strings.SplitN(viol.Msg, "\n", 2)[0]
			if os.Getenv("VERIF_C15T_TRACE") != "" {
				msg = viol.Msg
			}
			msg = "as=" + got + " " + msg
		}
		fmt.Printf("VERIF-KF key=%s reproduced=%v file=%s %s\n", key, viol != nil, f, msg)
	}
}
