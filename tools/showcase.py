#!/usr/bin/env python3
import json,sys
d=json.load(open(sys.argv[1]))
m=d['message']
n=int(sys.argv[2]) if len(sys.argv)>2 else 6000
print(d.get('key')); print(m[:n])
