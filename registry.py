# Registry of checks: property id -> units (test binaries / regexes / budgets per tier).
# Read by ./check. Budgets are case counts (never per-case time limits).

def rapid_unit(name, run, pkg="server", quick=None, thorough=None, **kw):
    u = {"name": name, "pkg": pkg, "run": run, "kind": "rapid"}
    if quick:
        u["quick"] = quick
    if thorough:
        u["thorough"] = thorough
    u.update(kw)
    return u


def plain_unit(name, run, pkg="server", quick=None, thorough=None, **kw):
    u = {"name": name, "pkg": pkg, "run": run, "kind": "plain"}
    u["quick"] = quick or {"shards": 1, "timeout_s": 300}
    u["thorough"] = thorough or u["quick"]
    u.update(kw)
    return u


PROPS = {}

PROPS["C20"] = {
    "level": "exploration",
    "rule": ("rapid-generated operation programs (segments with drawn push/pop bias; push, pushleft, pop, popright, "
             "head/tail/len after every step, iteration, in-place hole + restructuring, resize, freeQueue, and on a drained "
             "queue reset/rellac) over constructor parameters base 1..4, nodes base..base+6, size 1..8 for the three node "
             "deques; holder queue through AddLock/RemoveLock/GetLockedLock; wait queue through AddWaitLock/GetWaitLock with "
             "mixed priorities and lazily discarded answered entries; ring and priority ring; long-wait queue with Remove + "
             "restructuringLong*Queue. Oracle: slice / stable-priority-queue model compared on every return value. "
             "Non-trivial: node deques and long-wait queue - crossed >=2 node boundaries and ran >=1 maintenance operation "
             "on a partially filled queue; holder queue - >7 holders with a released holder still inside the container; "
             "wait queue - >8 waiters and a ring representation reached; rings - grew beyond initial capacity. "
             "Distinct = distinct FNV-64 fingerprints of (kind, parameters, op list)."),
    "assumptions": [
        "Reset and Rellac are only generated on a drained queue (every caller in the tree drains first)",
        "PushLeft may refuse with 'full' exactly when no slot was popped from the front since the last repositioning",
        "Shrink is generated in its own sub-property only (no caller in the tree)",
    ],
    "units": [
        rapid_unit("nodedeque", "^TestC20_NodeDeque_Lock", quick={"checks": 24000, "shards": 8, "timeout_s": 300},
                   thorough={"checks": 1600000, "shards": 16, "timeout_s": 1500}),
        rapid_unit("perkey", "^TestC20_(HolderQueue|WaitQueue|Ring|PriorityRing|LongWaitQueue)$",
                   quick={"checks": 12000, "shards": 6, "timeout_s": 300},
                   thorough={"checks": 600000, "shards": 16, "timeout_s": 1500}),
        rapid_unit("shrink", "^TestC20_NodeDeque_Shrink$", quick={"checks": 2000, "shards": 1, "timeout_s": 120},
                   thorough={"checks": 50000, "shards": 2, "timeout_s": 600}),
        plain_unit("replay", "^TestC20_Replay$", replay=True),
    ],
}

# ------------------------------------------------------------------------------------------------
# Engine A (sequential lock engine under a virtual clock): C01..C06, C15, C17

_A_GEN = ("rapid state-machine style generation against one fresh leader instance per case (db_concurrent in {1,2,4}, "
          "db_fast_key_count in {1,4,64} so that fast-slot collisions and the slow key map are common, aof time in {0,1}), 1..4 "
          "in-memory clients, 3..70 operations: LOCK/UNLOCK from the core command subset (flags show/update/concurrent-check/"
          "contains-data, unlock-first/cancel-wait, minute/priority/wait-when-unlocked timeout flags, minute/unlimited/aof expiry "
          "flags, Count/Rcount/Timeout/Expried over their whole ranges with weights on boundary values), bursts of 9..140 "
          "requests on one key, virtual-clock ticks (single seconds and clock jumps with the catch-up loop, timeout sweep before/after "
          "expiry sweep), pool collection; then a drain (cancel every queued request, release every hold, advance the clock 24 s). "
          "Oracle: reference ledger driven by the reply stream + in-package snapshot after every operation and every clock second. ")

def _engineA(prop, nontrivial, quick_checks, thorough_checks, extra_units=(), steps=None):
    units = [
        rapid_unit("A-" + prop, "^Test%s_EngineA$" % prop,
                   quick={"checks": quick_checks, "shards": 16, "timeout_s": 420},
                   thorough={"checks": thorough_checks, "shards": 16, "timeout_s": 3000}),
        plain_unit("replay-" + prop, "^Test%s_Replay$" % prop, replay=True),
    ]
    units += list(extra_units)
    return {
        "level": "exploration",
        "rule": _A_GEN + "Non-trivial: " + nontrivial + " Distinct = distinct FNV-64 fingerprints of the executed operation list + instance parameters.",
        "assumptions": [
            "millisecond time flags and require-ack are not generated in this engine (they leave the virtual clock); less-lock-version, unlock-to-wait, tree lock, reverse-key, EXECUTE data and keeplive flags are excluded as the property states",
            "a LockId is not reused for a new lock request while a request bearing it is still queued on the same key",
            "(unlimited flag, Expried 0xffff) - an undocumented 'keep the current terms' value - is not generated",
            "timeouts/expiries are observed on the server's own clock (LockDB.currentTime driven by the harness through the real sweep functions)",
        ],
        "units": units,
    }

PROPS["C01"] = _engineA("C01", "a grant happened while another hold was outstanding, or a request was queued/refused because of capacity.", 4000, 200000)
PROPS["C02"] = _engineA("C02", "the case contains a re-entrant success and at least one refused unlock.", 4000, 200000)
PROPS["C03"] = _engineA("C03", "at least one asynchronous terminal reply or notice (grant from the queue, TIMEOUT, cancel, EXPRIED).", 4000, 200000)
PROPS["C04"] = _engineA("C04", "at least two requests queued on one key and a hold ended while they waited.", 4000, 200000)
PROPS["C05"] = _engineA("C05", "a TIMEOUT of a queued request fired from the long-wait table (T > 9 s) or while other requests stayed queued on the key.", 4000, 200000)
PROPS["C06"] = _engineA("C06", "an EXPRIED notice while requests were queued on the key, or an applied update of a live hold.", 4000, 200000)
PROPS["C17"] = _engineA("C17", "at least three different ways of ending a hold or a wait (unlock, one-level unlock, expiry, timeout, cancel, grant from queue) before the drain.", 4000, 200000)
PROPS["C15"] = _engineA("C15", "engine A: at least three value operations of at least two kinds applied on one case including one refused request carrying a value operation; pure differential: at least three operations of at least two kinds.", 4000, 200000,
    extra_units=[rapid_unit("pure", "^TestC15_PureDifferential$", quick={"checks": 40000, "shards": 8, "timeout_s": 300},
                            thorough={"checks": 2000000, "shards": 16, "timeout_s": 2400})])
PROPS["C15"]["units"][1] = plain_unit("replay-C15", "^TestC15_Replay$", replay=True)
PROPS["C15"]["rule"] = ("Two layers. (a) pure differential: LockManager.ProcessLockData on a bare key manager vs. a sequential interpreter written from the "
                        "protocol description, 1..14 operations per case over typed keys (bytes: SET/APPEND/SHIFT/UNSET; number: INCR/SET/UNSET; array: PUSH/POP/UNSET), "
                        "payloads 0..700 bytes, INCR operands incl. int64 extremes, SHIFT/POP beyond the length, property headers, single-level PIPELINEs, "
                        "carried on lock and unlock commands. (b) " + PROPS["C15"]["rule"])
PROPS["C15"]["assumptions"] = PROPS["C15"]["assumptions"] + [
    "keys are typed per case/index so only operations the protocol description defines for that value type meet; array elements are non-empty",
    "operations flagged process-first-or-last may legitimately be skipped (documented convention): both outcomes are accepted",
    "once nothing holds a key its value may vanish with the key manager at any time (candidate set {old value, none})",
]
