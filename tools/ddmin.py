#!/usr/bin/env python3
"""Greedy one-at-a-time minimisation of the op list of an engine A/P replay file.
   tools/ddmin.py <pkg> <ReplayTestRegex> <case.json> <out.json> [opskey=ops] [match=substring of the failure to keep]"""
import json, os, subprocess, sys, tempfile, shutil
pkg, rx, src, out = sys.argv[1:5]
opskey = sys.argv[5] if len(sys.argv) > 5 else "ops"
match = sys.argv[6] if len(sys.argv) > 6 else "reproduced=true"
env = dict(os.environ, GOFLAGS="-mod=mod", GOPROXY="off", GOSUMDB="off", GOTOOLCHAIN="local")
B = tempfile.mkdtemp(prefix="verif-dd-")
try:
    subprocess.check_call(["/verif/harness/gen_build.sh", B], env=env)
    subprocess.check_call(["go", "test", "-c", "-vet=off", "-tags", "verif", "-modfile", B + "/go.mod", "-overlay", B + "/overlay.json", "-o", B + "/t.test", "./" + pkg],
                          cwd=os.environ.get("VERIF_REPO", "/repo"), env=env)
    d = json.load(open(src))
    def path(c):
        cur = c
        for k in opskey.split("."):
            cur = cur[k]
        return cur
    def setops(c, ops):
        ks = opskey.split(".")
        cur = c
        for k in ks[:-1]:
            cur = cur[k]
        cur[ks[-1]] = ops
    n = [0]
    def fails(ops):
        n[0] += 1
        dd = json.loads(json.dumps(d))
        setops(dd["case"], ops)
        f = B + "/case.json"
        json.dump(dd, open(f, "w"))
        run = B + f"/run{n[0]}"
        os.makedirs(run + "/fail"); os.makedirs(run + "/data")
        e = dict(env, VERIF_REPLAY=f, VERIF_STATS=run + "/s.json", VERIF_FAILDIR=run + "/fail", VERIF_DATADIR=run + "/data", TMPDIR=run + "/data")
        r = subprocess.run([B + "/t.test", "-test.run", rx, "-test.timeout", "120s"], cwd=run, env=e, capture_output=True, text=True)
        shutil.rmtree(run, ignore_errors=True)
        return match in (r.stdout + r.stderr)
    ops = path(d["case"])
    assert fails(ops), "does not fail to begin with"
    changed = True
    while changed:
        changed = False
        i = len(ops) - 1
        while i >= 0:
            cand = ops[:i] + ops[i + 1:]
            if fails(cand):
                ops = cand
                changed = True
            i -= 1
    setops(d["case"], ops)
    json.dump(d, open(out, "w"), indent=1)
    print("minimised to", len(ops), "ops in", n[0], "runs")
    for o in ops:
        print("  ", o)
finally:
    shutil.rmtree(B, ignore_errors=True)
