#!/usr/bin/env python3
"""Writes the prompt given to an independent seeding sub-agent: property text + scratch worktree only (nothing from /verif).
   tools/seed_prompt.py <prop> [variant]  ->  /tmp/seedprompts/<prop>[-variant].prompt ; worktree /tmp/seed-<prop>[-variant]"""
import json, sys, subprocess, os
prop = sys.argv[1]
variant = sys.argv[2] if len(sys.argv) > 2 else ""
tag = prop + ("-" + variant if variant else "")
p = [json.loads(l) for l in open("/verif/properties.jsonl") if l.strip()]
p = [x for x in p if x["id"] == prop][0]
anch = p["anchors"]
anchor_txt = json.dumps(anch) if not isinstance(anch, str) else anch
wt, out = f"/tmp/seed-{tag}", f"/tmp/seedout-{tag}"
tmpl = open("/tmp/seedprompts/C07.prompt").read() if os.path.exists("/tmp/seedprompts/C07.prompt") else None
head, rest = tmpl.split("The behavioural property you must break:")
_, tail = rest.split("TASK: make TWO different source changes")
body = (f"\n\nProperty {prop}: {p['title']}\n\nStatement: {p['statement']}\n\nQuantifier ({', '.join(p['quantifier']['over'])}): "
        f"{p['quantifier']['text']}\n\nWhere in the code it is anchored: {anchor_txt}\n\n")
txt = head + "The behavioural property you must break:" + body + "TASK: make TWO different source changes" + tail
txt = txt.replace("/tmp/seed-C07", wt).replace("/tmp/seedout-C07", out)
if variant:
    txt += ("\n\nAdditional requirement: earlier rounds already produced changes in the most obvious places for this property; "
            "choose code sites and mechanisms that are LESS obvious (different functions than the first ones that come to mind, "
            "e.g. a rarely taken branch, a recycling/free-list path, a boundary between two representations, an interplay of two flags).")
if variant:
    import glob, re
    used = []
    for d in sorted(glob.glob(f"/verif/seeded/{prop}-*")):
        pf = os.path.join(d, "patch.diff")
        if os.path.exists(pf):
            t = open(pf).read()
            files = re.findall(r"^\+\+\+ b/(\S+)", t, re.M)
            fns = re.findall(r"^@@.*@@ func (?:\([^)]*\) )?(\w+)", t, re.M)
            used.append(f"{', '.join(sorted(set(files)))}: {', '.join(dict.fromkeys(fns)) or '(top of file)'}")
    if used:
        txt += "\n\nCode sites already used by earlier rounds for this property (do NOT change these functions again; pick different mechanisms):\n - " + "\n - ".join(used)
os.makedirs("/tmp/seedprompts", exist_ok=True)
open(f"/tmp/seedprompts/{tag}.prompt", "w").write(txt)
if not os.path.isdir(wt):
    subprocess.check_call(["git", "-C", "/repo", "worktree", "add", "-q", "--detach", wt, "HEAD"])
print(f"/tmp/seedprompts/{tag}.prompt", wt)
