package server

// C11 layer 2 (leader + followers behind a fault proxy) - under construction.

func k11RunCluster(c *k11Case, replay bool) (out k11Out) {
	out.inconclusive = "cluster engine not built"
	return
}
