package server

import (
	"encoding/json"
	"fmt"
	"os"
	"testing"
)

// TestC09_Replay re-executes committed / freshly found C09 cases without rapid. The case's "kind"
// selects the executor: "ring" (pure ReplicationBufferQueue model) or "cluster" (engine N).
func TestC09_Replay(t *testing.T) {
	for _, f := range vReplayFiles("C09") {
		var raw json.RawMessage
		key, err := vLoadReplay(f, &raw)
		if err != nil {
			t.Fatalf("cannot load replay %s: %v", f, err)
		}
		var kind struct {
			Kind string `json:"kind"`
		}
		_ = json.Unmarshal(raw, &kind)
		var rerr error
		got := ""
		switch kind.Kind {
		case "ring":
			var c n09RCase
			if err = json.Unmarshal(raw, &c); err != nil {
				t.Fatalf("replay %s: %v", f, err)
			}
			_, rerr = n09GuardRing(&c)
		case "cluster":
			var c n09Case
			if err = json.Unmarshal(raw, &c); err != nil {
				t.Fatalf("replay %s: %v", f, err)
			}
			// real sockets and goroutines: inputs replay, schedules do not - try several times. Reproduced = a try
			// failed with the file's own key (any failure for the transfer-versus-compaction race, which shows as
			// an aborted or an incomplete transfer); failures under another key are only noted.
			tries := vEnvInt("VERIF_REPLAY_TRIES", 40)
			if c.Tries > tries && os.Getenv("VERIF_REPLAY_TRIES") == "" {
				tries = c.Tries
			}
			n09ReplayMode, n09ReplayKey = true, key
			other := map[string]int{}
			for i := 0; i < tries && rerr == nil; i++ {
				out := n09RunCluster(&c)
				if out.inconclusive != "" {
					fmt.Printf("VERIF-NOTE replay %s inconclusive: %.200s\n", f, out.inconclusive)
					continue
				}
				if out.err != nil && !n09SameFinding(key, out.key) && key != n09KeyTransferVsCompaction {
					if other[out.key] == 0 && os.Getenv("VERIF_REPLAY_VERBOSE") != "" {
						fmt.Printf("VERIF-NOTE replay %s: other finding %s: %v\n", f, out.key, out.err)
					}
					other[out.key]++
					continue
				}
				rerr = out.err
				if rerr != nil {
					got = fmt.Sprintf(" observed-key=%s try=%d", out.key, i+1)
				}
			}
			if rerr == nil {
				got = fmt.Sprintf(" tries=%d", tries)
			}
			if len(other) > 0 {
				got += fmt.Sprintf(" other-findings-seen=%v", other)
			}
			n09ReplayMode, n09ReplayKey = false, ""
		default:
			t.Fatalf("replay %s: unknown kind %q", f, kind.Kind)
		}
		fmt.Printf("VERIF-KF key=%s reproduced=%v file=%s%s %v\n", key, rerr != nil, f, got, rerr)
	}
	_ = os.Stdout.Sync()
}
