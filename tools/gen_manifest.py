#!/usr/bin/env python3
"""Regenerates /verif/MANIFEST.json from registry.py + manifest_meta.py (kept valid at all times)."""
import json, os, sys
V = os.path.dirname(os.path.dirname(os.path.abspath(__file__)))
sys.path.insert(0, V)
from registry import PROPS
from manifest_meta import META, NOT_APPLICABLE, HOOK_COMMITS, NOTES

checks = []
for pid in sorted(PROPS):
    m = META[pid]
    checks.append({
        "property_id": pid,
        "quick_cmd": f"./check {pid} --tier quick",
        "thorough_cmd": f"./check {pid} --tier thorough",
        "evidence_file": f"/verif/evidence/{pid}.json",
        "replay_cmd_template": f"./check {pid} --replay {{path}}",
        "engine": m["engine"],
        "level_claimed": {"category": PROPS[pid].get("level", "exploration"), "text": m["level_text"], "design_ref": m["design_ref"]},
        "level_note": m["level_note"],
        "technique": m["technique"],
    })
man = {
    "version": 1,
    "setup_cmd": "./harness/setup.sh",
    "hooks": {
        "guard": "verif",
        "enable": "go test -tags verif (the checks build /repo's working tree with -tags verif -modfile/-overlay generated under a scratch directory; harness test files are injected by overlay, /repo is not written)",
        "baseline_off_cmd": "cd /repo && go test -json -vet=off -count=1 -timeout 25m ./... ; rm -f /repo/server/append.aof.*",
        "source_commits": HOOK_COMMITS,
        "add_only": True,
    },
    "engines": [{"name": k, "path": v["path"], "serves_properties": v["props"], "kind_free_text": v["kind"]} for k, v in sorted(__import__("manifest_meta").ENGINES.items())],
    "checks": checks,
    "not_applicable": [{"property_id": p, "reason": r} for p, r in sorted(NOT_APPLICABLE.items()) if p not in PROPS],
    "notes": NOTES,
}
json.dump(man, open(os.path.join(V, "MANIFEST.json"), "w"), indent=1)
try:
    import jsonschema
    jsonschema.validate(man, json.load(open("/root/.vp/MANIFEST.schema.json")))
    print("MANIFEST.json valid;", len(checks), "checks,", len(man["not_applicable"]), "not claimed")
except ImportError:
    print("written (jsonschema not importable here)")
