package server

// C13: no client byte stream can crash the server (engine W of DESIGN.md).
//
// Oracle (w13RunCase in c13_engine_test.go): (1) no panic escapes Server.handle; (2) after every
// fuzzed connection a pre-established bystander connection still holds its lock on a private key,
// gets the documented result codes for PING / re-LOCK / UNLOCK / LOCK and fresh binary and text
// connections are served; (3) the handler ends once the scripted bytes are consumed (watchdog expiry
// is reported as inconclusive, never as a violation).
//
// This file: structured generator (binary frames, value frames, RESP commands, mutation, split into
// reads), the rapid property, the native fuzz target and the replay test.

import (
	"bytes"
	"encoding/hex"
	"encoding/json"
	"fmt"
	"os"
	"path/filepath"
	"runtime/debug"
	"strconv"
	"strings"
	"sync"
	"syscall"
	"testing"
	"time"

	"github.com/snower/slock/protocol"
	"github.com/snower/slock/protocol/protobuf"
	"google.golang.org/protobuf/proto"
	"pgregory.net/rapid"
)

// ---------------------------------------------------------------------------------------------
// known findings. A finding is identified by the innermost repository function of the panic stack
// (the last field of the failure key); while a key with that function is listed as known
// (VERIF_KNOWN_KEYS), the generator does not produce the inputs that are known to reach it (each such
// decision is counted with st.Exclude) and a crash in that function on a mutated / raw stream is
// counted as a known hit instead of failing the run, so the search continues behind it. Process
// deaths cannot be survived, so those are additionally filtered on the raw bytes (w13RawKnown).

type w13Known struct {
	keys map[string]bool
	// root causes, see /verif/harness/notes/C13.md
	shortFrame, args2flag, setexArity, appendNil, callDbid, incrNoValue, lockData, scanArity, valueOffset,
	lessVersion, elemBounds, propWalk, errMsg12, willRecursion, ackUnheld, recoverNil, execAlloc, unlockAckPending, freeList, execTasks bool
}

var (
	w13KnownOnce sync.Once
	w13KnownVal  *w13Known
)

func w13KnownKeys() *w13Known {
	w13KnownOnce.Do(func() {
		k := &w13Known{keys: vKnownKeys()}
		k.shortFrame = k.fn("protocol.NewLockCommandDataFromOriginBytes")
		k.args2flag = k.fn("protocol.(*TextCommandConverter).ConvertArgs2Flag")
		k.setexArity = k.fn("protocol.(*TextCommandConverter).ConvertTextSetEXCommand")
		k.appendNil = k.fn("protocol.(*LockResultCommandData).GetValueSize")
		k.callDbid = k.fn("server.(*BinaryServerProtocol).commandHandleListLockCommand") || k.fn("server.(*BinaryServerProtocol).commandHandleListLockedCommand") ||
			k.fn("server.(*BinaryServerProtocol).commandHandleListWaitCommand")
		k.incrNoValue = k.fn("server.(*LockManagerData).GetValueOffset")
		k.lockData = k.fn("server.(*LockManager).ProcessLockData") // PIPELINE tail, SHIFT beyond the value, POP over a lying element length
		k.scanArity = k.fn("server.(*TextServerProtocol).commandHandlerScanCommand")
		k.valueOffset = k.fn("protocol.(*LockCommandData).GetValueOffset") || k.fn("protocol.(*LockResultCommandData).GetValueOffset")
		k.lessVersion = k.fn("server.(*LockDB).Lock")
		k.elemBounds = k.fn("protocol.(*LockResultCommandData).GetArrayValue") || k.fn("protocol.(*LockResultCommandData).GetKVValue")
		k.propWalk = k.fn("protocol.(*LockResultCommandData).GetDataProperty") || k.fn("protocol.(*LockResultCommandData).GetDataProperties")
		k.errMsg12 = k.fn("protocol.(*TextCommandConverter).WriteTextLockAndUnLockCommandResult")
		k.willRecursion = k.fn("server.(*BinaryServerProtocol).ProcessLockResultCommand")
		k.ackUnheld = k.fn("server.(*ReplicationAckDB).ProcessLeaderPushLock")
		k.recoverNil = k.fn("server.(*LockManager).ProcessRecoverLockData")
		k.execAlloc = k.fn("protocol.(*LockCommandData).DecodeLockCommand")
		// "unlock first lock" (UNLOCK flag 0x01, text DEL) releases a lock whose ack is still pending: its
		// command is freed while the Lock stays in the time-out wheel; the sweep later uses and frees the
		// stale command / Lock (another connection's request is corrupted, or the sweep goroutine dies)
		k.unlockAckPending = k.fn("server.(*LockDB).UnLock")
		// a connection's private free list of LockCommands (64 entries) overflows when it frees more
		k.freeList = k.fn("server.(*BinaryServerProtocol).FreeLockCommand") || k.fn("server.(*TextServerProtocol).FreeLockCommand")
		// the shard executor's task free list (aof_queue_size/64 entries) overflows when more tasks exist at once
		k.execTasks = k.fn("server.(*LockDBExecutor).Run")
		w13KnownVal = k
	})
	return w13KnownVal
}

// fn: is any known C13 key about this function (whatever protocol / command reached it)?
func (k *w13Known) fn(fn string) bool {
	for key := range k.keys {
		if strings.HasPrefix(key, "C13:") && strings.HasSuffix(key, ":"+fn) {
			return true
		}
	}
	return false
}

// covers: is this failure key a known finding?
func (k *w13Known) covers(key string) bool {
	if k.keys[key] {
		return true
	}
	if i := strings.LastIndex(key, ":"); i >= 0 && strings.HasPrefix(key, "C13:") && !strings.HasPrefix(key, "C13:probe:") {
		return k.fn(key[i+1:])
	}
	return false
}

// w13RawKnown: byte-level over-approximation of the inputs of known findings that kill the whole
// process. Every frame a binary connection parses starts with magic, version, type, wherever the
// stream was cut into reads, so "an INIT frame and a WILL_LOCK / WILL_UNLOCK frame on one connection"
// implies that both byte triples occur.
func (k *w13Known) w13RawKnown(b []byte) string {
	if k.willRecursion && bytes.Contains(b, []byte{0x56, 0x01, 0x00}) &&
		(bytes.Contains(b, []byte{0x56, 0x01, 0x08}) || bytes.Contains(b, []byte{0x56, 0x01, 0x09})) {
		return "INIT and WILL_LOCK/WILL_UNLOCK on one binary connection (known finding: result recursion on close kills the process)"
	}
	if k.unlockAckPending {
		ack, first := false, false
		for i := 0; i+64 <= len(b); i++ {
			if b[i] != 0x56 || b[i+1] != 0x01 {
				continue
			}
			if (b[i+2] == 1 || b[i+2] == 8) && b[i+56]&0x10 != 0 {
				ack = true
			}
			if (b[i+2] == 2 || b[i+2] == 9) && b[i+19]&0x01 != 0 {
				first = true
			}
		}
		if ack && first {
			return "ack-required LOCK and unlock-first UNLOCK on one connection (known finding: unlock of an ack-pending lock leaves its command / Lock in the time-out wheel)"
		}
	}
	// frames: top level, WILL_LOCK (executed as LOCK on close) or embedded in an EXECUTE value frame
	for i := 0; (k.ackUnheld || k.recoverNil || k.execAlloc) && i+64 <= len(b); i++ {
		if b[i] != 0x56 || b[i+1] != 0x01 {
			continue
		}
		lock := b[i+2] == 1 || b[i+2] == 8
		if k.ackUnheld && lock && b[i+56]&0x10 != 0 {
			// Expried 0 (no hold) and re-entrant locks of a holder: the AOF record keeps the *Lock for an ack
			// that nothing waits for, and the lock may be gone when the AOF channel gets to it
			return "LOCK frame with the ack-required flag (known finding: AOF channel goroutine dereferences a freed lock)"
		}
		if k.recoverNil && lock && b[i+56]&0x10 != 0 && b[i+19]&0x20 != 0 {
			return "LOCK frame with a value frame and the ack-required flag (known finding: time-out sweep recovers through a nil value)"
		}
		if k.execAlloc && i > 0 && b[i+19]&0x20 != 0 && i+68 <= len(b) && b[i+67] >= 0x10 {
			return "frame inside the stream whose value frame declares 256 MiB or more (known finding: DecodeLockCommand allocates before checking)"
		}
	}
	return ""
}

// ---------------------------------------------------------------------------------------------
// generator plumbing

type w13Gen struct {
	t      *rapid.T
	st     *vStat
	known  *w13Known
	keys   [][16]byte
	ids    [][16]byte
	tkeys  []string
	noAdm  bool // connection will be mutated: no administrative words at all
	hasAdm bool
	focus  bool // most commands of the case address one key (value operations meet each other's state)
	timers bool // timer variant: time-outs / expiries of milliseconds to 1 s and a pause before the probe
	writer bool // writer connection of the writer->reader shape: value frames lean towards stored values with property blocks
}

// with returns a copy of the generator that draws from t (used inside rapid.Custom, which gives
// rapid the group structure it needs to delete whole list elements while shrinking).
func (g *w13Gen) with(t *rapid.T) *w13Gen {
	c := *g
	c.t = t
	return &c
}

type w13Piece struct {
	B     []byte
	Note  string
	Admin bool
}

func (g *w13Gen) pieces(label string, lo, hi int, f func(sg *w13Gen) w13Piece) []w13Piece {
	return rapid.SliceOfN(rapid.Custom(func(t *rapid.T) w13Piece { return f(g.with(t)) }), lo, hi).Draw(g.t, label)
}

func (g *w13Gen) exclude(why string) {
	if g.st != nil {
		g.st.Exclude(why)
	}
}

func (g *w13Gen) n(label string, lo, hi int) int { return rapid.IntRange(lo, hi).Draw(g.t, label) }

// pct is true with probability p%; shrinks towards false.
func (g *w13Gen) pct(label string, p int) bool {
	return rapid.IntRange(0, 99).Draw(g.t, label) >= 100-p
}

func (g *w13Gen) raw(label string, n int) []byte {
	if n == 0 {
		return []byte{}
	}
	switch g.n(label+"Fill", 0, 3) {
	case 0:
		return make([]byte, n)
	case 1:
		b := make([]byte, n)
		f := rapid.Byte().Draw(g.t, label+"Byte")
		for i := range b {
			b[i] = f
		}
		return b
	case 2:
		b := make([]byte, n)
		for i := range b {
			b[i] = byte('a' + i%26)
		}
		return b
	}
	if n > 64 {
		// long random payloads: random head, patterned tail (keeps the number of draws bounded)
		b := make([]byte, n)
		copy(b, rapid.SliceOfN(rapid.Byte(), 64, 64).Draw(g.t, label))
		for i := 64; i < n; i++ {
			b[i] = b[i-64] + 1
		}
		return b
	}
	return rapid.SliceOfN(rapid.Byte(), n, n).Draw(g.t, label)
}

var w13U16Special = []int{0xffff, 0x7fff, 0x8000, 0x00ff, 0x0100, 0xfffe, 60, 3000, 3001}

func (g *w13Gen) u16(label string) uint16 {
	switch g.n(label+"Kind", 0, 3) {
	case 0:
		return 0
	case 1:
		return uint16(g.n(label+"Small", 1, 5))
	case 2:
		return uint16(rapid.SampledFrom(w13U16Special).Draw(g.t, label+"Special"))
	}
	return rapid.Uint16().Draw(g.t, label)
}

func (g *w13Gen) flags16(label string, bits []int) uint16 {
	switch g.n(label+"Kind", 0, 3) {
	case 0:
		return 0
	case 1:
		return uint16(rapid.SampledFrom(bits).Draw(g.t, label+"Bit"))
	case 2:
		return uint16(rapid.SampledFrom(bits).Draw(g.t, label+"BitA") | rapid.SampledFrom(bits).Draw(g.t, label+"BitB"))
	}
	return rapid.Uint16().Draw(g.t, label)
}

var w13TimeoutBits = []int{0x0008, 0x0010, 0x0020, 0x0040, 0x0080, 0x0100, 0x0200, 0x0400, 0x0800, 0x1000, 0x2000, 0x4000, 0x8000, 0x0001, 0x0004}
var w13ExpriedBits = []int{0x0020, 0x0040, 0x0080, 0x0100, 0x0200, 0x0400, 0x0800, 0x1000, 0x2000, 0x4000, 0x8000, 0x0001, 0x0010}

func (g *w13Gen) key16(label string) [16]byte {
	if g.focus && g.n(label+"Focus", 0, 3) > 0 {
		return g.keys[0]
	}
	if g.pct(label+"Random", 8) {
		var k [16]byte
		copy(k[:], rapid.SliceOfN(rapid.Byte(), 16, 16).Draw(g.t, label))
		return k
	}
	return g.keys[g.n(label, 0, len(g.keys)-1)]
}

func (g *w13Gen) id16(label string) [16]byte {
	if g.focus && g.n(label+"Focus", 0, 3) > 0 {
		// text key/value commands use the key as lock id
		return g.keys[0]
	}
	if g.pct(label+"Random", 8) {
		var k [16]byte
		copy(k[:], rapid.SliceOfN(rapid.Byte(), 16, 16).Draw(g.t, label))
		return k
	}
	return g.ids[g.n(label, 0, len(g.ids)-1)]
}

func (g *w13Gen) dbId(label string) byte {
	switch g.n(label+"Kind", 0, 9) {
	case 0, 1, 2, 3, 4, 5:
		return 0
	case 6:
		return 1
	case 7:
		return 0xff
	case 8:
		return byte(g.n(label+"Low", 2, 3))
	}
	return rapid.Byte().Draw(g.t, label)
}

func w13Put32(b []byte, v uint32) {
	b[0], b[1], b[2], b[3] = byte(v), byte(v>>8), byte(v>>16), byte(v>>24)
}

// ---------------------------------------------------------------------------------------------
// value frames: [len32 LE][stage<<6|type][flags][proplen16 props]? payload

var w13DataTypeNames = []string{"SET", "UNSET", "INCR", "APPEND", "SHIFT", "EXECUTE", "PIPELINE", "PUSH", "POP"}

func w13DataTypeName(t byte) string {
	if int(t) < len(w13DataTypeNames) {
		return w13DataTypeNames[t]
	}
	return fmt.Sprintf("TYPE%d", t)
}

// genValueFrame returns a complete frame including its length prefix.
func (g *w13Gen) genValueFrame(depth int, db byte) ([]byte, string) {
	return g.genValueFrameIn(depth, db, false)
}

// genValueFrameIn: embedded = the frame belongs to a lock command inside an EXECUTE value frame.
func (g *w13Gen) genValueFrameIn(depth int, db byte, embedded bool) ([]byte, string) {
	// every length 0..64 with arbitrary content
	if g.pct("vfExact", 22) {
		l := g.n("vfLen", 0, 64)
		if l < 2 && g.known.shortFrame {
			g.exclude("value frame shorter than its 2-byte header (known finding)")
			l = 2 + l
		}
		body := g.raw("vfBody", l)
		if l >= 1 && g.pct("vfExactTyped", 70) {
			body[0] = byte(g.n("vfStage", 0, 3)<<6 | g.n("vfType", 0, 9))
		}
		if l >= 2 && g.pct("vfExactFlags", 70) {
			body[1] = byte(rapid.SampledFrom([]int{0, 1, 2, 4, 0x10, 0x20, 0x11, 0x12, 0x14, 0x30, 0xff}).Draw(g.t, "vfFlag"))
		}
		if l >= 2 {
			// frames of arbitrary content reach several known findings at once; keep them out of the way
			if (g.known.valueOffset || g.known.propWalk) && body[1]&0x10 != 0 {
				g.exclude("arbitrary value frame with the property flag (known finding: property header is trusted)")
				body[1] &^= 0x10
			}
			if (g.known.elemBounds || g.known.lockData) && body[1]&0x06 != 0 {
				g.exclude("arbitrary value frame with the array/kv flag (known finding: element lengths are trusted)")
				body[1] &^= 0x06
			}
			if t := body[0] & 0x3f; g.known.lockData && (t == 4 || t == 6) || g.known.incrNoValue && t == 2 {
				g.exclude("arbitrary value frame of type INCR/SHIFT/PIPELINE (known findings in ProcessLockData)")
				body[0] &^= 0x3f
			}
		}
		out := make([]byte, 4+l)
		w13Put32(out, uint32(l))
		copy(out[4:], body)
		return out, fmt.Sprintf("data[exact len=%d %x]", l, body[:w13Min(l, 8)])
	}

	if depth > 0 && !embedded && g.pct("vfExecTight", 4) {
		// EXECUTE frame with a property block and a nested length that is tight around the truth (c13_pools_test.go)
		f, d, _, _ := g.genExecTightFrame(byte(g.n("vfExecTightStage", 0, 3)), db)
		return f, d
	}
	typ := byte(g.n("vfType", 0, 8))
	if g.pct("vfTypeUnknown", 4) {
		typ = byte(g.n("vfTypeHigh", 9, 63))
	}
	if depth <= 0 && (typ == 5 || typ == 6) {
		typ = 0
	}
	if typ == 4 && g.known.lockData {
		g.exclude("SHIFT value operation (known finding: SHIFT beyond the value length)")
		typ = 3
	}
	stage := byte(0)
	if g.pct("vfStaged", 25) {
		stage = byte(g.n("vfStage", 1, 3))
	}
	flags := byte(rapid.SampledFrom([]int{0, 0, 0, 1, 2, 4, 0x20, 0x21, 0x22, 0x03, 0x06}).Draw(g.t, "vfFlags"))
	if g.pct("vfFlagsAny", 5) {
		flags = rapid.Byte().Draw(g.t, "vfFlagsRaw") &^ 0x10
	}
	desc := []string{w13DataTypeName(typ)}
	if stage != 0 {
		desc = append(desc, fmt.Sprintf("stage=%d", stage))
	}
	var body []byte
	body = append(body, stage<<6|typ, flags)
	// property header
	propLies := !(g.known.valueOffset || g.known.propWalk)
	propPct, tightPct := 25, 35
	if g.writer {
		propPct, tightPct = 75, 65
	}
	tight := false
	if g.pct("vfProps", propPct) && propLies && g.pct("vfPropTight", tightPct) {
		// A property block that is exact except for one entry whose length is off by -3..+3 relative to
		// what is left of the block behind its 3-byte entry header, with the block ending exactly at /
		// 1..3 bytes before the end of the frame (the payload switch below keeps the payload that short):
		// the readers of stored values (KEYS, SCAN look up KEY = 1) walk this block on other connections.
		tight = true
		flags |= 0x10
		if g.pct("vfTightStored", 70) {
			typ, stage = byte(rapid.SampledFrom([]int{0, 0, 0, 3, 7}).Draw(g.t, "vfTightType")), 0
			flags &^= 0x06 // plain payload, so that it can be kept to 0..3 bytes
			desc = []string{w13DataTypeName(typ)}
		}
		body[0], body[1] = stage<<6|typ, flags
		np := g.n("vfTightCount", 1, 3)
		codes := make([]byte, np)
		vals := make([][]byte, np)
		total := 0
		for i := range codes {
			codes[i] = byte(rapid.SampledFrom([]int{1, 1, 1, 0, 2, 3}).Draw(g.t, "vfTightCode"))
			vals[i] = g.raw("vfTightVal", g.n("vfTightLen", 0, 6))
			total += 3 + len(vals[i])
		}
		lieAt := g.n("vfTightLieAt", 0, np-1)
		if g.pct("vfTightLieFirstKey", 60) {
			// the readers stop at the first entry with the code they look for
			for i, c := range codes {
				if c == 1 {
					lieAt = i
					break
				}
			}
		}
		delta := rapid.SampledFrom([]int{1, 2, 3, 1, 2, 3, -1, -2, -3}).Draw(g.t, "vfTightDelta")
		var props []byte
		off := 0
		for i := range codes {
			vl := len(vals[i])
			if i == lieAt {
				if rem := total - off - 3 + delta; rem >= 0 { // relative to everything that is left of the block
					vl = rem
				}
				if g.pct("vfTightOwn", 25) && len(vals[i])+delta >= 0 { // relative to the entry's own value
					vl = len(vals[i]) + delta
				}
			}
			props = append(props, codes[i], byte(vl), byte(vl>>8))
			props = append(props, vals[i]...)
			off += 3 + len(vals[i])
		}
		body = append(body, byte(total), byte(total>>8))
		body = append(body, props...)
		desc = append(desc, fmt.Sprintf("props=tight %d entries codes=%v lie@%d %+d", np, codes, lieAt, delta))
	} else if g.pct("vfPropsLoose", propPct) {
		flags |= 0x10
		body[1] = flags
		var props []byte
		np := g.n("vfPropCount", 0, 3)
		for i := 0; i < np; i++ {
			v := g.raw("vfPropVal", g.n("vfPropLen", 0, 12))
			code := byte(g.n("vfPropCode", 0, 3))
			vl := len(v)
			if g.pct("vfPropLenLie", 10) && propLies {
				vl = rapid.SampledFrom([]int{0, 1, 0xff, 0xffff, len(v) + 1}).Draw(g.t, "vfPropLenLieVal")
			}
			props = append(props, code, byte(vl), byte(vl>>8))
			props = append(props, v...)
		}
		pl := len(props)
		if !propLies {
			g.exclude("property header that disagrees with the frame (known finding: property header is trusted)")
		}
		if g.pct("vfPropTotalLie", 20) && propLies {
			pl = rapid.SampledFrom([]int{0, 1, 2, 3, 0xff, 0x100, 0xffff, 0xfff8, len(props) + 1, len(props) + 100}).Draw(g.t, "vfPropTotalLieVal")
		}
		if g.pct("vfPropHeaderCut", 6) && propLies {
			// flag set but the 2-byte header itself is missing or cut
			if g.pct("vfPropHeaderHalf", 50) {
				body = append(body, byte(pl))
			}
			desc = append(desc, "props=cut")
		} else {
			body = append(body, byte(pl), byte(pl>>8))
			body = append(body, props...)
			desc = append(desc, fmt.Sprintf("props=%d/%d", pl, len(props)))
		}
	}
	flagsDesc := fmt.Sprintf("flags=%#x", flags)
	desc = append(desc, flagsDesc)
	// payload
	switch {
	case typ == 5 && depth > 0: // EXECUTE: an embedded 64-byte lock command (+ its own value frame)
		f, fd := g.genLockFrame(depth-1, true, db)
		if g.pct("vfExecCut", 12) {
			f = f[:g.n("vfExecCutAt", 0, len(f))]
			fd += " cut"
		}
		body = append(body, f...)
		desc = append(desc, "{"+fd+"}")
	case typ == 6 && depth > 0: // PIPELINE: concatenated sub frames
		for _, p := range g.pieces("vfPipe", 0, 4, func(sg *w13Gen) w13Piece {
			sf, sd := sg.genValueFrame(depth-1, db)
			return w13Piece{B: sf, Note: sd}
		}) {
			body = append(body, p.B...)
			desc = append(desc, "["+p.Note+"]")
		}
		if g.known.lockData {
			g.exclude("PIPELINE payload with a tail shorter than a length prefix (known finding)")
		} else if g.pct("vfPipeTail", 20) {
			tail := g.raw("vfPipeTailBytes", g.n("vfPipeTailLen", 1, 7))
			body = append(body, tail...)
			desc = append(desc, fmt.Sprintf("tail=%x", tail))
		}
	case typ == 2: // INCR
		l := 8
		if g.known.incrNoValue {
			g.exclude("INCR operand that is not 8 bytes long (known finding: INCR on a key without value)")
		} else if g.pct("vfIncrOdd", 25) {
			l = g.n("vfIncrLen", 0, 12)
		}
		body = append(body, g.raw("vfIncr", l)...)
	case typ == 4 || typ == 8: // SHIFT / POP: 4-byte count
		l := 4
		if g.pct("vfCountOdd", 20) {
			l = g.n("vfCountLen", 0, 6)
		}
		v := make([]byte, l)
		cnt := uint32(rapid.SampledFrom([]int{0, 1, 2, 3, 5, 64, 255, 65536, 0x7fffffff, 0xffffffff}).Draw(g.t, "vfCount"))
		for i := 0; i < l && i < 4; i++ {
			v[i] = byte(cnt >> (8 * i))
		}
		body = append(body, v...)
		desc = append(desc, fmt.Sprintf("n=%d/%dB", cnt, l))
	case typ == 1: // UNSET
		if g.pct("vfUnsetPayload", 20) {
			body = append(body, g.raw("vfUnset", g.n("vfUnsetLen", 1, 8))...)
		}
	default: // SET / APPEND / PUSH / unknown
		if flags&0x02 != 0 || flags&0x04 != 0 { // array / kv encoded payload: [len32 bytes]*
			k := g.n("vfElems", 0, 4)
			for i := 0; i < k; i++ {
				e := g.raw("vfElem", g.n("vfElemLen", 0, 9))
				el := uint32(len(e))
				if g.known.elemBounds || g.known.lockData {
					g.exclude("array/kv element length that disagrees with the frame (known finding)")
				} else if g.pct("vfElemLie", 15) {
					el = uint32(rapid.SampledFrom([]int{0, 1, 0xff, 0xffff, 0x7fffffff, 0xffffffff, len(e) + 1, len(e) + 7}).Draw(g.t, "vfElemLieVal"))
				}
				var lb [4]byte
				w13Put32(lb[:], el)
				body = append(body, lb[:]...)
				body = append(body, e...)
			}
			if g.pct("vfElemTail", 15) && !(g.known.elemBounds || g.known.lockData) {
				body = append(body, g.raw("vfElemTailBytes", g.n("vfElemTailLen", 1, 5))...)
			}
		} else {
			l := g.n("vfPayloadLen", 0, 24)
			if tight {
				l = g.n("vfTightTail", 0, 3)
			} else if g.pct("vfPayloadBig", 6) {
				l = rapid.SampledFrom([]int{58, 59, 60, 62, 63, 64, 65, 127, 128, 1000, 1018, 1024, 4090, 4096, 5000}).Draw(g.t, "vfPayloadBigLen")
			} else if g.pct("vfPayloadHuge", 1) {
				l = rapid.SampledFrom([]int{65536, 200000, 1048570, 1048574}).Draw(g.t, "vfPayloadHugeLen")
			}
			body = append(body, g.raw("vfPayload", l)...)
			desc = append(desc, fmt.Sprintf("payload=%dB", l))
		}
	}
	declared := uint32(len(body))
	if g.pct("vfLenLie", 7) {
		declared = uint32(rapid.SampledFrom([]int{0, 1, 2, 3, 5, 6, 7, len(body) - 1, len(body) + 1, len(body) + 64, 1048576, 1048577, 0x7fffffff, 0x80000000, 0xffffffff}).Draw(g.t, "vfLenLieVal"))
		if declared < 2 && g.known.shortFrame {
			g.exclude("value frame shorter than its 2-byte header (known finding)")
			declared = uint32(len(body))
		}
		if embedded && declared >= 0x10000000 && g.known.execAlloc {
			g.exclude("embedded value frame that declares 256 MiB or more (known finding: DecodeLockCommand allocates before checking)")
			declared = uint32(len(body))
		}
		if declared < uint32(len(body)) && flags&0x10 != 0 && !propLies {
			declared = uint32(len(body)) // a shortened frame would cut into the property header
		}
		desc = append(desc, fmt.Sprintf("declared=%d/%d", declared, len(body)))
	}
	out := make([]byte, 4+len(body))
	w13Put32(out, declared)
	copy(out[4:], body)
	return out, "data[" + strings.Join(desc, " ") + "]"
}

func w13Min(a, b int) int {
	if a < b {
		return a
	}
	return b
}

// ---------------------------------------------------------------------------------------------
// binary frames

// genLockFrame: LOCK / UNLOCK (/ WILL_*) with arbitrary field values and an optional value frame.
func (g *w13Gen) genLockFrame(depth int, embedded bool, db byte) ([]byte, string) {
	f := make([]byte, 64)
	f[0], f[1] = protocol.MAGIC, protocol.VERSION
	typ := byte(rapid.SampledFrom([]int{1, 1, 1, 1, 2, 2, 2, 8, 9}).Draw(g.t, "lfType"))
	if embedded && g.pct("lfEmbeddedOtherType", 10) {
		typ = rapid.Byte().Draw(g.t, "lfEmbeddedType")
	}
	f[2] = typ
	copy(f[3:19], g.raw("lfReq", 16))
	flag := byte(rapid.SampledFrom([]int{0, 0, 0x01, 0x02, 0x03, 0x08, 0x10, 0x04, 0x0a, 0x12, 0x18, 0x1f}).Draw(g.t, "lfFlag"))
	if g.pct("lfFlagAny", 8) {
		flag = rapid.Byte().Draw(g.t, "lfFlagRaw") &^ 0x20
	}
	if g.focus && g.pct("lfFocusUpdate", 35) {
		flag |= 0x02
	}
	withData := g.pct("lfData", 45)
	if withData {
		flag |= 0x20
	}
	f[19] = flag
	if embedded && g.pct("lfSameDb", 85) {
		f[20] = db
	} else {
		f[20] = g.dbId("lfDb")
	}
	id, key := g.id16("lfId"), g.key16("lfKey")
	copy(f[21:37], id[:])
	copy(f[37:53], key[:])
	timeout, tflag := g.u16("lfTimeout"), g.flags16("lfTimeoutFlag", w13TimeoutBits)
	if tflag&0x4000 != 0 && g.known.lessVersion {
		g.exclude("time-out flag 0x4000 (known finding: less-lock-version without a holder)")
		tflag &^= 0x4000
	}
	expried, eflag := g.u16("lfExpried"), g.flags16("lfExpriedFlag", w13ExpriedBits)
	if expried == 0 && tflag&0x1000 != 0 && g.known.ackUnheld {
		g.exclude("LOCK frame with Expried 0 and the ack-required flag (known finding)")
		tflag &^= 0x1000
	}
	if g.focus && expried == 0 && g.pct("lfFocusHold", 60) {
		expried = 30
	}
	if g.timers {
		// holds and waits that end while the case is still being observed
		if g.pct("lfTimerMs", 70) {
			expried, eflag = uint16(g.n("lfTimerExpriedMs", 1, 60)), (eflag|0x0400)&^0x4040
			timeout, tflag = uint16(g.n("lfTimerTimeoutMs", 0, 60)), (tflag|0x0400)&^0x8040
		} else {
			expried, eflag = uint16(g.n("lfTimerExpriedS", 0, 1)), eflag&^0x4440
			timeout, tflag = uint16(g.n("lfTimerTimeoutS", 0, 1)), tflag&^0x8440
		}
	}
	if tflag&0x1000 != 0 && (g.known.unlockAckPending || g.known.ackUnheld) {
		g.exclude("ack-required time-out flag 0x1000 (known findings: unlock-first of an ack-pending lock; ack tracking of a lock that is not in the ack-pending protocol)")
		tflag &^= 0x1000
	}
	if withData && tflag&0x1000 != 0 && g.known.recoverNil {
		g.exclude("LOCK frame with a value frame and the ack-required flag (known finding)")
		tflag &^= 0x1000
	}
	count := g.u16("lfCount")
	rcount := byte(rapid.SampledFrom([]int{0, 0, 1, 2, 0xfe, 0xff}).Draw(g.t, "lfRcount"))
	f[53], f[54], f[55], f[56] = byte(timeout), byte(timeout>>8), byte(tflag), byte(tflag>>8)
	f[57], f[58], f[59], f[60] = byte(expried), byte(expried>>8), byte(eflag), byte(eflag>>8)
	f[61], f[62], f[63] = byte(count), byte(count>>8), rcount
	name := w13BinaryNames[typ]
	if name == "" {
		name = fmt.Sprintf("TYPE%d", typ)
	}
	desc := fmt.Sprintf("%s flag=%#x db=%d key=%x id=%x t=%d/%#x e=%d/%#x c=%d rc=%d", name, flag, f[20], key[14:], id[14:], timeout, tflag, expried, eflag, count, rcount)
	if withData {
		vf, vd := g.genValueFrameIn(depth, f[20], embedded)
		f = append(f, vf...)
		desc += " " + vd
	}
	return f, desc
}

var w13CallMethods = []string{"LIST_LOCK", "LIST_LOCKED", "LIST_WAIT", "LIST_LOCK", "NOPE", "", "list_lock", "REPL_STATUS_X"}

func (g *w13Gen) genCallFrame() ([]byte, string) {
	f := make([]byte, 64)
	f[0], f[1], f[2] = protocol.MAGIC, protocol.VERSION, protocol.COMMAND_CALL
	copy(f[3:19], g.raw("cfReq", 16))
	f[19], f[20], f[21] = byte(g.n("cfFlag", 0, 3)), byte(g.n("cfEnc", 0, 4)), byte(g.n("cfCharset", 0, 2))
	method := rapid.SampledFrom(w13CallMethods).Draw(g.t, "cfMethod")
	if w13AdminWord([]byte(method)) != "" {
		g.exclude("binary CALL of a replication method (SYNC / REPL_*)")
		method = "NOPE"
	}
	var content []byte
	switch g.n("cfContentKind", 0, 4) {
	case 0:
		content, _ = proto.Marshal(&protobuf.LockDBListLockRequest{DbId: uint32(g.dbId("cfDb"))})
	case 1:
		k := g.key16("cfKey")
		content, _ = proto.Marshal(&protobuf.LockDBListLockedRequest{DbId: uint32(g.dbId("cfDb")), LockKey: k[:]})
	case 2:
		k := g.raw("cfOddKey", g.n("cfOddKeyLen", 0, 40))
		db := uint32(rapid.SampledFrom([]int{0, 1, 255, 256, 257, 65536, 0x7fffffff, 0xffffffff}).Draw(g.t, "cfWideDb"))
		if db > 255 && g.known.callDbid {
			g.exclude("CALL LIST_* with a DbId above 255 (known finding)")
			db &= 0xff
		}
		content, _ = proto.Marshal(&protobuf.LockDBListLockedRequest{DbId: db, LockKey: k})
	case 3:
		content = g.raw("cfJunk", g.n("cfJunkLen", 0, 40))
	case 4:
		content = []byte{}
	}
	cl := uint32(len(content))
	if g.pct("cfLenLie", 10) {
		cl = uint32(rapid.SampledFrom([]int{0, 1, len(content) + 1, len(content) + 64, 1048576, 1048577, 0x7fffffff, 0xffffffff}).Draw(g.t, "cfLenLieVal"))
	}
	w13Put32(f[22:26], cl)
	copy(f[26:64], method)
	f = append(f, content...)
	return f, fmt.Sprintf("CALL %q content=%d/%dB", method, cl, len(content))
}

func (g *w13Gen) genOtherFrame(typ byte) ([]byte, string) {
	f := make([]byte, 64)
	f[0], f[1], f[2] = protocol.MAGIC, protocol.VERSION, typ
	copy(f[3:19], g.raw("ofReq", 16))
	switch g.n("ofBody", 0, 2) {
	case 0:
	case 1:
		copy(f[19:], g.raw("ofBodyBytes", 45))
	case 2:
		// plausible SUBSCRIBE / INIT layout: flag, ids, type, key mask, expried, max size
		f[19] = byte(g.n("ofFlag", 0, 3))
		copy(f[20:28], g.raw("ofIds", 8))
		f[28] = byte(g.n("ofSubType", 0, 2))
		k := g.key16("ofMask")
		copy(f[29:45], k[:])
		w13Put32(f[45:49], uint32(rapid.SampledFrom([]int{0, 1, 5, 0xffffffff}).Draw(g.t, "ofExpried")))
		w13Put32(f[49:53], uint32(rapid.SampledFrom([]int{0, 1, 64, 0xffffffff}).Draw(g.t, "ofMax")))
	}
	name := w13BinaryNames[typ]
	if name == "" {
		name = fmt.Sprintf("TYPE%d", typ)
	}
	return f, name
}

// genBinaryStream: a sequence of frames. If an ADMIN frame is drawn the rest of the stream is text.
func (g *w13Gen) genBinaryStream() ([]byte, []string) {
	var out []byte
	var notes []string
	ps := g.pieces("frames", 1, 10, func(sg *w13Gen) w13Piece {
		f, d, admin := sg.genFrame()
		return w13Piece{f, d, admin}
	})
	for _, p := range ps {
		out = append(out, p.B...)
		notes = append(notes, p.Note)
		if p.Admin {
			tb, tn := g.genTextStream()
			out = append(out, tb...)
			notes = append(notes, tn...)
			break
		}
	}
	return out, notes
}

func (g *w13Gen) genFrame() (f []byte, d string, admin bool) {
	k := g.n("frameKind", 0, 99)
	switch {
	case k < 58:
		f, d = g.genLockFrame(3, false, 0)
	case k < 68:
		f, d = g.genCallFrame()
	case k < 73:
		f, d = g.genOtherFrame(protocol.COMMAND_INIT)
	case k < 77:
		f, d = g.genOtherFrame(protocol.COMMAND_STATE)
	case k < 80:
		f, d = g.genOtherFrame(protocol.COMMAND_PING)
	case k < 83:
		f, d = g.genOtherFrame(protocol.COMMAND_LEADER)
	case k < 90:
		f, d = g.genOtherFrame(protocol.COMMAND_SUBSCRIBE)
	case k < 92:
		f, d = g.genOtherFrame(protocol.COMMAND_PUBLISH)
	case k < 94:
		f, d = g.genOtherFrame(byte(g.n("unknownType", 13, 255)))
	case k < 96:
		f, d = g.genOtherFrame(protocol.COMMAND_QUIT)
	case k < 98:
		// wrong magic / version
		f, d = g.genOtherFrame(byte(g.n("badType", 0, 12)))
		if g.pct("badMagic", 50) {
			f[0] = rapid.Byte().Draw(g.t, "magic")
		} else {
			f[1] = rapid.Byte().Draw(g.t, "version")
		}
		d = fmt.Sprintf("%s magic=%#x version=%#x", d, f[0], f[1])
	default:
		f, d = g.genOtherFrame(protocol.COMMAND_ADMIN)
		admin = true
	}
	return
}

// ---------------------------------------------------------------------------------------------
// text (RESP) commands

var w13TextCommands = []string{
	"SELECT", "TIMEOUT", "LOCK", "UNLOCK", "PUSH",
	"DEL", "SET", "APPEND", "GETSET", "SETEX", "PSETEX", "SETNX", "INCR", "INCRBY", "DECR", "DECRBY",
	"EXISTS", "EXPIRE", "PEXPIRE", "PEXPIREAT", "EXPIREAT", "PERSIST",
	"GET", "STRLEN", "TYPE", "DUMP", "KEYS", "SCAN", "TTL", "PTTL",
	"ECHO", "PING", "INFO", "SHOW", "QUIT", "BOGUS", "",
}

// administrative commands: only variants that cannot take effect on a stand-alone leader
var w13SafeAdmin = [][]string{
	{"CONFIG"}, {"CONFIG", "GET"}, {"CONFIG", "GET", "PORT"}, {"CONFIG", "GET", "DATABASES"}, {"CONFIG", "GET", "nope"},
	{"CONFIG", "SET"}, {"CONFIG", "SET", "LOG_LEVEL"}, {"CONFIG", "SET", "DB_LOCK_AOF_TIME"},
	{"CLIENT"}, {"CLIENT", "LIST"}, {"CLIENT", "KILL"}, {"CLIENT", "nope", "x"},
	{"FLUSHDB"}, {"FLUSHDB", "abc"}, {"FLUSHDB", ""},
	{"SLAVEOF"}, {"SLAVEOF", ""}, {"SLAVEOF", "", "1"},
	{"REPLSET"}, {"REPLSET", "CONFIG"}, {"REPLSET", "CONFIG", "127.0.0.1:1", "WEIGHT"}, {"REPLSET", "ADD"}, {"REPLSET", "REMOVE"},
	{"REPLSET", "SET", "x"}, {"REPLSET", "GET"}, {"REPLSET", "MEMBERS"}, {"REPLSET", "QUIT-LEADER"}, {"REPLSET", "nope"},
}

var w13HostileArgs = []string{
	"", "0", "1", "-1", "2", "10", "255", "256", "65535", "65536", "4294967295", "4294967296", "9223372036854775807",
	"-9223372036854775808", "99999999999999999999", "1e3", "0x10", " 1", "abc", "*", "k*", "[", "(",
	"EX", "PX", "TX", "PTX", "NX", "XX", "ACK", "NAOF",
	"LOCK_ID", "FLAG", "TIMEOUT", "EXPRIED", "COUNT", "RCOUNT", "WILL", "SET", "UNSET", "INCR", "APPEND", "SHIFT", "EXECUTE", "PUSH", "POP",
	"MATCH", "WAIT", "UNLOCK", "LOCK", "CURRENT",
}

func (g *w13Gen) tkey(label string) string {
	if g.focus && g.n(label+"Focus", 0, 3) > 0 {
		return g.tkeys[0]
	}
	if g.pct(label+"Odd", 12) {
		return rapid.SampledFrom([]string{"", "k", "0123456789abcdef", "0123456789abcdef0123456789abcdef", "0123456789abcdefg123456789abcdef", strings.Repeat("K", 17), strings.Repeat("L", 33), strings.Repeat("M", 200)}).Draw(g.t, label+"OddVal")
	}
	return g.tkeys[g.n(label, 0, len(g.tkeys)-1)]
}

func (g *w13Gen) tval(label string) string {
	switch g.n(label+"Kind", 0, 6) {
	case 0:
		return ""
	case 1:
		return "v"
	case 2:
		return "12"
	case 3:
		return "hello world"
	case 4:
		return strings.Repeat("x", rapid.SampledFrom([]int{57, 58, 64, 119, 120, 128, 900, 1010, 1024, 1100, 3000}).Draw(g.t, label+"Long"))
	case 5:
		return "-5"
	}
	return string(g.raw(label, g.n(label+"Len", 1, 12)))
}

func (g *w13Gen) num(label string) string {
	return rapid.SampledFrom([]string{"0", "1", "2", "3", "5", "10", "-1", "100", "3000", "3001", "65535", "65536", "65535000", "65535001", "4294967296", "9223372036854775807", "-9223372036854775808", "abc", ""}).Draw(g.t, label)
}

// safe values for everything that makes a handler wait: 0, a few milliseconds, or unparsable
func (g *w13Gen) safeLockTimeout(label string) string {
	flags := int(g.flags16(label+"Flags", w13TimeoutBits))
	if flags&0x4000 != 0 && g.known.lessVersion {
		g.exclude("time-out flag 0x4000 (known finding: less-lock-version without a holder)")
		flags &^= 0x4000
	}
	if flags&0x1000 != 0 && (g.known.errMsg12 || g.known.ackUnheld || g.known.recoverNil || g.known.unlockAckPending) {
		g.exclude("text lock with the ack-required flag (known findings around ack-pending locks)")
		flags &^= 0x1000
	}
	switch g.n(label+"Kind", 0, 3) {
	case 0, 1:
		return fmt.Sprint(flags << 16)
	case 2:
		// a few milliseconds; never minutes (0x40) and never keep-alive (0x8000: the wait is renewed for
		// as long as the connection stays open, i.e. for ever in this harness)
		flags = (flags | 0x0400) &^ 0x8040
		return fmt.Sprint(flags<<16 | g.n(label+"Ms", 1, 30))
	}
	return rapid.SampledFrom([]string{"0", "abc", "", "65536", "-65536"}).Draw(g.t, label+"Odd")
}

func (g *w13Gen) safeTX(label string) string {
	return rapid.SampledFrom([]string{"0", "0", "1", "00", "abc", ""}).Draw(g.t, label)
}

func (g *w13Gen) safePTX(label string) string {
	return rapid.SampledFrom([]string{"0", "0", "1", "20", "abc", ""}).Draw(g.t, label)
}

func (g *w13Gen) lockOptions(depth int) []string {
	var a []string
	k := g.n("loCount", 0, 5)
	for i := 0; i < k; i++ {
		switch g.n("loKind", 0, 15) {
		case 0:
			a = append(a, "LOCK_ID", g.tkey("loId"))
		case 1:
			a = append(a, "FLAG", rapid.SampledFrom([]string{"0", "1", "2", "3", "8", "16", "18", "32", "255", "256", "-1", "abc"}).Draw(g.t, "loFlag"))
		case 2:
			a = append(a, "EXPRIED", g.lockExpried("loExpried"))
		case 3:
			a = append(a, "COUNT", g.num("loCountVal"))
		case 4:
			a = append(a, "RCOUNT", g.num("loRcountVal"))
		case 5:
			a = append(a, "WILL", rapid.SampledFrom([]string{"0", "1", "2", "-1", "abc"}).Draw(g.t, "loWill"))
		case 6:
			a = append(a, "SET", g.tval("loSet"))
		case 7:
			a = append(a, "UNSET", g.tval("loUnset"))
		case 8:
			a = append(a, "INCR", g.num("loIncr"))
		case 9:
			a = append(a, "APPEND", g.tval("loAppend"))
		case 10:
			a = append(a, "SHIFT", g.num("loShift"))
		case 11:
			a = append(a, "PUSH", g.tval("loPush"))
		case 12:
			a = append(a, "POP", g.num("loPop"))
		case 13:
			if depth > 0 {
				a = append(a, "EXECUTE", rapid.SampledFrom([]string{"CURRENT", "UNLOCK", "TIMEOUT", "EXPRIED", "x"}).Draw(g.t, "loStage"))
				a = append(a, rapid.SampledFrom([]string{"LOCK", "UNLOCK", "PUSH"}).Draw(g.t, "loExecCmd"), g.tkey("loExecKey"))
				a = append(a, g.lockOptions(depth-1)...)
			}
		case 14:
			a = append(a, "TIMEOUT", g.safeLockTimeout("loTimeout"))
		case 15:
			a = append(a, rapid.SampledFrom(w13HostileArgs).Draw(g.t, "loJunkK"), rapid.SampledFrom(w13HostileArgs).Draw(g.t, "loJunkV"))
		}
	}
	return a
}

func (g *w13Gen) lockExpried(label string) string {
	flags := int(g.flags16(label+"Flags", w13ExpriedBits))
	if g.timers {
		if g.pct(label+"TimerMs", 70) {
			return fmt.Sprint(((flags|0x0400)&^0x4040)<<16 | g.n(label+"TimerMsVal", 1, 60))
		}
		return fmt.Sprint((flags&^0x4440)<<16 | g.n(label+"TimerSVal", 0, 1))
	}
	switch g.n(label+"Kind", 0, 3) {
	case 0:
		return fmt.Sprint(flags<<16 | g.n(label+"Sec", 0, 5))
	case 1:
		return fmt.Sprint((flags|0x0400)<<16 | g.n(label+"Ms", 0, 50))
	case 2:
		return fmt.Sprint(flags<<16 | int(g.u16(label+"Any")))
	}
	return g.num(label + "Odd")
}

func (g *w13Gen) kvOptions() []string {
	var a []string
	k := g.n("kvCount", 0, 3)
	for i := 0; i < k; i++ {
		switch g.n("kvKind", 0, 8) {
		case 0:
			a = append(a, "EX", g.num("kvEx"))
		case 1:
			a = append(a, "PX", g.num("kvPx"))
		case 2:
			a = append(a, "TX", g.safeTX("kvTx"))
		case 3:
			a = append(a, "PTX", g.safePTX("kvPtx"))
		case 4:
			a = append(a, "NX")
		case 5:
			a = append(a, "XX")
		case 6:
			if g.known.unlockAckPending {
				g.exclude("ACK option of a key/value command (known finding: unlock-first of an ack-pending lock)")
			} else {
				a = append(a, "ACK")
			}
		case 7:
			a = append(a, "NAOF")
		case 8:
			a = append(a, rapid.SampledFrom(w13HostileArgs).Draw(g.t, "kvJunk"))
		}
	}
	return a
}

// wellFormed returns a plausible argument vector for a registered command.
func (g *w13Gen) wellFormed(name string) []string {
	switch name {
	case "SELECT":
		return []string{name, rapid.SampledFrom([]string{"0", "0", "1", "2", "255", "256", "-1", "abc"}).Draw(g.t, "selDb")}
	case "TIMEOUT":
		if g.pct("toGet", 30) {
			return []string{name, "GET", "x"}
		}
		return []string{name, "SET", rapid.SampledFrom([]string{"0", "0", "1", "65536", "abc", ""}).Draw(g.t, "toVal")}
	case "LOCK", "UNLOCK", "PUSH":
		a := []string{name, g.tkey("lkKey")}
		a = append(a, g.lockOptions(2)...)
		return append(a, "TIMEOUT", g.safeLockTimeout("lkTimeout"))
	case "DEL", "GET", "STRLEN", "TYPE", "DUMP", "EXISTS", "TTL", "PTTL":
		return []string{name, g.tkey("k")}
	case "SET", "GETSET", "SETNX", "APPEND":
		return append([]string{name, g.tkey("k"), g.tval("v")}, g.kvOptions()...)
	case "SETEX", "PSETEX":
		return append([]string{name, g.tkey("k"), g.num("sec"), g.tval("v")}, g.kvOptions()...)
	case "INCR", "DECR", "INCRBY", "DECRBY":
		a := []string{name, g.tkey("k")}
		if name == "INCRBY" || name == "DECRBY" || g.pct("incrArg", 40) {
			a = append(a, g.num("by"))
			a = append(a, g.kvOptions()...)
		}
		return a
	case "EXPIRE", "PEXPIRE", "PEXPIREAT", "EXPIREAT", "PERSIST":
		return []string{name, g.tkey("k"), g.num("at")}
	case "KEYS":
		return []string{name, rapid.SampledFrom([]string{"*", "k*", "", "[", "(", "a{1000}{1000}"}).Draw(g.t, "pattern")}
	case "SCAN":
		a := []string{name, g.num("cursor")}
		for i, k := 0, g.n("scanOpts", 0, 2); i < k; i++ {
			if g.pct("scanMatch", 50) {
				a = append(a, "MATCH", rapid.SampledFrom([]string{"*", "k*", "["}).Draw(g.t, "scanPattern"))
			} else {
				a = append(a, "COUNT", g.num("scanCount"))
			}
		}
		return a
	case "ECHO":
		return []string{name, g.tval("echo")}
	case "PING":
		if g.pct("pingArg", 30) {
			return []string{name, g.tval("ping")}
		}
		return []string{name}
	case "INFO":
		return []string{name, rapid.SampledFrom([]string{"", "server", "clients", "memory", "cpu", "coroutine", "stats", "replication", "persistence", "keyspace", "subscribe", "x"}).Draw(g.t, "section")}
	case "SHOW":
		switch g.n("showKind", 0, 3) {
		case 0:
			return []string{name}
		case 1:
			return []string{name, "*"}
		case 2:
			return []string{name, g.tkey("showKey")}
		}
		return []string{name, g.tkey("showKey"), "WAIT"}
	case "QUIT":
		return []string{name}
	}
	return []string{name, g.tkey("k")}
}

// sanitize replaces the values that could make a handler wait for long (domain: timeouts 0 or tiny).
func (g *w13Gen) sanitize(a []string) []string {
	if len(a) == 0 {
		return a
	}
	up := strings.ToUpper(a[0])
	for i := 1; i < len(a); i++ {
		switch strings.ToUpper(a[i-1]) {
		case "TIMEOUT":
			if i >= 2 {
				a[i] = g.safeLockTimeout("sanTimeout")
			}
		case "TX":
			a[i] = g.safeTX("sanTx")
		case "PTX":
			a[i] = g.safePTX("sanPtx")
		}
	}
	if up == "TIMEOUT" && len(a) >= 3 && strings.ToUpper(a[1]) == "SET" {
		a[2] = rapid.SampledFrom([]string{"0", "0", "1", "65536", "abc", ""}).Draw(g.t, "sanSession")
	}
	if (up == "LOCK" || up == "UNLOCK" || up == "PUSH") && len(a)%2 == 0 {
		has := false
		for i := 2; i < len(a); i += 2 {
			if strings.ToUpper(a[i]) == "TIMEOUT" {
				has = true
			}
		}
		if !has {
			a = append(a, "TIMEOUT", "0")
		}
	}
	return a
}

var w13KVOptStart = map[string]int{"SET": 3, "GETSET": 3, "SETNX": 3, "APPEND": 3, "SETEX": 4, "PSETEX": 4}

// knownTextFilter rewrites the argument vectors that are known to crash (only while listed as known).
func (g *w13Gen) knownTextFilter(a []string) []string {
	if len(a) == 0 {
		return a
	}
	up := strings.ToUpper(a[0])
	isKw := func(s string) bool {
		switch strings.ToUpper(s) {
		case "EX", "PX", "TX", "PTX":
			return true
		}
		return false
	}
	if g.known.setexArity && (up == "SETEX" || up == "PSETEX") && len(a) == 3 {
		g.exclude("SETEX/PSETEX without the value argument (known finding)")
		a = append(a, "v")
	}
	if g.known.args2flag {
		start, ok := w13KVOptStart[up]
		switch up {
		case "INCR", "INCRBY", "DECR", "DECRBY":
			start, ok = 3, true
			if len(a) > 2 {
				start = 4
			}
		}
		// ConvertArgs2Flag tests i+i instead of i+1: it only overruns when the option list is a single keyword
		if ok && len(a) == start+1 && isKw(a[start]) {
			g.exclude("single trailing EX/PX/TX/PTX without value (known finding)")
			a = append(a, "0")
		}
	}
	if g.known.scanArity && up == "SCAN" && len(a) >= 3 && len(a)%2 == 1 {
		if l := strings.ToUpper(a[len(a)-1]); l == "MATCH" || l == "COUNT" {
			g.exclude("SCAN with a trailing MATCH/COUNT without value (known finding)")
			a = append(a, "1")
		}
	}
	if g.known.unlockAckPending {
		for i := 1; i < len(a); i++ {
			if strings.ToUpper(a[i]) == "ACK" {
				g.exclude("ACK option of a key/value command (known finding: unlock-first of an ack-pending lock)")
				a[i] = "NAOF"
			}
		}
	}
	if g.known.lockData && (up == "LOCK" || up == "UNLOCK" || up == "PUSH") {
		for i := 2; i+1 < len(a); i += 2 {
			if strings.ToUpper(a[i]) == "SHIFT" && a[i+1] != "0" {
				g.exclude("SHIFT value operation (known finding: SHIFT beyond the value length)")
				a[i+1] = "0"
			}
		}
	}
	return a
}

func (g *w13Gen) genTextArgs() []string {
	if !g.noAdm && g.pct("safeAdmin", 6) {
		g.hasAdm = true
		v := rapid.SampledFrom(w13SafeAdmin).Draw(g.t, "safeAdminVariant")
		return append([]string{}, v...)
	}
	name := rapid.SampledFrom(w13TextCommands).Draw(g.t, "cmd")
	var a []string
	switch g.n("argMode", 0, 9) {
	case 0, 1, 2, 3, 4: // plausible
		a = g.wellFormed(name)
	case 5, 6: // arity sweep: every prefix of a plausible vector
		a = g.wellFormed(name)
		a = a[:g.n("arity", 1, len(a))]
	case 7: // plausible plus a dangling option keyword / extra arguments
		a = g.wellFormed(name)
		for i, k := 0, g.n("extra", 1, 3); i < k; i++ {
			a = append(a, rapid.SampledFrom(w13HostileArgs).Draw(g.t, "extraArg"))
		}
	default: // arbitrary list
		a = []string{name}
		for i, k := 0, g.n("argc", 0, 8); i < k; i++ {
			if g.pct("argIsKey", 30) {
				a = append(a, g.tkey("argKey"))
			} else {
				a = append(a, rapid.SampledFrom(w13HostileArgs).Draw(g.t, "arg"))
			}
		}
	}
	if g.pct("lowerCase", 8) {
		a[0] = strings.ToLower(a[0])
	}
	a = g.sanitize(a)
	return g.knownTextFilter(a)
}

// renderRESP: the array-of-bulk-strings encoding, optionally with hostile counts / lengths.
func (g *w13Gen) renderRESP(a []string) ([]byte, string) {
	var b []byte
	note := strings.Join(w13Abbrev(a), " ")
	count := fmt.Sprint(len(a))
	hostile := g.pct("respHostile", 8)
	if hostile && g.pct("respCountLie", 50) {
		count = rapid.SampledFrom([]string{"0", "-1", "1", fmt.Sprint(len(a) + 1), fmt.Sprint(len(a) - 1), "1000000", "99999999999999999999", "", "a", "+1", " 2"}).Draw(g.t, "respCount")
		note += " [*" + count + "]"
	}
	b = append(b, '*')
	b = append(b, count...)
	b = append(b, '\r', '\n')
	lie := -1
	if hostile && len(a) > 0 && g.pct("respLenLie", 70) {
		lie = g.n("respLieAt", 0, len(a)-1)
	}
	for i, s := range a {
		l := fmt.Sprint(len(s))
		if i == lie {
			l = rapid.SampledFrom([]string{"-1", "0", "1", fmt.Sprint(len(s) + 1), fmt.Sprint(len(s) + 2), "1024", "1025", "1000000", "99999999999999999999", "", "x"}).Draw(g.t, "respLen")
			note += fmt.Sprintf(" [$%d=%s]", i, l)
		}
		b = append(b, '$')
		b = append(b, l...)
		b = append(b, '\r', '\n')
		b = append(b, s...)
		if hostile && g.pct("respNoCR", 10) {
			b = append(b, '\n')
		} else {
			b = append(b, '\r', '\n')
		}
	}
	return b, note
}

func w13Abbrev(a []string) []string {
	out := make([]string, len(a))
	for i, s := range a {
		if len(s) > 40 {
			out[i] = fmt.Sprintf("%q...(%d)", s[:8], len(s))
		} else {
			out[i] = fmt.Sprintf("%q", s)
		}
	}
	return out
}

func (g *w13Gen) genTextStream() ([]byte, []string) {
	var out []byte
	var notes []string
	// the session default for key/value commands is 15 s: every generated text session zeroes it first
	pre, pn := g.renderPlain([]string{"TIMEOUT", "SET", "0"})
	out = append(out, pre...)
	notes = append(notes, pn)
	for _, p := range g.pieces("commands", 1, 12, func(sg *w13Gen) w13Piece {
		sg.hasAdm = false
		a := sg.genTextArgs()
		b, n := sg.renderRESP(a)
		if sg.hasAdm {
			// variants of administrative commands that cannot take effect stay exactly as drawn: a lying
			// bulk length can turn `SLAVEOF "" 1` into an effective `SLAVEOF <host> <port>`
			b, n = sg.renderPlain(a)
		}
		if sg.known.appendNil && len(a) >= 3 && strings.ToUpper(a[0]) == "APPEND" {
			// APPEND answers through a nil value when the key has none: give it one first
			sg.exclude("APPEND on a key without value (known finding)")
			pb, pn := sg.renderPlain([]string{"SET", a[1], "seed"})
			b, n = append(pb, b...), pn+" ; "+n
		}
		return w13Piece{B: b, Note: n, Admin: sg.hasAdm}
	}) {
		out = append(out, p.B...)
		notes = append(notes, p.Note)
		if p.Admin {
			g.hasAdm = true
		}
	}
	return out, notes
}

func (g *w13Gen) renderPlain(a []string) ([]byte, string) {
	var b []byte
	b = append(b, fmt.Sprintf("*%d\r\n", len(a))...)
	for _, s := range a {
		b = append(b, fmt.Sprintf("$%d\r\n%s\r\n", len(s), s)...)
	}
	return b, strings.Join(w13Abbrev(a), " ")
}

// ---------------------------------------------------------------------------------------------
// mutation and split into reads

var w13HostileBytes = []int{0x00, 0xff, 0x7f, 0x80, '\r', '\n', '*', '$', '-', '0', '9', 0x56, 0x01, 0x20}

func (g *w13Gen) mutate(b []byte, other []byte) ([]byte, []string) {
	var notes []string
	k := g.n("mutCount", 1, 3)
	for i := 0; i < k && len(b) > 0; i++ {
		switch g.n("mutKind", 0, 7) {
		case 0:
			p, bit := g.n("flipPos", 0, len(b)-1), g.n("flipBit", 0, 7)
			b = append([]byte(nil), b...)
			b[p] ^= 1 << uint(bit)
			notes = append(notes, fmt.Sprintf("flip %d.%d", p, bit))
		case 1:
			p := g.n("setPos", 0, len(b)-1)
			v := byte(rapid.SampledFrom(w13HostileBytes).Draw(g.t, "setVal"))
			b = append([]byte(nil), b...)
			b[p] = v
			notes = append(notes, fmt.Sprintf("set %d=%#x", p, v))
		case 2:
			p := g.n("truncAt", 0, len(b))
			b = b[:p]
			notes = append(notes, fmt.Sprintf("truncate %d", p))
		case 3:
			p := g.n("delPos", 0, len(b)-1)
			l := g.n("delLen", 1, w13Min(70, len(b)-p))
			b = append(append([]byte(nil), b[:p]...), b[p+l:]...)
			notes = append(notes, fmt.Sprintf("delete %d+%d", p, l))
		case 4:
			p := g.n("dupPos", 0, len(b)-1)
			if g.pct("dupAligned", 50) {
				p -= p % 64
			}
			l := rapid.SampledFrom([]int{1, 2, 4, 64, 64, 68, 70, 128}).Draw(g.t, "dupLen")
			if p+l > len(b) {
				l = len(b) - p
			}
			nb := append([]byte(nil), b[:p+l]...)
			nb = append(nb, b[p:p+l]...)
			b = append(nb, b[p+l:]...)
			notes = append(notes, fmt.Sprintf("duplicate %d+%d", p, l))
		case 5:
			if len(other) == 0 {
				continue
			}
			p, q := g.n("spliceAt", 0, len(b)), g.n("spliceFrom", 0, len(other))
			b = append(append([]byte(nil), b[:p]...), other[q:]...)
			notes = append(notes, fmt.Sprintf("splice %d<-other[%d:]", p, q))
		case 6:
			p := g.n("insPos", 0, len(b))
			ins := g.raw("insBytes", g.n("insLen", 1, 8))
			nb := append([]byte(nil), b[:p]...)
			nb = append(nb, ins...)
			b = append(nb, b[p:]...)
			notes = append(notes, fmt.Sprintf("insert %d %x", p, ins))
		case 7:
			p := g.n("swapPos", 0, len(b)-1)
			l := w13Min(64, len(b)-p)
			if p >= l {
				b = append([]byte(nil), b...)
				for j := 0; j < l; j++ {
					b[p+j], b[p-l+j] = b[p-l+j], b[p+j]
				}
				notes = append(notes, fmt.Sprintf("swap %d+%d", p-l, l))
			}
		}
	}
	return b, notes
}

func (g *w13Gen) genChunks(n int, binary bool) []int {
	if n == 0 {
		return nil
	}
	switch g.n("splitKind", 0, 5) {
	case 0:
		return nil // one read
	case 1:
		return []int{rapid.SampledFrom([]int{1, 2, 3, 7, 16, 63, 64, 65, 128, 1000, 4096, 5000}).Draw(g.t, "fixedChunk")}
	case 2:
		// the first read carries at least one frame (otherwise a binary stream is taken for text), then small pieces
		return []int{rapid.SampledFrom([]int{64, 64, 65, 68, 70, 128}).Draw(g.t, "firstChunk"), rapid.SampledFrom([]int{1, 2, 3, 5, 63, 64, 100}).Draw(g.t, "restChunk")}
	case 3:
		k := g.n("chunkCount", 2, 12)
		c := make([]int, k)
		for i := range c {
			c[i] = g.n("chunk", 1, 200)
		}
		if binary && g.pct("firstFull", 80) && c[0] < 64 {
			c[0] += 64
		}
		return c
	case 4:
		return []int{64}
	}
	return []int{64, g.n("second", 1, 10), 4096}
}

// ---------------------------------------------------------------------------------------------
// case generator

func w13NewGen(t *rapid.T, st *vStat) *w13Gen {
	g := &w13Gen{t: t, st: st, known: w13KnownKeys()}
	g.tkeys = []string{"k1", "k2", "kkk3", "\x00\x00\x00\x00\x00\x00\x00\x00\x00\x00\x00\x00\x00\x00\x00\x01"}
	for _, tk := range g.tkeys {
		var k [16]byte
		copy(k[16-len(tk):], tk) // the text protocol right-aligns short key arguments
		g.keys = append(g.keys, k)
	}
	g.keys = append(g.keys, [16]byte{}, [16]byte{0: 0xff, 1: 0xff, 15: 0xff})
	g.ids = [][16]byte{{15: 0x11}, {15: 0x22}, {0: 0x33, 15: 0x33}, {}}
	return g
}

func w13GenConn(g *w13Gen) w13Conn {
	g.noAdm, g.hasAdm = false, false
	kind := rapid.SampledFrom([]string{"binary", "binary", "binary", "text", "text", "raw"}).Draw(g.t, "connKind")
	mutated := g.pct("mutated", 30)
	g.noAdm = mutated
	var b []byte
	var notes []string
	switch kind {
	case "binary":
		b, notes = g.genBinaryStream()
	case "text":
		b, notes = g.genTextStream()
	default:
		// hostile constants and short junk
		b = []byte(rapid.SampledFrom([]string{
			"", "*", "*\r\n", "*-1\r\n", "*0\r\n", "*1\r\n$-1\r\n", "*1\r\n$0\r\n\r\n", "*1\r\n$4\r\nPING", "*99999999999999999999\r\n", "*2\r\n$1000000\r\nab",
			"\x56", "\x56\x01", "\x56\x01\x01", "GET k\r\n", "\r\n", "\n", "$3\r\nabc\r\n", "+OK\r\n", "-ERR\r\n", ":1\r\n",
			"*1\r\n$4\r\nPING\r\n*1\r\n$4\r\nPING\r\n", "*3\r\n$7\r\nslavexx\r\n$0\r\n\r\n$0\r\n\r\n",
		}).Draw(g.t, "rawConst"))
		if g.pct("rawRandom", 40) {
			b = g.raw("rawBytes", g.n("rawLen", 0, 130))
		}
		notes = []string{fmt.Sprintf("raw %q", b)}
	}
	c := w13Conn{Kind: kind, Note: notes}
	if mutated && len(b) > 0 {
		var other []byte
		if g.pct("spliceOther", 40) {
			if kind == "binary" {
				other, _ = g.genTextStream()
			} else {
				other, _ = g.genBinaryStream()
			}
		}
		b, c.Mut = g.mutate(b, other)
	}
	c.Hex = hex.EncodeToString(b)
	c.Chunks = g.genChunks(len(b), kind == "binary")
	if g.timers {
		c.Linger = rapid.SampledFrom([]int{150, 150, 150, 150, 2300}).Draw(g.t, "lingerMs")
	} else if g.pct("linger", 5) {
		c.Linger = rapid.SampledFrom([]int{30, 60, 120, 120, 2200}).Draw(g.t, "lingerMs")
	}
	return c
}

// ---------------------------------------------------------------------------------------------
// case shape "writer -> reader": the first connection leaves a value on a key that stays held, the
// second one, speaking the other protocol, reads stored values back (KEYS, SCAN, GET, STRLEN, TYPE, DUMP,
// TTL, SHOW, LOCK results with DATA / CALL LIST_*, STATE, show-when-locked LOCK, value updates). Values
// are decoded a second time, by different code, on a connection that sent nothing malformed itself.

func (g *w13Gen) writerLockFrame(first bool, id [16]byte) ([]byte, string) {
	f := make([]byte, 64)
	f[0], f[1], f[2] = protocol.MAGIC, protocol.VERSION, protocol.COMMAND_LOCK
	copy(f[3:19], g.raw("wfReq", 16))
	flag := byte(0x20)
	if !first || g.pct("wfUpdate", 30) {
		flag |= 0x02
	}
	f[19], f[20] = flag, 0
	copy(f[21:37], id[:])
	copy(f[37:53], g.keys[0][:])
	expried := uint16(rapid.SampledFrom([]int{30, 60, 600, 0x7fff}).Draw(g.t, "wfExpried"))
	eflag := uint16(rapid.SampledFrom([]int{0, 0x0100, 0x4100, 0x2100}).Draw(g.t, "wfExpriedFlag"))
	count := uint16(rapid.SampledFrom([]int{0, 0, 5}).Draw(g.t, "wfCount"))
	f[57], f[58], f[59], f[60] = byte(expried), byte(expried>>8), byte(eflag), byte(eflag>>8)
	f[61], f[62] = byte(count), byte(count>>8)
	vf, vd := g.genValueFrameIn(1, 0, false)
	return append(f, vf...), fmt.Sprintf("LOCK flag=%#x db=0 key=%x id=%x t=0 e=%d/%#x c=%d %s", flag, g.keys[0][14:], id[14:], expried, eflag, count, vd)
}

func (g *w13Gen) genWriterConn(binary bool) w13Conn {
	g.noAdm, g.hasAdm, g.writer = true, false, true
	defer func() { g.writer = false }()
	var b []byte
	var notes []string
	if binary {
		id := g.keys[0] // the text key/value commands use the key as lock id
		if g.pct("wOtherId", 30) {
			id = g.ids[0]
		}
		maxFrames := rapid.SampledFrom([]int{1, 1, 2}).Draw(g.t, "writerMaxFrames")
		for i, p := range g.pieces("writerFrames", 1, maxFrames, func(sg *w13Gen) w13Piece {
			fb, fd := sg.writerLockFrame(false, id)
			return w13Piece{B: fb, Note: fd}
		}) {
			if i == 0 {
				p.B[19] &^= 0x02 // the first frame takes the hold
				if g.pct("wFirstUpdate", 30) {
					p.B[19] |= 0x02
				}
			}
			b = append(b, p.B...)
			notes = append(notes, p.Note)
		}
		c := w13Conn{Kind: "binary", Note: notes, Hex: hex.EncodeToString(b)}
		c.Chunks = rapid.SampledFrom([][]int{nil, nil, {64}, {64, 7}, {70, 1}, {4096}}).Draw(g.t, "writerChunks")
		return c
	}
	k := g.tkeys[0]
	pre, pn := g.renderPlain([]string{"TIMEOUT", "SET", "0"})
	b, notes = append(b, pre...), append(notes, pn)
	for _, p := range g.pieces("writerCommands", 1, 3, func(sg *w13Gen) w13Piece {
		var a []string
		switch sg.n("writerCmd", 0, 7) {
		case 0, 1:
			a = []string{"SET", k, sg.tval("wv")}
		case 2:
			a = []string{"SETEX", k, "60", sg.tval("wv")}
		case 3:
			a = []string{"APPEND", k, sg.tval("wv")}
		case 4:
			a = []string{"INCR", k}
		case 5:
			a = []string{"LOCK", k, "LOCK_ID", k, "SET", sg.tval("wv"), "EXPRIED", "60", "TIMEOUT", "0"}
		case 6:
			a = []string{"LOCK", k, "LOCK_ID", k, "PUSH", sg.tval("wv"), "EXPRIED", "60", "COUNT", "5", "TIMEOUT", "0"}
		case 7:
			a = []string{"PUSH", k, "LOCK_ID", k, "FLAG", "2", "APPEND", sg.tval("wv"), "EXPRIED", "60", "TIMEOUT", "0"}
		}
		rb, rn := sg.renderPlain(sg.knownTextFilter(a))
		return w13Piece{B: rb, Note: rn}
	}) {
		b, notes = append(b, p.B...), append(notes, p.Note)
	}
	c := w13Conn{Kind: "text", Note: notes, Hex: hex.EncodeToString(b)}
	c.Chunks = g.genChunks(len(b), false)
	return c
}

func (g *w13Gen) genReaderConn(binary bool) w13Conn {
	g.noAdm, g.hasAdm = true, false
	var b []byte
	var notes []string
	if binary {
		key := g.keys[0]
		for _, p := range g.pieces("readerFrames", 2, 7, func(sg *w13Gen) w13Piece {
			switch sg.n("readerFrame", 0, 9) {
			case 0, 1, 2:
				method := rapid.SampledFrom([]string{"LIST_LOCK", "LIST_LOCKED", "LIST_WAIT"}).Draw(sg.t, "readerMethod")
				var content []byte
				if method == "LIST_LOCK" {
					content, _ = proto.Marshal(&protobuf.LockDBListLockRequest{DbId: 0})
				} else {
					content, _ = proto.Marshal(&protobuf.LockDBListLockedRequest{DbId: 0, LockKey: key[:]})
				}
				f := w13Frame(protocol.COMMAND_CALL, byte(sg.n("readerReq", 1, 255)))
				w13Put32(f[22:26], uint32(len(content)))
				copy(f[26:64], method)
				return w13Piece{B: append(f, content...), Note: "CALL " + method + " db=0 key=focus"}
			case 3:
				return w13Piece{B: w13Frame(protocol.COMMAND_STATE, byte(sg.n("readerReq", 1, 255))), Note: "STATE db=0"}
			case 4, 5:
				// show-when-locked: the reply carries the holder's terms and the stored value
				f := w13Frame(protocol.COMMAND_LOCK, byte(sg.n("readerReq", 1, 255)))
				f[19] = byte(rapid.SampledFrom([]int{0x01, 0x01, 0x03, 0x09}).Draw(sg.t, "readerShowFlag"))
				copy(f[21:37], sg.ids[1][:])
				copy(f[37:53], key[:])
				f[57] = 5
				return w13Piece{B: f, Note: fmt.Sprintf("LOCK flag=%#x (show) key=focus", f[19])}
			case 6:
				// a second holder / a refused lock: the reply carries the stored value as well
				f := w13Frame(protocol.COMMAND_LOCK, byte(sg.n("readerReq", 1, 255)))
				copy(f[21:37], sg.ids[1][:])
				copy(f[37:53], key[:])
				f[57], f[61] = 5, byte(sg.n("readerCount", 0, 5))
				return w13Piece{B: f, Note: "LOCK other id key=focus"}
			}
			// value operations of the holder on the stored value (update flag), then UNLOCK with data
			sg.writer = false
			id := sg.keys[0]
			if sg.pct("readerOtherId", 30) {
				id = sg.ids[0]
			}
			fb, fd := sg.writerLockFrame(false, id)
			if sg.pct("readerUnlock", 25) {
				fb[2] = protocol.COMMAND_UNLOCK
				fd = "UN" + fd
			}
			return w13Piece{B: fb, Note: fd}
		}) {
			b, notes = append(b, p.B...), append(notes, p.Note)
		}
		c := w13Conn{Kind: "binary", Note: notes, Hex: hex.EncodeToString(b)}
		c.Chunks = rapid.SampledFrom([][]int{nil, nil, {64}, {64, 7}, {4096}}).Draw(g.t, "readerChunks")
		return c
	}
	k := g.tkeys[0]
	pre, pn := g.renderPlain([]string{"TIMEOUT", "SET", "0"})
	b, notes = append(b, pre...), append(notes, pn)
	readers := [][]string{
		{"KEYS", "*"}, {"KEYS"}, {"KEYS", "k*"}, {"SCAN", "0"}, {"SCAN", "0", "COUNT", "10"}, {"SCAN", "0", "MATCH", "*"}, {"SCAN", "1", "COUNT", "0"},
		{"GET", k}, {"STRLEN", k}, {"TYPE", k}, {"DUMP", k}, {"EXISTS", k}, {"TTL", k}, {"PTTL", k},
		{"SHOW"}, {"SHOW", k}, {"SHOW", k, "WAIT"}, {"INFO", "keyspace"},
		{"LOCK", k, "TIMEOUT", "0"}, {"LOCK", k, "FLAG", "1", "TIMEOUT", "0"}, {"LOCK", k, "LOCK_ID", k, "FLAG", "2", "APPEND", "x", "TIMEOUT", "0"},
		{"UNLOCK", k, "LOCK_ID", k, "TIMEOUT", "0"}, {"GETSET", k, "n"}, {"APPEND", k, "y"}, {"INCR", k}, {"DEL", k},
	}
	for _, p := range g.pieces("readerCommands", 2, 7, func(sg *w13Gen) w13Piece {
		a := append([]string{}, rapid.SampledFrom(readers).Draw(sg.t, "readerCmd")...)
		rb, rn := sg.renderPlain(sg.knownTextFilter(a))
		return w13Piece{B: rb, Note: rn}
	}) {
		b, notes = append(b, p.B...), append(notes, p.Note)
	}
	c := w13Conn{Kind: "text", Note: notes, Hex: hex.EncodeToString(b)}
	c.Chunks = g.genChunks(len(b), false)
	return c
}

// ---------------------------------------------------------------------------------------------
// case shape "reply batch". A binary connection that finds further complete frames in its read buffer
// answers into the 4096-byte StreamWriterBuffer instead of writing every reply (ProcessLockResultCommand,
// "buffered" branch) and flushes when the next 64-byte reply would not fit / when the read is used up.
// Value-less replies take 64 bytes, a reply that carries the key's stored value takes 64 + len(value
// frame). The shape puts N well-formed LOCK / UNLOCK frames into one read (or into reads of b frames)
// such that the last k replies carry a stored value whose length is chosen around the point where the
// batched replies reach the end of the buffer; the value comes from an earlier connection that keeps
// the hold. All frames are well-formed.

const w13WriterBuf = 4096

// w13BatchIndex simulates the fill of the writer buffer: n frames of 64 bytes arrive in reads of
// "burst" frames (at most 64: the reader buffer has 4096 bytes); it returns, for frame number at (0-based),
// whether its reply is batched and the fill before it, assuming every earlier reply is value-less.
func w13BatchIndex(n, burst, at int) (batched bool, index int) {
	if burst <= 0 || burst > 64 {
		burst = 64
	}
	pos := 0
	for pos < n {
		m := burst
		if n-pos < m {
			m = n - pos
		}
		start := pos
		if pos == 0 {
			// the very first frame is parsed by Server.checkProtocol and answered directly
			if at == 0 {
				return false, 0
			}
			start = 1
		}
		cnt := pos + m - start // frames handled by one iteration of BinaryServerProtocol.Process
		idx := 0
		for f := start; f < pos+m; f++ {
			if f == at {
				return cnt >= 2, idx
			}
			if cnt >= 2 {
				if idx += 64; idx+64 > w13WriterBuf {
					idx = 0 // flushed
				}
			}
		}
		pos += m
	}
	return false, 0
}

func (g *w13Gen) batchFrame(typ byte, flag byte, key, id [16]byte, expried uint16, count uint16, req byte) []byte {
	f := w13Frame(typ, req)
	f[19], f[20] = flag, 0
	copy(f[21:37], id[:])
	copy(f[37:53], key[:])
	f[57], f[58] = byte(expried), byte(expried>>8)
	f[61], f[62] = byte(count), byte(count>>8)
	return f
}

func (g *w13Gen) genReplyBatchCase(c *w13Case) []w13Conn {
	key, holder, other := g.keys[0], g.ids[0], g.ids[1]
	n := rapid.SampledFrom([]int{2, 3, 8, 32, 60, 61, 62, 63, 64, 65, 100, 5, 4}).Draw(g.t, "batchFrames")
	burst := rapid.SampledFrom([]int{0, 0, 0, 64, 32, 17, 8, 3, 2}).Draw(g.t, "batchBurst")
	k := g.n("batchValueReplies", 1, 3)
	onlyValues := g.pct("batchOnlyValues", 20)
	if onlyValues {
		n = rapid.SampledFrom([]int{3, 4, 5, 8, 12, 20, 33}).Draw(g.t, "batchOnlyValueFrames")
		k = n
	}
	if k > n {
		k = n
	}
	target := g.n("batchTarget", 1, k) // which of the value replies is aimed at the end of the buffer
	delta := rapid.SampledFrom([]int{0, 1, 63, 64, -1, -63, -64, 32, 2, -32}).Draw(g.t, "batchDelta")
	var l int
	var q int
	batched := false
	if onlyValues {
		// i-th reply of a run of equal value replies: fits exactly when i*(64+L) = 4096
		i := rapid.SampledFrom([]int{1, 2, 3, 4, 5, 8, 12, 20}).Draw(g.t, "batchOnlyValueAt")
		if i > n-1 {
			i = n - 1
		}
		l = w13WriterBuf/i - 64 + delta/8
		batched = true
	} else {
		batched, q = w13BatchIndex(n, burst, n-k)
		// fits exactly when 64*q + target*(64+L) = 4096
		l = (w13WriterBuf-q)/target - 64 + delta
		_ = batched
	}
	if l < 6 {
		l = 6 + g.n("batchSmall", 0, 70)
	}
	if l > 4200 {
		l = 4200
	}
	// connection 1: the holder stores a value frame of exactly l bytes (4 length + 2 header + payload)
	payload := make([]byte, l-6)
	for i := range payload {
		payload[i] = byte('a' + i%26)
	}
	body := append([]byte{0, 0}, payload...)
	vf := make([]byte, 4+len(body))
	w13Put32(vf, uint32(len(body)))
	copy(vf[4:], body)
	w := append(g.batchFrame(protocol.COMMAND_LOCK, 0x20, key, holder, 600, 0, 0xa1), vf...)
	writer := w13Conn{Kind: "binary", Hex: hex.EncodeToString(w), Note: []string{fmt.Sprintf("LOCK flag=0x20 key=focus id=holder e=600 data[SET payload=%dB] (value frame %d bytes)", l-6, l)}}
	// connection 2: the batch
	var b []byte
	var notes []string
	for i := 0; i < n; i++ {
		req := byte(i + 1)
		if i >= n-k {
			switch g.n("batchValueKind", 0, 3) {
			case 0: // refused lock by another id: TIMEOUT with the value
				b = append(b, g.batchFrame(protocol.COMMAND_LOCK, 0, key, other, 5, 0, req)...)
				notes = append(notes, "LOCK key=focus id=other t=0 (TIMEOUT + value)")
			case 1: // show-when-locked: UNOWN_ERROR with the holder's terms and the value
				b = append(b, g.batchFrame(protocol.COMMAND_LOCK, 0x01, key, other, 5, 0, req)...)
				notes = append(notes, "LOCK flag=0x01 key=focus (show + value)")
			case 2: // unlock by a non-holder: UNOWN_ERROR with the value
				b = append(b, g.batchFrame(protocol.COMMAND_UNLOCK, 0, key, other, 0, 0, req)...)
				notes = append(notes, "UNLOCK key=focus id=other (UNOWN_ERROR + value)")
			default: // the holder again: LOCKED_ERROR with the value
				b = append(b, g.batchFrame(protocol.COMMAND_LOCK, 0, key, holder, 5, 0, req)...)
				notes = append(notes, "LOCK key=focus id=holder (LOCKED_ERROR + value)")
			}
			continue
		}
		var fk [16]byte
		fk[0], fk[1], fk[15] = 0xb7, byte(i), byte(i>>8)
		if g.pct("batchPlainUnlock", 50) {
			b = append(b, g.batchFrame(protocol.COMMAND_UNLOCK, 0, fk, other, 0, 0, req)...)
		} else {
			b = append(b, g.batchFrame(protocol.COMMAND_LOCK, 0, fk, other, 0, 0, req)...)
		}
	}
	if n-k > 0 {
		notes = append([]string{fmt.Sprintf("%d x LOCK(Expried 0) / UNLOCK on fresh keys (value-less replies)", n-k)}, notes...)
	}
	batch := w13Conn{Kind: "binary", Hex: hex.EncodeToString(b), Note: notes}
	if burst > 0 {
		batch.Chunks = []int{64 * burst}
	}
	// how does the aimed reply meet the end of the buffer (assuming the simulated fill)
	fill := q + (target-1)*(64+l)
	if onlyValues {
		fill = -1
	}
	switch {
	case onlyValues:
		c.Cross = "only value replies"
	case !batched || l+128 >= w13WriterBuf:
		c.Cross = "not batched"
	case fill+l <= w13WriterBuf && fill+64+l > w13WriterBuf:
		c.Cross = "header fits, header+value does not"
	case fill+64+l == w13WriterBuf || fill+64+l == w13WriterBuf-64:
		c.Cross = "fits exactly"
	case fill+64+l > w13WriterBuf:
		c.Cross = "does not fit"
	default:
		c.Cross = "fits"
	}
	c.Shape = fmt.Sprintf("reply-batch:n=%d burst=%d k=%d target=%d L=%d", n, burst, k, target, l)
	return []w13Conn{writer, batch}
}

// w13GenCase draws cases until one passes the domain filter (exclusions are counted).
func w13GenCase(t *rapid.T, st *vStat) *w13Case { return w13GenCaseVariant(t, st, false) }

func w13GenCaseVariant(t *rapid.T, st *vStat, timers bool) *w13Case {
	g := w13NewGen(t, st)
	c := &w13Case{}
	g.timers = timers
	g.focus = g.pct("focusKey", 60) || timers
	var conns []w13Conn
	if !timers && g.pct("shapeReplyBatch", 12) {
		g.focus = true
		conns = g.genReplyBatchCase(c)
	} else if !timers && g.pct("shapePool", 7) {
		conns = g.genPoolCase(c)
	} else if !timers && g.pct("shapeFanout", 5) {
		g.focus = true
		conns = g.genFanoutCase(c)
	} else if g.pct("shapeExecTight", 6) {
		g.focus = true
		conns = g.genExecTightCase(c)
	} else if g.pct("shapeWriterReader", 30) {
		// writer (keeps the hold) -> reader on the other protocol (80 %) or the same one, then maybe one more
		g.focus = true
		wb := g.pct("writerBinary", 65)
		rb := !wb
		if g.pct("readerSameProtocol", 20) {
			rb = wb
		}
		c.Shape = fmt.Sprintf("writer->reader:%s->%s", map[bool]string{true: "binary", false: "text"}[wb], map[bool]string{true: "binary", false: "text"}[rb])
		conns = append(conns, g.genWriterConn(wb), g.genReaderConn(rb))
		if g.timers {
			conns[1].Linger = rapid.SampledFrom([]int{150, 150, 150, 150, 2300}).Draw(g.t, "readerLingerMs")
		}
		if g.pct("shapeThird", 20) {
			conns = append(conns, w13GenConn(g))
		}
	} else {
		hi := rapid.SampledFrom([]int{1, 1, 1, 1, 1, 1, 1, 2, 2, 3}).Draw(t, "maxConns")
		conns = rapid.SliceOfN(rapid.Custom(func(t *rapid.T) w13Conn { return w13GenConn(g.with(t)) }), 1, hi).Draw(t, "conns")
	}
	for _, cn := range conns {
		if why := g.known.w13RawKnown(cn.bytes()); why != "" {
			g.exclude(why)
			continue
		}
		if w13TooManyDbs(cn.bytes()) {
			g.exclude("stream can touch more than 8 databases (resource question: every db costs MBs)")
			continue
		}
		if len(cn.Mut) > 0 || cn.Kind == "raw" {
			if w := w13AdminWord(cn.bytes()); w != "" {
				g.exclude("mutated/raw stream contains administrative command word " + w)
				continue
			}
		}
		c.Conns = append(c.Conns, cn)
	}
	return c
}

// ---------------------------------------------------------------------------------------------
// property

var (
	w13InconclusiveMu sync.Mutex
	w13Inconclusive   int
)

func w13NoteInconclusive(why string, c *w13Case) {
	w13InconclusiveMu.Lock()
	w13Inconclusive++
	n := w13Inconclusive
	w13InconclusiveMu.Unlock()
	fmt.Printf("VERIF-INCONCLUSIVE C13 #%d %s\n", n, why)
	if dir := os.Getenv("VERIF_FAILDIR"); dir != "" && c != nil {
		if b, err := json.MarshalIndent(vFailure{"TestC13_Wire", "C13:inconclusive", why, c}, "", " "); err == nil {
			_ = os.WriteFile(filepath.Join(dir, fmt.Sprintf("C13.inconclusive-%d-%d.json", os.Getpid(), n)), b, 0644)
		}
	}
	if n > vEnvInt("VERIF_C13_MAX_INCONCLUSIVE", 8) {
		fmt.Printf("VERIF-INCONCLUSIVE C13 too many unjudged cases (%d), giving up\n", n)
		vFlush()
		os.Exit(3)
	}
}

func w13Classes(c *w13Case, info w13Info) (cls []string, nontrivial bool) {
	seen := map[string]bool{}
	add := func(s string) {
		if !seen[s] {
			seen[s] = true
			cls = append(cls, s)
		}
	}
	for i, ci := range info.Conns {
		cn := c.Conns[i]
		if ci.Parsed >= 1 {
			nontrivial = true
			add("reached a handler: " + ci.Proto)
			if ci.Parsed >= 3 {
				add(">=3 commands parsed on one connection")
			}
			if len(cn.Mut) > 0 {
				add("mutated stream reached a handler")
			}
			if len(cn.Chunks) > 0 {
				add("split into several reads and reached a handler")
			}
		} else if len(cn.Hex) > 0 {
			add("rejected before any command was parsed (" + ci.Proto + ")")
		}
		if ci.OutLen > 0 {
			add("server replied")
		}
		if ci.Released > 0 {
			add("handler waited for a queued lock and was released by a forced time-out")
		}
	}
	if len(c.Conns) > 1 {
		add("several connections")
	}
	if strings.HasPrefix(c.Shape, "reply-batch") {
		add("shape reply-batch")
		add("reply-batch: aimed value reply " + c.Cross)
		if c.Cross == "header fits, header+value does not" || c.Cross == "does not fit" || c.Cross == "only value replies" {
			add("pipelined batch whose replies cross the 4096-byte writer buffer with a value reply")
		}
	} else if w13PoolClasses(c, add) {
	} else if c.Shape != "" {
		add("shape " + c.Shape)
	}
	for i := 1; i < len(info.Conns) && i < len(c.Conns); i++ {
		if info.Conns[i-1].HeldValues > 0 && info.Conns[i].Parsed >= 1 {
			add("a connection ran commands while an earlier connection's value sat on a held key")
			if info.Conns[i].Proto != info.Conns[i-1].Proto {
				add("... and it spoke the other protocol")
			}
			if info.Conns[i-1].HeldProps > 0 {
				add("... and the stored value carried a property block")
			}
		}
	}
	if info.Inconclusive != "" {
		add("inconclusive: watchdog / harness")
	}
	return
}

func w13Sample(c *w13Case) interface{} {
	cp := w13Case{Shape: c.Shape, AofQueue: c.AofQueue}
	for _, cn := range c.Conns {
		if len(cn.Hex) > 600 {
			cn.Hex = cn.Hex[:600] + fmt.Sprintf("...(%d bytes)", len(cn.Hex)/2)
		}
		cp.Conns = append(cp.Conns, cn)
	}
	return cp
}

// w13WriteInflight (child of the supervisor): leave the last cases, newest last, and the number of
// cases started so far where the supervisor finds them if this process dies.
type w13InflightFile struct {
	Started int        `json:"started"`
	Recent  []*w13Case `json:"recent"`
}

var w13Inflight w13InflightFile

func w13WriteInflight(test string, c *w13Case) {
	dir := os.Getenv("VERIF_FAILDIR")
	if dir == "" || os.Getenv("VERIF_C13_CHILD") == "" {
		return
	}
	if w13Inflight.Started++; w13Inflight.Started%250 == 0 {
		vFlush() // the statistics of a child that dies later are not lost entirely
	}
	if w13Inflight.Recent = append(w13Inflight.Recent, c); len(w13Inflight.Recent) > 8 {
		w13Inflight.Recent = w13Inflight.Recent[1:]
	}
	b, err := json.Marshal(&w13Inflight)
	if err == nil {
		_ = os.WriteFile(filepath.Join(dir, test+".inflight.json"), b, 0644)
	}
}

// w13Judge runs one case and reports through st; it returns the failure (nil if the case passed,
// was inconclusive, or hit a known finding).
func w13Judge(st *vStat, c *w13Case, fuzzing bool) *w13Failure {
	info, fail := w13RunCase(c)
	cls, nontrivial := w13Classes(c, info)
	if info.Inconclusive != "" {
		nontrivial = false
	}
	st.Case(nontrivial, c.fingerprint(), cls, func() interface{} { return w13Sample(c) })
	if info.Inconclusive != "" {
		if fuzzing {
			// a fuzz worker must not exit: the coordinator would take that for a crash of the input
			st.Exclude("not judged (watchdog / harness): " + strings.SplitN(info.Inconclusive, " (stream", 2)[0])
			return nil
		}
		w13NoteInconclusive(info.Inconclusive, c)
		return nil
	}
	if fail != nil && w13KnownKeys().covers(fail.Key) {
		st.KnownHit(fail.Key)
		return nil
	}
	return fail
}

func w13WireProperty(test string, timers bool) func(t *rapid.T) {
	st := vstat(test)
	if os.Getenv("VERIF_C13_CHILD") != "" {
		// the driver runs shards under "ulimit -v 6 GiB"; do the same when run by hand
		w13LimitAddressSpace(vEnvInt("VERIF_C13_AS_MB", 6144))
	}
	return func(t *rapid.T) {
		c := w13GenCaseVariant(t, st, timers)
		if len(c.Conns) == 0 {
			return
		}
		w13WriteInflight(test, c)
		if n := vEnvInt("VERIF_C13_SELFTEST_CRASH", 0); n > 0 && w13Inflight.Started == n && os.Getenv("VERIF_C13_CHILD") != "" {
			// self-test of the supervisor: die the way a stray server goroutine would
			go func() { panic("C13 supervisor self-test") }()
			time.Sleep(200 * time.Millisecond)
		}
		if fail := w13Judge(st, c, false); fail != nil {
			vFail(t, test, fail.Key, c, "%s", fail.Msg)
		}
	}
}

func TestC13_Wire(t *testing.T) {
	if w13Supervise(t, "TestC13_Wire") {
		return
	}
	rapid.Check(t, w13WireProperty("TestC13_Wire", false))
}

// TestC13_WireTimers: the same property with holds and waits of milliseconds to one second and a pause
// before the probe, so that the time-out / expiry sweeps and staged EXECUTE frames act on client data
// while the case is still observed.
func TestC13_WireTimers(t *testing.T) {
	if w13Supervise(t, "TestC13_WireTimers") {
		return
	}
	rapid.Check(t, w13WireProperty("TestC13_WireTimers", true))
}

// ---------------------------------------------------------------------------------------------
// native fuzzing

func w13FuzzChunks(n int, split uint16) []int {
	if n == 0 {
		return nil
	}
	v := int(split >> 2)
	switch split & 3 {
	case 0:
		return nil
	case 1:
		return []int{v%4096 + 1}
	case 2:
		return []int{64, v%257 + 1}
	}
	// pseudo-random sizes from a xorshift seeded by split
	x := uint32(split) | 0x10000
	c := make([]int, 8)
	for i := range c {
		x ^= x << 13
		x ^= x >> 17
		x ^= x << 5
		c[i] = int(x%200) + 1
	}
	if split&4 != 0 {
		c[0] += 64
	}
	return c
}

var w13FuzzSeeds = []string{
	"", "*", "*-1\r\n", "*0\r\n", "*1\r\n$-1\r\n", "*1\r\n$4\r\nPING\r\n", "*2\r\n$1000000\r\nab", "*99999999999999999999\r\n",
	"*3\r\n$3\r\nSET\r\n$5\r\nmykey\r\n$7\r\nmyvalue\r\n",
	"*3\r\n$3\r\nSET\r\n$5\r\nmykey\r\n$7\r\nmyvalue\r\n*3\r\n$3\r\nSET\r\n$5\r\nmykey\r\n$7\r\nmyvalue\r\n*3\r\n$3\r\nSET\r\n$5\r\nmykey\r\n$7\r\nmyv",
	"*2\r\n$0\r\n\r\n$4\r\ntest\r\n", "*2\r\n$4\r\nLOCK\r\n$4\r\ntest\r\n",
	"*3\r\n$7\r\nTIMEOUT\r\n$3\r\nSET\r\n$1\r\n0\r\n*4\r\n$4\r\nLOCK\r\n$1\r\nk\r\n$7\r\nTIMEOUT\r\n$1\r\n0\r\n*2\r\n$6\r\nUNLOCK\r\n$1\r\nk\r\n",
	"*3\r\n$7\r\nTIMEOUT\r\n$3\r\nSET\r\n$1\r\n0\r\n*5\r\n$3\r\nSET\r\n$1\r\nk\r\n$1\r\nv\r\n$2\r\nEX\r\n$1\r\n5\r\n*2\r\n$3\r\nGET\r\n$1\r\nk\r\n*3\r\n$6\r\nAPPEND\r\n$1\r\nk\r\n$1\r\nw\r\n*2\r\n$4\r\nINCR\r\n$1\r\nn\r\n",
}

func w13FuzzBinarySeeds() [][]byte {
	var out [][]byte
	lock := func(typ, flag byte, data []byte) []byte {
		f := w13Frame(typ, 0x11)
		f[19] = flag
		f[36], f[52] = 0x22, 0x01
		f[57] = 5
		return append(f, data...)
	}
	vf := func(l uint32, body ...byte) []byte {
		b := make([]byte, 4)
		w13Put32(b, l)
		return append(b, body...)
	}
	// hostile value-frame lengths 0,1,2,5,6,7, 0xffffffff and the cap
	for _, l := range []uint32{0, 1, 2, 5, 6, 7, 0xffffffff, 1048576, 1048577} {
		body := []byte{0, 0, 'a', 'b', 'c', 'd', 'e'}
		if int(l) < len(body) {
			body = body[:l]
		}
		out = append(out, lock(1, 0x20, vf(l, body...)))
	}
	for typ := byte(0); typ <= 8; typ++ {
		out = append(out, lock(1, 0x20, vf(10, typ, 0, 1, 0, 0, 0, 0, 0, 0, 0)))
		out = append(out, lock(1, 0x22, vf(12, typ, 0x10, 2, 0, 1, 0, 0, 'v', 'a', 'l', 'u', 'e')))
	}
	out = append(out, append(lock(1, 0, nil), lock(2, 0, nil)...))
	for _, t := range []byte{0, 3, 5, 6, 10, 11, 12, 99} {
		out = append(out, w13Frame(t, 0x33))
	}
	call := w13Frame(protocol.COMMAND_CALL, 0x44)
	content, _ := proto.Marshal(&protobuf.LockDBListLockRequest{DbId: 0})
	w13Put32(call[22:26], uint32(len(content)))
	copy(call[26:], "LIST_LOCK")
	out = append(out, append(call, content...))
	admin := w13Frame(protocol.COMMAND_ADMIN, 0x55)
	out = append(out, append(admin, []byte("*1\r\n$4\r\nPING\r\n")...))
	return out
}

func FuzzC13_Wire(f *testing.F) {
	for _, s := range w13FuzzSeeds {
		f.Add([]byte(s), uint16(0))
		f.Add([]byte(s), uint16(1<<2|1))
	}
	for _, b := range w13FuzzBinarySeeds() {
		f.Add(b, uint16(0))
		f.Add(b, uint16(3<<2|2))
	}
	// outputs of the structured generator (without exclusion accounting)
	gen := rapid.Custom(func(t *rapid.T) *w13Case { return w13GenCase(t, nil) })
	for i := 0; i < 60; i++ {
		c := gen.Example(i)
		for _, cn := range c.Conns {
			if b := cn.bytes(); len(b) <= 1<<16 && w13AdminWord(b) == "" {
				f.Add(b, uint16(i*37))
			}
		}
	}
	st := vstat("FuzzC13_Wire")
	if os.Getenv("MALLOC_ARENA_MAX") == "" {
		// The test binary links libc: every OS thread reserves a 64 MiB malloc arena, and the fuzzing
		// coordinator (16 worker pipes, 16 x 100 MiB shared memory) and its workers run out of the
		// driver's 6 GiB address-space limit within seconds. The variable is read when a process starts:
		// when fuzzing, start this process again with it set (same pid, nothing has run yet).
		fuzzing := false
		for _, a := range os.Args {
			if strings.HasPrefix(a, "-test.fuzz=") || a == "-test.fuzz" {
				fuzzing = true
			}
		}
		_ = os.Setenv("MALLOC_ARENA_MAX", "2")
		if fuzzing {
			if exe, err := os.Executable(); err == nil {
				_ = syscall.Exec(exe, os.Args, os.Environ())
			}
		}
	}
	// fuzz workers are separate processes that are killed, not ended: they leave their statistics in
	// $VERIF_STATS.w<pid> every few executions and the coordinator merges those files when f.Fuzz returns
	worker := false
	for _, a := range os.Args {
		if strings.HasPrefix(a, "-test.fuzzworker") {
			worker = true
		}
	}
	execs := 0
	faildir := os.Getenv("VERIF_FAILDIR")
	var recent []*w13Case // worker: the last inputs, newest last
	if worker {
		w13LimitAddressSpace(vEnvInt("VERIF_C13_AS_MB", 6144)) // also sets the collector's memory limit
	}
	if worker && faildir != "" {
		// a worker that dies (a goroutine of the server panics) takes its stderr with it: keep the crash
		// report and the inputs it was working on for the coordinator
		if cf, err := os.Create(filepath.Join(faildir, fmt.Sprintf("fuzzworker-%d.crash", os.Getpid()))); err == nil {
			_ = debug.SetCrashOutput(cf, debug.CrashOptions{})
		}
	}
	defer func() {
		if worker {
			return
		}
		if sp := os.Getenv("VERIF_STATS"); sp != "" {
			files, _ := filepath.Glob(sp + ".w*")
			for _, wf := range files {
				w13MergeChildStats(wf)
			}
		}
		w13ReportWorkerCrashes(faildir)
	}()
	f.Fuzz(func(t *testing.T, data []byte, split uint16) {
		if worker {
			if execs++; execs%25 == 0 {
				w13FlushWorkerStats()
			}
		}
		if len(data) > 1<<21 {
			return
		}
		if w := w13AdminWord(data); w != "" {
			st.Exclude("stream contains administrative command word " + w)
			return
		}
		if why := w13KnownKeys().w13RawKnown(data); why != "" {
			st.Exclude(why)
			return
		}
		if w13TooManyDbs(data) {
			st.Exclude("stream can touch more than 8 databases (resource question: every db costs MBs)")
			return
		}
		// every input runs on a fresh instance, so a saved crasher reproduces on its own
		c := &w13Case{Conns: []w13Conn{{Kind: "raw", Hex: hex.EncodeToString(data), Chunks: w13FuzzChunks(len(data), split)}}}
		if worker && faildir != "" {
			if recent = append(recent, c); len(recent) > 6 {
				recent = recent[1:]
			}
			if b, err := json.Marshal(recent); err == nil {
				_ = os.WriteFile(filepath.Join(faildir, fmt.Sprintf("fuzzworker-%d.inflight.json", os.Getpid())), b, 0644)
			}
		}
		if fail := w13Judge(st, c, true); fail != nil {
			vRecordFailure("FuzzC13_Wire", fail.Key, fail.Msg, c)
			t.Fatalf("VERIF-FAIL key=%s %s", fail.Key, fail.Msg)
		}
	})
}

// w13ReportWorkerCrashes (coordinator): turn the crash reports of dead fuzz workers into keyed
// failures with a reproduction. The input the fuzzing engine blames is the one in flight; a goroutine
// of the server may have died of an earlier one, so the last inputs are tried in isolation.
func w13ReportWorkerCrashes(faildir string) {
	if faildir == "" {
		return
	}
	files, _ := filepath.Glob(filepath.Join(faildir, "fuzzworker-*.crash"))
	for _, cf := range files {
		b, err := os.ReadFile(cf)
		if err != nil || len(b) == 0 {
			continue
		}
		head, stack, crashed := w13CrashTail(string(b))
		if !crashed {
			continue
		}
		if big, oom := w13OOM(head, stack); oom && !big {
			fmt.Printf("VERIF-INCONCLUSIVE C13 fuzz worker ran out of memory (%s)\n", head)
			continue
		}
		key := w13BackgroundKey(stack)
		var recent []*w13Case
		if ib, rerr := os.ReadFile(strings.TrimSuffix(cf, ".crash") + ".inflight.json"); rerr == nil {
			_ = json.Unmarshal(ib, &recent)
		}
		var culprit *w13Case
		note := ""
		for try := 1; try <= 3 && culprit == nil && !w13GlobalSwapArtefact(head, stack); try++ {
			for i := len(recent) - 1; i >= 0; i-- {
				if rep, rkey, _ := w13ReplayIsolatedLinger(recent[i], 3500); rep {
					culprit, note = recent[i], fmt.Sprintf("input %d before the end of the worker reproduces it in isolation (as %s)", len(recent)-1-i, rkey)
					break
				}
			}
		}
		if culprit == nil {
			// unreproduced anomaly, see w13Supervise (the fuzzing engine itself has already failed the run)
			rep := map[string]interface{}{"test": "FuzzC13_Wire", "key": key, "message": head + "\n" + w13Head(stack, 60), "recent": recent}
			if rb, merr := json.MarshalIndent(rep, "", " "); merr == nil {
				_ = os.WriteFile(filepath.Join(faildir, fmt.Sprintf("C13.anomaly-fuzz-%s.json", strings.TrimSuffix(filepath.Base(cf), ".crash"))), rb, 0644)
			}
			fmt.Printf("VERIF-ANOMALY C13 unreproduced death of a fuzz worker (%s): %s; none of its last %d inputs reproduces it in isolation (3 tries each)\n%s\n", key, head, len(recent), w13Head(stack, 30))
			vstat("FuzzC13_Wire").Class("unreproduced anomaly: death of a server goroutine that no recent case reproduces (not judged)", 1)
			continue
		}
		msg := fmt.Sprintf("a fuzz worker died: %s; %s\n%s", head, note, w13Head(stack, 30))
		vRecordFailure("FuzzC13_Wire", key, msg, culprit)
		fmt.Printf("VERIF-FAIL key=%s %s\n", key, strings.ReplaceAll(msg, "\n", " | "))
	}
}

func w13FlushWorkerStats() {
	sp := os.Getenv("VERIF_STATS")
	if sp == "" {
		return
	}
	vStatsMu.Lock()
	s := vStats["FuzzC13_Wire"]
	var b []byte
	if s != nil {
		s.Fingerprints = s.Fingerprints[:0]
		for k := range s.fp {
			s.Fingerprints = append(s.Fingerprints, strconv.FormatUint(k, 36))
		}
		b, _ = json.Marshal(map[string]*vStat{"FuzzC13_Wire": s})
	}
	vStatsMu.Unlock()
	if b != nil {
		tmp := fmt.Sprintf("%s.w%d", sp, os.Getpid())
		if os.WriteFile(tmp+".tmp", b, 0644) == nil {
			_ = os.Rename(tmp+".tmp", tmp)
		}
	}
}

// ---------------------------------------------------------------------------------------------
// replay

func TestC13_Replay(t *testing.T) {
	for _, f := range vReplayFiles("C13") {
		var c w13Case
		key, err := vLoadReplay(f, &c)
		if err != nil {
			t.Fatalf("cannot load replay %s: %v", f, err)
		}
		tries := c.Tries
		if tries < 1 {
			tries = 1
		}
		reproduced, got, msg := false, "", ""
		for n := 1; n <= tries && !reproduced; n++ {
			reproduced, got, msg = w13ReplayIsolated(&c)
			if reproduced && tries > 1 {
				msg = fmt.Sprintf("(try %d of %d) %s", n, tries, msg)
			}
		}
		if reproduced && got != key {
			msg = fmt.Sprintf("(observed key %s) %s", got, msg)
		}
		fmt.Printf("VERIF-KF key=%s reproduced=%v file=%s %s\n", key, reproduced, f, strings.ReplaceAll(msg, "\n", " | "))
	}
}
